(* VaryProofs.v — proofs for C13 (Vary) *)
Require Import SquidV.Bytes SquidV.HopModel SquidV.HopProofs SquidV.TokModel SquidV.QuoteModel SquidV.QuoteProofs.
Require Import SquidV.VaryModel.
Require Import SquidV.gen.HdrTable_gen SquidV.gen.Vary_gen.
Require Import ZifyBool ZifyN ZifyNat.
Local Open Scope N_scope.

(* ================================================================== *)
(* 0. configuration facts re-evaluated against the regenerated tables  *)
Lemma x_accelerator_vary_off : x_accelerator_vary = false.
Proof. reflexivity. Qed.
Lemma escape_is_contextfree_on_probe : vary_esc_contextfree_probe = true.
Proof. reflexivity. Qed.

(* every byte is emitted either as itself (never a percent sign, never a double quote) or as a %XX triplet that decodes to it *)
Definition esc_entry_ok (c : N) : bool :=
  (c =? 0) || (esc_item_rt c (tbl_entry vary_esc_tbl c) && forallb (fun x => negb (x =? 34)) (tbl_entry vary_esc_tbl c)).
Lemma esc_table_ok : forallb esc_entry_ok all_bytes = true.
Proof. vm_compute. reflexivity. Qed.
Lemma esc_nul_entry : tbl_entry vary_esc_tbl 0 = [].
Proof. reflexivity. Qed.

Lemma esc_entry_rt c : c < 256 -> c <> 0 -> esc_item_rt c (tbl_entry vary_esc_tbl c) = true.
Proof.
  intros Hc H0. pose proof (forallb_bytes _ esc_table_ok c Hc) as H. unfold esc_entry_ok in H.
  destruct (c =? 0) eqn:E; [apply N.eqb_eq in E; contradiction|]. cbn [orb] in H.
  apply andb_prop in H. exact (proj1 H).
Qed.
Lemma esc_entry_noquote c : c < 256 -> forallb (fun x => negb (x =? 34)) (tbl_entry vary_esc_tbl c) = true.
Proof.
  intros Hc. pose proof (forallb_bytes _ esc_table_ok c Hc) as H. unfold esc_entry_ok in H.
  destruct (c =? 0) eqn:E.
  - apply N.eqb_eq in E. subst c. reflexivity.
  - cbn [orb] in H. apply andb_prop in H. exact (proj2 H).
Qed.

Definition val_ok (v : bytes) : Prop := bytes_ok v /\ nul_free v.

Lemma escape_noquote v : bytes_ok v -> forallb (fun x => negb (x =? 34)) (vary_escape v) = true.
Proof.
  intros Hb. unfold vary_escape. apply forallb_map_bytes; [apply cstr_bytes_ok, Hb|]. exact esc_entry_noquote.
Qed.

Lemma escape_decodes v : val_ok v -> unesc_list (vary_escape v) = v.
Proof.
  intros [Hb Hn]. unfold vary_escape. rewrite (cstr_nul_free v Hn).
  apply unesc_list_map_bytes; [exact Hb|exact Hn|]. intros c Hc H0 _. exact (esc_entry_rt c Hc H0).
Qed.

Lemma escape_injective v1 v2 : val_ok v1 -> val_ok v2 -> vary_escape v1 = vary_escape v2 -> v1 = v2.
Proof.
  intros H1 H2 H. rewrite <- (escape_decodes v1 H1), <- (escape_decodes v2 H2). now rewrite H.
Qed.

(* two quote-free strings followed by a quote: the first quote delimits them *)
Lemma split_at_quote a : forall b r1 r2,
  forallb (fun x => negb (x =? 34)) a = true -> forallb (fun x => negb (x =? 34)) b = true ->
  a ++ 34 :: r1 = b ++ 34 :: r2 -> a = b /\ r1 = r2.
Proof.
  induction a as [|x a IH]; intros [|y b] r1 r2 Ha Hb H; cbn [app] in H.
  - injection H as H. now split.
  - injection H as Hy _. subst y. cbn in Hb. discriminate.
  - injection H as Hx _. subst x. cbn in Ha. discriminate.
  - injection H as Hxy H. subst y. cbn [forallb] in Ha, Hb.
    apply andb_prop in Ha. apply andb_prop in Hb.
    destruct (IH b r1 r2 (proj2 Ha) (proj2 Hb) H) as [E1 E2]. subst. now split.
Qed.

(* ================================================================== *)
(* 1. String / strListAdd: closed form of the joined value             *)
Definition sepcat (vals : list bytes) : bytes := concat (map (fun v => [44; 32] ++ v) vals).

Lemma join_list_sepcat v vals : join_list (v :: vals) = v ++ sepcat vals.
Proof.
  revert v. induction vals as [|w r IH]; intros v.
  - cbn. now rewrite app_nil_r.
  - change (join_list (v :: w :: r)) with (v ++ [44; 32] ++ join_list (w :: r)).
    rewrite IH. unfold sepcat. cbn [map concat]. now rewrite <- !app_assoc.
Qed.

(* what Squid reads for a field with the given (C string) line values, in order: undefined when there is
   no line; otherwise the values joined by ", " after dropping the leading empty lines *)
Fixpoint drop_nil (vals : list bytes) : list bytes :=
  match vals with
  | [] :: r => drop_nil r
  | _ => vals
  end.
Definition joined_spec (vals : list bytes) : sstr :=
  match vals with
  | [] => None
  | _ => Some (join_list (drop_nil vals))
  end.

Definition add_all (s : sstr) (vals : list bytes) : sstr := fold_left str_list_add vals s.

Lemma cstr_idem v : cstr (cstr v) = cstr v.
Proof. apply cstr_nul_free, cstr_is_nul_free. Qed.

Lemma add_all_nonempty c r vals :
  add_all (Some (c :: r)) (map cstr vals) = Some ((c :: r) ++ sepcat (map cstr vals)).
Proof.
  revert c r. induction vals as [|v vals IH]; intros c r; cbn [map add_all fold_left].
  - unfold sepcat. cbn. now rewrite app_nil_r.
  - cbn [str_list_add]. rewrite cstr_idem.
    destruct ((c :: r) ++ [44; 32] ++ cstr v) as [|c' r'] eqn:E; [destruct r; discriminate|].
    change (fold_left str_list_add (map cstr vals) (Some (c' :: r'))) with (add_all (Some (c' :: r')) (map cstr vals)).
    rewrite IH, <- E. unfold sepcat. cbn [map concat]. now rewrite <- !app_assoc.
Qed.

Lemma add_all_fresh s vals : s = None \/ s = Some [] ->
  add_all s (map cstr vals) = match vals with [] => s | _ => Some (join_list (drop_nil (map cstr vals))) end.
Proof.
  revert s. induction vals as [|v vals IH]; intros s Hs; [reflexivity|].
  cbn [map add_all fold_left].
  assert (E : str_list_add s (cstr v) = Some (cstr v)) by (destruct Hs; subst s; cbn [str_list_add]; now rewrite cstr_idem).
  rewrite E. cbn [drop_nil]. destruct (cstr v) as [|c t] eqn:Ev.
  - change (fold_left str_list_add (map cstr vals) (Some [])) with (add_all (Some []) (map cstr vals)).
    rewrite (IH (Some [])) by now right. destruct vals; reflexivity.
  - change (fold_left str_list_add (map cstr vals) (Some (c :: t))) with (add_all (Some (c :: t)) (map cstr vals)).
    rewrite add_all_nonempty, join_list_sepcat. reflexivity.
Qed.

Definition line_values (p : hdr -> bool) (hs : list hdr) : list bytes := map (fun h => cstr (h_value h)) (filter p hs).

Lemma add_matching_fold p hs s : add_matching p hs s = add_all s (map cstr (map h_value (filter p hs))).
Proof.
  revert s. induction hs as [|h hs IH]; intros s; [reflexivity|].
  cbn [add_matching filter]. destruct (p h); [|apply IH].
  cbn [map add_all fold_left]. rewrite IH. unfold add_all. f_equal.
  destruct s as [[|c r]|]; cbn [str_list_add]; now rewrite cstr_idem.
Qed.

Lemma add_matching_spec p hs : add_matching p hs None = joined_spec (line_values p hs).
Proof.
  rewrite add_matching_fold, add_all_fresh by now left.
  unfold joined_spec, line_values. rewrite map_map.
  destruct (filter p hs); reflexivity.
Qed.

(* ================================================================== *)
(* 2. well-formed request blocks: values are NUL-free byte strings      *)
Definition block_ok (hs : list hdr) : Prop := Forall (fun h => val_ok (h_value h)) hs.
Definition sstr_ok (s : sstr) : Prop := match s with None => True | Some v => val_ok v end.

Lemma val_ok_app a b : val_ok a -> val_ok b -> val_ok (a ++ b).
Proof. intros [A1 A2] [B1 B2]. split; apply Forall_app; split; assumption. Qed.
Lemma val_ok_cstr v : val_ok v -> val_ok (cstr v).
Proof. intros [A1 A2]. split; [apply cstr_bytes_ok, A1|apply cstr_is_nul_free]. Qed.
Lemma val_ok_sep : val_ok [44; 32].
Proof. split; repeat constructor; lia. Qed.

Lemma str_list_add_ok s v : sstr_ok s -> val_ok v -> sstr_ok (str_list_add s v).
Proof.
  intros Hs Hv. destruct s as [[|c r]|]; cbn [str_list_add sstr_ok]; try (apply val_ok_cstr, Hv).
  apply val_ok_app; [exact Hs|]. apply val_ok_app; [exact val_ok_sep|apply val_ok_cstr, Hv].
Qed.

Lemma add_matching_ok p hs : block_ok hs -> forall s, sstr_ok s -> sstr_ok (add_matching p hs s).
Proof.
  induction 1 as [|h hs Hh Hhs IH]; intros s Hs; cbn [add_matching]; [exact Hs|].
  apply IH. destruct (p h); [apply str_list_add_ok; assumption|exact Hs].
Qed.

Lemma find_in {A} (p : A -> bool) l x : find p l = Some x -> In x l.
Proof.
  induction l as [|y l IH]; cbn [find]; [discriminate|]. destruct (p y); [intros H; injection H as <-; now left|].
  intros H. right. apply IH, H.
Qed.

Lemma get_by_name_ok hs name : block_ok hs -> sstr_ok (get_by_name hs name).
Proof.
  intros Hb. unfold get_by_name.
  destruct (negb (lookup_id hdr_table name =? hdr_OTHER) && has_id hs (lookup_id hdr_table name)).
  - unfold get_str_or_list. destruct (is_list_hdr _).
    + unfold get_list. destruct (has_id hs _); [|exact I]. apply add_matching_ok; [exact Hb|exact I].
    + destruct (find _ hs) as [e|] eqn:Ef; [|exact I].
      apply find_in in Ef. unfold block_ok in Hb. rewrite Forall_forall in Hb. specialize (Hb e Ef).
      destruct (h_value e) as [|c r]; cbn [s_copy sstr_ok]; [exact I|exact Hb].
  - apply add_matching_ok; [exact Hb|exact I].
Qed.

(* ================================================================== *)
(* 3. the mark as a string: closed form and injectivity                 *)
Definition valpart (v : sstr) : bytes :=
  match v with
  | Some value => [61; 34] ++ vary_escape value ++ [34]
  | None => []
  end.
Definition piece (hs : list hdr) (item : bytes) : bytes := lower item ++ valpart (get_by_name hs (lower item)).

Fixpoint tail_str (first : bool) (items : list bytes) (hs : list hdr) : bytes :=
  match items with
  | [] => []
  | it :: r => (if first then [] else [44; 32]) ++ piece hs it ++ tail_str false r hs
  end.

Definition items_ok (items : list bytes) : Prop := Forall (fun it => it <> []) items.

Lemma list_eqb_refl a : list_eqb a a = true.
Proof. induction a as [|x a IH]; cbn [list_eqb]; [reflexivity|]. now rewrite N.eqb_refl, IH. Qed.
Lemma list_eqb_false a b : a <> b -> list_eqb a b = false.
Proof. intros H. destruct (list_eqb a b) eqn:E; [|reflexivity]. apply list_eqb_eq in E. contradiction. Qed.

Lemma is_nil_app_r a b : b <> [] -> is_nil (a ++ b) = false.
Proof. intros H. destruct a; cbn [app is_nil]; [destruct b; [contradiction|reflexivity]|reflexivity]. Qed.

Lemma assemble_closed items : items_ok items -> ~ In star items -> forall vstr hs,
  assemble items vstr hs = vstr ++ tail_str (is_nil vstr) items hs.
Proof.
  induction 1 as [|it items Hit Hitems IH]; intros Hstar vstr hs; cbn [assemble tail_str].
  - now rewrite app_nil_r.
  - rewrite list_eqb_false by (intros E; apply Hstar; now left).
    rewrite IH by (intros Hin; apply Hstar; now right).
    assert (Hl : lower it <> []) by (destruct it; [contradiction|discriminate]).
    assert (Hnn : is_nil (add_value (add_name vstr (lower it)) (get_by_name hs (lower it))) = false).
    { unfold add_value. destruct (get_by_name hs (lower it)).
      - apply is_nil_app_r. discriminate.
      - unfold add_name. apply is_nil_app_r, Hl. }
    rewrite Hnn. unfold piece, add_value, add_name, valpart.
    destruct (get_by_name hs (lower it)); destruct vstr; cbn [is_nil]; cbn [app]; rewrite <- ?app_assoc; cbn [app];
      rewrite ?app_nil_r; reflexivity.
Qed.

Lemma assemble_star items : In star items -> forall vstr hs, assemble items vstr hs = star.
Proof.
  induction items as [|it items IH]; intros Hin vstr hs; [destruct Hin|]. cbn [assemble].
  destruct (list_eqb it star) eqn:E; [reflexivity|].
  destruct Hin as [Hin|Hin]; [subst it; rewrite list_eqb_refl in E; discriminate|]. apply IH, Hin.
Qed.

(* the tail after a value is empty or starts with a comma: it cannot be mistaken for an equals-quoted value *)
Lemma tail_false_head items hs : tail_str false items hs = [] \/ exists r, tail_str false items hs = 44 :: r.
Proof. destruct items as [|it r]; [now left|right]. cbn [tail_str app]. eauto. Qed.

Lemma tail_inj items : forall first hs1 hs2, block_ok hs1 -> block_ok hs2 ->
  tail_str first items hs1 = tail_str first items hs2 ->
  forall it, In it items -> get_by_name hs1 (lower it) = get_by_name hs2 (lower it).
Proof.
  induction items as [|it0 items IH]; intros first hs1 hs2 Hb1 Hb2 H it Hin; [destruct Hin|].
  cbn [tail_str] in H. apply app_inv_head in H. unfold piece in H. rewrite <- !app_assoc in H.
  apply app_inv_head in H.
  pose proof (get_by_name_ok hs1 (lower it0) Hb1) as Ho1. pose proof (get_by_name_ok hs2 (lower it0) Hb2) as Ho2.
  assert (G : get_by_name hs1 (lower it0) = get_by_name hs2 (lower it0) /\ tail_str false items hs1 = tail_str false items hs2).
  { destruct (get_by_name hs1 (lower it0)) as [v1|], (get_by_name hs2 (lower it0)) as [v2|]; cbn [valpart sstr_ok] in *.
    - cbn [app] in H. injection H as H. rewrite <- !app_assoc in H. cbn [app] in H.
      destruct (split_at_quote _ _ _ _ (escape_noquote v1 (proj1 Ho1)) (escape_noquote v2 (proj1 Ho2)) H) as [E1 E2].
      apply (escape_injective v1 v2 Ho1 Ho2) in E1. subst v2. now split.
    - exfalso. cbn [app] in H. destruct (tail_false_head items hs2) as [E|[r E]]; rewrite E in H; discriminate.
    - exfalso. cbn [app] in H. destruct (tail_false_head items hs1) as [E|[r E]]; rewrite E in H; discriminate.
    - now split. }
  destruct G as [G1 G2]. destruct Hin as [<-|Hin]; [exact G1|]. exact (IH false hs1 hs2 Hb1 Hb2 G2 it Hin).
Qed.

(* items of a strListGetItem loop are never empty *)
Lemma items_fuel_nonempty fuel : forall del l, items_ok (items_fuel fuel del l).
Proof.
  induction fuel as [|f IH]; intros del l; cbn [items_fuel]; [constructor|].
  destruct (scan_item del false (drop_while (is_delim2 del) l) []) as [item rest].
  destruct (rtrim item) as [|c r]; [constructor|]. constructor; [discriminate|apply IH].
Qed.
Lemma vary_items_ok vv : items_ok (vary_items vv).
Proof. unfold vary_items. destruct (vary_value vv); [apply items_fuel_nonempty|constructor]. Qed.

Lemma make_mark_closed vv hs : ~ In star (vary_items vv) -> make_mark vv hs = tail_str true (vary_items vv) hs.
Proof. intros H. unfold make_mark. now rewrite (assemble_closed _ (vary_items_ok vv) H). Qed.
Lemma make_mark_star vv hs : In star (vary_items vv) -> make_mark vv hs = star.
Proof. intros H. unfold make_mark. now apply assemble_star. Qed.

Theorem mark_injective vv hs1 hs2 : block_ok hs1 -> block_ok hs2 -> ~ In star (vary_items vv) ->
  make_mark vv hs1 = make_mark vv hs2 ->
  forall item, In item (vary_items vv) -> get_by_name hs1 (lower item) = get_by_name hs2 (lower item).
Proof.
  intros Hb1 Hb2 Hs H. rewrite !make_mark_closed in H by exact Hs. exact (tail_inj _ true hs1 hs2 Hb1 Hb2 H).
Qed.

(* a mark that is not "*" was built without meeting "*" *)
Lemma mark_not_star vv hs : make_mark vv hs <> star -> ~ In star (vary_items vv).
Proof. intros H Hin. apply H. now apply make_mark_star. Qed.

(* ================================================================== *)
(* 4. what "reads the same" means, by kind of header                    *)

(* the nominated names: for quote-free Vary text the strListGetItem loop is comma-split / OWS-trim /
   drop-empty (C04's reading theorem), then lower-cased by assembleVaryKey *)
Theorem vary_names_spec vv s : vary_value vv = Some s -> simple s = true -> vary_items vv = ref_items s.
Proof. intros H Hs. unfold vary_items. rewrite H. now apply list_items_is_ref. Qed.

Lemma ci_eqb_len a : forall b, ci_eqb a b = true -> lenN a = lenN b.
Proof.
  induction a as [|x a IH]; intros [|y b] H; cbn [ci_eqb] in H; try discriminate; [reflexivity|].
  apply andb_prop in H. cbn [lenN]. now rewrite (IH b (proj2 H)).
Qed.

Lemma add_matching_ext p q hs s : (forall h, In h hs -> p h = q h) -> add_matching p hs s = add_matching q hs s.
Proof.
  revert s. induction hs as [|h hs IH]; intros s H; [reflexivity|]. cbn [add_matching].
  rewrite (H h (or_introl eq_refl)). apply IH. intros h' Hin. apply H. now right.
Qed.

(* unregistered field name: every line whose name equals it ignoring case, joined *)
Theorem read_unregistered hs name : lookup_id hdr_table name = hdr_OTHER ->
  get_by_name hs name = joined_spec (line_values (fun h => ci_eqb (h_name h) name) hs).
Proof.
  intros Hid. unfold get_by_name. rewrite Hid, N.eqb_refl. cbn [negb andb].
  rewrite <- add_matching_spec. apply add_matching_ext. intros h _. unfold name_matches.
  destruct (ci_eqb (h_name h) name) eqn:E; [|now rewrite andb_false_r].
  unfold hdr_id. rewrite (lookup_id_ci hdr_table _ _ E), Hid, N.eqb_refl, (ci_eqb_len _ _ E), N.eqb_refl. reflexivity.
Qed.

Lemma has_id_false_no_match hs id p : has_id hs id = false -> (forall h, p h = true -> hdr_id h = id) ->
  forall s, add_matching p hs s = s.
Proof.
  intros Hh Hp. induction hs as [|h hs IH]; intros s; [reflexivity|]. cbn [add_matching].
  unfold has_id in Hh. cbn [existsb] in Hh. apply orb_false_elim in Hh. destruct Hh as [H1 H2].
  destruct (p h) eqn:E; [apply Hp in E; rewrite E, N.eqb_refl in H1; discriminate|]. apply IH, H2.
Qed.

(* registered list header (Accept, Accept-Encoding, Accept-Language, ...): every line with that header id, joined *)
Theorem read_registered_list hs name : lookup_id hdr_table name <> hdr_OTHER -> is_list_hdr (lookup_id hdr_table name) = true ->
  get_by_name hs name = joined_spec (line_values (fun h => hdr_id h =? lookup_id hdr_table name) hs).
Proof.
  intros Hid Hl. unfold get_by_name. apply N.eqb_neq in Hid. rewrite Hid. cbn [negb andb].
  destruct (has_id hs (lookup_id hdr_table name)) eqn:Eh.
  - unfold get_str_or_list, get_list. rewrite Hl, Eh. apply add_matching_spec.
  - rewrite (has_id_false_no_match hs (lookup_id hdr_table name)); [|exact Eh|].
    + unfold line_values. replace (filter _ hs) with (@nil hdr); [reflexivity|].
      symmetry. clear Hl Hid. induction hs as [|h hs IH]; [reflexivity|]. unfold has_id in Eh. cbn [existsb] in Eh.
      apply orb_false_elim in Eh. destruct Eh as [H1 H2]. cbn [filter]. rewrite H1. apply IH, H2.
    + intros h Hm. unfold name_matches in Hm. apply andb_prop in Hm. destruct Hm as [_ Hc].
      unfold hdr_id. now apply lookup_id_ci.
Qed.

(* registered single-value header (Cookie, User-Agent, Referer, ...): the FIRST line only; empty reads as absent *)
Theorem read_registered_single hs name : lookup_id hdr_table name <> hdr_OTHER -> is_list_hdr (lookup_id hdr_table name) = false ->
  get_by_name hs name =
  match find (fun h => hdr_id h =? lookup_id hdr_table name) hs with
  | Some e => match h_value e with [] => None | v => Some v end
  | None => None
  end.
Proof.
  intros Hid Hl. unfold get_by_name. apply N.eqb_neq in Hid. rewrite Hid. cbn [negb andb].
  destruct (has_id hs (lookup_id hdr_table name)) eqn:Eh.
  - unfold get_str_or_list. rewrite Hl. destruct (find _ hs) as [e|]; [|reflexivity].
    destruct (h_value e); reflexivity.
  - rewrite (has_id_false_no_match hs (lookup_id hdr_table name)); [|exact Eh|].
    + replace (find _ hs) with (@None hdr); [reflexivity|]. symmetry. clear Hl Hid.
      induction hs as [|h hs IH]; [reflexivity|]. unfold has_id in Eh. cbn [existsb] in Eh.
      apply orb_false_elim in Eh. destruct Eh as [H1 H2]. cbn [find]. rewrite H1. apply IH, H2.
    + intros h Hm. unfold name_matches in Hm. apply andb_prop in Hm. destruct Hm as [_ Hc].
      unfold hdr_id. now apply lookup_id_ci.
Qed.

(* ================================================================== *)
(* 5. varyEvaluateMatch and the cache: hits only on the same mark       *)

Theorem match_only_same_mark e req_mark hs m :
  vary_evaluate_match e req_mark hs = (VARY_MATCH, m) ->
  m = e_mark e /\ m <> [] /\ e_vary e <> [] /\ (req_mark = [] -> m = make_mark (e_vary e) hs) /\ (req_mark <> [] -> m = req_mark).
Proof.
  unfold vary_evaluate_match. destruct (e_vary e) as [|v0 vr] eqn:Ev; cbn [negb orb].
  - destruct (negb (is_nil req_mark)); [discriminate|discriminate].
  - destruct (is_nil (e_mark e)) eqn:Em.
    + destruct (negb (is_nil req_mark)); [discriminate|]. destruct (negb (is_nil (make_mark (v0 :: vr) hs))); discriminate.
    + destruct req_mark as [|c r]; cbn [is_nil].
      * destruct (make_mark (v0 :: vr) hs) as [|c r] eqn:Emk; cbn [is_nil negb]; [discriminate|].
        destruct (list_eqb (c :: r) (e_mark e)) eqn:El; [|discriminate].
        intros H. injection H as <-. apply list_eqb_eq in El. repeat split; try discriminate; try assumption; congruence.
      * destruct (list_eqb (c :: r) (e_mark e)) eqn:El; [|discriminate].
        intros H. injection H as <-. apply list_eqb_eq in El. repeat split; try discriminate; try assumption; congruence.
Qed.

(* ---- the store invariant for one URL whose origin always sends the Vary values vv ---- *)
Definition slot_ok (vv : list bytes) (hist : list (list hdr)) (k : bytes) (e : entry) : Prop :=
  (vv = [] /\ k = [] /\ e_vary e = [] /\ e_mark e = [] /\ exists hi, nthN (e_src e) hist = Some hi)
  \/ (vv <> [] /\ k = [] /\ e = marker vv)
  \/ (vv <> [] /\ k = e_mark e /\ e_vary e = vv /\ e_mark e <> [] /\ e_reval e = list_eqb (e_mark e) star /\
      exists hi, nthN (e_src e) hist = Some hi /\ e_mark e = make_mark vv hi).
Definition inv (vv : list bytes) (hist : list (list hdr)) (st : store) : Prop :=
  forall k e, In (k, e) st -> slot_ok vv hist k e.

Lemma lookup_in st k e : lookup st k = Some e -> In (k, e) st.
Proof.
  induction st as [|[k' e'] st IH]; cbn [lookup]; [discriminate|].
  destruct (list_eqb k k') eqn:E; [|intros H; right; apply IH, H].
  apply list_eqb_eq in E. subst k'. intros H. injection H as <-. now left.
Qed.

Lemma nthN_app_l {A} (a b : list A) : forall i x, nthN i a = Some x -> nthN i (a ++ b) = Some x.
Proof.
  induction a as [|y a IH]; intros i x H; cbn [nthN app] in *; [discriminate|].
  destruct (i =? 0); [exact H|]. apply IH, H.
Qed.
Lemma nthN_lt {A} (a : list A) : forall i x, nthN i a = Some x -> i < lenN a.
Proof.
  induction a as [|y a IH]; intros i x H; cbn [nthN lenN] in *; [discriminate|].
  destruct (i =? 0) eqn:E; [lia|]. specialize (IH _ _ H). lia.
Qed.
Lemma nthN_last {A} (a : list A) x : nthN (lenN a) (a ++ [x]) = Some x.
Proof. rewrite <- (N.add_0_r (lenN a)), nthN_app_skip. reflexivity. Qed.

Lemma slot_ok_mono vv hist hs k e : slot_ok vv hist k e -> slot_ok vv (hist ++ [hs]) k e.
Proof.
  intros [H|[H|H]].
  - left. destruct H as (H1 & H2 & H3 & H4 & hi & H5). repeat split; try assumption. exists hi. now apply nthN_app_l.
  - right. now left.
  - right. right. destruct H as (H1 & H2 & H3 & H4 & H5 & hi & H6 & H7). repeat split; try assumption.
    exists hi. split; [now apply nthN_app_l|assumption].
Qed.

Lemma make_mark_novary hs : make_mark [] hs = [].
Proof. reflexivity. Qed.

(* a body served from the store was stored for a request with the same mark, and that mark is not "*" *)
Lemma cache_hit_sound vv hist st hs e m : inv vv hist st ->
  cache_hit 3 st [] hs = (Hit e, m) ->
  exists hi, nthN (e_src e) hist = Some hi /\ make_mark vv hi = make_mark vv hs /\ make_mark vv hs <> star.
Proof.
  intros Hinv. cbn [cache_hit].
  destruct (lookup st []) as [e0|] eqn:L0; [|discriminate].
  pose proof (Hinv _ _ (lookup_in _ _ _ L0)) as S0.
  destruct S0 as [S0|[S0|S0]].
  - (* a non-varying object *)
    destruct S0 as (Hvv & _ & Hev & Hem & hi & Hsrc). subst vv.
    unfold vary_evaluate_match. rewrite Hev, Hem. cbn [negb orb is_nil].
    destruct (e_reval e0); [discriminate|]. intros H. injection H as <- _.
    exists hi. split; [exact Hsrc|]. rewrite !make_mark_novary. split; [reflexivity|discriminate].
  - (* the marker: compute the mark and look again *)
    destruct S0 as (Hvv & _ & He0). subst e0.
    unfold vary_evaluate_match at 1. cbn [marker e_vary e_mark is_nil negb orb].
    destruct vv as [|v0 vr]; [contradiction|]. cbn [negb orb].
    destruct (make_mark (v0 :: vr) hs) as [|c r] eqn:Emk; cbn [is_nil negb]; [discriminate|].
    destruct (lookup st (c :: r)) as [e1|] eqn:L1; [|discriminate].
    pose proof (Hinv _ _ (lookup_in _ _ _ L1)) as S1.
    destruct S1 as [S1|[S1|S1]]; [destruct S1 as (? & ? & _); discriminate|destruct S1 as (_ & ? & _); discriminate|].
    destruct S1 as (_ & Hk & Hev & Hne & Hrv & hi & Hsrc & Hmk).
    destruct (vary_evaluate_match e1 (c :: r) hs) as [[| | |] m1] eqn:Ev1.
    + (* VARY_NONE is impossible for a variant *)
      exfalso. unfold vary_evaluate_match in Ev1. rewrite Hev in Ev1. cbn [negb orb] in Ev1.
      destruct (is_nil (e_mark e1)) eqn:En; [destruct (e_mark e1); [contradiction|discriminate]|].
      cbn [is_nil] in Ev1. destruct (list_eqb (c :: r) (e_mark e1)); discriminate.
    + destruct (e_reval e1) eqn:Er; [discriminate|]. intros H. injection H as <- _.
      exists hi. split; [exact Hsrc|]. rewrite <- Hmk, <- Hk. split; [reflexivity|].
      intros Hs. rewrite <- Hk, Hs in Hrv. cbn in Hrv. discriminate.
    + (* VARY_OTHER is impossible on a non-empty request mark *)
      exfalso. unfold vary_evaluate_match in Ev1. rewrite Hev in Ev1. cbn [negb orb] in Ev1.
      destruct (is_nil (e_mark e1)) eqn:En; [destruct (e_mark e1); [contradiction|discriminate]|].
      cbn [is_nil] in Ev1. destruct (list_eqb (c :: r) (e_mark e1)); discriminate.
    + discriminate.
  - (* a variant is never stored under the empty key *)
    exfalso. destruct S0 as (_ & Hk & _ & Hne & _). now apply Hne.
Qed.

Lemma inv_remove vv hist st k : inv vv hist st -> inv vv hist (remove st k).
Proof. intros H k' e Hin. unfold remove in Hin. apply filter_In in Hin. apply H, Hin. Qed.
Lemma inv_put vv hist st k e : inv vv hist st -> slot_ok vv hist k e -> inv vv hist (put st k e).
Proof. intros H Hs k' e' [Hin|Hin]; [injection Hin as <- <-; exact Hs|apply H, Hin]. Qed.
Lemma inv_mono vv hist hs st : inv vv hist st -> inv vv (hist ++ [hs]) st.
Proof. intros H k e Hin. apply slot_ok_mono, H, Hin. Qed.

Lemma store_reply_inv vv hist st rm hs : inv vv hist st ->
  inv vv (hist ++ [hs]) (store_reply st rm vv hs (lenN hist)).
Proof.
  intros Hinv. apply (inv_mono _ _ hs) in Hinv. unfold store_reply. destruct vv as [|v0 vr] eqn:Evv.
  - apply inv_put; [exact Hinv|]. left. cbn [e_vary e_mark e_src]. repeat split. exists hs. apply nthN_last.
  - rewrite <- Evv in *. assert (Hne : vv <> []) by (rewrite Evv; discriminate).
    destruct (is_nil (make_mark vv hs)) eqn:En; [exact Hinv|].
    set (changed := negb (is_nil rm) && negb (list_eqb rm (make_mark vv hs))).
    set (st1 := if changed then remove st [] else st).
    assert (H1 : inv vv (hist ++ [hs]) st1) by (unfold st1; destruct changed; [apply inv_remove|]; exact Hinv).
    set (st2 := match lookup st1 [] with None => put st1 [] (marker vv) | Some _ => st1 end).
    assert (H2 : inv vv (hist ++ [hs]) st2).
    { unfold st2. destruct (lookup st1 []); [exact H1|]. apply inv_put; [exact H1|]. right. left. now repeat split. }
    match goal with |- inv _ _ (put _ ?k _) => assert (Hkey : k = make_mark vv hs) end.
    { unfold changed. destruct rm as [|c r]; cbn [is_nil negb andb]; [reflexivity|].
      destruct (list_eqb (c :: r) (make_mark vv hs)) eqn:El; cbn [negb is_nil]; [|reflexivity].
      now apply list_eqb_eq in El. }
    rewrite Hkey. apply inv_put; [exact H2|]. right. right. cbn [e_vary e_mark e_reval e_src].
    repeat split; try assumption; try reflexivity.
    + intros E. rewrite E in En. discriminate.
    + exists hs. split; [apply nthN_last|reflexivity].
Qed.

(* ---- the whole run ---- *)
Lemma nthN_0 {A} (x : A) r : nthN 0 (x :: r) = Some x.
Proof. reflexivity. Qed.
Lemma nthN_S {A} (x : A) r j : j <> 0 -> nthN j (x :: r) = nthN (N.pred j) r.
Proof. intros H. cbn [nthN]. apply N.eqb_neq in H. now rewrite H. Qed.

Lemma run_sound vv : forall todo hist st, inv vv hist st ->
  forall j i hj, nthN j (run vv st (lenN hist) todo) = Some i -> nthN j todo = Some hj -> i <> lenN hist + j ->
  exists hi, nthN i (hist ++ todo) = Some hi /\ i < lenN hist + j /\
             make_mark vv hi = make_mark vv hj /\ make_mark vv hj <> star.
Proof.
  induction todo as [|hs todo IH]; intros hist st Hinv j i hj Hsrc Hreq Hne; [discriminate|].
  cbn [run] in Hsrc. destruct (process st vv hs (lenN hist)) as [src st'] eqn:Ep.
  destruct (N.eq_dec j 0) as [->|Hj].
  - rewrite nthN_0 in Hsrc. rewrite nthN_0 in Hreq. injection Hsrc as ->. injection Hreq as ->.
    unfold process in Ep. destruct (cache_hit 3 st [] hj) as [[e|e| |] m] eqn:Ec;
      try (injection Ep as <- _; rewrite N.add_0_r in Hne; contradiction).
    injection Ep as <- _. destruct (cache_hit_sound vv hist st hj e m Hinv Ec) as (hi & H1 & H2 & H3).
    exists hi. split; [now apply nthN_app_l|]. split; [apply nthN_lt in H1; lia|]. now split.
  - rewrite nthN_S in Hsrc by exact Hj. rewrite nthN_S in Hreq by exact Hj.
    assert (Hinv' : inv vv (hist ++ [hs]) st').
    { unfold process in Ep. destruct (cache_hit 3 st [] hs) as [[e|e| |] m];
        injection Ep as _ <-; try apply store_reply_inv; try exact Hinv. now apply inv_mono. }
    assert (Hlen : lenN (hist ++ [hs]) = lenN hist + 1) by (rewrite lenN_app; reflexivity).
    replace (lenN hist + 1) with (lenN (hist ++ [hs])) in Hsrc by exact Hlen.
    destruct (IH (hist ++ [hs]) st' Hinv' (N.pred j) i hj Hsrc Hreq) as (hi & H1 & H2 & H3 & H4); [lia|].
    exists hi. rewrite <- app_assoc in H1. split; [exact H1|]. split; [lia|]. now split.
Qed.

Lemma inv_empty vv : inv vv [] [].
Proof. intros k e []. Qed.

(* every response served from the cache was stored for a request with the same mark, which is not "*" *)
Theorem run_hits_same_mark vv reqs j i hj :
  nthN j (run vv [] 0 reqs) = Some i -> nthN j reqs = Some hj -> i <> j ->
  exists hi, nthN i reqs = Some hi /\ i < j /\ make_mark vv hi = make_mark vv hj /\ make_mark vv hj <> star.
Proof.
  intros H1 H2 H3. destruct (run_sound vv reqs [] [] (inv_empty vv) j i hj H1 H2) as (hi & G1 & G2 & G3 & G4).
  - cbn [lenN]. lia.
  - exists hi. cbn [lenN app] in *. repeat split; try assumption; try lia.
Qed.

(* ... hence every nominated field reads the same in both requests *)
Theorem run_hits_fields_read_equal vv reqs j i hj : Forall block_ok reqs ->
  nthN j (run vv [] 0 reqs) = Some i -> nthN j reqs = Some hj -> i <> j ->
  exists hi, nthN i reqs = Some hi /\ i < j /\ ~ In star (vary_items vv) /\
    forall item, In item (vary_items vv) -> get_by_name hi (lower item) = get_by_name hj (lower item).
Proof.
  intros Hok H1 H2 H3. destruct (run_hits_same_mark vv reqs j i hj H1 H2 H3) as (hi & G1 & G2 & G3 & G4).
  exists hi. split; [exact G1|]. split; [exact G2|]. pose proof (mark_not_star vv hj G4) as Hs. split; [exact Hs|].
  assert (nth_in : forall (l : list (list hdr)) k x, nthN k l = Some x -> In x l).
  { induction l as [|y l IHl]; intros k x Hk; cbn [nthN] in Hk; [discriminate|].
    destruct (k =? 0); [injection Hk as <-; now left|right; eapply IHl, Hk]. }
  rewrite Forall_forall in Hok.
  exact (mark_injective vv hi hj (Hok _ (nth_in _ _ _ G1)) (Hok _ (nth_in _ _ _ H2)) Hs G3).
Qed.

(* Vary: * (anywhere in the list): nothing is ever served from the cache *)
Theorem star_never_served_from_cache vv reqs j i :
  In star (vary_items vv) -> nthN j (run vv [] 0 reqs) = Some i -> j < lenN reqs -> i = j.
Proof.
  intros Hs H1 Hj. destruct (N.eq_dec i j) as [E|E]; [exact E|exfalso].
  assert (exists hj, nthN j reqs = Some hj) as [hj H2].
  { clear H1 E. revert j Hj. induction reqs as [|h r IH]; intros j Hj; cbn [lenN] in Hj; [lia|].
    cbn [nthN]. destruct (j =? 0) eqn:E0; [eauto|]. apply IH. lia. }
  destruct (run_hits_same_mark vv reqs j i hj H1 H2 E) as (_ & _ & _ & _ & G4).
  apply G4. now apply make_mark_star.
Qed.

(* ================================================================== *)
(* 6. the full-strength statement is false for registered single-value headers *)
Definition b (l : list nat) : bytes := map N.of_nat l.
Definition n_cookie := b [67;111;111;107;105;101]%nat.
Definition n_user_agent := b [85;115;101;114;45;65;103;101;110;116]%nat.
Definition lines_of (name : bytes) (hs : list hdr) : list bytes := map h_value (filter (fun h => ci_eqb (h_name h) name) hs).

(* Vary: Cookie; request 0 `Cookie: a=1`; request 1 `Cookie: a=1` + `Cookie: b=2` is served request 0's body *)
Definition w_cookie1 : list hdr := [{| h_name := n_cookie; h_value := b [97;61;49]%nat |}].
Definition w_cookie2 : list hdr := w_cookie1 ++ [{| h_name := n_cookie; h_value := b [98;61;50]%nat |}].
Theorem singleton_extra_lines_refuted :
  exists vv hs1 hs2, block_ok hs1 /\ block_ok hs2 /\ vary_items vv = [n_cookie] /\
    run vv [] 0 [hs1; hs2] = [0; 0] /\ lines_of n_cookie hs1 <> lines_of n_cookie hs2.
Proof.
  exists [n_cookie], w_cookie1, w_cookie2.
  split; [repeat constructor; cbn; lia|]. split; [repeat constructor; cbn; lia|].
  split; [vm_compute; reflexivity|]. split; [vm_compute; reflexivity|]. vm_compute. discriminate.
Qed.

(* Vary: User-Agent; request 0 has no User-Agent; request 1 `User-Agent:` (empty) is served request 0's body *)
Definition w_ua_empty : list hdr := [{| h_name := n_user_agent; h_value := [] |}].
Theorem singleton_empty_refuted :
  exists vv hs1 hs2, block_ok hs1 /\ block_ok hs2 /\ vary_items vv = [n_user_agent] /\
    run vv [] 0 [hs1; hs2] = [0; 0] /\ lines_of n_user_agent hs1 = [] /\ lines_of n_user_agent hs2 = [[]].
Proof.
  exists [n_user_agent], [], w_ua_empty.
  split; [constructor|]. split; [repeat constructor|].
  split; [vm_compute; reflexivity|]. split; [vm_compute; reflexivity|]. split; vm_compute; reflexivity.
Qed.

(* for unregistered and registered list headers equal reading is: same presence, same joined value *)
Theorem same_reading_partial hs1 hs2 name :
  lookup_id hdr_table name = hdr_OTHER \/ is_list_hdr (lookup_id hdr_table name) = true ->
  get_by_name hs1 name = get_by_name hs2 name ->
  let sel := if lookup_id hdr_table name =? hdr_OTHER then (fun h => ci_eqb (h_name h) name)
             else (fun h => hdr_id h =? lookup_id hdr_table name) in
  (line_values sel hs1 = [] <-> line_values sel hs2 = []) /\
  join_list (drop_nil (line_values sel hs1)) = join_list (drop_nil (line_values sel hs2)).
Proof.
  intros Hk H. cbv zeta.
  assert (G : joined_spec (line_values (if lookup_id hdr_table name =? hdr_OTHER then (fun h => ci_eqb (h_name h) name)
                                        else (fun h => hdr_id h =? lookup_id hdr_table name)) hs1) =
              joined_spec (line_values (if lookup_id hdr_table name =? hdr_OTHER then (fun h => ci_eqb (h_name h) name)
                                        else (fun h => hdr_id h =? lookup_id hdr_table name)) hs2)).
  { destruct (lookup_id hdr_table name =? hdr_OTHER) eqn:E.
    - apply N.eqb_eq in E. now rewrite <- !read_unregistered.
    - apply N.eqb_neq in E. destruct Hk as [Hk|Hk]; [contradiction|]. now rewrite <- !read_registered_list. }
  unfold joined_spec in G.
  destruct (line_values _ hs1) as [|a1 r1], (line_values _ hs2) as [|a2 r2]; try discriminate.
  - split; [tauto|reflexivity].
  - injection G as G. split; [split; discriminate|exact G].
Qed.

(* ================================================================== *)
(* 7. concrete values for the Examples in Properties_C13.v              *)
Definition n_xfoo := b [88;45;70;111;111]%nat.                       (* X-Foo *)
Definition n_xfoo_lc := b [120;45;102;111;111]%nat.                  (* x-foo *)
Definition n_noise := b [88;45;78;111;105;115;101]%nat.              (* X-Noise *)
Definition n_accept_encoding := b [65;99;99;101;112;116;45;69;110;99;111;100;105;110;103]%nat.
Definition ex_req (v : list nat) (noise : list nat) : list hdr :=
  [{| h_name := n_noise; h_value := b noise |}; {| h_name := n_xfoo_lc; h_value := b v |}].
Definition ex_vary_xfoo : list bytes := [b [32;88;45;70;111;111;32;44]%nat].      (* " X-Foo ," *)
Definition ex_vary_star : list bytes := [b [88;45;70;111;111;44;32;42]%nat].       (* "X-Foo, *" *)
Definition ex_quote_pct : list nat := [97;34;37;233]%nat.                          (* a, DQUOTE, percent, 0xE9 *)
