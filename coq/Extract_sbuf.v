(* Extract_sbuf.v — extraction of the SBuf/MemBlob model (C48) to OCaml; ExtrOcamlBasic only. *)
Require Import ExtrOcamlBasic.
Require Import SquidV.Bytes SquidV.SbufModel.
Extraction "m_sbuf.ml"
  lenN step_h init_h content getv getb first_broken bsize.
