(* Properties_C30.v — C30: URI parsing is canonical and validates authority.
   Statements only; proofs live in UriProofs.v.  `ipq` is the Ip::Address oracle (Section variable
   of UriProofs.v, here an explicit argument) and `ipq_contract` its assumed contract. *)
Require Import SquidV.Bytes SquidV.TokModel SquidV.QuoteModel SquidV.UriModel SquidV.UriProofs.
Require Import SquidV.gen.Uri_gen.
Local Open Scope N_scope.

(* ---- (1) what every accepted URI looks like ---- *)

(* the host of an accepted URI (any method, any configuration) has no upper-case letter *)
Theorem C30_accepted_host_is_lowercase : forall ipq c m raw u,
  ipq_contract ipq -> parse c ipq m raw = Some u -> s_id (u_scheme u) <> uri_PROTO_URN ->
  forallb (fun x => negb ((65 <=? x) && (x <=? 90))) (u_host u) = true.
Proof. exact accepted_host_lowercase. Qed.
Print Assumptions C30_accepted_host_is_lowercase.

(* its port is in 1..65535 *)
Theorem C30_accepted_port_in_range : forall ipq c m raw u,
  parse c ipq m raw = Some u -> s_id (u_scheme u) <> uri_PROTO_URN ->
  exists p, u_port u = Some p /\ 1 <= p <= 65535.
Proof. exact accepted_port_in_range. Qed.
Print Assumptions C30_accepted_port_in_range.

(* its host (unless it is an IP literal, or the request-target is the asterisk-form) is non-empty,
   shorter than the host buffer, and splits at '.' into non-empty labels only *)
Theorem C30_accepted_host_no_empty_labels : forall ipq c m raw u,
  parse c ipq m raw = Some u -> s_id (u_scheme u) <> uri_PROTO_URN ->
  list_eqb raw uri_asterisk = false -> u_num u = false ->
  u_host u <> [] /\ no_empty_label (u_host u) = true /\ lenN (u_host u) < uri_SQUIDHOSTNAMELEN.
Proof. exact accepted_host_labels. Qed.
Print Assumptions C30_accepted_host_no_empty_labels.

(* ---- (2) canonical form: what is still false ---- *)

(* "http://example.com/a#f" -> "http://example.com/a%23f" -> a different path
   (path_ also holds the fragment; '#' is not in the set absolutePath() keeps) *)
Theorem C30_canonical_reparse_refuted_fragment :
  exists ipq c m raw u u', ipq_contract ipq /\ parse c ipq m raw = Some u /\
    parse c ipq m (canonical m u) = Some u' /\ u_path u' <> u_path u.
Proof. exact canonical_reparse_refuted_fragment. Qed.
Print Assumptions C30_canonical_reparse_refuted_fragment.

(* "http://[a:80/" is accepted with host "a:80"; its canonical form "http://a:80/" names host "a" *)
Theorem C30_canonical_reparse_refuted_colon_host :
  exists ipq c m raw u u', ipq_contract ipq /\ parse c ipq m raw = Some u /\
    parse c ipq m (canonical m u) = Some u' /\ u_host u' <> u_host u.
Proof. exact canonical_reparse_refuted_colon_host. Qed.
Print Assumptions C30_canonical_reparse_refuted_colon_host.

(* "urn:12:xyz" with an oracle reading "12" as 0.0.0.12 (inet_aton): canonical form "urn:0.0.0.12:xyz" is rejected *)
Theorem C30_canonical_reparse_refuted_urn_nid :
  exists ipq c m raw u, ipq_contract ipq /\ parse c ipq m raw = Some u /\
    parse c ipq m (canonical m u) = None.
Proof. exact canonical_reparse_refuted_urn_nid. Qed.
Print Assumptions C30_canonical_reparse_refuted_urn_nid.

(* the bytes absolutePath() leaves alone are PathChars() and the query delimiter '?' (table regenerated
   from absolutePath() itself on every run) *)
Theorem C30_query_delimiter_is_kept : forall c, c < 256 ->
  path_kept c = uri_PathChars c || (c =? 63).
Proof. exact path_kept_spec. Qed.
Print Assumptions C30_query_delimiter_is_kept.

(* ---- (1)/(3) the port of an RFC-shaped URI ---- *)

(* scheme "://" [userinfo "@"] reg-name ":" P rest, with P the text between the colon and the end of
   the authority: if the URI is accepted (any non-CONNECT method, any configuration) then P is a
   non-empty string of decimal digits, its value lies in 1..65535 and it is the port.  Read
   contrapositively: every non-numeric, empty or out-of-range port text is rejected. *)
Theorem C30_shaped_port_is_written : forall ipq c m s ui h P rest u,
  is_connect m = false -> scheme_text s ->
  s_id (scheme_of s) <> uri_PROTO_NONE -> s_id (scheme_of s) <> uri_PROTO_URN ->
  userinfo_at ui ->
  forallb auth_char h = true -> no_at h = true -> no_colon h = true -> starts_ch 91 h = false ->
  forallb auth_char P = true -> no_at P = true -> no_colon P = true ->
  rest_ok rest ->
  parse c ipq m (s ++ colon :: slash :: slash :: (ui ++ h ++ colon :: P) ++ rest) = Some u ->
  P <> [] /\ forallb dec_digit P = true /\ 1 <= dec_value P 0 <= 65535 /\ u_port u = Some (dec_value P 0).
Proof. exact shaped_port_is_written. Qed.
Print Assumptions C30_shaped_port_is_written.

(* the same after a bracketed literal: scheme "://" [userinfo "@"] "[" inner "]" ":" P rest *)
Theorem C30_shaped_literal_port_is_written : forall ipq c m s ui inner P rest u,
  is_connect m = false -> scheme_text s ->
  s_id (scheme_of s) <> uri_PROTO_NONE -> s_id (scheme_of s) <> uri_PROTO_URN ->
  userinfo_at ui ->
  forallb auth_char inner = true -> no_at inner = true -> no_rbracket inner = true ->
  forallb auth_char P = true -> no_at P = true ->
  rest_ok rest ->
  parse c ipq m (s ++ colon :: slash :: slash :: (ui ++ 91 :: inner ++ 93 :: colon :: P) ++ rest) = Some u ->
  P <> [] /\ forallb dec_digit P = true /\ 1 <= dec_value P 0 <= 65535 /\ u_port u = Some (dec_value P 0).
Proof. exact shaped_literal_port_is_written. Qed.
Print Assumptions C30_shaped_literal_port_is_written.

(* without a port: the scheme's default port (and a host must be present) *)
Theorem C30_shaped_default_port : forall ipq c m s ui h rest u,
  is_connect m = false -> scheme_text s ->
  s_id (scheme_of s) <> uri_PROTO_NONE -> s_id (scheme_of s) <> uri_PROTO_URN ->
  userinfo_at ui ->
  forallb auth_char h = true -> no_at h = true -> no_colon h = true -> starts_ch 91 h = false ->
  rest_ok rest ->
  parse c ipq m (s ++ colon :: slash :: slash :: (ui ++ h) ++ rest) = Some u ->
  h <> [] /\ u_port u = default_port (scheme_of s) /\ u_scheme u = scheme_of s.
Proof. exact shaped_default_port. Qed.
Print Assumptions C30_shaped_default_port.

(* ---- (2) canonical form: what holds ---- *)

(* Re-parsing absolute() of a URI value whose host is a settled reg-name (non-empty, no '@' ':' or
   leading '[', unchanged by lower-casing / trailing-dot removal, not cut) or a dotted quad that
   Ip::Address recognises as itself, and whose path+query consists of bytes absolutePath() keeps
   (PathChars and '?': so a query is covered; no fragment, nothing to encode) yields the same scheme,
   host, port and path.
   Missing for the full statement: paths with '#' or bytes that Encode rewrites (refuted above),
   hosts outside this class (refuted above), bracketed IPv6 literals and CONNECT targets (covered
   by the correspondence run and the oracle only), and the link "every parse result of a well-formed
   URI is such a value" is proved for the port and scheme (theorems above) but not for host and path. *)
Theorem C30_canonical_reparse_partial : forall ipq c m u port,
  is_connect m = false ->
  scheme_text (s_img (u_scheme u)) -> scheme_of (s_img (u_scheme u)) = u_scheme u ->
  s_id (u_scheme u) <> uri_PROTO_NONE -> s_id (u_scheme u) <> uri_PROTO_URN ->
  u_port u = Some port -> 1 <= port <= 65535 ->
  settled_host c (u_host u) -> set_host ipq (u_host u) = (u_host u, u_num u) ->
  clean_path (u_path u) ->
  lenN (absolute u) <= uri_MAX_URL - 1 ->
  exists login',
    parse c ipq m (absolute u) =
      Some {| u_scheme := u_scheme u; u_login := login'; u_host := u_host u; u_num := u_num u;
              u_port := Some port; u_path := u_path u |}.
Proof. exact reparse_canonical. Qed.
Print Assumptions C30_canonical_reparse_partial.

(* and the canonical form is then a fixed point: canonical (parse (canonical u)) = canonical u *)
Theorem C30_canonical_form_fixed_point_partial : forall ipq c m u port,
  is_connect m = false ->
  (s_id (u_scheme u) =? uri_PROTO_FTP) || (s_id (u_scheme u) =? uri_PROTO_UNKNOWN) = false ->
  scheme_text (s_img (u_scheme u)) -> scheme_of (s_img (u_scheme u)) = u_scheme u ->
  s_id (u_scheme u) <> uri_PROTO_NONE -> s_id (u_scheme u) <> uri_PROTO_URN ->
  u_port u = Some port -> 1 <= port <= 65535 ->
  settled_host c (u_host u) -> set_host ipq (u_host u) = (u_host u, u_num u) ->
  clean_path (u_path u) ->
  lenN (absolute u) <= uri_MAX_URL - 1 ->
  exists u', parse c ipq m (absolute u) = Some u' /\ absolute u' = absolute u.
Proof. exact canonical_fixed_point. Qed.
Print Assumptions C30_canonical_form_fixed_point_partial.

(* ---- hypotheses are satisfiable ---- *)
Example C30_ex_accepted :
  exists u, parse cfg_default no_ip m_get w_query = Some u /\ s_id (u_scheme u) <> uri_PROTO_URN /\
            u_num u = false /\ u_host u <> [] /\ lenN (u_host u) < uri_SQUIDHOSTNAMELEN - 1.
Proof. eexists. split; [vm_compute; reflexivity|]. repeat split; vm_compute; discriminate || reflexivity. Qed.

(* "http://Example.COM:8080/x?q=1": shaped with s = "http", h = "Example.COM", P = "8080", rest = "/x?q=1";
   its parse result satisfies every hypothesis of the canonical re-parse theorem *)
Definition C30_ex_s : bytes := [104;116;116;112].
Definition C30_ex_h : bytes := [69;120;97;109;112;108;101;46;67;79;77].
Definition C30_ex_P : bytes := [56;48;56;48].
Definition C30_ex_rest : bytes := [47;120;63;113;61;49].   (* /x?q=1 *)
Definition C30_ex_raw : bytes := C30_ex_s ++ colon :: slash :: slash :: ([] ++ C30_ex_h ++ colon :: C30_ex_P) ++ C30_ex_rest.
Definition C30_ex_u : uri :=
  match parse cfg_default no_ip m_get C30_ex_raw with Some u => u | None => star_uri end.
Ltac c30_decide := vm_compute; first [reflexivity | discriminate | (let H := fresh in intro H; discriminate H) | (left; reflexivity)].
Example C30_ex_parse : parse cfg_default no_ip m_get C30_ex_raw = Some C30_ex_u /\ u_port C30_ex_u = Some 8080.
Proof. split; vm_compute; reflexivity. Qed.
Example C30_ex_shaped_hyps :
  scheme_text C30_ex_s /\ s_id (scheme_of C30_ex_s) <> uri_PROTO_NONE /\ s_id (scheme_of C30_ex_s) <> uri_PROTO_URN /\
  userinfo_at [] /\
  forallb auth_char C30_ex_h = true /\ no_at C30_ex_h = true /\ no_colon C30_ex_h = true /\ starts_ch 91 C30_ex_h = false /\
  forallb auth_char C30_ex_P = true /\ no_at C30_ex_P = true /\ no_colon C30_ex_P = true /\ rest_ok C30_ex_rest.
Proof.
  split. { unfold scheme_text. split; [vm_compute; reflexivity|]. split; [vm_compute; discriminate| vm_compute; reflexivity]. }
  split; [vm_compute; discriminate|]. split; [vm_compute; discriminate|]. split; [left; reflexivity|].
  repeat (split; [vm_compute; reflexivity|]). left. vm_compute. reflexivity.
Qed.
Example C30_ex_reparse_hyps :
  is_connect m_get = false /\
  scheme_text (s_img (u_scheme C30_ex_u)) /\ scheme_of (s_img (u_scheme C30_ex_u)) = u_scheme C30_ex_u /\
  s_id (u_scheme C30_ex_u) <> uri_PROTO_NONE /\ s_id (u_scheme C30_ex_u) <> uri_PROTO_URN /\
  settled_host cfg_default (u_host C30_ex_u) /\ set_host no_ip (u_host C30_ex_u) = (u_host C30_ex_u, u_num C30_ex_u) /\
  clean_path (u_path C30_ex_u) /\ lenN (absolute C30_ex_u) <= uri_MAX_URL - 1 /\
  (s_id (u_scheme C30_ex_u) =? uri_PROTO_FTP) || (s_id (u_scheme C30_ex_u) =? uri_PROTO_UNKNOWN) = false.
Proof.
  split; [vm_compute; reflexivity|].
  split. { unfold scheme_text. split; [vm_compute; reflexivity|]. split; [vm_compute; discriminate| vm_compute; reflexivity]. }
  split; [vm_compute; reflexivity|]. split; [vm_compute; discriminate|]. split; [vm_compute; discriminate|].
  split. { unfold settled_host. repeat split; try (vm_compute; reflexivity); try (vm_compute; discriminate). }
  split; [vm_compute; reflexivity|]. split; [unfold clean_path; split; vm_compute; reflexivity|].
  split; [vm_compute; discriminate| vm_compute; reflexivity].
Qed.
