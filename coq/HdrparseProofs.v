(* HdrparseProofs.v — proofs about HdrparseModel (C25). *)
Require Import SquidV.Bytes SquidV.ClenModel SquidV.ClenProofs SquidV.HdrparseModel.
Require Import SquidV.gen.CharSets_gen SquidV.gen.HdrTable_gen.
Require Import ZifyBool ZifyN.
Local Open Scope N_scope.

(* ================================================================== 0. the linear-time helpers *)
Lemma frev_rev l : frev l = rev l.
Proof. unfold frev. symmetry. apply rev_alt. Qed.
Lemma h_rtrim_eq l : h_rtrim l = rtrim l.
Proof. unfold h_rtrim, rtrim. now rewrite !frev_rev. Qed.
Lemma h_last_is_eq p l : h_last_is p l = last_is p l.
Proof. unfold h_last_is, last_is. now rewrite frev_rev. Qed.
Lemma h_strip_last_eq l : h_strip_last l = strip_last l.
Proof. unfold h_strip_last, strip_last. now rewrite !frev_rev. Qed.
Lemma h_proc_line_eq relaxed req ln cont : h_proc_line relaxed req ln cont = proc_line relaxed req ln cont.
Proof. unfold h_proc_line, proc_line. now rewrite h_last_is_eq, h_strip_last_eq. Qed.

(* ================================================================== 1. lines *)
Definition nolf (l : bytes) : Prop := forallb (fun c => negb (c =? 10)) l = true.
Definition join_lines (ls : list bytes) : bytes := concat (map (fun l => l ++ [10]) ls).

Lemma ref_cut_split : forall l cur,
  ref_cut cur l = (match fst (split_lines l) with
                   | [] => []
                   | x :: xs => (rev cur ++ x) :: xs
                   end,
                   match fst (split_lines l) with [] => rev cur ++ snd (split_lines l) | _ => snd (split_lines l) end).
Proof.
  induction l as [|c r IH]; intros cur; cbn [ref_cut split_lines fst snd].
  - now rewrite app_nil_r.
  - destruct (c =? 10) eqn:E.
    + rewrite (IH []). destruct (split_lines r) as [ls rem]. cbn [fst snd rev app].
      rewrite app_nil_r. destruct ls; reflexivity.
    + rewrite (IH (c :: cur)). destruct (split_lines r) as [ls rem]. cbn [fst snd rev].
      destruct ls as [|x xs]; cbn [fst snd]; rewrite <- app_assoc; reflexivity.
Qed.

Lemma ref_cut_is_split l : ref_cut [] l = split_lines l.
Proof.
  rewrite ref_cut_split. destruct (split_lines l) as [ls rem]. cbn [fst snd rev app]. destruct ls; reflexivity.
Qed.

(* the lines are exactly the LF-separated pieces: they contain no LF and re-join to the block *)
Lemma split_lines_join : forall l ls rem, split_lines l = (ls, rem) ->
  l = join_lines ls ++ rem /\ Forall nolf ls /\ nolf rem.
Proof.
  induction l as [|c r IH]; intros ls rem; cbn [split_lines].
  - intros [= <- <-]. repeat split; constructor.
  - destruct (split_lines r) as [ls' rem'] eqn:E. destruct (IH _ _ eq_refl) as (Hj & Hf & Hr).
    destruct (c =? 10) eqn:Ec.
    + intros [= <- <-]. apply N.eqb_eq in Ec. subst c. repeat split; [|constructor; [reflexivity|exact Hf]|exact Hr].
      unfold join_lines. cbn [map concat app]. now rewrite Hj.
    + destruct ls' as [|x xs].
      * intros [= <- <-]. repeat split; [|constructor|].
        -- unfold join_lines in *. cbn [map concat app] in *. now rewrite Hj.
        -- unfold nolf in *. cbn [forallb]. now rewrite Ec, Hr.
      * intros [= <- <-]. pose proof (Forall_inv Hf) as Hx. pose proof (Forall_inv_tail Hf) as Hxs.
        repeat split; [| |exact Hr].
        -- unfold join_lines in *. cbn [map concat app] in *. now rewrite Hj.
        -- constructor; [|exact Hxs]. unfold nolf in *. cbn [forallb]. now rewrite Ec, Hx.
Qed.

Lemma split_lines_nolf l : nolf l -> split_lines l = ([], l).
Proof.
  induction l as [|c r IH]; intros H; cbn [split_lines]; [reflexivity|].
  unfold nolf in *. cbn [forallb] in H. apply andb_prop in H as [Hc Hr]. rewrite (IH Hr).
  destruct (c =? 10); [discriminate|reflexivity].
Qed.

Lemma split_lines_app_line x : nolf x -> forall l,
  split_lines (x ++ 10 :: l) = (x :: fst (split_lines l), snd (split_lines l)).
Proof.
  induction x as [|c r IH]; intros H l; cbn [app split_lines].
  - destruct (split_lines l); reflexivity.
  - unfold nolf in *. cbn [forallb] in H. apply andb_prop in H as [Hc Hr]. rewrite (IH Hr).
    destruct (c =? 10); [discriminate|reflexivity].
Qed.

(* ... and conversely: joining LF-free lines and splitting again returns them (the reading is unique) *)
Lemma split_lines_of_join : forall ls rem, Forall nolf ls -> nolf rem ->
  split_lines (join_lines ls ++ rem) = (ls, rem).
Proof.
  induction ls as [|x xs IH]; intros rem Hf Hr.
  - cbn. now apply split_lines_nolf.
  - inversion Hf as [|? ? Hx Hxs]; subst. unfold join_lines. cbn [map concat].
    rewrite <- !app_assoc. cbn [app]. rewrite (split_lines_app_line x Hx).
    fold (join_lines xs). now rewrite (IH rem Hxs Hr).
Qed.

Theorem ref_lines_exact block ls :
  ref_lines block = Some ls <-> (block = join_lines ls /\ Forall nolf ls).
Proof.
  unfold ref_lines. rewrite ref_cut_is_split. split.
  - destruct (split_lines block) as [ls' rem] eqn:E. destruct rem; [|discriminate]. intros [= <-].
    destruct (split_lines_join _ _ _ E) as (A & B & _). rewrite app_nil_r in A. now split.
  - intros [-> Hf]. rewrite <- (app_nil_r (join_lines ls)).
    now rewrite (split_lines_of_join ls [] Hf eq_refl).
Qed.

(* ================================================================== 2. groups *)
Lemma ref_groups_nil ls : ref_groups ls = [] <-> ls = [].
Proof.
  destruct ls as [|l r]; cbn [ref_groups]; [tauto|].
  split; [|discriminate]. destruct (ref_groups r); [discriminate|]. destruct (ref_next_is_cont r); discriminate.
Qed.

Lemma ref_groups_cons l r :
  ref_groups (l :: r) = match ref_groups r with
                        | g :: gs => if ref_next_is_cont r then (l :: g) :: gs else [l] :: g :: gs
                        | [] => [[l]]
                        end.
Proof. reflexivity. Qed.

Lemma ref_groups_concat ls : concat (ref_groups ls) = ls.
Proof.
  induction ls as [|l r IH]; cbn [ref_groups]; [reflexivity|].
  destruct (ref_groups r) as [|g gs] eqn:E.
  - apply ref_groups_nil in E. now subst r.
  - destruct (ref_next_is_cont r); cbn [concat app] in *; now rewrite IH.
Qed.

(* shape of one group: a head line followed by continuation lines only *)
Definition group_shape (g : list bytes) : Prop :=
  match g with [] => False | _ :: conts => Forall (fun l => ref_is_cont l = true) conts end.
(* the line after a group's end (the next group's head) is not a continuation line *)
Fixpoint heads_ok (gs : list (list bytes)) : Prop :=
  match gs with
  | [] => True
  | g :: rest => match rest with (h :: _) :: _ => ref_is_cont h = false | _ => True end /\ heads_ok rest
  end.

Lemma ref_groups_shape ls : Forall group_shape (ref_groups ls) /\ heads_ok (ref_groups ls) /\
  match ref_groups ls, ls with (h :: _) :: _, l :: _ => h = l | [], [] => True | _, _ => False end.
Proof.
  induction ls as [|l r IH]; cbn [ref_groups].
  - split; [constructor|]. split; exact I.
  - destruct IH as (Hs & Hh & Hd). destruct (ref_groups r) as [|g gs] eqn:E.
    + split; [constructor; [cbn; constructor|constructor]|]. split; [cbn; tauto|reflexivity].
    + destruct r as [|n r']; [destruct g; contradiction|]. destruct g as [|h g']; [contradiction|]. subst h.
      cbn [ref_next_is_cont]. pose proof (Forall_inv Hs) as Hg. pose proof (Forall_inv_tail Hs) as Hgs.
      destruct (ref_is_cont n) eqn:En.
      * split; [|split; [exact Hh|reflexivity]].
        constructor; [|exact Hgs]. cbn [group_shape] in *. constructor; [exact En|exact Hg].
      * split; [constructor; [cbn; constructor|exact Hs]|]. split; [|reflexivity].
        cbn [heads_ok]. split; [exact En|exact Hh].
Qed.

(* ================================================================== 3. one line *)
Lemma cr_map_id fe : existsb is_cr fe = false -> map cr_to_sp fe = fe.
Proof.
  induction fe as [|c r IH]; cbn [existsb map]; [reflexivity|]. intros H.
  apply orb_false_elim in H as [Hc Hr]. unfold cr_to_sp at 1. now rewrite Hc, (IH Hr).
Qed.

Lemma lenN_map {A B} (f : A -> B) l : lenN (map f l) = lenN l.
Proof. induction l as [|x l IH]; cbn [map lenN]; [reflexivity|now rewrite IH]. Qed.

Lemma proc_line_ref relaxed req ln cont :
  proc_line relaxed req ln cont =
  if ref_line_ok relaxed req (negb cont) ln
  then Some (ref_line_text relaxed ln, ref_ends_cr ln, ref_has_bare_cr ln) else None.
Proof.
  unfold proc_line, ref_line_ok, ref_line_text, ref_has_bare_cr. fold (ref_ends_cr ln). fold (ref_body ln).
  change (fun c : N => if is_cr c then 32 else c) with cr_to_sp.
  set (crlf := ref_ends_cr ln). set (fe := ref_body ln).
  destruct (crlf && req && negb (lenN fe =? 0) && forallb is_cr fe) eqn:E1.
  - replace (req && crlf && negb (lenN fe =? 0) && forallb is_cr fe) with true
      by (rewrite <- E1; destruct crlf, req; reflexivity). reflexivity.
  - replace (req && crlf && negb (lenN fe =? 0) && forallb is_cr fe) with false
      by (rewrite <- E1; destruct crlf, req; reflexivity). cbn [negb andb].
    destruct (existsb is_cr fe) eqn:Eb.
    + destruct relaxed; cbn [negb andb orb]; [|reflexivity].
      rewrite lenN_map. destruct (lenN fe =? 1), cont; reflexivity.
    + cbn [andb negb]. rewrite orb_true_r. cbn [andb].
      rewrite (cr_map_id fe Eb).
      destruct relaxed, (lenN fe =? 1), cont; reflexivity.
Qed.

(* ================================================================== 4. field-line split *)
Lemma ows_is_space c : ref_ows c = c_isspace c.
Proof. unfold ref_ows, c_isspace. lia. Qed.

Lemma trim_left_ltrim l : ref_trim_left l = ltrim l.
Proof.
  unfold ltrim. induction l as [|c r IH]; cbn [ref_trim_left span]; [reflexivity|].
  rewrite ows_is_space. destruct (c_isspace c); [|reflexivity].
  rewrite IH. destruct (span c_isspace r); reflexivity.
Qed.

Lemma trim_right_rtrim l : ref_trim_right l = rtrim l.
Proof. unfold ref_trim_right, rtrim. rewrite trim_left_ltrim. reflexivity. Qed.

Lemma before_colon_span l :
  ref_before_colon l =
  match snd (span (fun c => negb (c =? 58)) l) with
  | [] => None
  | _ :: after => Some (fst (span (fun c => negb (c =? 58)) l), after)
  end.
Proof.
  induction l as [|c r IH]; cbn [ref_before_colon span]; [reflexivity|].
  destruct (c =? 58); cbn [negb fst snd]; [reflexivity|].
  rewrite IH. destruct (span (fun c0 : N => negb (c0 =? 58)) r) as [a b]. cbn [fst snd].
  destruct b; reflexivity.
Qed.

Definition tchar_check (c : N) : bool := implb (cs_TCHAR c) (negb (c_isspace c) && negb (c =? 58) && negb (c =? 0)).
Lemma tchar_facts c : cs_TCHAR c = true -> c_isspace c = false /\ (c =? 58) = false /\ (c =? 0) = false.
Proof.
  intros H. assert (G : tchar_check c = true).
  { destruct (N.ltb_spec c 256) as [Hc|Hc].
    - exact (forallb_bytes tchar_check ltac:(vm_compute; reflexivity) c Hc).
    - unfold tchar_check, cs_TCHAR, mem_tbl. rewrite tbl_get_oob by (vm_compute lenN; exact Hc). reflexivity. }
  unfold tchar_check in G. rewrite H in G. cbn [implb] in G.
  destruct (c_isspace c), (c =? 58), (c =? 0); try discriminate. auto.
Qed.

Lemma last_is_snoc p l c : last_is p (l ++ [c]) = p c.
Proof. unfold last_is. now rewrite rev_unit. Qed.
Lemma last_is_nil p : last_is p [] = false.
Proof. reflexivity. Qed.

Lemma list_snoc_cases {A} (l : list A) : l = [] \/ exists a c, l = a ++ [c].
Proof.
  destruct l as [|x r]; [now left|right]. destruct (exists_last (l := x :: r) ltac:(discriminate)) as (a & c & E).
  eauto.
Qed.

Lemma last_is_forall p q l : forallb p l = true -> last_is q l = true -> exists c, p c = true /\ q c = true.
Proof.
  destruct (list_snoc_cases l) as [->|(a & c & ->)]; [discriminate|].
  rewrite last_is_snoc, forallb_app. cbn [forallb]. intros H Hq.
  apply andb_prop in H as [_ H]. apply andb_prop in H as [H _]. eauto.
Qed.

Lemma rtrim_snoc_nonspace a c : c_isspace c = false -> rtrim (a ++ [c]) = a ++ [c].
Proof.
  intros H. unfold rtrim. rewrite rev_unit. cbn [span]. rewrite H. cbn [snd].
  change (c :: rev a) with (rev (a ++ [c]) ) at 1 || idtac. rewrite <- (rev_unit a c). apply rev_involutive.
Qed.

Lemma rtrim_no_trail l : last_is c_isspace l = false -> rtrim l = l.
Proof.
  destruct (list_snoc_cases l) as [->|(a & c & ->)]; [reflexivity|].
  rewrite last_is_snoc. apply rtrim_snoc_nonspace.
Qed.

(* HttpHeaderEntry::parse is the reference field-line split followed by the table lookup *)
Lemma entry_parse_ref req text :
  h_entry_parse req text =
  match ref_split req text with
  | None => None
  | Some (name, value) =>
    Some {| he_id := fst (canon_name name); he_name := snd (canon_name name); he_value := c_str value |}
  end.
Proof.
  unfold h_entry_parse, ref_split. rewrite before_colon_span.
  destruct (span (fun c => negb (c =? 58)) text) as [name rest]. cbn [fst snd].
  destruct rest as [|colon after]; [reflexivity|].
  rewrite h_last_is_eq, !h_rtrim_eq, trim_right_rtrim.
  unfold ref_trim. rewrite trim_right_rtrim, trim_left_ltrim.
  destruct (lenN name =? 0) eqn:E0.
  { assert (name = []) by (destruct name; [reflexivity|cbn [lenN] in E0; lia]). subst name.
    destruct req; reflexivity. }
  destruct (65534 <? lenN name) eqn:E1.
  { rewrite orb_true_r. reflexivity. }
  rewrite orb_false_r.
  assert (Hfin : forall nm : bytes,
    match nm with
    | [] => None
    | _ :: _ => if negb (forallb cs_TCHAR nm) then None
                else if 65534 <? lenN (rtrim (ltrim after)) then None
                else let '(id, n0) := canon_name nm in
                     Some {| he_id := id; he_name := n0; he_value := c_str (rtrim (ltrim after)) |}
    end =
    match (if (lenN nm =? 0) || negb (forallb cs_TCHAR nm) then None
           else if 65534 <? lenN (rtrim (ltrim after)) then None
           else Some (nm, rtrim (ltrim after))) with
    | Some (name0, value) =>
      Some {| he_id := fst (canon_name name0); he_name := snd (canon_name name0); he_value := c_str value |}
    | None => None
    end).
  { intros nm. destruct nm as [|x xs]; [reflexivity|].
    replace (lenN (x :: xs) =? 0) with false by (cbn [lenN]; lia). cbn [orb].
    destruct (negb (forallb cs_TCHAR (x :: xs))); [reflexivity|].
    destruct (65534 <? lenN (rtrim (ltrim after))); [reflexivity|].
    destruct (canon_name (x :: xs)); reflexivity. }
  destruct (last_is c_isspace name) eqn:El.
  - destruct req.
    + (* request: rejected by the model; the name is not a token *)
      rewrite E0. cbn [orb].
      assert (Ht : forallb cs_TCHAR name = false).
      { destruct (forallb cs_TCHAR name) eqn:Ht; [|reflexivity].
        destruct (last_is_forall _ _ _ Ht El) as (c & Hc & Hs). destruct (tchar_facts c Hc) as (A & _). congruence. }
      rewrite Ht. reflexivity.
    + apply Hfin.
  - rewrite (rtrim_no_trail name El). destruct req; apply Hfin.
Qed.

(* ================================================================== 5. the loop is the pipeline *)
Definition NN (l : bytes) : Prop := forallb (fun c => negb (c =? 0)) l = true.

Lemma NN_app a b : NN (a ++ b) <-> NN a /\ NN b.
Proof. unfold NN. rewrite forallb_app. split; [apply andb_prop|intros [-> ->]; reflexivity]. Qed.
Lemma NN_rev l : NN l -> NN (rev l).
Proof.
  unfold NN. rewrite !forallb_forall. intros H x Hx. apply H. now apply in_rev.
Qed.
Lemma NN_tl l : NN l -> NN (tl l).
Proof. destruct l; [auto|]. unfold NN. cbn [forallb tl]. intros H. now apply andb_prop in H as [_ H]. Qed.
Lemma NN_span_snd p l : NN l -> NN (snd (span p l)).
Proof. intros H. rewrite <- (span_app p l) in H. now apply NN_app in H as [_ H]. Qed.
Lemma NN_span_fst p l : NN l -> NN (fst (span p l)).
Proof. intros H. rewrite <- (span_app p l) in H. now apply NN_app in H as [H _]. Qed.
Lemma NN_ltrim l : NN l -> NN (ltrim l).
Proof. apply NN_span_snd. Qed.
Lemma NN_rtrim l : NN l -> NN (rtrim l).
Proof. intros H. unfold rtrim. now apply NN_rev, NN_span_snd, NN_rev. Qed.
Lemma NN_body l : NN l -> NN (ref_body l).
Proof. intros H. unfold ref_body, strip_last. destruct (ref_ends_cr l); [|exact H]. now apply NN_rev, NN_tl, NN_rev. Qed.
Lemma NN_map_cr l : NN l -> NN (map cr_to_sp l).
Proof.
  unfold NN. induction l as [|c r IH]; cbn [map forallb]; [auto|]. intros H.
  apply andb_prop in H as [Hc Hr]. rewrite (IH Hr). unfold cr_to_sp, is_cr. destruct (c =? 13); [reflexivity|now rewrite Hc].
Qed.
Lemma NN_text relaxed l : NN l -> NN (ref_line_text relaxed l).
Proof. intros H. unfold ref_line_text. destruct relaxed; [apply NN_map_cr|]; now apply NN_body. Qed.
Lemma NN_eol l : NN (ref_eol l).
Proof. unfold ref_eol. destruct (ref_ends_cr l); reflexivity. Qed.
Lemma NN_group_text relaxed g : Forall NN g -> NN (ref_group_text relaxed g).
Proof.
  induction g as [|l r IH]; intros H; [reflexivity|]. inversion H as [|? ? Hl Hr]; subst.
  cbn [ref_group_text]. destruct r as [|l2 r2]; [now apply NN_text|].
  apply NN_app; split; [now apply NN_text|]. apply NN_app; split; [apply NN_eol|now apply IH].
Qed.
Lemma c_str_NN l : NN l -> c_str l = l.
Proof. apply c_str_nonul. Qed.

Lemma before_colon_parts l n v : ref_before_colon l = Some (n, v) -> l = n ++ 58 :: v.
Proof.
  revert n v; induction l as [|c r IH]; intros n v; cbn [ref_before_colon]; [discriminate|].
  destruct (c =? 58) eqn:E.
  - intros [= <- <-]. apply N.eqb_eq in E. now subst c.
  - destruct (ref_before_colon r) as [[n' v']|]; [|discriminate]. intros [= <- <-].
    cbn [app]. now rewrite (IH _ _ eq_refl).
Qed.

Lemma ref_split_NN req text name value : NN text -> ref_split req text = Some (name, value) -> NN value.
Proof.
  unfold ref_split. intros H. destruct (ref_before_colon text) as [[rn rv]|] eqn:E; [|discriminate].
  apply before_colon_parts in E. subst text. apply NN_app in H as [_ H].
  assert (Hv : NN rv) by (unfold NN in *; cbn [forallb] in H; now apply andb_prop in H as [_ H]).
  destruct (_ || _); [discriminate|]. destruct (65534 <? _); [discriminate|]. intros [= <- <-].
  unfold ref_trim. rewrite trim_right_rtrim, trim_left_ltrim. now apply NN_rtrim, NN_ltrim.
Qed.

(* accumulated state of the lines already read into the current field *)
Definition acc_of (relaxed : bool) (pre : list bytes) : bytes :=
  concat (map (fun l => ref_line_text relaxed l ++ ref_eol l) pre).
Definition bare_of (pre : list bytes) : bool := existsb ref_has_bare_cr pre.
Definition isnil {A} (l : list A) : bool := match l with [] => true | _ => false end.
Definition pend (pre : list bytes) (gs : list (list bytes)) : list (list bytes) :=
  match gs with
  | [] => match pre with [] => [] | _ => [pre] end
  | g :: r => (pre ++ g) :: r
  end.

Lemma lines_ok_app relaxed req : forall a first b,
  ref_lines_ok relaxed req first (a ++ b) =
  ref_lines_ok relaxed req first a && ref_lines_ok relaxed req (first && isnil a) b.
Proof.
  induction a as [|x a IH]; intros first b; cbn [app ref_lines_ok isnil].
  - now rewrite andb_true_r.
  - rewrite IH. rewrite andb_false_r. cbn [andb]. now rewrite andb_assoc.
Qed.

Lemma group_text_snoc relaxed : forall pre ln,
  ref_group_text relaxed (pre ++ [ln]) = acc_of relaxed pre ++ ref_line_text relaxed ln.
Proof.
  induction pre as [|x pre IH]; intros ln; [reflexivity|].
  cbn [app]. unfold acc_of. cbn [map concat]. fold (acc_of relaxed pre).
  change (ref_group_text relaxed (x :: pre ++ [ln])) with
    (match pre ++ [ln] with [] => ref_line_text relaxed x
     | _ :: _ => ref_line_text relaxed x ++ ref_eol x ++ ref_group_text relaxed (pre ++ [ln]) end).
  destruct (pre ++ [ln]) eqn:E; [destruct pre; discriminate|]. rewrite <- E, IH. now rewrite <- !app_assoc.
Qed.

Lemma acc_of_snoc relaxed pre ln :
  acc_of relaxed (pre ++ [ln]) = acc_of relaxed pre ++ ref_line_text relaxed ln ++ ref_eol ln.
Proof. unfold acc_of. rewrite map_app, concat_app. cbn [map concat]. now rewrite app_nil_r. Qed.

Lemma lenN_snoc {A} (l : list A) x : lenN (l ++ [x]) = N.succ (lenN l).
Proof. rewrite lenN_app. cbn [lenN]. lia. Qed.

Lemma lenN_pos_isnil {A} (l : list A) : (0 <? lenN l) = negb (isnil l).
Proof. destruct l; cbn [lenN isnil negb]; lia. Qed.

Lemma loop_rem relaxed req : forall lines rem acc nl bare, rem <> [] ->
  h_fields_loop relaxed req lines rem acc nl bare = None.
Proof.
  induction lines as [|ln rest IH]; intros rem acc nl bare Hr; cbn [h_fields_loop].
  - destruct rem; [contradiction|reflexivity].
  - destruct (h_proc_line relaxed req ln (0 <? nl)) as [[[fe cr] b1]|]; [|reflexivity].
    match goal with |- (if ?c then _ else _) = _ => destruct c end.
    + destruct rest; [reflexivity|]. now apply IH.
    + destruct (acc ++ fe) as [|b l].
      * destruct rest; [destruct rem; [contradiction|reflexivity]|reflexivity].
      * destruct (h_entry_parse req (b :: l)); [|reflexivity].
        match goal with |- (if ?c then _ else _) = _ => destruct c end; [reflexivity|].
        now rewrite IH.
Qed.

Lemma next_cont_eq (rest : list bytes) :
  match (match rest with [] => [] | x :: _ => x ++ [10] end) with
  | c :: _ => (c =? 32) || (c =? 9) | [] => false end = ref_next_is_cont rest.
Proof. destruct rest as [|x r]; [reflexivity|]. destruct x; reflexivity. Qed.

Lemma ref_field_snoc relaxed req pre ln :
  Forall NN (pre ++ [ln]) ->
  ref_field relaxed req (pre ++ [ln]) =
  match h_entry_parse req (acc_of relaxed pre ++ ref_line_text relaxed ln) with
  | None => None
  | Some e => if ((0 <? lenN pre) || bare_of pre || ref_has_bare_cr ln) && h_is_framing e then None else Some e
  end.
Proof.
  intros Hnn. unfold ref_field. rewrite group_text_snoc, entry_parse_ref.
  assert (Ht : NN (acc_of relaxed pre ++ ref_line_text relaxed ln)).
  { rewrite <- group_text_snoc. now apply NN_group_text. }
  destruct (ref_split req (acc_of relaxed pre ++ ref_line_text relaxed ln)) as [[name value]|] eqn:E; [|reflexivity].
  rewrite (c_str_NN value (ref_split_NN _ _ _ _ Ht E)).
  destruct (canon_name name) as [id nm]. cbn [fst snd].
  rewrite lenN_snoc. unfold bare_of. rewrite existsb_app. cbn [existsb]. rewrite orb_false_r.
  replace (1 <? N.succ (lenN pre)) with (0 <? lenN pre) by lia. rewrite orb_assoc. reflexivity.
Qed.

Theorem loop_is_pipeline relaxed req : forall lines pre,
  Forall NN lines -> Forall NN pre ->
  ref_lines_ok relaxed req true pre = true ->
  (pre = [] \/ ref_next_is_cont lines = true) ->
  h_fields_loop relaxed req lines [] (acc_of relaxed pre) (lenN pre) (bare_of pre) =
  ref_process relaxed req (pend pre (ref_groups lines)).
Proof.
  induction lines as [|ln rest IH]; intros pre Hnl Hnp Hok Hpre.
  - destruct Hpre as [->|Hc]; [reflexivity|discriminate].
  - inversion Hnl as [|? ? Hln Hrest]; subst.
    cbn [h_fields_loop]. rewrite h_proc_line_eq, proc_line_ref, next_cont_eq, lenN_pos_isnil, negb_involutive.
    assert (Hnp' : Forall NN (pre ++ [ln])) by (apply Forall_app; split; [exact Hnp|now constructor]).
    assert (Hok' : ref_lines_ok relaxed req true (pre ++ [ln]) = ref_line_ok relaxed req (isnil pre) ln).
    { rewrite lines_ok_app, Hok. cbn [andb ref_lines_ok]. now rewrite andb_true_r. }
    rewrite ref_groups_cons.
    destruct (ref_next_is_cont rest) eqn:Ec.
    + (* the next line continues this field *)
      destruct rest as [|n rest']; [discriminate|].
      destruct (ref_groups (n :: rest')) as [|g gs] eqn:Eg; [apply ref_groups_nil in Eg; discriminate|].
      cbn [pend].
      destruct (ref_line_ok relaxed req (isnil pre) ln) eqn:El.
      * rewrite <- acc_of_snoc. rewrite <- lenN_snoc with (x := ln).
        replace (bare_of pre || ref_has_bare_cr ln) with (bare_of (pre ++ [ln]))
          by (unfold bare_of; rewrite existsb_app; cbn [existsb]; now rewrite orb_false_r).
        rewrite (IH (pre ++ [ln]) Hrest Hnp'); [|now rewrite Hok'|now right].
        cbn [pend]. now rewrite <- app_assoc.
      * cbn [ref_process].
        replace (pre ++ ln :: g) with ((pre ++ [ln]) ++ g) by now rewrite <- app_assoc.
        rewrite lines_ok_app, Hok'. reflexivity.
    + (* this line ends the field *)
      assert (Hgs : pend pre (match ref_groups rest with
                              | [] => [[ln]]
                              | g :: gs => [ln] :: g :: gs end) = (pre ++ [ln]) :: ref_groups rest).
      { destruct (ref_groups rest); reflexivity. }
      rewrite Hgs. cbn [ref_process]. rewrite Hok'.
      destruct (ref_line_ok relaxed req (isnil pre) ln) eqn:El; [|reflexivity]. cbn [negb].
      rewrite group_text_snoc.
      assert (Hrec : h_fields_loop relaxed req rest [] [] 0 false = ref_process relaxed req (ref_groups rest)).
      { change [] with (acc_of relaxed []) at 2. change 0 with (lenN (@nil bytes)). change false with (bare_of []).
        rewrite (IH [] Hrest ltac:(constructor) eq_refl ltac:(now left)).
        destruct (ref_groups rest); reflexivity. }
      destruct (acc_of relaxed pre ++ ref_line_text relaxed ln) as [|b l] eqn:Et.
      * destruct rest as [|n rest']; [reflexivity|].
        destruct (ref_groups (n :: rest')) eqn:Eg; [apply ref_groups_nil in Eg; discriminate|reflexivity].
      * rewrite <- Et. rewrite (ref_field_snoc relaxed req pre ln Hnp').
        destruct (h_entry_parse req (acc_of relaxed pre ++ ref_line_text relaxed ln)) as [e|]; [|reflexivity].
        rewrite lenN_pos_isnil.
        replace (0 <? lenN pre) with (negb (isnil pre)) by now rewrite lenN_pos_isnil.
        match goal with |- (if ?c then _ else _) = _ => destruct c end; [reflexivity|].
        now rewrite Hrec.
Qed.

Lemma NN_lines block ls rem : NN block -> split_lines block = (ls, rem) -> Forall NN ls.
Proof.
  intros H E. destruct (split_lines_join _ _ _ E) as (-> & _ & _). apply NN_app in H as [H _].
  clear E. induction ls as [|x xs IH]; [constructor|].
  unfold join_lines in H. cbn [map concat] in H. apply NN_app in H as [Hx Hxs].
  apply NN_app in Hx as [Hx _]. constructor; [exact Hx|now apply IH].
Qed.

(* the field loop of HttpHeader::parse computes exactly the reference reading, accept and reject alike *)
Theorem block_fields_is_reference relaxed req block :
  h_block_fields relaxed req block = ref_fields relaxed req block.
Proof.
  unfold h_block_fields, ref_fields, ref_lines, has_nul. rewrite ref_cut_is_split.
  destruct (existsb (N.eqb 0) block) eqn:En; [reflexivity|].
  assert (Hnn : NN block).
  { unfold NN. apply forallb_forall. intros x Hx. destruct (x =? 0) eqn:E; [|reflexivity].
    assert (existsb (N.eqb 0) block = true); [|congruence].
    apply existsb_exists. exists x. split; [exact Hx|]. apply N.eqb_eq in E. subst. reflexivity. }
  destruct (split_lines block) as [ls rem] eqn:Es.
  destruct rem as [|r0 rem].
  - change [] with (acc_of relaxed []) at 2. change 0 with (lenN (@nil bytes)). change false with (bare_of []).
    rewrite (loop_is_pipeline relaxed req ls [] (NN_lines _ _ _ Hnn Es) ltac:(constructor) eq_refl ltac:(now left)).
    destruct (ref_groups ls); reflexivity.
  - now apply loop_rem.
Qed.

(* ================================================================== 6. trimming and names, declaratively *)
Lemma ltrim_exact l : exists a, l = a ++ ltrim l /\ forallb c_isspace a = true /\
  match ltrim l with c :: _ => c_isspace c = false | [] => True end.
Proof.
  exists (fst (span c_isspace l)). unfold ltrim. split; [symmetry; apply span_app|].
  split; [apply span_all|apply span_stop].
Qed.

Lemma last_is_rev_head p l : last_is p l = match rev l with c :: _ => p c | [] => false end.
Proof. reflexivity. Qed.

Lemma rtrim_exact l : exists b, l = rtrim l ++ b /\ forallb c_isspace b = true /\
  last_is c_isspace (rtrim l) = false.
Proof.
  destruct (ltrim_exact (rev l)) as (a & Ha & Hs & Hf). exists (rev a). unfold rtrim. fold (ltrim (rev l)).
  split; [|split].
  - rewrite <- rev_app_distr, <- Ha. symmetry; apply rev_involutive.
  - rewrite forallb_forall in *. intros x Hx. apply Hs. now apply in_rev.
  - rewrite last_is_rev_head, rev_involutive. destruct (ltrim (rev l)); [reflexivity|exact Hf].
Qed.

(* the stored value is the maximal white-space-free-ended infix *)
Theorem ref_trim_exact l : exists a b, l = a ++ ref_trim l ++ b /\
  forallb ref_ows a = true /\ forallb ref_ows b = true /\
  match ref_trim l with c :: _ => ref_ows c = false | [] => True end /\
  last_is ref_ows (ref_trim l) = false.
Proof.
  unfold ref_trim. rewrite trim_right_rtrim, trim_left_ltrim.
  destruct (ltrim_exact l) as (a & Ha & Hsa & Hfa). destruct (rtrim_exact (ltrim l)) as (b & Hb & Hsb & Hlb).
  exists a, b. split; [now rewrite <- Hb|].
  split; [erewrite forallb_eqf; [exact Hsa|apply ows_is_space]|].
  split; [erewrite forallb_eqf; [exact Hsb|apply ows_is_space]|]. split.
  - destruct (rtrim (ltrim l)) as [|c r] eqn:E; [exact I|]. rewrite ows_is_space.
    rewrite Hb in Hfa. cbn [app] in Hfa. exact Hfa.
  - rewrite last_is_rev_head in *. destruct (rev (rtrim (ltrim l))); [reflexivity|]. now rewrite ows_is_space.
Qed.

Lemma tbl_find_spec tbl name :
  match tbl_find tbl name with
  | Some (id, nm) => ci_eqb name nm = true /\ exists fl, In (id, nm, fl) tbl
  | None => forall id nm fl, In (id, nm, fl) tbl -> ci_eqb name nm = false
  end.
Proof.
  induction tbl as [|[[id nm] fl] r IH]; cbn [tbl_find].
  - intros ? ? ? [].
  - destruct (ci_eqb name nm) eqn:E.
    + split; [exact E|]. exists fl. now left.
    + destruct (tbl_find r name) as [[id' nm']|].
      * destruct IH as (A & fl' & B). split; [exact A|]. exists fl'. now right.
      * intros i n f [[= <- <- <-]|H]; [exact E|]. exact (IH _ _ _ H).
Qed.

Lemma ci_eqb_refl a : ci_eqb a a = true.
Proof. unfold ci_eqb. induction (map lower a) as [|x l IH]; cbn [list_eqb]; [reflexivity|]. now rewrite N.eqb_refl. Qed.

(* stored id and spelling: the registered record with the same name up to ASCII case, else (OTHER, as written) *)
Theorem canon_name_exact name :
  ci_eqb name (snd (canon_name name)) = true /\
  ((exists fl, In (fst (canon_name name), snd (canon_name name), fl) hdr_table) \/
   (canon_name name = (hdr_OTHER, name) /\ forall id nm fl, In (id, nm, fl) hdr_table -> ci_eqb name nm = false)).
Proof.
  unfold canon_name. pose proof (tbl_find_spec hdr_table name) as H.
  destruct (tbl_find hdr_table name) as [[id nm]|]; cbn [fst snd].
  - destruct H as (A & B). split; [exact A|now left].
  - split; [apply ci_eqb_refl|right]. split; [reflexivity|exact H].
Qed.

(* ================================================================== 7. stored entries vs reference fields *)
Definition not_cl (e : hentry) : bool := negb (he_id e =? ID_CL).
Definition not_fr (e : hentry) : bool := negb (h_is_framing e).

Lemma filter_filter_imp {A} (f g : A -> bool) l : (forall x, f x = true -> g x = true) ->
  filter f (filter g l) = filter f l.
Proof.
  intros H. induction l as [|x l IH]; cbn [filter]; [reflexivity|].
  destruct (g x) eqn:Eg; cbn [filter]; [now rewrite IH|].
  destruct (f x) eqn:Ef; [rewrite (H x Ef) in Eg; discriminate|exact IH].
Qed.

Lemma filter_all {A} (f : A -> bool) l : forallb f l = true -> filter f l = l.
Proof.
  induction l as [|x l IH]; cbn [forallb filter]; [reflexivity|]. intros H.
  apply andb_prop in H as [Hx Hl]. now rewrite Hx, (IH Hl).
Qed.

Lemma not_fr_not_cl e : not_fr e = true -> not_cl e = true.
Proof. unfold not_fr, not_cl, h_is_framing. destruct (he_id e =? ID_CL); [discriminate|reflexivity]. Qed.

Lemma entries_loop_keeps relaxed : forall es st kept st',
  h_entries_loop relaxed es st = Some (kept, st') ->
  filter not_cl kept = filter not_cl es /\ (forallb not_cl es = true -> kept = es /\ st' = st).
Proof.
  induction es as [|e es IH]; intros st kept st'; cbn [h_entries_loop].
  - intros [= <- <-]. now split.
  - cbn [filter forallb]. destruct (he_id e =? ID_CL) eqn:Ei.
    + assert (Hn : not_cl e = false) by (unfold not_cl; now rewrite Ei). rewrite Hn. cbn [andb].
      destruct (check_field relaxed st (he_value e)) as [k st1]. destruct k.
      * destruct (h_entries_loop relaxed es st1) as [[k' s']|] eqn:E; [|discriminate].
        intros [= <- <-]. cbn [filter]. rewrite Hn.
        split; [exact (proj1 (IH _ _ _ E))|discriminate].
      * destruct relaxed; [|discriminate]. intros H. split; [exact (proj1 (IH _ _ _ H))|discriminate].
    + assert (Hn : not_cl e = true) by (unfold not_cl; now rewrite Ei). rewrite Hn. cbn [andb].
      destruct (h_entries_loop relaxed es st) as [[k' s']|] eqn:E; [|discriminate].
      intros [= <- <-]. cbn [filter]. rewrite Hn.
      destruct (IH _ _ _ E) as [A B]. split; [now rewrite A|].
      intros H. destruct (B H) as [-> ->]. now split.
Qed.

Lemma del_cl_is_filter l : h_del_id ID_CL l = filter not_cl l.
Proof. reflexivity. Qed.

Lemma cl_entry_is_cl v : not_cl (h_cl_entry v) = false.
Proof. unfold not_cl, h_cl_entry. cbn [he_id]. now rewrite N.eqb_refl. Qed.

Lemma post_process_keeps proh kept st :
  filter not_fr (hr_entries (h_post_process proh kept st)) = filter not_fr kept /\
  (proh = false -> filter not_cl (hr_entries (h_post_process proh kept st)) = filter not_cl kept) /\
  (proh = false -> forallb not_cl kept = true -> st = cl_init -> hr_entries (h_post_process proh kept st) = kept).
Proof.
  unfold h_post_process. destruct proh.
  - cbn [hr_entries]. split; [|split; discriminate].
    unfold h_del_id. rewrite !filter_filter_imp; [reflexivity| |].
    + intros x. apply not_fr_not_cl.
    + intros x. unfold not_fr, h_is_framing. destruct (he_id x =? ID_TE); [rewrite orb_true_r; discriminate|reflexivity].
  - destruct (h_has_id ID_TE kept); [|destruct (cl_sawBad st) eqn:Eb; [|destruct (cl_needsSan st) eqn:Es]];
      cbn [hr_entries]; rewrite ?del_cl_is_filter.
    + split; [apply filter_filter_imp, not_fr_not_cl|]. split; intros _.
      * apply filter_filter_imp. auto.
      * intros H _. now apply filter_all.
    + split; [apply filter_filter_imp, not_fr_not_cl|]. split; intros _.
      * apply filter_filter_imp. auto.
      * intros H _. now apply filter_all.
    + assert (Hx : forall f : hentry -> bool, (forall v, f (h_cl_entry v) = false) ->
                filter f (filter not_cl kept ++ (if cl_sawGood st then [h_cl_entry (cl_value st)] else [])) =
                filter f (filter not_cl kept)).
      { intros f Hf. rewrite filter_app. destruct (cl_sawGood st); cbn [filter]; [rewrite Hf|]; apply app_nil_r. }
      split; [|split; intros _].
      * rewrite Hx; [apply filter_filter_imp, not_fr_not_cl|].
        intros v. unfold not_fr. destruct (not_cl (h_cl_entry v)) eqn:E; [now rewrite cl_entry_is_cl in E|].
        unfold not_cl in E. unfold h_is_framing. destruct (he_id (h_cl_entry v) =? ID_CL); [reflexivity|discriminate].
      * rewrite Hx; [apply filter_filter_imp; auto|apply cl_entry_is_cl].
      * intros _ ->. discriminate.
    + split; [reflexivity|]. split; reflexivity.
Qed.

(* the stored entries of an accepted block are the reference fields, except for what HttpHeader::parse
   does to Content-Length (drop / sanitise: property C26) and, for 1xx/204/trailers, Transfer-Encoding *)
Theorem stored_fields relaxed req proh block r :
  h_parse relaxed req proh block = Some r ->
  exists fs, ref_fields relaxed req block = Some fs /\
    filter not_fr (hr_entries r) = filter not_fr fs /\
    (proh = false -> filter not_cl (hr_entries r) = filter not_cl fs) /\
    (proh = false -> forallb not_cl fs = true -> hr_entries r = fs).
Proof.
  unfold h_parse. rewrite block_fields_is_reference.
  destruct (ref_fields relaxed req block) as [fs|]; [|discriminate].
  destruct (h_entries_loop relaxed fs cl_init) as [[kept st]|] eqn:E; [|discriminate].
  intros [= <-]. exists fs. split; [reflexivity|].
  destruct (entries_loop_keeps _ _ _ _ _ E) as [A B].
  destruct (post_process_keeps proh kept st) as (P1 & P2 & P3).
  split; [|split].
  - rewrite P1. rewrite <- (filter_filter_imp not_fr not_cl kept not_fr_not_cl), A.
    apply filter_filter_imp, not_fr_not_cl.
  - intros Hp. now rewrite (P2 Hp).
  - intros Hp Hf. destruct (B Hf) as [-> ->]. now apply P3.
Qed.

(* ================================================================== 8. what an accepted block looks like *)
Lemma process_groups_ok relaxed req : forall gs es, ref_process relaxed req gs = Some es ->
  forall g, In g gs -> ref_lines_ok relaxed req true g = true /\
    (ref_group_text relaxed g = [] \/ exists e, ref_field relaxed req g = Some e).
Proof.
  induction gs as [|g0 rest IH]; intros es H g Hin; [destruct Hin|].
  cbn [ref_process] in H. destruct (ref_lines_ok relaxed req true g0) eqn:Eo; [|discriminate]. cbn [negb] in H.
  destruct (ref_group_text relaxed g0) as [|b l] eqn:Et.
  - destruct rest; [|discriminate]. destruct Hin as [<-|[]]. split; [exact Eo|now left].
  - destruct (ref_field relaxed req g0) as [e|] eqn:Ef; [|discriminate].
    destruct (ref_process relaxed req rest) as [es'|] eqn:Er; [|discriminate].
    destruct Hin as [<-|Hin].
    + split; [exact Eo|]. right. eauto.
    + exact (IH _ eq_refl g Hin).
Qed.

Lemma accepted_groups relaxed req proh block r :
  h_parse relaxed req proh block = Some r ->
  exists ls, ref_lines block = Some ls /\
    forall g, In g (ref_groups ls) -> ref_lines_ok relaxed req true g = true /\
      (ref_group_text relaxed g = [] \/ exists e, ref_field relaxed req g = Some e).
Proof.
  unfold h_parse. rewrite block_fields_is_reference. unfold ref_fields.
  destruct (existsb (N.eqb 0) block); [discriminate|].
  destruct (ref_lines block) as [ls|]; [|discriminate].
  destruct (ref_process relaxed req (ref_groups ls)) as [es|] eqn:E; [|discriminate].
  intros _. exists ls. split; [reflexivity|]. exact (process_groups_ok _ _ _ _ E).
Qed.

Lemma lines_ok_in relaxed req : forall g first ln, ref_lines_ok relaxed req first g = true -> In ln g ->
  exists f, ref_line_ok relaxed req f ln = true.
Proof.
  induction g as [|x g IH]; intros first ln H Hin; [destruct Hin|].
  cbn [ref_lines_ok] in H. apply andb_prop in H as [Hx Hg]. destruct Hin as [<-|Hin]; [eauto|eauto].
Qed.

Lemma in_concat_groups ls ln : In ln ls -> exists g, In g (ref_groups ls) /\ In ln g.
Proof. intros H. rewrite <- (ref_groups_concat ls) in H. apply in_concat in H as (g & A & B). eauto. Qed.

Lemma strip_last_snoc a (c : N) : strip_last (a ++ [c]) = a.
Proof. unfold strip_last. rewrite rev_unit. cbn [tl]. apply rev_involutive. Qed.

(* a request line made of CRs only (CR CR+ LF) is never accepted *)
Theorem rejects_cr_only_line relaxed proh block ls ln :
  ref_lines block = Some ls -> In ln ls -> forallb is_cr ln = true -> 2 <= lenN ln ->
  h_parse relaxed true proh block = None.
Proof.
  intros Hl Hin Hcr Hlen. destruct (h_parse relaxed true proh block) as [r|] eqn:E; [|reflexivity]. exfalso.
  destruct (accepted_groups _ _ _ _ _ E) as (ls' & Hl' & Hg). rewrite Hl in Hl'. injection Hl' as <-.
  destruct (in_concat_groups ls ln Hin) as (g & Hgin & Hlg).
  destruct (Hg g Hgin) as [Hok _]. destruct (lines_ok_in _ _ _ _ _ Hok Hlg) as (f & Hf).
  destruct (list_snoc_cases ln) as [->|(a & c & ->)]; [cbn [lenN] in Hlen; lia|].
  rewrite forallb_app in Hcr. apply andb_prop in Hcr as [Ha Hc]. cbn [forallb] in Hc. rewrite andb_true_r in Hc.
  unfold ref_line_ok, ref_body, ref_ends_cr in Hf. rewrite last_is_snoc, Hc, strip_last_snoc, Ha in Hf.
  rewrite lenN_snoc in Hlen. replace (lenN a =? 0) with false in Hf by lia. discriminate.
Qed.

(* white space between field name and colon: the field-line (lines of the group joined) is not accepted in a request *)
Lemma req_split_ws text rn rv : ref_before_colon text = Some (rn, rv) -> last_is c_isspace rn = true ->
  ref_split true text = None.
Proof.
  intros Hb Hl. unfold ref_split. rewrite Hb.
  destruct (forallb cs_TCHAR rn) eqn:Ht.
  - destruct (last_is_forall _ _ _ Ht Hl) as (c & Hc & Hs). destruct (tchar_facts c Hc) as (A & _). congruence.
  - cbn [negb]. now rewrite !orb_true_r.
Qed.

Theorem rejects_ws_before_colon relaxed proh block ls g rn rv :
  ref_lines block = Some ls -> In g (ref_groups ls) ->
  ref_before_colon (ref_group_text relaxed g) = Some (rn, rv) -> last_is c_isspace rn = true ->
  h_parse relaxed true proh block = None.
Proof.
  intros Hl Hin Hb Hws. destruct (h_parse relaxed true proh block) as [r|] eqn:E; [|reflexivity]. exfalso.
  destruct (accepted_groups _ _ _ _ _ E) as (ls' & Hl' & Hg). rewrite Hl in Hl'. injection Hl' as <-.
  destruct (Hg g Hin) as [_ [Ht|(e & He)]].
  - rewrite Ht in Hb. discriminate.
  - unfold ref_field in He. rewrite (req_split_ws _ _ _ Hb Hws) in He. discriminate.
Qed.

(* the same at the level of HttpHeaderEntry::parse *)
Theorem entry_rejects_ws_before_colon name w rest :
  forallb (fun c => negb (c =? 58)) name = true -> c_isspace w = true ->
  h_entry_parse true (name ++ w :: 58 :: rest) = None.
Proof.
  intros Hn Hw. rewrite entry_parse_ref.
  assert (Hb : ref_before_colon (name ++ w :: 58 :: rest) = Some (name ++ [w], rest)).
  { induction name as [|c r IH]; cbn [app ref_before_colon].
    - destruct (w =? 58) eqn:E; [apply N.eqb_eq in E; subst w; discriminate|]. now rewrite N.eqb_refl.
    - cbn [forallb] in Hn. apply andb_prop in Hn as [Hc Hr]. destruct (c =? 58); [discriminate|].
      now rewrite (IH Hr). }
  rewrite (req_split_ws _ _ _ Hb); [reflexivity|]. now rewrite last_is_snoc.
Qed.

(* obs-fold or bare CR in Content-Length / Transfer-Encoding *)
Theorem rejects_suspicious_framing relaxed req proh block r :
  h_parse relaxed req proh block = Some r ->
  exists ls, ref_lines block = Some ls /\
    forall g name value, In g (ref_groups ls) ->
      (1 <? lenN g) || existsb ref_has_bare_cr g = true ->
      ref_split req (ref_group_text relaxed g) = Some (name, value) ->
      fst (canon_name name) <> ID_CL /\ fst (canon_name name) <> ID_TE.
Proof.
  intros E. destruct (accepted_groups _ _ _ _ _ E) as (ls & Hl & Hg). exists ls. split; [exact Hl|].
  intros g name value Hin Hs Hsp. destruct (Hg g Hin) as [_ [Ht|(e & He)]].
  - rewrite Ht in Hsp. discriminate.
  - unfold ref_field in He. rewrite Hsp, Hs in He. destruct (canon_name name) as [id nm]. cbn [fst].
    unfold h_is_framing in He. cbn [he_id andb] in He.
    destruct (id =? ID_CL) eqn:E1, (id =? ID_TE) eqn:E2; cbn [orb] in He; try discriminate. split; lia.
Qed.

Theorem rejects_nul relaxed req proh block : In 0 block -> h_parse relaxed req proh block = None.
Proof.
  intros H. unfold h_parse, h_block_fields.
  assert (E : has_nul block = true).
  { unfold has_nul. apply existsb_exists. exists 0. split; [exact H|reflexivity]. }
  now rewrite E.
Qed.

Theorem groups_exact ls :
  concat (ref_groups ls) = ls /\ Forall group_shape (ref_groups ls) /\ heads_ok (ref_groups ls).
Proof. split; [apply ref_groups_concat|]. split; apply (ref_groups_shape ls). Qed.
