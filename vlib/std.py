"""Standard three-stage check: P (proof against regenerated tables),
C (correspondence model vs implementation), S (search with the property's
executable oracle on the implementation)."""
import json, os, random, time
from .common import sh, seed, VERIF, COQ
from . import coq, corr, hbuild, tables

TRUSTED_COMMON = [
    "Coq 8.16.1 kernel (coqc); vm_compute used inside proofs for finite sweeps; no native_compute",
    "no Axiom/Parameter/Admitted in /verif/coq (scanned on every run); per-theorem Print Assumptions output is in coverage.print_assumptions",
    "table generators under /verif/gen (compiled against /repo on every run) are trusted to print what the code computes",
    "extraction uses ExtrOcamlBasic only: Extract Inductive bool=>bool, option=>option, unit=>unit, list=>list, prod=>(*), sumbool=>bool, sumor=>option; Extract Inlined Constant andb=>(&&), orb=>(||); N/Z/positive/nat stay extracted datatypes; OCaml 4.13.1 compiler and ml/runner.ml glue trusted",
    "correspondence is differential testing on generated inputs: it validates the hand-written model against the code on the explored cases only",
]


def proof_stage(res, pid, gens=()):
    """Regenerate tables, scan for forbidden constructs, re-check the property
    file. Returns (ok, error_text)."""
    res.trusted = list(TRUSTED_COMMON) + res.trusted
    try:
        if gens:
            tables.regenerate(gens, res)
    except Exception as ex:  # generator does not build/run against this tree
        return False, "table generator failed: %s" % str(ex)[-1500:]
    bad = coq.forbidden_scan()
    if bad:
        return False, "forbidden constructs in the Coq development: " + "; ".join(bad[:5])
    ok, err = coq.check_property_file(pid, res)
    return ok, err


def corr_stage(res, cases, impl_exe, runner, kind_fn=None, nontrivial_fn=None, impl_env=None,
               norm_impl=None, norm_model=None, timeout=900):
    """Runs both sides; returns (impl_lines, model_lines, disagreements)."""
    impl = corr.run_lines(impl_exe, cases, timeout=timeout, env=impl_env)
    model = corr.run_lines(runner, cases, timeout=timeout)
    if norm_impl:
        impl = [norm_impl(x) for x in impl]
    if norm_model:
        model = [norm_model(x) for x in model]
    for c, a in zip(cases, impl):
        res.count_case(c, nontrivial=(nontrivial_fn(c, a) if nontrivial_fn else True),
                       kind=(kind_fn(c, a) if kind_fn else None))
    dis = corr.diff(cases, impl, model)
    return impl, model, dis


def no_input_violation(res, what, detail):
    res.fail("unproved:" + what, "%s no longer checks and no failing input was found: %s" % (what, detail),
             {"no_failing_input_found": True, "broken": what, "detail": detail})
