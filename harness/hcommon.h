// Common helpers for /verif harnesses (compiled only into harness units).
#ifndef VERIF_HCOMMON_H
#define VERIF_HCOMMON_H
#include <string>
#include <vector>
#include <iostream>
#include <sstream>
#include <cstdio>
#include <cstdint>

static inline int hexval(char c) {
    if (c >= '0' && c <= '9') return c - '0';
    if (c >= 'a' && c <= 'f') return c - 'a' + 10;
    if (c >= 'A' && c <= 'F') return c - 'A' + 10;
    return -1;
}
static inline std::string unhex(const std::string &h) {
    std::string out;
    if (h == "-") return out;
    for (size_t i = 0; i + 1 < h.size(); i += 2)
        out.push_back(static_cast<char>((hexval(h[i]) << 4) | hexval(h[i + 1])));
    return out;
}
static inline std::string tohex(const char *p, size_t n) {
    static const char *d = "0123456789abcdef";
    if (!n) return "-";
    std::string out;
    out.reserve(n * 2);
    for (size_t i = 0; i < n; ++i) {
        unsigned char c = static_cast<unsigned char>(p[i]);
        out.push_back(d[c >> 4]);
        out.push_back(d[c & 15]);
    }
    return out;
}
static inline std::string tohex(const std::string &s) { return tohex(s.data(), s.size()); }
static inline std::vector<std::string> splitws(const std::string &line) {
    std::vector<std::string> v;
    std::istringstream is(line);
    std::string w;
    while (is >> w) v.push_back(w);
    return v;
}
#endif
