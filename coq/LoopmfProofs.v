(* LoopmfProofs.v — proofs about LoopmfModel (C63). *)
Require Import SquidV.Bytes SquidV.HopModel SquidV.LoopmfModel.
Require Import SquidV.gen.HdrTable_gen SquidV.gen.Loopmf_gen.
Require Import ZifyBool ZifyN ZifyNat.
Local Open Scope N_scope.
Ltac Zify.zify_post_hook ::= Z.div_mod_to_equations.

(* ---------- the regenerated constants the model relies on ---------- *)
Lemma gen_tables_consistent :
  ID_VIA = gen_id_via /\ ID_MAX_FORWARDS = gen_id_max_forwards /\ gen_via_is_list = true /\ gen_max_forwards_is_int64 = true.
Proof. vm_compute. repeat split; reflexivity. Qed.

(* ================= strstr ================= *)
Lemma starts_with_spec l p : starts_with l p = true <-> exists r, l = p ++ r.
Proof.
  revert l; induction p as [|y p IH]; intros l; cbn [starts_with].
  - split; [intros _; exists l; reflexivity | intros _; destruct l; reflexivity].
  - destruct l as [|x l].
    + split; [discriminate | intros [r Hr]; discriminate].
    + split.
      * intros H. apply andb_true_iff in H. destruct H as [Hxy Hs].
        apply N.eqb_eq in Hxy. subst y. apply IH in Hs. destruct Hs as [r Hr]. exists r. cbn [app]. now rewrite Hr.
      * intros [r Hr]. cbn [app] in Hr. injection Hr as Hx Hl. subst y.
        apply andb_true_iff. split; [apply N.eqb_refl | apply IH; exists r; exact Hl].
Qed.

(* the strstr model finds the needle iff the text is  a ++ needle ++ b  for some a, b *)
Lemma is_substr_spec n h : is_substr n h = true <-> exists a b, h = a ++ n ++ b.
Proof.
  split.
  - induction h as [|x h IH]; cbn [is_substr]; intros H; apply orb_true_iff in H; destruct H as [H|H].
    + apply starts_with_spec in H. destruct H as [r Hr]. exists [], r. exact Hr.
    + discriminate.
    + apply starts_with_spec in H. destruct H as [r Hr]. exists [], r. exact Hr.
    + apply IH in H. destruct H as [a [b Hab]]. exists (x :: a), b. cbn [app]. now rewrite Hab.
  - intros [a [b Hab]]. subst h. induction a as [|x a IH].
    + cbn [app]. destruct (n ++ b) eqn:E; cbn [is_substr]; apply orb_true_iff; left; apply starts_with_spec; exists b; now rewrite E.
    + cbn [app is_substr]. apply orb_true_iff. right. exact IH.
Qed.

(* ================= 0-terminated text ================= *)
Definition nz (ch : N) : bool := negb (ch =? 0).
Definition nonul (l : bytes) : bool := forallb nz l.

Lemma c_str_app_nonul a b : nonul a = true -> c_str (a ++ b) = a ++ c_str b.
Proof.
  unfold c_str, nonul. induction a as [|x a IH]; intros H; cbn [app]; [reflexivity|].
  cbn [forallb] in H. apply andb_true_iff in H. destruct H as [Hx Ha].
  cbn [span]. unfold nz in Hx. rewrite Hx. specialize (IH Ha).
  destruct (span (fun c : N => negb (c =? 0)) (a ++ b)) as [u v] eqn:E. cbn [fst] in *. now rewrite IH.
Qed.

Lemma c_str_nonul a : nonul a = true -> c_str a = a.
Proof.
  intros H. rewrite <- (app_nil_r a) at 1. rewrite (c_str_app_nonul a [] H). unfold c_str. cbn [span fst]. apply app_nil_r.
Qed.

Lemma nonul_c_str l : nonul (c_str l) = true.
Proof. unfold c_str, nonul, nz. apply (span_all (fun c : N => negb (c =? 0))). Qed.

Lemma nonul_app a b : nonul (a ++ b) = nonul a && nonul b.
Proof. unfold nonul. apply forallb_app. Qed.

(* ================= the joined Via value ================= *)
Lemma sla_prefix vals : forall acc, exists t, str_list_add_all acc vals = acc ++ t.
Proof.
  induction vals as [|v r IH]; intros acc; cbn [str_list_add_all].
  - exists []. now rewrite app_nil_r.
  - destruct acc as [|x acc].
    + destruct (IH (c_str v)) as [t Ht]. exists (c_str v ++ t). exact Ht.
    + destruct (IH ((x :: acc) ++ [44; 32] ++ c_str v)) as [t Ht]. exists (([44; 32] ++ c_str v) ++ t).
      rewrite Ht. now rewrite <- !app_assoc.
Qed.

(* every field value (as C text) occurs in the joined value *)
Lemma sla_contains vals : forall acc v, In v vals -> exists a b, str_list_add_all acc vals = a ++ c_str v ++ b.
Proof.
  induction vals as [|w r IH]; intros acc v Hin; [destruct Hin|].
  cbn [str_list_add_all]. destruct Hin as [Hw|Hr].
  - subst w. destruct acc as [|x acc].
    + destruct (sla_prefix r (c_str v)) as [t Ht]. exists [], t. exact Ht.
    + destruct (sla_prefix r ((x :: acc) ++ [44; 32] ++ c_str v)) as [t Ht].
      exists ((x :: acc) ++ [44; 32]), t. rewrite Ht. now rewrite <- !app_assoc.
  - apply IH. exact Hr.
Qed.

Lemma sla_nonul vals : forall acc, nonul acc = true -> nonul (str_list_add_all acc vals) = true.
Proof.
  induction vals as [|v r IH]; intros acc Hacc; cbn [str_list_add_all]; [exact Hacc|].
  apply IH. destruct acc as [|x acc]; [apply nonul_c_str|].
  rewrite !nonul_app, Hacc, nonul_c_str. reflexivity.
Qed.

Lemma via_value_nonul hs : nonul (via_value hs) = true.
Proof. unfold via_value. apply sla_nonul. reflexivity. Qed.

Lemma has_via_in hs h : In h hs -> is_via h = true -> has_via hs = true.
Proof. intros Hin Hv. unfold has_via. apply existsb_exists. exists h. split; assumption. Qed.

Lemma via_value_contains hs h : In h hs -> is_via h = true -> exists a b, via_value hs = a ++ c_str (h_value h) ++ b.
Proof.
  intros Hin Hv. unfold via_value. apply sla_contains. apply in_map. apply filter_In. split; assumption.
Qed.

Lemma c_str_cons_space l : c_str (32 :: l) = 32 :: c_str l.
Proof. unfold c_str. cbn [span]. change (negb (32 =? 0)) with true. cbv iota. destruct (span _ l); reflexivity. Qed.

(* ---------- loop detection = substring test on the joined Via value ---------- *)
Lemma loop_detected_spec c hs :
  loop_detected c hs = true <->
  has_via hs = true /\ exists a b, via_value hs = a ++ c_str (this_cache2 c) ++ b.
Proof.
  unfold loop_detected. split.
  - intros H. apply andb_true_iff in H. destruct H as [Hh Hs]. split; [exact Hh|].
    destruct (via_value hs) as [|x s] eqn:E; [discriminate|]. apply is_substr_spec. exact Hs.
  - intros [Hh [a [b Hab]]]. rewrite Hh. cbn [andb]. rewrite Hab.
    assert (Hne : a ++ c_str (this_cache2 c) ++ b <> []).
    { unfold this_cache2. rewrite c_str_cons_space. destruct a; discriminate. }
    destruct (a ++ c_str (this_cache2 c) ++ b) as [|x s] eqn:E; [contradiction|].
    apply is_substr_spec. exists a, b. exact E.
Qed.

Lemma nonul_this_cache2 c : nonul (c_host c) = true -> nonul (c_app c) = true -> nonul (this_cache2 c) = true.
Proof.
  intros Hh Ha. unfold this_cache2, this_cache.
  change (32 :: c_host c ++ [32; 40] ++ c_app c ++ [41]) with ([32] ++ c_host c ++ [32; 40] ++ c_app c ++ [41]).
  rewrite !nonul_app, Hh, Ha. reflexivity.
Qed.

(* a Via field whose value contains " <host> (<app>)" anywhere (any list position, anything before and after,
   any number of other Via fields around it) sets loopDetected *)
Lemma own_entry_detected c hs h pre post :
  nonul (c_host c) = true -> nonul (c_app c) = true ->
  In h hs -> is_via h = true -> nonul pre = true ->
  h_value h = pre ++ this_cache2 c ++ post ->
  loop_detected c hs = true.
Proof.
  intros Hh Ha Hin Hv Hpre Hval. apply loop_detected_spec. split; [eapply has_via_in; eassumption|].
  destruct (via_value_contains hs h Hin Hv) as [a [b Hab]].
  pose proof (nonul_this_cache2 c Hh Ha) as Htc.
  rewrite Hval in Hab. rewrite (c_str_app_nonul pre _ Hpre), (c_str_app_nonul _ post Htc) in Hab.
  rewrite (c_str_nonul _ Htc).
  exists (a ++ pre), (c_str post ++ b). rewrite Hab. now rewrite <- !app_assoc.
Qed.

(* ---------- decimal printing ---------- *)
Lemma dec_fuel_nonul f : forall n acc, nonul acc = true -> nonul (dec_fuel f n acc) = true.
Proof.
  induction f as [|f IH]; intros n acc Hacc; cbn [dec_fuel]; [exact Hacc|].
  assert (H1 : nonul ((48 + n mod 10) :: acc) = true).
  { unfold nonul in *. cbn [forallb]. rewrite Hacc. unfold nz. destruct (48 + n mod 10 =? 0) eqn:E; [lia|reflexivity]. }
  destruct (n / 10 =? 0); [exact H1 | apply IH; exact H1].
Qed.

Lemma dec_N_nonul n : nonul (dec_N n) = true.
Proof. unfold dec_N. apply dec_fuel_nonul. reflexivity. Qed.

(* ---------- round trip: what addVia writes is what loop detection looks for ---------- *)
Lemma fwd_via_shape c major minor hs0 :
  nonul (c_host c) = true -> nonul (c_app c) = true ->
  exists pre, nonul pre = true /\ fwd_via c major minor hs0 = pre ++ this_cache2 c.
Proof.
  intros Hh Ha. pose proof (nonul_this_cache2 c Hh Ha) as Htc.
  assert (Ht : nonul (this_cache c) = true).
  { unfold this_cache2, nonul in Htc. cbn [forallb] in Htc. apply andb_true_iff in Htc. apply Htc. }
  unfold fwd_via, own_via_entry. rewrite (c_str_nonul _ Ht).
  exists ((match via_value hs0 with [] => [] | _ :: _ => via_value hs0 ++ [44; 32] end) ++ dec_N major ++ [46] ++ dec_N minor).
  split.
  - rewrite !nonul_app, !dec_N_nonul. pose proof (via_value_nonul hs0) as Hv.
    destruct (via_value hs0) as [|x s] eqn:E; [reflexivity|]. rewrite nonul_app, Hv. reflexivity.
  - unfold this_cache2. rewrite <- !app_assoc. reflexivity.
Qed.

Lemma via_round_trip c major minor hs0 hs h post :
  nonul (c_host c) = true -> nonul (c_app c) = true ->
  In h hs -> is_via h = true ->
  h_value h = fwd_via c major minor hs0 ++ post ->
  loop_detected c hs = true.
Proof.
  intros Hh Ha Hin Hv Hval. destruct (fwd_via_shape c major minor hs0 Hh Ha) as [pre [Hpre Hf]].
  apply (own_entry_detected c hs h pre post Hh Ha Hin Hv Hpre). rewrite Hval, Hf. now rewrite <- app_assoc.
Qed.
