(* Properties_C13.v — C13: a stored variant is served only to matching requests; Vary: * is never served
   from cache.  Statements only; proofs live in VaryProofs.v.  The rfc1738_escape_part byte table
   (gen/Vary_gen.v) and the registered-header table (gen/HdrTable_gen.v) are regenerated from /repo on every run. *)
Require Import SquidV.Bytes SquidV.HopModel SquidV.HopProofs SquidV.QuoteModel SquidV.QuoteProofs.
Require Import SquidV.VaryModel SquidV.VaryProofs.
Require Import SquidV.gen.HdrTable_gen SquidV.gen.Vary_gen.
Local Open Scope N_scope.

(* table facts re-evaluated against today's code: rfc1738_escape_part emits every non-NUL byte either as itself
   (never the percent sign, never the double quote) or as a percent triplet that decodes to it; the
   X-Accelerator-Vary code paths (not modelled) are compiled out *)
Theorem C13_escape_table_is_a_quote_free_prefix_code : forallb esc_entry_ok all_bytes = true.
Proof. exact esc_table_ok. Qed.
Print Assumptions C13_escape_table_is_a_quote_free_prefix_code.

Theorem C13_x_accelerator_vary_compiled_out : x_accelerator_vary = false.
Proof. exact x_accelerator_vary_off. Qed.
Print Assumptions C13_x_accelerator_vary_compiled_out.

(* vary-mark injectivity: for ALL Vary values and ALL pairs of request header blocks (values = NUL-free byte
   strings), equal marks mean that every nominated field reads the same through HttpHeader::getByName in both
   requests -- undefined (absent) is kept apart from every defined value, the empty one included *)
Theorem C13_mark_injective : forall vv hs1 hs2,
  block_ok hs1 -> block_ok hs2 -> ~ In star (vary_items vv) ->
  make_mark vv hs1 = make_mark vv hs2 ->
  forall item, In item (vary_items vv) -> get_by_name hs1 (lower item) = get_by_name hs2 (lower item).
Proof. exact mark_injective. Qed.
Print Assumptions C13_mark_injective.

Example C13_mark_injective_hyps :
  block_ok (ex_req ex_quote_pct [49]%nat) /\ block_ok (ex_req ex_quote_pct [50]%nat) /\
  ~ In star (vary_items ex_vary_xfoo) /\ vary_items ex_vary_xfoo = [n_xfoo] /\
  make_mark ex_vary_xfoo (ex_req ex_quote_pct [49]%nat) = make_mark ex_vary_xfoo (ex_req ex_quote_pct [50]%nat) /\
  make_mark ex_vary_xfoo (ex_req ex_quote_pct [49]%nat) = b [120;45;102;111;111;61;34;97;37;50;50;37;50;53;37;69;57;34]%nat.
Proof.
  split; [repeat constructor; cbn; lia|]. split; [repeat constructor; cbn; lia|].
  split; [vm_compute; intros [H|[]]; discriminate|]. repeat split; vm_compute; reflexivity.
Qed.

(* which names are nominated: for quote-free Vary text (every syntactically valid Vary value) Squid's
   strListGetItem loop reads the comma-split, SP/HTAB-trimmed, non-empty elements (then lower-cases them) *)
Theorem C13_nominated_names_reading : forall vv s,
  vary_value vv = Some s -> simple s = true -> vary_items vv = ref_items s.
Proof. exact vary_names_spec. Qed.
Print Assumptions C13_nominated_names_reading.

Example C13_nominated_names_reading_hyps :
  exists s, vary_value ex_vary_star = Some s /\ simple s = true /\ ref_items s = [n_xfoo; star].
Proof. eexists. split; [reflexivity|]. split; vm_compute; reflexivity. Qed.

(* what "reads the same" means, by kind of header.
   Unregistered name: all lines with that name (case-insensitive), joined by ", " after dropping leading empty
   lines; undefined iff there is no such line *)
Theorem C13_reading_unregistered : forall hs name,
  lookup_id hdr_table name = hdr_OTHER ->
  get_by_name hs name = joined_spec (line_values (fun h => ci_eqb (h_name h) name) hs).
Proof. exact read_unregistered. Qed.
Print Assumptions C13_reading_unregistered.

Example C13_reading_unregistered_hyps : lookup_id hdr_table n_xfoo_lc = hdr_OTHER.
Proof. vm_compute. reflexivity. Qed.

(* registered list header: all lines with that header id, joined the same way *)
Theorem C13_reading_registered_list : forall hs name,
  lookup_id hdr_table name <> hdr_OTHER -> is_list_hdr (lookup_id hdr_table name) = true ->
  get_by_name hs name = joined_spec (line_values (fun h => hdr_id h =? lookup_id hdr_table name) hs).
Proof. exact read_registered_list. Qed.
Print Assumptions C13_reading_registered_list.

Example C13_reading_registered_list_hyps :
  lookup_id hdr_table n_accept_encoding <> hdr_OTHER /\ is_list_hdr (lookup_id hdr_table n_accept_encoding) = true.
Proof. split; [vm_compute; discriminate|vm_compute; reflexivity]. Qed.

(* registered single-value header: the FIRST line only, and an empty value reads as undefined (absent) *)
Theorem C13_reading_registered_single : forall hs name,
  lookup_id hdr_table name <> hdr_OTHER -> is_list_hdr (lookup_id hdr_table name) = false ->
  get_by_name hs name =
  match find (fun h => hdr_id h =? lookup_id hdr_table name) hs with
  | Some e => match h_value e with [] => None | v => Some v end
  | None => None
  end.
Proof. exact read_registered_single. Qed.
Print Assumptions C13_reading_registered_single.

Example C13_reading_registered_single_hyps :
  lookup_id hdr_table n_cookie <> hdr_OTHER /\ is_list_hdr (lookup_id hdr_table n_cookie) = false.
Proof. split; [vm_compute; discriminate|vm_compute; reflexivity]. Qed.

(* varyEvaluateMatch, for ALL entries, request marks and requests: VARY_MATCH only when the request's mark
   (computed from this entry's Vary when the request had none yet) equals the entry's stored mark *)
Theorem C13_match_only_on_same_mark : forall e req_mark hs m,
  vary_evaluate_match e req_mark hs = (VARY_MATCH, m) ->
  m = e_mark e /\ m <> [] /\ e_vary e <> [] /\
  (req_mark = [] -> m = make_mark (e_vary e) hs) /\ (req_mark <> [] -> m = req_mark).
Proof. exact match_only_same_mark. Qed.
Print Assumptions C13_match_only_on_same_mark.

Example C13_match_only_on_same_mark_hyps :
  let hs := ex_req [97]%nat [49]%nat in
  let e := {| e_vary := ex_vary_xfoo; e_mark := make_mark ex_vary_xfoo hs; e_reval := false; e_src := 0 |} in
  fst (vary_evaluate_match e (make_mark ex_vary_xfoo hs) hs) = VARY_MATCH.
Proof. vm_compute. reflexivity. Qed.

(* the cache for one URL whose origin always answers with the Vary values vv, ALL request sequences:
   request j gets the stored body of an earlier request i only if both have the same mark, and never if
   that mark is "*" (store invariant by induction over the sequence) *)
Theorem C13_hit_only_for_same_mark : forall vv reqs j i hj,
  nthN j (run vv [] 0 reqs) = Some i -> nthN j reqs = Some hj -> i <> j ->
  exists hi, nthN i reqs = Some hi /\ i < j /\ make_mark vv hi = make_mark vv hj /\ make_mark vv hj <> star.
Proof. exact run_hits_same_mark. Qed.
Print Assumptions C13_hit_only_for_same_mark.

(* ... hence every nominated field reads the same in the request that stored the body and the one served *)
Theorem C13_hit_nominated_fields_read_equal : forall vv reqs j i hj,
  Forall block_ok reqs ->
  nthN j (run vv [] 0 reqs) = Some i -> nthN j reqs = Some hj -> i <> j ->
  exists hi, nthN i reqs = Some hi /\ i < j /\ ~ In star (vary_items vv) /\
    forall item, In item (vary_items vv) -> get_by_name hi (lower item) = get_by_name hj (lower item).
Proof. exact run_hits_fields_read_equal. Qed.
Print Assumptions C13_hit_nominated_fields_read_equal.

Example C13_hit_hyps :
  let reqs := [ex_req [97]%nat [49]%nat; ex_req [98]%nat [50]%nat; ex_req [97]%nat [51]%nat] in
  Forall block_ok reqs /\ run ex_vary_xfoo [] 0 reqs = [0; 1; 0] /\ nthN 2 reqs = Some (ex_req [97]%nat [51]%nat).
Proof. split; [repeat constructor; cbn; lia|]. split; vm_compute; reflexivity. Qed.

(* Vary: * anywhere in the list: no request is ever served from the cache *)
Theorem C13_vary_star_never_served_from_cache : forall vv reqs j i,
  In star (vary_items vv) -> nthN j (run vv [] 0 reqs) = Some i -> j < lenN reqs -> i = j.
Proof. exact star_never_served_from_cache. Qed.
Print Assumptions C13_vary_star_never_served_from_cache.

Example C13_vary_star_hyps :
  In star (vary_items ex_vary_star) /\
  run ex_vary_star [] 0 [ex_req [97]%nat [49]%nat; ex_req [97]%nat [49]%nat; ex_req [97]%nat [49]%nat] = [0; 1; 2].
Proof. split; [vm_compute; right; left; reflexivity|vm_compute; reflexivity]. Qed.

(* the property at full strength -- equal marks imply that the nominated FIELD LINES match -- is FALSE for
   registered single-value headers: (a) extra lines after the first are ignored, (b) an empty value is read as
   absent.  Both witnesses are served from the cache by the model and by the running squid (corpus/C13/known.jsonl) *)
Theorem C13_hit_nominated_fields_match_refuted_extra_lines :
  exists vv hs1 hs2, block_ok hs1 /\ block_ok hs2 /\ vary_items vv = [n_cookie] /\
    run vv [] 0 [hs1; hs2] = [0; 0] /\ lines_of n_cookie hs1 <> lines_of n_cookie hs2.
Proof. exact singleton_extra_lines_refuted. Qed.
Print Assumptions C13_hit_nominated_fields_match_refuted_extra_lines.

Theorem C13_hit_nominated_fields_match_refuted_empty_value :
  exists vv hs1 hs2, block_ok hs1 /\ block_ok hs2 /\ vary_items vv = [n_user_agent] /\
    run vv [] 0 [hs1; hs2] = [0; 0] /\ lines_of n_user_agent hs1 = [] /\ lines_of n_user_agent hs2 = [[]].
Proof. exact singleton_empty_refuted. Qed.
Print Assumptions C13_hit_nominated_fields_match_refuted_empty_value.

(* what does hold at field-line level: for unregistered and registered list headers, reading the same means
   present in both requests or in neither, and equal values after joining the lines with ", " (leading empty
   lines dropped) *)
Theorem C13_hit_nominated_fields_match_partial : forall hs1 hs2 name,
  lookup_id hdr_table name = hdr_OTHER \/ is_list_hdr (lookup_id hdr_table name) = true ->
  get_by_name hs1 name = get_by_name hs2 name ->
  let sel := if lookup_id hdr_table name =? hdr_OTHER then (fun h => ci_eqb (h_name h) name)
             else (fun h => hdr_id h =? lookup_id hdr_table name) in
  (line_values sel hs1 = [] <-> line_values sel hs2 = []) /\
  join_list (drop_nil (line_values sel hs1)) = join_list (drop_nil (line_values sel hs2)).
Proof. exact same_reading_partial. Qed.
Print Assumptions C13_hit_nominated_fields_match_partial.
