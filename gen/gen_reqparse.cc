// Table generator for C21/C22/C62 (request parser): constants of
// src/http/one/RequestParser.cc, src/http/RequestMethod.cc, src/http/MethodType.cc
// as the code defines them *now*. Function-local statics (maxMethodLength) are
// obtained by running the real parser on probe inputs.
#include "squid.h"
#include <sstream>
#include <iostream>
#include <string>
#include "base/CharacterSet.h"
#include "sbuf/SBuf.h"
#include "anyp/ProtocolVersion.h"
#include "http/StatusCode.h"
#include "http/MethodType.h"
#include "http/RequestMethod.h"
#include "parser/Tokenizer.h"
#include "SquidString.h"
#define private public
#define protected public
#include "http/one/Parser.h"
#include "http/one/RequestParser.h"
#undef private
#undef protected
#include "SquidConfig.h"

static void bytesOf(const SBuf &b) {
    std::cout << "[";
    for (SBuf::size_type i = 0; i < b.length(); ++i)
        std::cout << (i ? ";" : "") << static_cast<unsigned>(static_cast<unsigned char>(b[i]));
    std::cout << "]";
}
static void dumpBytes(const char *name, const SBuf &b) {
    std::cout << "Definition " << name << " : bytes := ";
    bytesOf(b);
    std::cout << "%N.\n";
}
static void dumpN(const char *name, unsigned long long v) {
    std::cout << "Definition " << name << " : N := " << v << "%N.\n";
}

int main() {
    std::cout << "@@FILE ReqTabs_gen.v\n";
    std::cout << "(* generated from /repo by gen/gen_reqparse.cc -- do not edit *)\n"
              "Require Import SquidV.Bytes.\n";
    Config.onoff.relaxed_header_parser = 0;
    Config.maxRequestHeaderSize = 65536;

    // the images HttpRequestMethod(const SBuf &) compares against: image() of ids 1 .. METHOD_ENUM_END-1,
    // in order (for METHOD_OTHER that is the "METHOD_OTHER" placeholder, not MethodType_sb[])
    std::cout << "Definition req_methods : list (N * bytes) := [";
    for (int m = Http::METHOD_NONE + 1; m < Http::METHOD_ENUM_END; ++m) {
        std::cout << (m > 1 ? ";" : "") << "(" << m << ",";
        bytesOf(HttpRequestMethod(static_cast<Http::MethodType>(m)).image());
        std::cout << ")";
    }
    std::cout << "]%N.\n";
    dumpN("req_m_none", Http::METHOD_NONE);
    dumpN("req_m_get", Http::METHOD_GET);
    dumpN("req_m_other", Http::METHOD_OTHER);
    dumpBytes("req_img_none", HttpRequestMethod().image());
    dumpN("req_max_uri", String::RawSizeMaxXXX());
    {
        // firstLineSize() = method image + URI + this constant
        Http1::RequestParser p;
        dumpN("req_fls_extra", p.firstLineSize() - p.method().image().length() - p.requestUri().length());
    }
    {
        // maxMethodLength: the longest method the parser will isolate (probe: 100 tchars, limit 50 => blame path)
        Config.maxRequestHeaderSize = 50;
        Http1::RequestParser p;
        SBuf in;
        for (int i = 0; i < 100; ++i) in.append('A');
        p.parse(in);
        dumpN("req_max_method", p.method().image().length());
        Config.maxRequestHeaderSize = 65536;
    }
    dumpN("rq_sc_none", Http::scNone);
    dumpN("rq_sc_okay", Http::scOkay);
    dumpN("rq_sc_bad_request", Http::scBadRequest);
    dumpN("rq_sc_uri_too_long", Http::scUriTooLong);
    dumpN("rq_sc_fields_too_large", Http::scRequestHeaderFieldsTooLarge);
    dumpN("rq_sc_header_too_large", Http::scHeaderTooLarge);
    dumpBytes("req_crlf", Http1::CrLf());
    return 0;
}
