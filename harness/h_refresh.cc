// Harness for C12 (unit level): what Squid's own reply parser reads from a response header block, and
// HttpReply::hdrExpirationTime() on it.  One case per line:
//   refresh.parse <now> <hex of the complete response head> <the 18 integers the check believes Squid reads>
// prints: parsed <date,has_cc,s_maxage,max_age,has_expires,expires_hdr,age,last_modified,must_revalidate,
//                 proxy_revalidate,no_cache,no_cache_params,private,no_store,immutable,pragma_no_cache,strong_etag,
//                 content_length> <reply->expires>
// (the third argument is ignored here; the model runner echoes it and appends hdr_expiration_time).
// HttpReply.cc, HttpHdrCc.cc and the header code are compiled from /repo's working tree.
#include "squid.h"
#include "ETag.h"
#include "HttpHdrCc.h"
#include "HttpHeader.h"
#include "HttpReply.h"
#include "SquidConfig.h"
#include "mem/forward.h"
#include "time/gadgets.h"
#include "hcommon.h"

class SquidConfig Config;

int main()
{
    Mem::Init();
    httpHeaderInitModule();
    Config.maxReplyHeaderSize = 65536;
    Config.onoff.relaxed_header_parser = 1;
    std::string line;
    while (std::getline(std::cin, line)) {
        auto a = splitws(line);
        if (a.empty()) { std::cout << "\n"; continue; }
        std::ostringstream o;
        try {
            if (a[0] == "refresh.parse" && a.size() >= 3) {
                squid_curtime = static_cast<time_t>(std::stoll(a[1]));
                const std::string head = unhex(a[2]);
                HttpReply *rep = new HttpReply;
                HTTPMSGLOCK(rep);
                Http::StatusCode err = Http::scNone;
                if (!rep->parse(head.c_str(), head.size(), true, &err)) {
                    o << "parse-failed " << static_cast<int>(err);
                } else {
                    const HttpHdrCc *cc = rep->cache_control;
                    int v = -1;
                    o << "parsed " << rep->date << "," << (cc ? 1 : 0) << ",";
                    v = -1; if (cc && cc->hasSMaxAge(&v)) o << v; else o << -1;
                    o << ",";
                    v = -1; if (cc && cc->hasMaxAge(&v)) o << v; else o << -1;
                    o << "," << (rep->header.has(Http::HdrType::EXPIRES) ? 1 : 0)
                      << "," << rep->header.getTime(Http::HdrType::EXPIRES)
                      << "," << rep->header.getInt(Http::HdrType::AGE)
                      << "," << rep->last_modified
                      << "," << (cc && cc->hasMustRevalidate() ? 1 : 0)
                      << "," << (cc && cc->hasProxyRevalidate() ? 1 : 0)
                      << "," << (cc && cc->hasNoCacheWithoutParameters() ? 1 : 0)
                      << "," << (cc && cc->hasNoCacheWithParameters() ? 1 : 0)
                      << "," << (cc && cc->hasPrivate() ? 1 : 0)
                      << "," << (cc && cc->hasNoStore() ? 1 : 0)
                      << "," << (cc && cc->hasImmutable() ? 1 : 0)
                      << "," << ((rep->header.has(Http::HdrType::PRAGMA) &&
                                  rep->header.hasListMember(Http::HdrType::PRAGMA, "no-cache", ',')) ? 1 : 0);
                    const ETag et = rep->header.getETag(Http::HdrType::ETAG);
                    o << "," << ((et.str && !et.weak) ? 1 : 0)
                      << "," << rep->content_length
                      << " " << rep->expires;
                }
                HTTPMSGUNLOCK(rep);
            } else o << "ERR unknown-entry " << a[0];
        } catch (const std::exception &e) { o.str(""); o << "EXC " << e.what(); }
        catch (...) { o.str(""); o << "EXC unknown"; }
        std::cout << o.str() << "\n" << std::flush;
    }
    return 0;
}
