(* MgrModel.v — the cache-manager access decision of /repo, as executable definitions only (C61).
   Transcribed from (read together with the code):
     src/client_side.cc        clientProcessRequest: checkForInternalAccess(), urlCheckRequest() => 501
     src/client_side_request.cc ClientHttpRequest::checkForInternalAccess, clientAccessCheck/clientAccessCheckDone
     src/acl/Checklist.cc      first matching rule wins; calcImplicitAnswer (reverse of the last rule; no rules: deny)
     src/acl/Url.cc            url_regex is matched against DecodeOrDupe(effectiveRequestUri()).c_str()
     src/anyp/Uri.cc           Uri::parse (host lower-casing, trailing dots, login split + rfc1738_unescape),
                               Uri::absolute (userinfo only for ftp/unknown schemes), absolutePath (PathChars + "?"), Encode, Decode, authority
     lib/rfc1738.cc            rfc1738_unescape
     src/internal.cc           internalCheck, internalHostnameIs, internalStart, ForSomeCacheManager
     src/cache_manager.cc      ParseUrl, ParseHeaders, CheckPassword, ActionProtection, PasswdGet, start
     src/mgr/QueryParams.cc    QueryParams::Parse, ParseParamValue
     src/HttpHeader.cc         HttpHeader::getAuthToken (base64 through the linked libnettle: B64Model.b64_decode true)
     src/String.cc             String::cmp (C-string comparison: stops at the first NUL; CheckPassword also compares lengths)
   The built-in `manager` ACL text, the URL prefixes and the keywords come from gen/Mgr_gen.v (regenerated from the
   tree on every run).  The action table (name, isPwReq) is an ARGUMENT of every function: the theorems hold for all
   tables; the check reads the real one from the running squid (action `menu`).

   Preconditions of the transcription (kept by the scenario generator, not needed by the theorems unless stated):
   request-target bytes are NUL-free and contain no whitespace; the authority has the shape [login "@"] host ":" port
   with login free of "/?#"; /squid-internal-dynamic/netdb and /squid-internal-periodic/store_digest are not requested;
   one worker (no Mgr::Forwarder). *)
Require Import SquidV.Bytes SquidV.TokModel SquidV.B64Model.
Require Import SquidV.gen.Mgr_gen.
Local Open Scope N_scope.

(* ------------------------------------------------------------------ *)
(* characters                                                           *)

Definition is_alpha (c : N) : bool := ((65 <=? c) && (c <=? 90)) || ((97 <=? c) && (c <=? 122)).
Definition lower (s : bytes) : bytes := map xtolower s.
Definition memb (c : N) (s : bytes) : bool := existsb (fun x => x =? c) s.
Definition bytes_eqb_ci (a b : bytes) : bool := list_eqb (lower a) (lower b).

(* fromhex() of lib/rfc1738.cc; also the single base-16 digit Tokenizer::int64(v, 16, false, 1) accepts *)
Definition hexval (c : N) : option N :=
  if (48 <=? c) && (c <=? 57) then Some (c - 48)
  else if (97 <=? c) && (c <=? 102) then Some (c - 87)
  else if (65 <=? c) && (c <=? 70) then Some (c - 55)
  else None.

(* "%%%02X" *)
Definition hex_uc (v : N) : N := if v <? 10 then 48 + v else 55 + v.
Definition pct (c : N) : bytes := [37; hex_uc (c / 16); hex_uc (c mod 16)].

(* PathChars(): "/:@-._~%!$&'()*+,;=" + ALPHA + DIGIT *)
Definition path_chars (c : N) : bool :=
  is_alpha c || is_digit c || memb c [47;58;64;45;46;95;126;37;33;36;38;39;40;41;42;43;44;59;61].
(* absolutePath() since 3db1355: PathChars() + '?' (path_ holds path and query; the query delimiter is kept) *)
Definition pathq_chars (c : N) : bool := path_chars c || (c =? 63).
(* UserInfoChars() ":-._~%!$&'()*+,;=" + ALPHA + DIGIT, with '%' removed (uiChars of Uri::absolute) *)
Definition ui_chars (c : N) : bool :=
  is_alpha c || is_digit c || memb c [58;45;46;95;126;33;36;38;39;40;41;42;43;44;59;61].

(* AnyP::Uri::Encode(buf, ignore) *)
Definition uri_encode (ok : cset) (l : bytes) : bytes :=
  flat_map (fun c => if ok c then [c] else pct c) l.

(* AnyP::Uri::Decode(buf): None = std::nullopt (invalid pct-encoding) *)
Fixpoint uri_decode (l : bytes) : option bytes :=
  match l with
  | [] => Some []
  | c :: r =>
    if c =? 37 then
      match r with
      | h1 :: h2 :: r' =>
        match hexval h1, hexval h2 with
        | Some a, Some b => option_map (cons (a * 16 + b)) (uri_decode r')
        | _, _ => None
        end
      | _ => None
      end
    else option_map (cons c) (uri_decode r)
  end.

Definition decode_or_dupe (l : bytes) : bytes :=
  match uri_decode l with Some d => d | None => l end.

(* rfc1738_unescape(char *s): "%%" -> "%", "%xy" -> byte unless it would be NUL, anything else copied *)
Fixpoint rfc1738_unescape (s : bytes) : bytes :=
  match s with
  | [] => []
  | c :: r =>
    if negb (c =? 37) then c :: rfc1738_unescape r
    else
      match r with
      | [] => [37]
      | d :: r1 =>
        if d =? 37 then 37 :: rfc1738_unescape r1
        else
          match hexval d with
          | None => 37 :: rfc1738_unescape r
          | Some v1 =>
            match r1 with
            | [] => 37 :: rfc1738_unescape r
            | e :: r2 =>
              match hexval e with
              | None => 37 :: rfc1738_unescape r
              | Some v2 =>
                let x := v1 * 16 + v2 in
                if (0 <? x) && (x <=? 255) then x :: rfc1738_unescape r2 else 37 :: rfc1738_unescape r
              end
            end
          end
      end
  end.

(* decimal rendering ("%hu") *)
Fixpoint dec_aux (fuel : nat) (n : N) (acc : bytes) : bytes :=
  match fuel with
  | O => acc
  | S f => let acc' := (48 + n mod 10) :: acc in
           if n / 10 =? 0 then acc' else dec_aux f (n / 10) acc'
  end.
Definition dec (n : N) : bytes := dec_aux 20 n [].

(* ------------------------------------------------------------------ *)
(* the request and its effective URI                                    *)

Inductive scheme := SHttp | SFtp | SHttps | SOther.
Inductive meth := MGet | MPost.

Record request := mkReq {
  q_method : meth;
  q_scheme : scheme;
  q_login : bytes;       (* bytes before the last '@' of the authority as sent ([] = no '@') *)
  q_host : bytes;        (* host as sent *)
  q_port : N;            (* port as sent *)
  q_path : bytes;        (* url-path as sent, including ?query and #fragment *)
  q_auth : option bytes  (* value of the (first) Authorization field *)
}.

Record env := mkEnv {
  e_myhost : bytes;      (* getMyHostname(): visible_hostname *)
  e_myport : N;          (* getMyPort() *)
  e_local : bool         (* whether the client address matches the built-in `localhost` ACL *)
}.

Definition scheme_image (s : scheme) : bytes :=
  match s with
  | SHttp => [104;116;116;112]
  | SFtp => [102;116;112]
  | SHttps => [104;116;116;112;115]
  | SOther => []          (* never rendered: such requests are answered 501 before any check *)
  end.
Definition default_port (s : scheme) : option N :=
  match s with SHttp => Some 80 | SFtp => Some 21 | SHttps => Some 443 | SOther => None end.

(* urlCheckRequest() for GET/POST (HAVE_LIBGNUTLS is defined in this build) *)
Definition url_check_request (m : meth) (s : scheme) : bool :=
  match s with
  | SHttp | SHttps => true
  | SFtp => match m with MGet => true | MPost => false end
  | SOther => false
  end.

(* Uri::parse: lower-case, then "remove trailing dots from hostnames" *)
Fixpoint strip_dots_rev (r : bytes) : bytes :=
  match r with c :: r' => if c =? 46 then strip_dots_rev r' else r | [] => [] end.
Definition norm_host (h : bytes) : bytes := rev (strip_dots_rev (rev (lower h))).

(* Uri::authority(false): host[:port], the port being elided when it is the scheme's default *)
Definition authority (s : scheme) (host : bytes) (port : N) : bytes :=
  host ++ (match default_port s with
           | Some d => if port =? d then [] else 58 :: dec port
           | None => 58 :: dec port
           end).

(* Uri::absolute(): user-info is rendered for ftp and unknown schemes only *)
Definition allow_userinfo (s : scheme) : bool :=
  match s with SFtp | SOther => true | _ => false end.

Definition userinfo_part (q : request) : bytes :=
  let login := rfc1738_unescape (q_login q) in
  if allow_userinfo (q_scheme q) then
    match login with [] => [] | _ => uri_encode ui_chars login ++ [64] end
  else [].

Definition effective_uri (q : request) : bytes :=
  scheme_image (q_scheme q) ++ [58;47;47] ++ userinfo_part q
  ++ authority (q_scheme q) (norm_host (q_host q)) (q_port q)
  ++ uri_encode pathq_chars (q_path q).

(* ------------------------------------------------------------------ *)
(* the built-in manager ACL: url_regex +i ^[^:]+://[^/]+<literal>  (+i = case-SENSITIVE: it clears REG_ICASE) *)

(* "^[^:]+://[^/]+" *)
Definition mgr_regex_head : bytes := [94;91;94;58;93;43;58;47;47;91;94;47;93;43].
Definition mgr_regex_lit : bytes := dropN 14 mgr_acl_regex.
Definition literal_char (c : N) : bool := is_alpha c || is_digit c || (c =? 47) || (c =? 45) || (c =? 95).

(* the shape of the configured default this model is a transcription of *)
Definition mgr_acl_shape_ok : bool :=
  list_eqb mgr_acl_type [117;114;108;95;114;101;103;101;120] && negb mgr_acl_icase
  && list_eqb (takeN 14 mgr_acl_regex) mgr_regex_head
  && forallb literal_char mgr_regex_lit
  && match mgr_regex_lit with c :: _ => c =? 47 | [] => false end.

(* regexec() of that pattern (REG_EXTENDED|REG_NOSUB) on a C string: both bracket runs are forced
   ([^:]+ must be followed by ':', [^/]+ by the '/' the literal starts with), so matching is deterministic *)
Definition mgr_regex_match (s0 : bytes) : bool :=
  let s := cstr s0 in
  let '(a, r1) := span (fun c => negb (c =? 58)) s in
  match a with
  | [] => false
  | _ =>
    if starts_with r1 [58;47;47] then
      let '(b, r3) := span (fun c => negb (c =? 47)) (dropN 3 r1) in
      match b with
      | [] => false
      | _ => starts_with r3 mgr_regex_lit
      end
    else false
  end.

(* Acl::UrlCheck::match *)
Definition acl_manager (q : request) : bool := mgr_regex_match (decode_or_dupe (effective_uri q)).

(* ------------------------------------------------------------------ *)
(* http_access                                                          *)

Inductive atom := AMgr | ANotMgr | AAll | ANotAll | ALocal | ANotLocal.
Record rule := mkRule { r_allow : bool; r_atoms : list atom }.

Definition atom_holds (mgr local : bool) (a : atom) : bool :=
  match a with
  | AMgr => mgr | ANotMgr => negb mgr
  | AAll => true | ANotAll => false
  | ALocal => local | ANotLocal => negb local
  end.

(* first rule all of whose ACLs match decides; otherwise the reverse of the last rule; no http_access at all: deny *)
Fixpoint eval_rules (mgr local : bool) (rules : list rule) (last : option bool) : bool :=
  match rules with
  | [] => match last with None => false | Some a => negb a end
  | r :: rest =>
    if forallb (atom_holds mgr local) (r_atoms r) then r_allow r
    else eval_rules mgr local rest (Some (r_allow r))
  end.
Definition access_allowed (mgr local : bool) (rules : list rule) : bool := eval_rules mgr local rules None.

(* ------------------------------------------------------------------ *)
(* internal requests                                                    *)

(* checkForInternalAccess (global_internal_static does not apply to manager URLs).
   Since 6b03ef7 only http(s) URLs can address internal objects: `httpLike && port == getMyPort() && ...` *)
Definition http_like (s : scheme) : bool := match s with SHttp | SHttps => true | _ => false end.
Definition is_internal (e : env) (q : request) : bool :=
  starts_with (q_path q) internal_pfx
  && http_like (q_scheme q)
  && (q_port q =? e_myport e)
  && bytes_eqb_ci (norm_host (q_host q)) (e_myhost e).

(* internalStart: ForSomeCacheManager(request->url.absolutePath()) *)
Definition for_cache_manager (q : request) : bool :=
  starts_with (uri_encode pathq_chars (q_path q)) mgr_prefix.

(* ------------------------------------------------------------------ *)
(* cache manager                                                        *)

Record action := mkAct { a_name : bytes; a_pwreq : bool }.
Record pwent := mkPw { pe_passwd : bytes; pe_actions : list bytes }.

Definition kw_disable : bytes := [100;105;115;97;98;108;101].
Definition kw_none : bytes := [110;111;110;101].

(* CacheManager::findAction *)
Definition find_action (menu : list action) (name : bytes) : option action :=
  find (fun a => list_eqb (a_name a) name) menu.

(* CacheManager::PasswdGet *)
Definition covers (e : pwent) (name : bytes) : bool :=
  existsb (fun w => list_eqb w name || list_eqb w kw_all) (pe_actions e).
Fixpoint passwd_get (pl : list pwent) (name : bytes) : option bytes :=
  match pl with
  | [] => None
  | e :: r => if covers e name then Some (pe_passwd e) else passwd_get r name
  end.

(* CacheManager::ActionProtection *)
Inductive prot := Hidden | Public | Disabled | Protected.
Definition action_protection (pl : list pwent) (a : action) : prot :=
  match passwd_get pl (a_name a) with
  | None => if a_pwreq a then Hidden else Public
  | Some pwd => if list_eqb pwd kw_disable then Disabled
                else if list_eqb pwd kw_none then Public else Protected
  end.

(* Mgr::QueryParams *)
Definition name_chars (c : N) : bool := (c =? 95) || is_alpha c || is_digit c.
Definition value_chars (c : N) : bool := negb ((c =? 38) || (c =? 61) || (c =? 32) || (c =? 35)).
Definition is_amp (c : N) : bool := c =? 38.
Definition is_comma (c : N) : bool := c =? 44.

Inductive tri := TOk | TThrow | TFuel.

(* ParseParamValue: only whether it throws (Must(intVal <= INT_MAX)) matters here *)
Fixpoint param_value (fuel : nat) (buf : bytes) : tri :=
  match fuel with
  | O => TFuel
  | S f =>
    match tok_int64 10 false npos buf with
    | None => TOk
    | Some (v, n) =>
      if ((v <? -2147483648) || (v >? 2147483647))%Z then TThrow
      else
        let b1 := dropN n buf in
        let b2 := if 1 <? lenN b1 then snd (tok_skipOne is_comma b1) else b1 in
        param_value f b2
    end
  end.

Inductive qres := QOk (rest : bytes) | QThrow | QFuel.

(* QueryParams::Parse(tok, params): the tokenizer is left at the end or at '#' *)
Fixpoint query_parse (fuel : nat) (buf : bytes) : qres :=
  match fuel with
  | O => QFuel
  | S f =>
    match buf with
    | [] => QOk []
    | c :: _ =>
      if c =? 35 then QOk buf
      else
        let '(k, b1) := tok_skipAll is_amp buf in
        if negb (k =? 0) then query_parse f b1
        else
          match tok_prefix name_chars npos buf with
          | None => QThrow
          | Some (_, b2) =>
            match tok_skipChar 61 b2 with
            | (false, _) => QThrow
            | (true, b3) =>
              match tok_prefix value_chars npos b3 with
              | None => QThrow
              | Some (v, b4) =>
                match param_value (S (length v)) v with
                | TOk => query_parse f b4
                | TThrow => QThrow
                | TFuel => QFuel
                end
              end
            end
          end
    end
  end.

Inductive ures := UAction (a : action) | UThrow | UFuel.

(* CacheManager::ParseUrl(uri) on uri.path() *)
Definition parse_url (menu : list action) (pl : list pwent) (path : bytes) : ures :=
  match tok_skip mgr_prefix path with
  | (false, _) => UThrow                                   (* Assure(tok.skip(WellKnownUrlPathPrefix())) *)
  | (true, b0) =>
    let '(name, b1) :=
      match tok_prefix (fun c => negb (memb c mgr_field_stop)) npos b0 with
      | Some (a, b) => (a, b)
      | None => (kw_index, b0)
      end in
    match find_action menu name with
    | None => UThrow                                       (* action not found *)
    | Some a =>
      match action_protection pl a with
      | Disabled | Hidden => UThrow
      | _ =>
        let qr := match tok_skipChar 63 b1 with
                  | (true, b2) => query_parse (S (length b2)) b2
                  | (false, _) => QOk b1
                  end in
        match qr with
        | QThrow => UThrow
        | QFuel => UFuel
        | QOk b3 =>
          match b3 with
          | [] => UAction a
          | c :: _ => if c =? 35 then UAction a else UThrow   (* invalid characters in URL *)
          end
        end
      end
    end
  end.

(* HttpHeader::getAuthToken(AUTHORIZATION, "Basic"); [] = the nil SBuf *)
Definition kw_basic : bytes := [98;97;115;105;99].
Definition get_auth_token (field : option bytes) : bytes :=
  match field with
  | None => []
  | Some f0 =>
    let f := cstr f0 in
    if negb (list_eqb (lower (takeN 5 f)) kw_basic) then []
    else
      let r := dropN 5 f in
      match r with
      | [] => []
      | c :: _ =>
        if negb (xisspace c) then []
        else
          let r' := snd (span xisspace r) in
          match r' with
          | [] => []
          | _ => match b64_decode true r' with Some t => t | None => [] end
          end
      end
  end.

(* CacheManager::ParseHeaders: params.password *)
Definition supplied_password (field : option bytes) : bytes :=
  let t := get_auth_token field in
  let '(_, rest) := span (fun c => negb (c =? 58)) t in
  match rest with [] => [] | _ :: pw => pw end.

(* String::operator!=(String(pwd)) : nilCmp, then strcmp on the terminated buffers *)
Definition string_ne (a b : bytes) : bool :=
  match a, b with
  | [], [] => false
  | [], _ | _, [] => true
  | _, _ => negb (list_eqb (cstr a) (cstr b))
  end.

(* CacheManager::CheckPassword: true = refused.  Since 5479385 the last line is
   `password.size() != strlen(pwd) || password != pwd` (pwd is a char*: strlen = length of cstr pwd) *)
Definition check_password (pl : list pwent) (a : action) (password : bytes) : bool :=
  match passwd_get pl (a_name a) with
  | None => a_pwreq a
  | Some pwd =>
    if list_eqb pwd kw_disable then true
    else if list_eqb pwd kw_none then false
    else match password with
         | [] => true
         | _ => negb (lenN password =? lenN (cstr pwd)) || string_ne password pwd
         end
  end.

(* ------------------------------------------------------------------ *)
(* the whole transaction                                                *)

Inductive result :=
  | RUnsupported                 (* 501 ERR_UNSUP_REQ *)
  | RDenied                      (* 403 ERR_ACCESS_DENIED *)
  | RForwarded                   (* not an internal request: goes to the next hop *)
  | RBadReq                      (* 404 ERR_INVALID_REQ (internalStart: unknown request) *)
  | RNotFound                    (* 404 ERR_INVALID_URL (ParseUrl threw) *)
  | RAuthReq (realm : bytes)     (* 401 ERR_CACHE_MGR_ACCESS_DENIED, WWW-Authenticate: Basic realm=<action> *)
  | RIndex                       (* the MGR_INDEX page *)
  | RReport (name : bytes)       (* 200 with the action's report: the action is performed *)
  | RFuel.

Definition handle (e : env) (menu : list action) (pl : list pwent) (rules : list rule) (q : request) : result :=
  if negb (url_check_request (q_method q) (q_scheme q)) then RUnsupported
  else if negb (access_allowed (acl_manager q) (e_local e) rules) then RDenied
  else if negb (is_internal e q) then RForwarded
  else if negb (for_cache_manager q) then RBadReq
  else
    match parse_url menu pl (q_path q) with
    | UThrow => RNotFound
    | UFuel => RFuel
    | UAction a =>
      if check_password pl a (supplied_password (q_auth q)) then RAuthReq (a_name a)
      else if list_eqb (a_name a) kw_index then RIndex
      else RReport (a_name a)
    end.

(* entry point used by the unit-level correspondence (QueryParams::Parse on its own) *)
Definition query_parse_top (b : bytes) : qres := query_parse (S (length b)) b.
