// h_reuse.cc — unit-level side of C11: the Cache-Control reader the store/reuse decision depends on, compiled
// from /repo's working tree (HttpHdrCc.cc, HttpHeader.cc, HttpHeaderTools.cc, StrList.cc are `fresh`).
//   reuse.cc <vals>          HttpHeader::getCc() over Cache-Control entries with the given values
//                            (vals: "." = no entry, else comma-separated hex, "-" = empty value)
//   reuse.items <hex>        the items of `while (strListGetItem(&s, ',', ...))`
//   reuse.int <hex>          httpHeaderParseInt()
//   reuse.member <vals> <hex member>   HttpHeader::hasListMember(PRAGMA, member, ',') over Pragma entries
#include "squid.h"
#include "hcommon.h"
#include "HttpHdrCc.h"
#include "HttpHeader.h"
#include "HttpHeaderTools.h"
#include "SquidConfig.h"
#include "SquidString.h"
#include "StrList.h"
#include "mem/forward.h"

class SquidConfig Config;

static std::vector<std::string> vals(const std::string &s)
{
    std::vector<std::string> out;
    if (s == ".") return out;
    size_t i = 0;
    while (true) {
        const auto j = s.find(',', i);
        out.push_back(unhex(s.substr(i, j == std::string::npos ? std::string::npos : j - i)));
        if (j == std::string::npos) break;
        i = j + 1;
    }
    return out;
}

static void fill(HttpHeader &hdr, Http::HdrType id, const std::vector<std::string> &vs)
{
    for (const auto &v : vs)
        hdr.addEntry(new HttpHeaderEntry(id, SBuf(), v.c_str()));
}

static std::string optv(bool has, int v)
{
    return has ? std::to_string(v) : std::string("-");
}

int main()
{
    Mem::Init();
    httpHeaderInitModule();
    std::string line;
    while (std::getline(std::cin, line)) {
        auto a = splitws(line);
        if (a.empty()) { std::cout << "\n"; continue; }
        const std::string &op = a[0];
        std::ostringstream o;
        try {
            if (op == "reuse.cc" && a.size() == 2) {
                HttpHeader hdr(hoReply);
                fill(hdr, Http::HdrType::CACHE_CONTROL, vals(a[1]));
                HttpHdrCc *cc = hdr.getCc();
                if (!cc) {
                    o << "null";
                } else {
                    int ma = -9, sma = -9, ms = -9, mf = -9, sie = -9;
                    const bool hma = cc->hasMaxAge(&ma), hsma = cc->hasSMaxAge(&sma), hms = cc->hasMaxStale(&ms),
                               hmf = cc->hasMinFresh(&mf), hsie = cc->hasStaleIfError(&sie);
                    const String *pv = nullptr, *nv = nullptr;
                    const bool hp = cc->hasPrivate(&pv), hn = cc->hasNoCache(&nv);
                    // the strings are kept even when the mask bit is clear: read them through a set-bit-independent path
                    const bool pp = hp ? (pv && pv->size() > 0) : false;
                    o << "pub=" << cc->hasPublic() << " priv=" << hp << " nc=" << hn << " ns=" << cc->hasNoStore()
                      << " nt=" << cc->hasNoTransform() << " mr=" << cc->hasMustRevalidate() << " pr=" << cc->hasProxyRevalidate()
                      << " oic=" << cc->hasOnlyIfCached() << " imm=" << cc->hasImmutable()
                      << " ma=" << optv(hma, ma) << " sma=" << optv(hsma, sma) << " ms=" << optv(hms, ms)
                      << " mf=" << optv(hmf, mf) << " sie=" << optv(hsie, sie)
                      << " pp=" << pp << " ncp=" << (cc->hasNoCacheWithParameters() ? 1 : 0)
                      << " ncwo=" << (cc->hasNoCacheWithoutParameters() ? 1 : 0);
                    delete cc;
                }
            } else if (op == "reuse.items" && a.size() == 2) {
                const std::string s = unhex(a[1]);
                String str;
                str.assign(s.data(), s.size());
                const char *pos = nullptr, *item = nullptr;
                int ilen = 0, n = 0;
                while (strListGetItem(&str, ',', &item, &ilen, &pos)) {
                    o << (n++ ? "|" : "") << tohex(item, ilen);
                    if (n > 10000) { o << "|LOOP"; break; }
                }
            } else if (op == "reuse.int" && a.size() == 2) {
                const std::string s = unhex(a[1]);
                int v = -7;
                if (httpHeaderParseInt(s.c_str(), &v)) o << "ok " << v; else o << "fail";
            } else if (op == "reuse.member" && a.size() == 3) {
                HttpHeader hdr(hoRequest);
                fill(hdr, Http::HdrType::PRAGMA, vals(a[1]));
                const std::string m = unhex(a[2]);
                o << (hdr.has(Http::HdrType::PRAGMA) && hdr.hasListMember(Http::HdrType::PRAGMA, m.c_str(), ',') ? 1 : 0);
            } else {
                o << "ERR bad-args";
            }
        } catch (const std::exception &e) {
            o << "EXC " << e.what();
        } catch (...) {
            o << "EXC unknown";
        }
        std::cout << o.str() << "\n" << std::flush;
    }
    return 0;
}
