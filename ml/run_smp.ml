(* handlers for the smp area (C18, C19) *)
let ws_of (s : string) : n list = if s = "-" then [] else List.map n_of_string (String.split_on_char ',' s)
let cls_of = function "P" -> Pos | "S" -> Share | _ -> Not
let out_s (c : cfg) (cl : client) : string =
  match outcome_of c cl with
  | OFull v -> "F" ^ (if int_of_n v = 1 then "1" else "+")
  | OTrunc v -> "T" ^ (if int_of_n v = 1 then "1" else "+")
  | OPending -> "P"
  | ONone -> "N"
let rec take k l = if k = 0 then [] else match l with [] -> [] | x :: r -> x :: take (k - 1) r
let rec drop k l = if k = 0 then l else match l with [] -> [] | _ :: r -> drop (k - 1) r
let join c l = if l = [] then "-" else String.concat "," (List.map (out_s c) l)

let () =
  (* smp.c18 <smp> <memmax> <nw> <lw> <A> <B> <C> <cls> <known> <total> <first> <cut|-> *)
  reg "smp.c18" (fun [smp; memmax; nw; lw; a; b; cc; k; known; total; first; cut] ->
      let p = { p_cls = cls_of k; p_known = (known = "1"); p_total = n_of_string total } in
      let c = { smp = (smp = "1"); memmax = n_of_string memmax; par = (fun _ -> p) } in
      let s = { sc_nw = n_of_string nw; sc_lw = n_of_string lw; sc_A = ws_of a; sc_B = ws_of b; sc_C = ws_of cc;
                sc_first = n_of_string first; sc_cutat = (if cut = "-" then None else Some (n_of_string cut)) } in
      let (g, n1) = run_scen c s in
      let cl = g.cs in
      let na = List.length s.sc_A and nb = List.length s.sc_B in
      Printf.sprintf "n=%s/%s L=%s A=%s B=%s C=%s" (string_of_n n1) (string_of_n g.nf)
        (join c (take 1 cl)) (join c (take na (drop 1 cl))) (join c (take nb (drop (1 + na) cl)))
        (join c (drop (1 + na + nb) cl)))

(* smp.c19 <memmax> <size> <known> <ops...>: a sequential history on one URL; ops G<w> R<w> P<w> B<w.w.w> *)
let rec nat_of_int i = if i <= 0 then O else S (nat_of_int (i - 1))
let fuel50 = nat_of_int 50
let () =
  reg "smp.c19" (fun (memmax :: size :: known :: ops) ->
      let total = n_of_string size in
      let p = { p_cls = Pos; p_known = (known = "1"); p_total = total } in
      let c = { smp = true; memmax = n_of_string memmax; par = (fun _ -> p) } in
      let nw = n_of_int 3 in
      let sy = all_workers c nw in
      let g = ref g0 in
      let out = ref [] in
      let nclients () = List.length !g.cs in
      let nth_client i = List.nth !g.cs i in
      let add () = (g := add_clients !g (S O); nclients () - 1) in
      let res i = match outcome_of c (nth_client i) with
        | OFull v -> "F" ^ string_of_n v | OTrunc v -> "T" ^ string_of_n v | OPending -> "P" | ONone -> "N" in
      let finish_fetches () =
        (* every started fetch answers completely *)
        let v = !g.nf in
        g := run c !g ([EHdr (v, total); EEnd v] @ sy @ sy);
        g := refetch c nw fuel50 !g;
        g := run c !g (sy @ sy) in
      List.iter (fun o ->
          let kind = o.[0] in
          let arg = String.sub o 1 (String.length o - 1) in
          match kind with
          | 'G' | 'R' ->
            let ci = add () in
            let w = n_of_string arg in
            g := step c !g (if kind = 'G' then EFind (n_of_int ci, w) else EReload (n_of_int ci, w));
            g := refetch c nw fuel50 !g;
            g := run c !g (sy @ sy);
            out := ((String.make 1 kind) ^ ":" ^ res ci) :: !out;
            g := step c !g (EFin (n_of_int ci))
          | 'P' ->
            let w = n_of_string arg in
            let (_, found) = find c !g w in
            g := step c !g (EPurge w);
            out := ("P:" ^ (match found with Some _ -> "200" | None -> "404")) :: !out
          | 'B' ->
            let ws = List.map n_of_string (String.split_on_char '.' arg) in
            let cis = List.map (fun w -> let ci = add () in (ci, w)) ws in
            (match cis with
             | (c1, w1) :: rest ->
               g := step c !g (EFind (n_of_int c1, w1));
               let started = (match (nth_client c1).c_st with CMiss -> true | _ -> false) in
               if started then g := step c !g (EStart (n_of_int c1));
               List.iter (fun (ci, w) -> g := step c !g (EFind (n_of_int ci, w))) rest;
               if started then finish_fetches () else (g := refetch c nw fuel50 !g; g := run c !g (sy @ sy))
             | [] -> ());
            out := ("B:" ^ String.concat "," (List.map (fun (ci, _) -> res ci) cis)) :: !out;
            List.iter (fun (ci, _) -> g := step c !g (EFin (n_of_int ci))) cis
          | _ -> failwith "op") ops;
      Printf.sprintf "n=%s %s" (string_of_n !g.nf) (String.concat " " (List.rev !out)))
