(* Bytes.v — common vocabulary: bytes are N, byte strings are lists of N.
   Lengths and indices are N (never large nat numerals). *)
From Coq Require Export List NArith ZArith Bool Lia.
Export ListNotations.
Local Open Scope N_scope.

Definition byte := N.
Definition bytes := list N.

Fixpoint lenN {A} (l : list A) : N :=
  match l with [] => 0 | _ :: r => N.succ (lenN r) end.

Fixpoint takeN {A} (n : N) (l : list A) : list A :=
  match l with
  | [] => []
  | x :: r => if n =? 0 then [] else x :: takeN (N.pred n) r
  end.

Fixpoint dropN {A} (n : N) (l : list A) : list A :=
  match l with
  | [] => []
  | x :: r => if n =? 0 then l else dropN (N.pred n) r
  end.

Fixpoint nthN {A} (n : N) (l : list A) : option A :=
  match l with
  | [] => None
  | x :: r => if n =? 0 then Some x else nthN (N.pred n) r
  end.

Fixpoint span {A} (p : A -> bool) (l : list A) : list A * list A :=
  match l with
  | [] => ([], [])
  | x :: r => if p x then let '(a, b) := span p r in (x :: a, b) else ([], l)
  end.

Fixpoint list_eqb (a b : bytes) : bool :=
  match a, b with
  | [], [] => true
  | x :: a', y :: b' => (x =? y) && list_eqb a' b'
  | _, _ => false
  end.

Fixpoint starts_with (l p : bytes) : bool :=
  match p, l with
  | [], _ => true
  | y :: p', x :: l' => (x =? y) && starts_with l' p'
  | _ :: _, [] => false
  end.

(* a 256-entry table as a membership function *)
Fixpoint tbl_get {A} (d : A) (t : list A) (c : N) : A :=
  match t with
  | [] => d
  | x :: r => if c =? 0 then x else tbl_get d r (N.pred c)
  end.

Definition cset := N -> bool.
Definition mem_tbl (t : list bool) : cset := tbl_get false t.

(* all byte values, 0..255, for finite sweeps *)
Fixpoint upto_nat (n : nat) : list N :=
  match n with O => [] | S k => upto_nat k ++ [N.of_nat k] end.
Definition all_bytes : list N := upto_nat 256.

Lemma lenN_app {A} (a b : list A) : lenN (a ++ b) = lenN a + lenN b.
Proof. induction a as [|x a IH]; cbn [lenN app]; lia. Qed.

Lemma lenN_length {A} (l : list A) : lenN l = N.of_nat (length l).
Proof. induction l as [|x l IH]; cbn [lenN length]; lia. Qed.

Lemma takeN_dropN {A} n (l : list A) : takeN n l ++ dropN n l = l.
Proof.
  revert n; induction l as [|x l IH]; intros n; cbn [takeN dropN]; [reflexivity|].
  destruct (n =? 0) eqn:E; cbn [app]; [reflexivity| now rewrite IH].
Qed.

Lemma lenN_takeN {A} n (l : list A) : lenN (takeN n l) = N.min n (lenN l).
Proof.
  revert n; induction l as [|x l IH]; intros n; cbn [takeN lenN]; [lia|].
  destruct (n =? 0) eqn:E; cbn [lenN]; [apply N.eqb_eq in E; lia|].
  apply N.eqb_neq in E. rewrite IH. lia.
Qed.

Lemma span_app {A} (p : A -> bool) l : fst (span p l) ++ snd (span p l) = l.
Proof.
  induction l as [|x l IH]; cbn [span]; [reflexivity|].
  destruct (p x); [|reflexivity]. destruct (span p l) as [a b]; cbn in *. now rewrite IH.
Qed.

Lemma span_all {A} (p : A -> bool) l : forallb p (fst (span p l)) = true.
Proof.
  induction l as [|x l IH]; cbn [span]; [reflexivity|].
  destruct (p x) eqn:E; [|reflexivity]. destruct (span p l) as [a b]; cbn in *. now rewrite E, IH.
Qed.

Lemma span_stop {A} (p : A -> bool) l :
  match snd (span p l) with [] => True | y :: _ => p y = false end.
Proof.
  induction l as [|x l IH]; cbn [span]; [exact I|].
  destruct (p x) eqn:E; [|exact E]. destruct (span p l) as [a b]; cbn in *. exact IH.
Qed.

Lemma all_bytes_complete c : c < 256 -> In c all_bytes.
Proof.
  intros H. unfold all_bytes.
  assert (G : forall n, (N.to_nat c < n)%nat -> In c (upto_nat n)).
  { induction n as [|n IH]; intros Hn; [lia|]. cbn [upto_nat]. apply in_or_app.
    destruct (Nat.eq_dec (N.to_nat c) n) as [He|Hne]; [right; left; lia| left; apply IH; lia]. }
  apply G. lia.
Qed.

Lemma forallb_bytes (f : N -> bool) :
  forallb f all_bytes = true -> forall c, c < 256 -> f c = true.
Proof. intros H c Hc. rewrite forallb_forall in H. apply H, all_bytes_complete, Hc. Qed.
