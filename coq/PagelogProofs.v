(* PagelogProofs.v — lemmas and proofs for C33 (error-page macro expansion) and C34 (access-log quoting). *)
Require Import SquidV.Bytes SquidV.QuoteModel SquidV.PagelogModel.
Require Import SquidV.gen.ByteMaps_gen SquidV.gen.ErrMacros_gen SquidV.gen.LogQuote_gen.
Require Import ZifyBool ZifyN ZifyNat.
Ltac Zify.zify_post_hook ::= Z.div_mod_to_equations.
Local Open Scope N_scope.

(* ====================================================================== *)
(* Basic facts about C strings, per-byte table maps and the items of HTML-quoted text.  These are the C32 notions
   (same statements as in QuoteProofs.v); they are restated here so that this development depends only on the
   definitions of QuoteModel.v and on the regenerated tables, not on the proofs of other properties. *)
Definition bytes_ok (s : bytes) : Prop := Forall (fun c => c < 256) s.
Definition nul_free (s : bytes) : Prop := Forall (fun c => c <> 0) s.

Lemma cstr_nul_free s : nul_free s -> cstr s = s.
Proof.
  induction 1 as [|c s Hc Hs IH]; cbn [cstr]; [reflexivity|].
  destruct (c =? 0) eqn:E; [apply N.eqb_eq in E; contradiction|]. now rewrite IH.
Qed.

Lemma cstr_is_nul_free s : nul_free (cstr s).
Proof.
  induction s as [|c s IH]; cbn [cstr]; [constructor|].
  destruct (c =? 0) eqn:E; [constructor|]. constructor; [apply N.eqb_neq in E; exact E|exact IH].
Qed.

Lemma cstr_bytes_ok s : bytes_ok s -> bytes_ok (cstr s).
Proof.
  induction 1 as [|c s Hc Hs IH]; cbn [cstr]; [constructor|].
  destruct (c =? 0); constructor; assumption.
Qed.

Lemma map_bytes_cons t c s : map_bytes t (c :: s) = tbl_entry t c ++ map_bytes t s.
Proof. reflexivity. Qed.

Definition ref_char (c : N) : bool := negb (is_html_meta c) && negb (c =? 59).

Definition html_item (it : bytes) : Prop :=
  (exists c, it = [c] /\ is_html_meta c = false) \/
  (exists name v, it = 38 :: name ++ [59] /\ ref_value name = Some v /\ forallb ref_char name = true).

Definition html_item_b (it : bytes) : bool :=
  match it with
  | [] => false
  | c :: rest =>
    match rest with
    | [] => negb (is_html_meta c)
    | _ => (c =? 38) &&
           match rev rest with
           | [] => false
           | z :: rname => (z =? 59) && forallb ref_char (rev rname) &&
                           match ref_value (rev rname) with Some _ => true | None => false end
           end
    end
  end.

Lemma html_item_b_sound it : html_item_b it = true -> html_item it.
Proof.
  unfold html_item_b. destruct it as [|c rest]; [discriminate|].
  destruct rest as [|d rest'].
  - intros H. left. exists c. split; [reflexivity|]. now destruct (is_html_meta c).
  - intros H. apply andb_prop in H. destruct H as [Hc H]. apply N.eqb_eq in Hc. subst c.
    destruct (rev (d :: rest')) as [|z rname] eqn:E; [discriminate|].
    apply andb_prop in H. destruct H as [H Hv]. apply andb_prop in H. destruct H as [Hz Hn].
    apply N.eqb_eq in Hz. subst z.
    destruct (ref_value (rev rname)) as [v|] eqn:Ev; [|discriminate].
    right. exists (rev rname), v. repeat split; try assumption.
    f_equal. rewrite <- (rev_involutive (d :: rest')), E. reflexivity.
Qed.

Definition html_entry_item_ok (c : N) : bool := (c =? 0) || html_item_b (tbl_entry bm_html_quote c).
Lemma html_entries_items c : c < 256 -> html_entry_item_ok c = true.
Proof. apply forallb_bytes. vm_compute. reflexivity. Qed.

Theorem html_quote_items s : bytes_ok s ->
  exists items, html_quote s = concat items /\ Forall html_item items.
Proof.
  intros Hb. exists (map (tbl_entry bm_html_quote) (cstr s)). split; [reflexivity|].
  pose proof (cstr_bytes_ok s Hb) as Hb'. pose proof (cstr_is_nul_free s) as Hn.
  induction (cstr s) as [|c l IH]; cbn [map]; [constructor|].
  inversion Hb' as [|? ? Hc Hl]; inversion Hn as [|? ? Hc0 Hl0]; subst.
  constructor; [|apply IH; assumption].
  apply html_item_b_sound. pose proof (html_entries_items c Hc) as H. unfold html_entry_item_ok in H.
  destruct (c =? 0) eqn:E; [apply N.eqb_eq in E; contradiction|exact H].
Qed.

Definition is_quote_meta (c : N) : bool := (c =? 60) || (c =? 62) || (c =? 34) || (c =? 39).

Lemma forallb_map_bytes (p : N -> bool) t s : bytes_ok s ->
  (forall c, c < 256 -> forallb p (tbl_entry t c) = true) -> forallb p (map_bytes t s) = true.
Proof.
  intros Hb H. induction Hb as [|c s Hc Hs IH]; [reflexivity|].
  rewrite map_bytes_cons, forallb_app, (H c Hc), IH. reflexivity.
Qed.

Theorem html_quote_no_angle_or_quote s : bytes_ok s ->
  forallb (fun c => negb (is_quote_meta c)) (html_quote s) = true.
Proof.
  intros Hb. apply forallb_map_bytes; [apply cstr_bytes_ok, Hb|].
  apply (forallb_bytes (fun c => forallb (fun x => negb (is_quote_meta x)) (tbl_entry bm_html_quote c))).
  vm_compute. reflexivity.
Qed.

Lemma list_eqb_eq a : forall b, list_eqb a b = true -> a = b.
Proof.
  induction a as [|x a IH]; intros [|y b] H; cbn in H; try discriminate; [reflexivity|].
  apply andb_prop in H. destruct H as [H1 H2]. apply N.eqb_eq in H1. subst. f_equal. apply IH, H2.
Qed.

(* ====================================================================== *)
(* generic: per-byte table maps without the "every element is a byte" hypothesis *)

Lemma tbl_get_oob {A} (d : A) t : forall c, lenN t <= c -> tbl_get d t c = d.
Proof.
  induction t as [|x r IH]; intros c Hc; cbn [tbl_get]; [reflexivity|].
  cbn [lenN] in Hc. destruct (c =? 0) eqn:E; [lia|]. apply IH. lia.
Qed.

Definition lt256 (c : N) : bool := c <? 256.

Lemma filter_lt256_ok s : bytes_ok (filter lt256 s).
Proof.
  induction s as [|c s IH]; cbn [filter]; [constructor|].
  destruct (lt256 c) eqn:E; [|exact IH]. constructor; [unfold lt256 in E; apply N.ltb_lt in E; exact E|exact IH].
Qed.

Lemma filter_nul_free p s : nul_free s -> nul_free (filter p s).
Proof.
  induction 1 as [|c s Hc Hs IH]; cbn [filter]; [constructor|].
  destruct (p c); [constructor; assumption|assumption].
Qed.

Lemma map_bytes_filter t s : lenN t = 256 -> map_bytes t s = map_bytes t (filter lt256 s).
Proof.
  intros Ht. induction s as [|c s IH]; [reflexivity|].
  cbn [filter]. destruct (lt256 c) eqn:E.
  - rewrite !map_bytes_cons, IH. reflexivity.
  - rewrite map_bytes_cons, IH. unfold tbl_entry. rewrite tbl_get_oob; [reflexivity|]. unfold lt256 in E. apply N.ltb_ge in E. unfold bytes in *. rewrite Ht. exact E.
Qed.

(* a property of all table entries below 256 holds of the whole image, for arbitrary lists of N *)
Lemma forallb_map_bytes_any (p : N -> bool) t s : lenN t = 256 ->
  (forall c, c < 256 -> forallb p (tbl_entry t c) = true) -> forallb p (map_bytes t s) = true.
Proof.
  intros Ht H. rewrite (map_bytes_filter t s Ht). apply forallb_map_bytes; [apply filter_lt256_ok|exact H].
Qed.

Lemma forallb_concat {A} (p : A -> bool) ls : Forall (fun l => forallb p l = true) ls -> forallb p (concat ls) = true.
Proof. induction 1 as [|l ls Hl Hs IH]; [reflexivity|]. cbn [concat]. rewrite forallb_app, Hl, IH. reflexivity. Qed.

(* ====================================================================== *)
(* C33                                                                      *)

(* ---------- what "neutralised" means ---------- *)
Definition no_qmeta (b : bytes) : Prop := forallb (fun c => negb (is_quote_meta c)) b = true.
(* no less-than, greater-than, double or single quote, and every & starts a well-formed entity reference (QuoteProofs.html_item) *)
Definition markup_free (b : bytes) : Prop :=
  no_qmeta b /\ exists items, b = concat items /\ Forall html_item items.

Lemma html_len : lenN bm_html_quote = 256. Proof. vm_compute. reflexivity. Qed.
Lemma part_len : lenN bm_rfc1738_7 = 256. Proof. vm_compute. reflexivity. Qed.
Lemma unres_len : lenN bm_uri_unreserved = 256. Proof. vm_compute. reflexivity. Qed.

(* html_quote of an arbitrary list equals html_quote of its byte-valued part *)
Lemma html_q_filter p : html_q p = html_quote (filter lt256 (cstr p)).
Proof.
  unfold html_q, html_quote.
  rewrite (cstr_nul_free (filter lt256 (cstr p))); [|apply filter_nul_free, cstr_is_nul_free].
  apply map_bytes_filter, html_len.
Qed.

Lemma html_q_markup_free p : markup_free (html_q p).
Proof.
  rewrite html_q_filter. split.
  - apply html_quote_no_angle_or_quote, filter_lt256_ok.
  - apply html_quote_items, filter_lt256_ok.
Qed.

(* rfc1738_escape_part leaves no markup metacharacter at all *)
Definition plain (c : N) : bool := negb (is_html_meta c).
Lemma escape_part_plain p : forallb plain (escape_part p) = true.
Proof.
  unfold escape_part, rfc1738_escape_tbl. apply forallb_map_bytes_any; [apply part_len|].
  apply (forallb_bytes (fun c => forallb plain (tbl_entry bm_rfc1738_7 c))). vm_compute. reflexivity.
Qed.

Lemma plain_markup_free b : forallb plain b = true -> markup_free b.
Proof.
  intros H. split.
  - unfold no_qmeta. rewrite forallb_forall in *. intros c Hc. specialize (H c Hc).
    unfold plain, is_html_meta in H. unfold is_quote_meta.
    destruct (c =? 60), (c =? 62), (c =? 34), (c =? 39); cbn in *; try discriminate; reflexivity.
  - exists (map (fun c => [c]) b). split.
    + induction b as [|c b IH]; [reflexivity|]. cbn [map concat app]. f_equal. apply IH.
      cbn [forallb] in H. apply andb_prop in H. apply H.
    + induction b as [|c b IH]; cbn [map]; [constructor|].
      cbn [forallb] in H. apply andb_prop in H. destruct H as [Hc Hb].
      constructor; [|apply IH, Hb]. left. exists c. split; [reflexivity|].
      unfold plain in Hc. now destruct (is_html_meta c).
Qed.

Lemma markup_free_nil : markup_free [].
Proof. apply plain_markup_free. reflexivity. Qed.

(* Dump(): only unreserved characters, percent triplets and the two literal separators *)
Lemma unreserved_no_qmeta s : no_qmeta (uri_encode_unreserved s).
Proof.
  unfold no_qmeta, uri_encode_unreserved. apply forallb_map_bytes_any; [apply unres_len|].
  apply (forallb_bytes (fun c => forallb (fun x => negb (is_quote_meta x)) (tbl_entry bm_uri_unreserved c))).
  vm_compute. reflexivity.
Qed.

Lemma dump_no_qmeta st : no_qmeta (dump st).
Proof.
  unfold no_qmeta, dump. rewrite !forallb_app.
  rewrite (unreserved_no_qmeta s_cache_error_info), (unreserved_no_qmeta (e_page_name st)),
          (unreserved_no_qmeta (e_dump_body st)). reflexivity.
Qed.

(* ---------- the regenerated macro table against the hand-assigned source classes ---------- *)
Definition dq_kind (l : N) : N :=
  match assocN l em_cases with Some ((dq, _), _) => dq | None => fst em_default end.
Definition nue_kind (l : N) : N :=
  match assocN l em_cases with Some ((_, nue), _) => nue | None => snd em_default end.

Definition letters_of_class (f : srcclass -> bool) : list N :=
  map fst (filter (fun e => f (snd e)) class_table).
Definition is_Client (c : srcclass) : bool := match c with Client => true | _ => false end.
Definition client_letters : list N := letters_of_class is_Client.

Lemma assocN_in {A} (l : list (N * A)) k v : assocN k l = Some v -> In (k, v) l.
Proof.
  induction l as [|[k' v'] r IH]; cbn [assocN]; [discriminate|].
  destruct (k =? k') eqn:E; intros H.
  - apply N.eqb_eq in E. subst k'. injection H as <-. left. reflexivity.
  - right. apply IH, H.
Qed.

Lemma is_client_in l : is_client l = true -> In l client_letters.
Proof.
  unfold is_client, src_class. destruct (assocN l class_table) as [c|] eqn:E; [|discriminate].
  intros H. apply assocN_in in E. unfold client_letters, letters_of_class.
  apply in_map_iff. exists (l, c). split; [reflexivity|]. apply filter_In. split; [exact E|].
  cbn [snd]. destruct c; try discriminate. reflexivity.
Qed.

(* the flags start as the code declares them, the two epilogue statements are in place, and no case of a
   client-controlled letter assigns do_quote *)
Definition table_check : bool :=
  em_init_do_quote && negb em_init_no_urlescape && em_epilogue_html_quote && em_epilogue_urlescape &&
  forallb (fun l => dq_kind l =? 0) client_letters.
Lemma table_ok : table_check = true.
Proof. vm_compute. reflexivity. Qed.

Lemma client_dq l : is_client l = true -> dq_kind l = 0.
Proof.
  intros H. apply is_client_in in H. pose proof table_ok as T. unfold table_check in T.
  apply andb_prop in T. destruct T as [_ T]. rewrite forallb_forall in T. apply N.eqb_eq, T, H.
Qed.

(* every letter the hand-written classes call client-controlled has a case of its own in the switch *)
Lemma client_letters_have_cases : forallb (fun l => match assocN l em_cases with Some _ => true | None => false end)
                                          client_letters = true.
Proof. vm_compute. reflexivity. Qed.

(* ---------- one macro ---------- *)
Definition piece_ok (st : estate) (p : piece) : Prop :=
  match p with
  | PMac l out =>
    (is_client l = true -> markup_free out) /\
    (l = 87 -> no_qmeta out) /\
    (l = 103 -> e_ftp_listing st = None -> markup_free out)
  | _ => True
  end.

Lemma cstr_forallb p s : forallb p s = true -> forallb p (cstr s) = true.
Proof.
  induction s as [|c s IH]; cbn [cstr forallb]; [reflexivity|]. intros H. apply andb_prop in H. destruct H as [Hc Hs].
  destruct (c =? 0); [reflexivity|]. cbn [forallb]. rewrite Hc, (IH Hs). reflexivity.
Qed.

(* the epilogue on a value whose case did not clear do_quote *)
Lemma quoted_out_markup_free (u : bool) v :
  markup_free (let p := cstr v in let p := html_q p in if u then escape_part p else p).
Proof.
  cbv zeta. destruct u; [apply plain_markup_free, escape_part_plain|apply html_q_markup_free].
Qed.

Lemma epilogue_quoted deny l nuek r :
  Forall (fun p => match p with PMac _ out => markup_free out | _ => True end) (epilogue deny l 0 nuek r).
Proof.
  unfold epilogue. cbv [em_init_do_quote em_init_no_urlescape em_epilogue_html_quote em_epilogue_urlescape].
  change (flag_ran 0 (sw_cond r)) with false. cbn [negb andb orb].
  destruct (sw_nested r); constructor; try constructor; apply quoted_out_markup_free.
Qed.

Lemma epilogue_shape (P : piece -> Prop) deny l dqk nuek r :
  (forall inner, sw_nested r = Some inner -> Forall P inner) -> (forall out, P (PMac l out)) ->
  Forall P (epilogue deny l dqk nuek r).
Proof.
  unfold epilogue. cbv zeta. intros Hn Hp. destruct (sw_nested r) as [inner|].
  - match goal with |- Forall P (if ?b then _ else _) => destruct b end;
      [apply Hn; reflexivity|constructor; [apply Hp|constructor]].
  - constructor; [apply Hp|constructor].
Qed.

Lemma epilogue_quoted_l deny l nuek r :
  Forall (fun p => exists out, p = PMac l out /\ markup_free out) (epilogue deny l 0 nuek r).
Proof.
  unfold epilogue. cbv [em_init_do_quote em_init_no_urlescape em_epilogue_html_quote em_epilogue_urlescape].
  change (flag_ran 0 (sw_cond r)) with false. cbn [negb andb orb].
  destruct (sw_nested r); constructor; try constructor; eexists; (split; [reflexivity|apply quoted_out_markup_free]).
Qed.

Lemma legacy_switch_nested rec st deny allowRec insig l two r :
  legacy_switch rec st deny allowRec insig l two = Some r ->
  forall inner, sw_nested r = Some inner -> exists a i t, rec a i t = Some inner.
Proof.
  unfold legacy_switch. destruct (l =? 68).
  { destruct (negb allowRec); [intros H; injection H as <-; discriminate|].
    destruct (e_detail_verbose st) as [raw|]; [|intros H; injection H as <-; discriminate].
    destruct (rec false insig raw) as [inner0|] eqn:E; [|discriminate].
    destruct (is_empty (flatten inner0)); intros H; injection H as <-; cbn [sw_nested svc]; intros inner Hi;
      [discriminate|]. injection Hi as <-. eauto. }
  destruct (l =? 83).
  { destruct deny; [intros H; injection H as <-; discriminate|].
    destruct (negb insig); [|intros H; injection H as <-; discriminate].
    destruct (rec true true (e_sig_template st)) as [inner0|] eqn:E; [|discriminate].
    intros H; injection H as <-. cbn [sw_nested]. intros inner Hi. injection Hi as <-. eauto. }
  destruct (plain_switch st deny l two) as [v c]. intros H; injection H as <-. discriminate.
Qed.

(* what the switch leaves for %W and %g *)
Lemma legacy_switch_W rec st allowRec insig two r :
  legacy_switch rec st false allowRec insig 87 two = Some r -> sw_nested r = None /\ no_qmeta (sw_val r).
Proof.
  unfold legacy_switch. change (87 =? 68) with false. change (87 =? 83) with false. cbv iota.
  cbn [plain_switch]. intros H. injection H as <-. cbn [sw_nested sw_val]. split; [reflexivity|].
  destruct (e_admin_email st); [|reflexivity]. destruct (e_email_err_data st); [apply dump_no_qmeta|reflexivity].
Qed.

Lemma legacy_switch_g rec st deny allowRec insig two r :
  e_ftp_listing st = None ->
  legacy_switch rec st deny allowRec insig 103 two = Some r -> sw_nested r = None /\ sw_cond r = false.
Proof.
  intros Hl. unfold legacy_switch. change (103 =? 68) with false. change (103 =? 83) with false. cbv iota.
  cbn [plain_switch]. rewrite Hl. intros H. injection H as <-. split; reflexivity.
Qed.

Lemma not_client_87 : is_client 87 = false. Proof. reflexivity. Qed.
Lemma not_client_103 : is_client 103 = false. Proof. reflexivity. Qed.
Lemma case_87 : assocN 87 em_cases = Some ((2, 2), (true, false)). Proof. reflexivity. Qed.
Lemma case_103 : assocN 103 em_cases = Some ((1, 0), (true, false)). Proof. reflexivity. Qed.

Lemma markup_free_piece_ok st l out : markup_free out -> piece_ok st (PMac l out).
Proof. intros H. cbn [piece_ok]. repeat split; intros; try exact H; apply H. Qed.

Lemma deny_break_piece_ok st l : Forall (piece_ok st) (epilogue true l 0 0 (sv [])).
Proof.
  eapply Forall_impl; [|apply epilogue_quoted_l]. intros p [out [-> Hm]]. apply markup_free_piece_ok, Hm.
Qed.

Lemma legacy_code_ok rec st deny allowRec insig l two ps :
  (forall a i t ps', rec a i t = Some ps' -> Forall (piece_ok st) ps') ->
  legacy_code rec st deny allowRec insig l two = Some ps -> Forall (piece_ok st) ps.
Proof.
  intros Hrec. unfold legacy_code.
  assert (Hq : forall nuek r, Forall (piece_ok st) (epilogue deny l 0 nuek r)).
  { intros nuek r. eapply Forall_impl; [|apply epilogue_quoted_l]. intros p [out [-> Hm]].
    apply markup_free_piece_ok, Hm. }
  destruct (is_client l) eqn:Hc.
  - (* client-controlled letter: its case never clears do_quote *)
    pose proof (client_dq l Hc) as Hd. unfold dq_kind in Hd.
    destruct (assocN l em_cases) as [[[dqk nuek] [db ft]]|].
    + subst dqk. destruct (deny && db); [intros H; injection H as <-; apply Hq|].
      destruct (legacy_switch rec st deny allowRec insig l two); [|discriminate].
      intros H; injection H as <-. apply Hq.
    + cbn [fst] in Hd. rewrite Hd. intros H; injection H as <-. apply Hq.
  - destruct (l =? 87) eqn:E87; [apply N.eqb_eq in E87; subst l|].
    { (* %W *)
      rewrite case_87. destruct deny; cbn [andb].
      - intros H; injection H as <-. apply Hq.
      - destruct (legacy_switch rec st false allowRec insig 87 two) as [r|] eqn:Es; [|discriminate].
        intros H; injection H as <-. apply legacy_switch_W in Es. destruct Es as [Hn Hv].
        unfold epilogue. rewrite Hn. cbv [em_init_do_quote em_init_no_urlescape em_epilogue_html_quote em_epilogue_urlescape].
        change (flag_ran 2 (sw_cond r)) with true. cbn [negb andb orb]. constructor; [|constructor]. cbn [piece_ok].
        rewrite not_client_87. split; [intros Hx; discriminate Hx|].
        split; [intros _; apply cstr_forallb, Hv|intros Hx; discriminate Hx]. }
    destruct (l =? 103) eqn:E103; [apply N.eqb_eq in E103; subst l|].
    { (* %g *)
      rewrite case_103. destruct deny; cbn [andb].
      - intros H; injection H as <-. apply Hq.
      - destruct (legacy_switch rec st false allowRec insig 103 two) as [r|] eqn:Es; [|discriminate].
        intros H; injection H as <-.
        destruct (e_ftp_listing st) as [lst|] eqn:El.
        + apply epilogue_shape.
          * intros inner Hi. destruct (legacy_switch_nested _ _ _ _ _ _ _ _ Es inner Hi) as [a [i [t Hr]]].
            apply (Hrec _ _ _ _ Hr).
          * intros out. cbn [piece_ok]. rewrite not_client_103. split; [intros Hx; discriminate Hx|].
            split; [intros Hx; discriminate Hx|intros _ Hl; rewrite El in Hl; discriminate Hl].
        + apply (legacy_switch_g _ _ _ _ _ _ _ El) in Es. destruct Es as [Hn Hcnd].
          unfold epilogue. rewrite Hn, Hcnd.
          cbv [em_init_do_quote em_init_no_urlescape em_epilogue_html_quote em_epilogue_urlescape].
          change (flag_ran 1 false) with false. cbn [negb andb orb]. constructor; [|constructor].
          apply markup_free_piece_ok. apply (quoted_out_markup_free false). }
    (* every other letter: nothing is claimed about its own output; recursively compiled text keeps its pieces *)
    assert (Hp : forall out, piece_ok st (PMac l out)).
    { intros out. cbn [piece_ok]. rewrite Hc. split; [intros Hx; discriminate Hx|].
      split; intros ->; discriminate. }
    destruct (assocN l em_cases) as [[[dqk nuek] [db ft]]|].
    + destruct (deny && db).
      * intros H; injection H as <-. apply epilogue_shape; [intros inner Hi; discriminate|exact Hp].
      * destruct (legacy_switch rec st deny allowRec insig l two) as [r|] eqn:Es; [|discriminate].
        intros H; injection H as <-. apply epilogue_shape; [|exact Hp].
        intros inner Hi. destruct (legacy_switch_nested _ _ _ _ _ _ _ _ Es inner Hi) as [a [i [t Hr]]].
        apply (Hrec _ _ _ _ Hr).
    + intros H; injection H as <-. apply epilogue_shape; [intros inner Hi; discriminate|exact Hp].
Qed.

(* ---------- the scanning loop and the recursion ---------- *)
Lemma scan_ok rec st deny allowRec insig :
  (forall a i t ps', rec a i t = Some ps' -> Forall (piece_ok st) ps') ->
  forall inp skip ps, scan rec st deny allowRec insig skip inp = Some ps -> Forall (piece_ok st) ps.
Proof.
  intros Hrec. induction inp as [|c r IH]; intros skip ps; cbn [scan].
  - intros H; injection H as <-. constructor.
  - destruct (c =? 0); [intros H; injection H as <-; constructor|].
    destruct skip as [|k]; [|apply IH].
    destruct (c =? 37).
    { destruct (legacy_code rec st deny allowRec insig _ _) as [ps1|] eqn:El; [|discriminate].
      destruct (scan rec st deny allowRec insig _ r) as [rest|] eqn:Es; [|discriminate].
      intros H; injection H as <-. apply Forall_app. split.
      - eapply legacy_code_ok; [exact Hrec|exact El].
      - eapply IH. exact Es. }
    destruct ((c =? 64) && starts_with (c :: r) s_magic).
    { destruct (logformat_code st (c :: r)) as [[out k]|].
      - destruct (scan rec st deny allowRec insig k r) as [rest|] eqn:Es; [|discriminate].
        intros H; injection H as <-. constructor; [exact I|]. eapply IH. exact Es.
      - intros H; injection H as <-. constructor; [exact I|constructor]. }
    destruct (scan rec st deny allowRec insig 0 r) as [rest|] eqn:Es; [|discriminate].
    intros H; injection H as <-. constructor; [exact I|]. eapply IH. exact Es.
Qed.

Theorem compile_ok : forall fuel st deny allowRec insig tpl ps,
  compile fuel st deny allowRec insig tpl = Some ps -> Forall (piece_ok st) ps.
Proof.
  induction fuel as [|f IH]; intros st deny allowRec insig tpl ps; cbn [compile]; [discriminate|].
  apply scan_ok. intros a i t ps' H. eapply IH. exact H.
Qed.

(* ---------- the recursion is bounded: %D needs allowRecursion and clears it, %S needs page_id <> SIGNATURE
   and sets it ---------- *)
Definition depth (allowRec insig : bool) : nat := ((if insig then 0 else 2) + (if allowRec then 1 else 0))%nat.

Lemma legacy_code_total rec st deny allowRec insig l two :
  (forall a i t, (depth a i < depth allowRec insig)%nat -> rec a i t <> None) ->
  legacy_code rec st deny allowRec insig l two <> None.
Proof.
  intros Hrec. unfold legacy_code.
  destruct (assocN l em_cases) as [[[dqk nuek] [db ft]]|]; [|discriminate].
  destruct (deny && db); [discriminate|].
  assert (Hs : legacy_switch rec st deny allowRec insig l two <> None).
  { unfold legacy_switch. destruct (l =? 68).
    { destruct allowRec; cbn [negb]; [|discriminate].
      destruct (e_detail_verbose st) as [raw|]; [|discriminate].
      destruct (rec false insig raw) eqn:E.
      - destruct (is_empty _); discriminate.
      - exfalso. apply (Hrec false insig raw); [destruct insig; cbn; lia|exact E]. }
    destruct (l =? 83).
    { destruct deny; [discriminate|]. destruct insig; cbn [negb]; [discriminate|].
      destruct (rec true true (e_sig_template st)) eqn:E; [discriminate|].
      exfalso. apply (Hrec true true (e_sig_template st)); [destruct allowRec; cbn; lia|exact E]. }
    destruct (plain_switch st deny l two). discriminate. }
  destruct (legacy_switch rec st deny allowRec insig l two); [discriminate|contradiction].
Qed.

Lemma scan_total rec st deny allowRec insig :
  (forall a i t, (depth a i < depth allowRec insig)%nat -> rec a i t <> None) ->
  forall inp skip, scan rec st deny allowRec insig skip inp <> None.
Proof.
  intros Hrec. induction inp as [|c r IH]; intros skip; cbn [scan]; [discriminate|].
  destruct (c =? 0); [discriminate|]. destruct skip as [|k]; [|apply IH].
  destruct (c =? 37).
  { pose proof (legacy_code_total rec st deny allowRec insig (match r with [] => 0 | l :: _ => l end)
                                  [c; match r with [] => 0 | l :: _ => l end] Hrec) as Hl.
    destruct (legacy_code rec st deny allowRec insig _ _); [|contradiction].
    match goal with |- context [scan rec st deny allowRec insig ?k r] => pose proof (IH k) as Hs;
      destruct (scan rec st deny allowRec insig k r) end; [discriminate|contradiction]. }
  destruct ((c =? 64) && starts_with (c :: r) s_magic).
  { destruct (logformat_code st (c :: r)) as [[out k]|]; [|discriminate].
    pose proof (IH k) as Hs. destruct (scan rec st deny allowRec insig k r); [discriminate|contradiction]. }
  pose proof (IH 0%nat) as Hs. destruct (scan rec st deny allowRec insig 0 r); [discriminate|contradiction].
Qed.

Theorem compile_total : forall fuel st deny allowRec insig tpl,
  (depth allowRec insig < fuel)%nat -> compile fuel st deny allowRec insig tpl <> None.
Proof.
  induction fuel as [|f IH]; intros st deny allowRec insig tpl Hd; [lia|]. cbn [compile].
  apply scan_total. intros a i t Hlt. apply IH. lia.
Qed.

Theorem build_body_total st tpl : build_body st tpl <> None.
Proof.
  unfold build_body. pose proof (compile_total compile_fuel st false true false tpl) as H.
  destruct (compile compile_fuel st false true false tpl); [discriminate|]. exfalso. apply H; [unfold depth, compile_fuel; lia|reflexivity].
Qed.
Theorem build_deny_info_url_total st tpl : build_deny_info_url st tpl <> None.
Proof.
  unfold build_deny_info_url. pose proof (compile_total compile_fuel st true true false tpl) as H.
  destruct (compile compile_fuel st true true false tpl); [discriminate|]. exfalso. apply H; [unfold depth, compile_fuel; lia|reflexivity].
Qed.

Lemma client_macro_quoted rec st deny allowRec insig l two ps :
  is_client l = true -> legacy_code rec st deny allowRec insig l two = Some ps ->
  exists out, ps = [PMac l out] /\ markup_free out.
Proof.
  intros Hc. pose proof (client_dq l Hc) as Hd. unfold dq_kind in Hd. unfold legacy_code.
  assert (Hq : forall nuek r, exists out, epilogue deny l 0 nuek r = [PMac l out] /\ markup_free out).
  { intros nuek r. unfold epilogue.
    cbv [em_init_do_quote em_init_no_urlescape em_epilogue_html_quote em_epilogue_urlescape].
    change (flag_ran 0 (sw_cond r)) with false. cbn [negb andb orb].
    destruct (sw_nested r); eexists; (split; [reflexivity|apply quoted_out_markup_free]). }
  destruct (assocN l em_cases) as [[[dqk nuek] [db ft]]|].
  - subst dqk. destruct (deny && db); [intros H; injection H as <-; apply Hq|].
    destruct (legacy_switch rec st deny allowRec insig l two); [|discriminate].
    intros H; injection H as <-. apply Hq.
  - cbn [fst] in Hd. rewrite Hd. intros H; injection H as <-. apply Hq.
Qed.

(* ====================================================================== *)
(* C34                                                                      *)

Definition no_crlf (c : N) : bool := negb (c =? 10) && negb (c =? 13).
Definition no_sp (c : N) : bool := negb (c =? 32).

Lemma forallb_concat_map {A} (p : N -> bool) (e : A -> bytes) (s : list A) :
  (forall c, forallb p (e c) = true) -> forallb p (concat (map e s)) = true.
Proof.
  intros H. induction s as [|c s IH]; [reflexivity|]. cbn [map concat]. rewrite forallb_app, H, IH. reflexivity.
Qed.

Ltac eqb_cases :=
  repeat match goal with
         | |- context [if ?b then _ else _] => let E := fresh "E" in destruct b eqn:E
         end.

Lemma hex_lower_ge d : 48 <= hex_lower d.
Proof. unfold hex_lower. destruct (d <? 10); lia. Qed.

(* ---------- the hand-written entries are what the code computes (regenerated tables) ---------- *)
Lemma lqs_entry_table c : c < 256 -> c <> 0 -> lqs_entry c = tbl_entry bm_log_quoted_string c.
Proof.
  intros Hc H0.
  assert (H : (c =? 0) || list_eqb (lqs_entry c) (tbl_entry bm_log_quoted_string c) = true).
  { revert c Hc H0. intros c Hc _. revert c Hc. apply forallb_bytes. vm_compute. reflexivity. }
  destruct (c =? 0) eqn:E; [lia|]. apply list_eqb_eq, H.
Qed.
Lemma mime_entry_table c : c < 256 -> c <> 0 -> mime_entry c = tbl_entry bm_mimeblob c.
Proof.
  intros Hc H0.
  assert (H : (c =? 0) || list_eqb (mime_entry c) (tbl_entry bm_mimeblob c) = true).
  { revert c Hc H0. intros c Hc _. revert c Hc. apply forallb_bytes. vm_compute. reflexivity. }
  destruct (c =? 0) eqn:E; [lia|]. apply list_eqb_eq, H.
Qed.
Lemma user_entry_table c : c < 256 -> c <> 0 -> user_entry c = tbl_entry bm_username_quote c.
Proof.
  intros Hc H0.
  assert (H : (c =? 0) || list_eqb (user_entry c) (tbl_entry bm_username_quote c) = true).
  { revert c Hc H0. intros c Hc _. revert c Hc. apply forallb_bytes. vm_compute. reflexivity. }
  destruct (c =? 0) eqn:E; [lia|]. apply list_eqb_eq, H.
Qed.

(* the dispatch of Format::assemble and Token::parse as regenerated from the source *)
Lemma quoting_switch_table :
  lq_guard_ok = true /\ lq_dash_ok = true /\
  quote_fn_of lq_enum_NONE = 1 /\ quote_fn_of lq_enum_QUOTES = 2 /\ quote_fn_of lq_enum_MIMEBLOB = 3 /\
  quote_fn_of lq_enum_URL = 4 /\ quote_fn_of lq_enum_SHELL = 5 /\ quote_fn_of lq_enum_RAW = 0 /\
  style_of (Some 34) lq_enum_NONE = lq_enum_QUOTES /\ style_of (Some 91) lq_enum_NONE = lq_enum_MIMEBLOB /\
  style_of (Some 35) lq_enum_NONE = lq_enum_URL /\ style_of (Some 47) lq_enum_NONE = lq_enum_SHELL /\
  style_of (Some 39) lq_enum_NONE = lq_enum_RAW.
Proof. vm_compute. repeat split. Qed.

(* ---------- no raw line break in any quoted form ---------- *)
Lemma lqs_no_crlf s : forallb no_crlf (log_quoted_string s) = true.
Proof.
  unfold log_quoted_string. apply forallb_concat_map. intros c. unfold lqs_entry, no_crlf.
  eqb_cases; cbn [forallb]; rewrite ?Bool.andb_true_r; try reflexivity;
    repeat match goal with H : (_ =? _) = false |- _ => rewrite H end; reflexivity.
Qed.

Lemma mime_no_crlf s : forallb no_crlf (mime_blob s) = true.
Proof.
  unfold mime_blob. apply forallb_concat_map. intros c. unfold mime_entry, no_crlf.
  eqb_cases; cbn [forallb]; rewrite ?Bool.andb_true_r; try reflexivity;
    repeat match goal with H : (_ =? _) = false |- _ => rewrite H end; try reflexivity.
  pose proof (hex_lower_ge (c / 16)). pose proof (hex_lower_ge (c mod 16)).
  repeat match goal with |- context [?a =? ?b] => replace (a =? b) with false by (symmetry; apply N.eqb_neq; lia) end.
  reflexivity.
Qed.

Lemma shell_body_no_crlf s : forallb no_crlf (concat (map shell_entry s)) = true.
Proof.
  apply forallb_concat_map. intros c. unfold shell_entry, no_crlf.
  eqb_cases; cbn [forallb]; rewrite ?Bool.andb_true_r; try reflexivity;
    repeat match goal with H : (_ =? _) = false |- _ => rewrite H end; reflexivity.
Qed.
Lemma shell_no_crlf s : forallb no_crlf (shell_quote s) = true.
Proof.
  unfold shell_quote. destruct (has_space (cstr s)); [|apply shell_body_no_crlf].
  rewrite !forallb_app, shell_body_no_crlf. reflexivity.
Qed.

Lemma url_len : lenN bm_rfc1738_3 = 256. Proof. vm_compute. reflexivity. Qed.
Lemma def_len : lenN bm_rfc1738_259 = 256. Proof. vm_compute. reflexivity. Qed.

Lemma url_no_crlf_sp s : forallb (fun c => no_crlf c && no_sp c) (url_quote s) = true.
Proof.
  unfold url_quote, rfc1738_escape_tbl. apply forallb_map_bytes_any; [apply url_len|].
  apply (forallb_bytes (fun c => forallb (fun x => no_crlf x && no_sp x) (tbl_entry bm_rfc1738_3 c))).
  vm_compute. reflexivity.
Qed.
Lemma default_no_crlf_sp s : forallb (fun c => no_crlf c && no_sp c) (default_quote s) = true.
Proof.
  unfold default_quote, rfc1738_escape_tbl. apply forallb_map_bytes_any; [apply def_len|].
  apply (forallb_bytes (fun c => forallb (fun x => no_crlf x && no_sp x) (tbl_entry bm_rfc1738_259 c))).
  vm_compute. reflexivity.
Qed.

Lemma forallb_weaken {A} (p q : A -> bool) l : (forall x, p x = true -> q x = true) -> forallb p l = true -> forallb q l = true.
Proof. intros H. rewrite !forallb_forall. intros Hp x Hx. apply H, Hp, Hx. Qed.

(* ---------- quoted-string style: delimited by the next unescaped double quote, and reversible ---------- *)
Lemma read_quoted_lqs_entry c r : c <> 0 ->
  read_quoted unbackslash (lqs_entry c ++ r) =
  match read_quoted unbackslash r with Some (f, rest) => Some (c :: f, rest) | None => None end.
Proof.
  intros _. unfold lqs_entry.
  destruct (c =? 13) eqn:E13; [apply N.eqb_eq in E13; subst c; reflexivity|].
  destruct (c =? 10) eqn:E10; [apply N.eqb_eq in E10; subst c; reflexivity|].
  destruct (c =? 9) eqn:E9; [apply N.eqb_eq in E9; subst c; reflexivity|].
  destruct ((c =? 34) || (c =? 92)) eqn:Eq.
  - cbn [app read_quoted]. change (92 =? 34) with false. change (92 =? 92) with true. cbv iota.
    assert (Hu : unbackslash c = c).
    { unfold unbackslash. apply Bool.orb_true_iff in Eq. destruct Eq as [Eq|Eq]; apply N.eqb_eq in Eq; subst c; reflexivity. }
    rewrite Hu. reflexivity.
  - apply Bool.orb_false_iff in Eq. destruct Eq as [E34 E92]. cbn [app read_quoted]. rewrite E34, E92. reflexivity.
Qed.

Theorem quoted_string_delimited s rest :
  read_quoted unbackslash (log_quoted_string s ++ 34 :: rest) = Some (cstr s, rest).
Proof.
  unfold log_quoted_string. pose proof (cstr_is_nul_free s) as Hn.
  induction (cstr s) as [|c l IH]; [reflexivity|].
  inversion Hn as [|? ? Hc Hl]; subst. cbn [map concat]. rewrite <- app_assoc, read_quoted_lqs_entry by exact Hc.
  rewrite (IH Hl). reflexivity.
Qed.

(* ---------- URL and default styles: no space, so delimited by the next space ---------- *)
Lemma read_until_app stop a rest :
  forallb (fun c => negb (c =? stop)) a = true -> read_until stop (a ++ stop :: rest) = Some (a, rest).
Proof.
  induction a as [|c a IH]; cbn [app read_until forallb].
  - rewrite N.eqb_refl. reflexivity.
  - intros H. apply andb_prop in H. destruct H as [Hc Ha]. apply Bool.negb_true_iff in Hc. rewrite Hc, (IH Ha). reflexivity.
Qed.

Theorem url_delimited s rest : read_until 32 (url_quote s ++ 32 :: rest) = Some (url_quote s, rest).
Proof.
  apply read_until_app. eapply forallb_weaken; [|apply url_no_crlf_sp].
  intros x H. apply andb_prop in H. apply H.
Qed.
Theorem default_delimited s rest : read_until 32 (default_quote s ++ 32 :: rest) = Some (default_quote s, rest).
Proof.
  apply read_until_app. eapply forallb_weaken; [|apply default_no_crlf_sp].
  intros x H. apply andb_prop in H. apply H.
Qed.

(* URL style is reversible: percent-decoding (QuoteModel.pct_decode, the structural RFC 3986 decoder) gives the
   value back, because flag set 3 escapes the percent sign itself.  (That Squid's own rfc1738_unescape computes
   this decoding on escaped strings is C31's theorem.) *)
Definition pct_item_ok (c : N) (e : bytes) : bool :=
  match e with
  | [x] => (x =? c) && negb (x =? 37)
  | [p; h1; h2] => (p =? 37) && match hexval h1, hexval h2 with Some a, Some b => 16 * a + b =? c | _, _ => false end
  | _ => false
  end.
Lemma pct_decode_item_ok c e r : pct_item_ok c e = true -> pct_decode (e ++ r) = option_map (cons c) (pct_decode r).
Proof.
  unfold pct_item_ok. destruct e as [|x [|y [|z [|w e]]]]; try discriminate.
  - intros H. apply andb_prop in H. destruct H as [Hx H37]. apply N.eqb_eq in Hx. subst x.
    apply Bool.negb_true_iff in H37. cbn [app pct_decode]. rewrite H37. reflexivity.
  - intros H. apply andb_prop in H. destruct H as [Hp H]. apply N.eqb_eq in Hp. subst x.
    cbn [app pct_decode]. change (37 =? 37) with true. cbv iota.
    destruct (hexval y) as [a|]; [|discriminate]. destruct (hexval z) as [b|]; [|discriminate].
    apply N.eqb_eq in H. subst c. reflexivity.
Qed.
Lemma url_entries_ok c : c < 256 -> (c =? 0) || pct_item_ok c (tbl_entry bm_rfc1738_3 c) = true.
Proof. revert c. apply forallb_bytes. vm_compute. reflexivity. Qed.

Theorem url_reversible s : bytes_ok s -> pct_decode (url_quote s) = Some (cstr s).
Proof.
  intros Hb. unfold url_quote, rfc1738_escape_tbl, map_bytes.
  pose proof (cstr_bytes_ok s Hb) as Hb'. pose proof (cstr_is_nul_free s) as Hn.
  induction (cstr s) as [|c l IH]; [reflexivity|].
  inversion Hb' as [|? ? Hc Hl]; inversion Hn as [|? ? Hc0 Hl0]; subst.
  cbn [map concat]. pose proof (url_entries_ok c Hc) as H.
  destruct (c =? 0) eqn:E; [apply N.eqb_eq in E; contradiction|]. cbn [orb] in H.
  rewrite (pct_decode_item_ok c _ _ H), (IH Hl Hl0). reflexivity.
Qed.

(* ---------- mime-blob style ---------- *)
Definition mime_item_rt (c : N) (e : bytes) : bool :=
  match e with
  | [x] => (x =? c) && negb (x =? 37) && negb (x =? 92)
  | [p; h1; h2] =>
    (p =? 37) && match hexval h1, hexval h2 with Some a, Some b => 16 * a + b =? c | _, _ => false end
  | [b; e'] => (b =? 92) && (((e' =? 114) && (c =? 13)) || ((e' =? 110) && (c =? 10)) || ((e' =? 92) && (c =? 92)))
  | _ => false
  end.

Lemma mime_decode_item c e r : mime_item_rt c e = true ->
  mime_decode (e ++ r) = option_map (cons c) (mime_decode r).
Proof.
  unfold mime_item_rt. destruct e as [|x [|y [|z [|w e]]]]; try discriminate.
  - intros H. apply andb_prop in H. destruct H as [H H92]. apply andb_prop in H. destruct H as [Hx H37].
    apply N.eqb_eq in Hx. subst x. apply Bool.negb_true_iff in H37. apply Bool.negb_true_iff in H92.
    cbn [app mime_decode]. rewrite H37, H92. reflexivity.
  - intros H. apply andb_prop in H. destruct H as [Hb H]. apply N.eqb_eq in Hb. subst x.
    cbn [app mime_decode]. change (92 =? 37) with false. change (92 =? 92) with true. cbv iota.
    apply Bool.orb_true_iff in H. destruct H as [H|H]; [apply Bool.orb_true_iff in H; destruct H as [H|H]|];
      apply andb_prop in H; destruct H as [He Hc]; apply N.eqb_eq in He; apply N.eqb_eq in Hc; subst; reflexivity.
  - intros H. apply andb_prop in H. destruct H as [Hp H]. apply N.eqb_eq in Hp. subst x.
    cbn [app mime_decode]. change (37 =? 37) with true. cbv iota.
    destruct (hexval y) as [a|]; [|discriminate]. destruct (hexval z) as [b|]; [|discriminate].
    apply N.eqb_eq in H. subst c. reflexivity.
Qed.

Lemma mime_entries_rt c : c < 256 -> (c =? 0) || mime_item_rt c (mime_entry c) = true.
Proof. revert c. apply forallb_bytes. vm_compute. reflexivity. Qed.

Theorem mime_reversible s : bytes_ok s -> mime_decode (mime_blob s) = Some (cstr s).
Proof.
  intros Hb. unfold mime_blob. pose proof (cstr_bytes_ok s Hb) as Hb'. pose proof (cstr_is_nul_free s) as Hn.
  induction (cstr s) as [|c l IH]; [reflexivity|].
  inversion Hb' as [|? ? Hc Hl]; inversion Hn as [|? ? Hc0 Hl0]; subst.
  cbn [map concat]. pose proof (mime_entries_rt c Hc) as H.
  destruct (c =? 0) eqn:E; [apply N.eqb_eq in E; contradiction|]. cbn [orb] in H.
  rewrite (mime_decode_item c _ _ H), (IH Hl Hl0). reflexivity.
Qed.

(* the form is printable ASCII without brackets: inside [ ] it is delimited by the closing bracket *)
Definition mime_out_ok (c : N) : bool := (32 <=? c) && (c <? 127) && negb (c =? 91) && negb (c =? 93).
Lemma forallb_concat_map_bytes (p : N -> bool) (e : N -> bytes) (s : bytes) : bytes_ok s ->
  (forall c, c < 256 -> forallb p (e c) = true) -> forallb p (concat (map e s)) = true.
Proof.
  intros Hb H. induction Hb as [|c s Hc Hs IH]; [reflexivity|]. cbn [map concat]. rewrite forallb_app, (H c Hc), IH. reflexivity.
Qed.

Lemma mime_alphabet s : bytes_ok s -> forallb mime_out_ok (mime_blob s) = true.
Proof.
  intros Hb. unfold mime_blob. apply forallb_concat_map_bytes; [apply cstr_bytes_ok, Hb|].
  apply (forallb_bytes (fun c => forallb mime_out_ok (mime_entry c))). vm_compute. reflexivity.
Qed.

Theorem mime_bracket_delimited s rest : bytes_ok s ->
  read_bracketed (mime_blob s ++ 93 :: rest) = Some (cstr s, rest).
Proof.
  intros Hb. unfold read_bracketed. rewrite read_until_app.
  - rewrite (mime_reversible s Hb). reflexivity.
  - eapply forallb_weaken; [|apply (mime_alphabet s Hb)]. intros x H. unfold mime_out_ok in H.
    apply andb_prop in H. apply H.
Qed.

(* a space passes the mime-blob style as it is: outside brackets such a field is not delimited.  This is the
   documented behaviour of the style (cf.data.pre: SP is not encoded); it concerns custom logformats that use a
   bare %[code.  The user-name field of the built-in format goes through QuoteUrlEncodeUsername instead (below). *)
Theorem mime_passes_space : mime_blob [97; 32; 98] = [97; 32; 98].
Proof. reflexivity. Qed.

(* ---------- the user-name field (QuoteUrlEncodeUsername) ---------- *)
(* the two-pass definition is the per-byte rule user_entry *)
Lemma encode_spaces_app a b : encode_spaces (a ++ b) = encode_spaces a ++ encode_spaces b.
Proof. unfold encode_spaces. rewrite map_app, concat_app. reflexivity. Qed.

Lemma encode_spaces_mime_entry c : encode_spaces (mime_entry c) = user_entry c.
Proof.
  unfold user_entry. destruct (c =? 32) eqn:E; [apply N.eqb_eq in E; subst c; reflexivity|].
  unfold mime_entry.
  destruct (c =? 13); [reflexivity|]. destruct (c =? 10); [reflexivity|].
  destruct ((c <=? 31) || (127 <=? c) || (c =? 37) || (c =? 91) || (c =? 93)).
  - unfold encode_spaces, space_entry. cbn [map concat app].
    pose proof (hex_lower_ge (c / 16)). pose proof (hex_lower_ge (c mod 16)).
    replace (hex_lower (c / 16) =? 32) with false by (symmetry; apply N.eqb_neq; lia).
    replace (hex_lower (c mod 16) =? 32) with false by (symmetry; apply N.eqb_neq; lia). reflexivity.
  - destruct (c =? 92); [reflexivity|]. unfold encode_spaces, space_entry. cbn [map concat app]. rewrite E. reflexivity.
Qed.

Lemma encode_spaces_mime_blob s : encode_spaces (mime_blob s) = concat (map user_entry (cstr s)).
Proof.
  unfold mime_blob. induction (cstr s) as [|c l IH]; [reflexivity|].
  cbn [map concat]. rewrite encode_spaces_app, encode_spaces_mime_entry, IH. reflexivity.
Qed.

Definition user_out_ok (c : N) : bool := no_crlf c && no_sp c.
Lemma user_alphabet s : forallb user_out_ok (concat (map user_entry (cstr s))) = true.
Proof.
  apply forallb_concat_map. intros c. unfold user_entry.
  destruct (c =? 32) eqn:E32; [reflexivity|].
  assert (Hcr : forallb no_crlf (mime_entry c) = true).
  { destruct (c =? 0) eqn:E0; [apply N.eqb_eq in E0; subst c; reflexivity|].
    pose proof (mime_no_crlf [c]) as H. unfold mime_blob in H. cbn [cstr] in H. rewrite E0 in H.
    cbn [cstr map concat] in H. rewrite app_nil_r in H. exact H. }
  assert (Hsp : forallb no_sp (mime_entry c) = true).
  { unfold mime_entry, no_sp.
    destruct (c =? 13); [reflexivity|]. destruct (c =? 10); [reflexivity|].
    destruct ((c <=? 31) || (127 <=? c) || (c =? 37) || (c =? 91) || (c =? 93)).
    - cbn [forallb]. pose proof (hex_lower_ge (c / 16)). pose proof (hex_lower_ge (c mod 16)).
      replace (hex_lower (c / 16) =? 32) with false by (symmetry; apply N.eqb_neq; lia).
      replace (hex_lower (c mod 16) =? 32) with false by (symmetry; apply N.eqb_neq; lia). reflexivity.
    - destruct (c =? 92); [reflexivity|]. cbn [forallb]. rewrite E32. reflexivity. }
  unfold user_out_ok. induction (mime_entry c) as [|x l IH]; [reflexivity|].
  cbn [forallb] in *. apply andb_prop in Hcr. apply andb_prop in Hsp. destruct Hcr as [H1 H2]. destruct Hsp as [H3 H4].
  rewrite H1, H3, (IH H2 H4). reflexivity.
Qed.

Lemma user_entries_rt c : c < 256 -> (c =? 0) || mime_item_rt c (user_entry c) = true.
Proof. revert c. apply forallb_bytes. vm_compute. reflexivity. Qed.

Lemma user_decodes s : bytes_ok s -> mime_decode (concat (map user_entry (cstr s))) = Some (cstr s).
Proof.
  intros Hb. pose proof (cstr_bytes_ok s Hb) as Hb'. pose proof (cstr_is_nul_free s) as Hn.
  induction (cstr s) as [|c l IH]; [reflexivity|].
  inversion Hb' as [|? ? Hc Hl]; inversion Hn as [|? ? Hc0 Hl0]; subst.
  cbn [map concat]. pose proof (user_entries_rt c Hc) as H.
  destruct (c =? 0) eqn:E; [apply N.eqb_eq in E; contradiction|]. cbn [orb] in H.
  rewrite (mime_decode_item c _ _ H), (IH Hl Hl0). reflexivity.
Qed.

(* the user-name field of the built-in format: for EVERY user name, the logged form has no space and no line break,
   is therefore delimited by the next space whatever follows, and decodes back to the name *)
Theorem username_field_delimited name q rest : bytes_ok name -> username_quote (Some name) = Some q ->
  forallb user_out_ok q = true /\
  read_until 32 (q ++ 32 :: rest) = Some (q, rest) /\
  mime_decode q = Some (cstr name).
Proof.
  intros Hb. unfold username_quote. destruct (is_empty (cstr name)); [discriminate|].
  intros H. injection H as <-. rewrite encode_spaces_mime_blob.
  pose proof (user_alphabet name) as Ha. split; [exact Ha|]. split.
  - apply read_until_app. eapply forallb_weaken; [|exact Ha]. intros x Hx. unfold user_out_ok in Hx.
    apply andb_prop in Hx. apply Hx.
  - apply user_decodes, Hb.
Qed.

Theorem username_absent : username_quote None = None /\ forall n, cstr n = [] -> username_quote (Some n) = None.
Proof. split; [reflexivity|]. intros n H. unfold username_quote. rewrite H. reflexivity. Qed.

(* ---------- shell style ---------- *)
Lemma read_quoted_shell_entry c r : c <> 0 ->
  read_quoted unbackslash_sh (shell_entry c ++ r) =
  match read_quoted unbackslash_sh r with Some (f, rest) => Some (c :: f, rest) | None => None end.
Proof.
  intros _. unfold shell_entry.
  destruct (c =? 10) eqn:E10; [apply N.eqb_eq in E10; subst c; reflexivity|].
  destruct (c =? 13) eqn:E13; [apply N.eqb_eq in E13; subst c; reflexivity|].
  destruct ((c =? 34) || (c =? 92)) eqn:Eq.
  - cbn [app read_quoted]. change (92 =? 34) with false. change (92 =? 92) with true. cbv iota.
    assert (Hu : unbackslash_sh c = c).
    { unfold unbackslash_sh. apply Bool.orb_true_iff in Eq. destruct Eq as [Eq|Eq]; apply N.eqb_eq in Eq; subst c; reflexivity. }
    rewrite Hu. reflexivity.
  - apply Bool.orb_false_iff in Eq. destruct Eq as [E34 E92]. cbn [app read_quoted]. rewrite E34, E92. reflexivity.
Qed.

Lemma read_quoted_shell_body l rest : nul_free l ->
  read_quoted unbackslash_sh (concat (map shell_entry l) ++ 34 :: rest) = Some (l, rest).
Proof.
  induction 1 as [|c l Hc Hl IH]; [reflexivity|].
  cbn [map concat]. rewrite <- app_assoc, read_quoted_shell_entry by exact Hc. rewrite IH. reflexivity.
Qed.

Lemma sh_unescape_entry c r : c <> 0 ->
  sh_unescape (shell_entry c ++ r) = option_map (cons c) (sh_unescape r).
Proof.
  intros _. unfold shell_entry.
  destruct (c =? 10) eqn:E10; [apply N.eqb_eq in E10; subst c; reflexivity|].
  destruct (c =? 13) eqn:E13; [apply N.eqb_eq in E13; subst c; reflexivity|].
  destruct ((c =? 34) || (c =? 92)) eqn:Eq.
  - cbn [app sh_unescape]. change (92 =? 92) with true. cbv iota.
    assert (Hu : unbackslash_sh c = c).
    { unfold unbackslash_sh. apply Bool.orb_true_iff in Eq. destruct Eq as [Eq|Eq]; apply N.eqb_eq in Eq; subst c; reflexivity. }
    rewrite Hu. reflexivity.
  - apply Bool.orb_false_iff in Eq. destruct Eq as [E34 E92]. cbn [app sh_unescape]. rewrite E92. reflexivity.
Qed.

Lemma sh_unescape_body l : nul_free l -> sh_unescape (concat (map shell_entry l)) = Some l.
Proof.
  induction 1 as [|c l Hc Hl IH]; [reflexivity|].
  cbn [map concat]. rewrite sh_unescape_entry by exact Hc. rewrite IH. reflexivity.
Qed.

Lemma shell_body_no_sp l : has_space l = false -> forallb (fun c => negb (c =? 32)) (concat (map shell_entry l)) = true.
Proof.
  induction l as [|c l IH]; [reflexivity|]. unfold has_space. cbn [existsb]. intros H.
  apply Bool.orb_false_iff in H. destruct H as [Hc Hl]. cbn [map concat]. rewrite forallb_app, (IH Hl), Bool.andb_true_r.
  rewrite N.eqb_sym in Hc. unfold shell_entry.
  destruct (c =? 10); [reflexivity|]. destruct (c =? 13); [reflexivity|].
  destruct ((c =? 34) || (c =? 92)); cbn [forallb]; rewrite Hc; reflexivity.
Qed.

Lemma shell_body_head l x : l <> [] -> nul_free l ->
  exists h t, concat (map shell_entry l) ++ x = h :: t /\ (h =? 34) = false.
Proof.
  destruct l as [|c l]; [contradiction|]. intros _ Hn. inversion Hn as [|? ? Hc Hl]; subst.
  cbn [map concat]. unfold shell_entry.
  destruct (c =? 10); [eexists; eexists; split; [reflexivity|reflexivity]|].
  destruct (c =? 13); [eexists; eexists; split; [reflexivity|reflexivity]|].
  destruct ((c =? 34) || (c =? 92)) eqn:Eq; [eexists; eexists; split; [reflexivity|reflexivity]|].
  apply Bool.orb_false_iff in Eq. eexists; eexists; split; [reflexivity|apply Eq].
Qed.

(* a shell-style field followed by the separating space is read back exactly (reference reader) *)
Theorem shell_delimited s rest : cstr s <> [] ->
  read_shell_word (shell_quote s ++ 32 :: rest) = Some (cstr s, rest).
Proof.
  intros Hne. unfold shell_quote. pose proof (cstr_is_nul_free s) as Hn.
  destruct (has_space (cstr s)) eqn:Hs.
  - cbn [app read_shell_word]. change (34 =? 34) with true. cbv iota.
    rewrite <- app_assoc. cbn [app]. rewrite (read_quoted_shell_body _ _ Hn). rewrite N.eqb_refl. reflexivity.
  - destruct (shell_body_head (cstr s) (32 :: rest) Hne Hn) as [h [t [Heq Hh]]].
    unfold read_shell_word. rewrite Heq, Hh, <- Heq.
    rewrite (read_until_app 32 _ rest (shell_body_no_sp _ Hs)), (sh_unescape_body _ Hn). reflexivity.
Qed.

(* ---------- one record = one line ---------- *)
Definition no_lf (c : N) : bool := negb (c =? 10).

Lemma no_crlf_no_lf l : forallb no_crlf l = true -> forallb no_lf l = true.
Proof. apply forallb_weaken. intros x H. unfold no_crlf in H. apply andb_prop in H. apply H. Qed.

(* a %code is protected when its style is one of the five quoting styles and the quoting switch is entered:
   an explicit or inherited style other than NONE, or a %code that asks for the default URL-style quoting *)
Definition protected_code (q : N) (kind : N) : bool :=
  existsb (N.eqb q) [lq_enum_NONE; lq_enum_QUOTES; lq_enum_MIMEBLOB; lq_enum_URL; lq_enum_SHELL] &&
  (code_sets_quote kind || negb (q =? lq_enum_NONE)).

Fixpoint protected_fmt (ctx : N) (fmt : list fitem) : Prop :=
  match fmt with
  | [] => True
  | FLit t :: r => forallb no_lf (cstr t) = true /\ protected_fmt (ctx_after ctx (cstr t)) r
  | FCode m kind v sp :: r => protected_code (style_of m ctx) kind = true /\ protected_fmt ctx r
  end.

Lemma apply_quote_fn_no_lf fid o : In fid [1; 2; 3; 4; 5] -> forallb no_lf (apply_quote_fn fid o) = true.
Proof.
  intros H. cbn [In] in H.
  destruct H as [<-|[<-|[<-|[<-|[<-|[]]]]]]; cbn [apply_quote_fn].
  - eapply forallb_weaken; [|apply default_no_crlf_sp]. intros x H. apply andb_prop in H. destruct H as [H _].
    unfold no_crlf in H. apply andb_prop in H. apply H.
  - apply no_crlf_no_lf, lqs_no_crlf.
  - apply no_crlf_no_lf, mime_no_crlf.
  - eapply forallb_weaken; [|apply url_no_crlf_sp]. intros x H. apply andb_prop in H. destruct H as [H _].
    unfold no_crlf in H. apply andb_prop in H. apply H.
  - apply no_crlf_no_lf, shell_no_crlf.
Qed.

Lemma protected_fn q : existsb (N.eqb q) [lq_enum_NONE; lq_enum_QUOTES; lq_enum_MIMEBLOB; lq_enum_URL; lq_enum_SHELL] = true ->
  In (quote_fn_of q) [1; 2; 3; 4; 5].
Proof.
  cbn [existsb]. rewrite Bool.orb_false_r. intros H.
  repeat (apply Bool.orb_true_iff in H; destruct H as [H|H]); apply N.eqb_eq in H; subst q; vm_compute; tauto.
Qed.

Lemma quote_field_no_lf q kind v : protected_code q kind = true ->
  forallb no_lf (quote_field q (code_sets_quote kind) v) = true.
Proof.
  unfold protected_code. intros H. apply andb_prop in H. destruct H as [Hq Hg].
  unfold quote_field. change lq_dash_ok with true. change lq_guard_ok with true. cbn [negb orb].
  destruct v as [o|]; [|reflexivity]. destruct (is_empty (cstr o)); [reflexivity|].
  rewrite Hg. apply apply_quote_fn_no_lf, protected_fn, Hq.
Qed.

Lemma assemble_no_lf : forall fmt ctx, protected_fmt ctx fmt -> forallb no_lf (assemble ctx fmt) = true.
Proof.
  induction fmt as [|it r IH]; intros ctx H; [reflexivity|]. destruct it as [t|m kind v sp]; cbn [assemble protected_fmt] in *.
  - destruct H as [Ht Hr]. rewrite forallb_app, Ht, (IH _ Hr). reflexivity.
  - destruct H as [Hc Hr]. rewrite !forallb_app, (quote_field_no_lf _ _ v Hc), (IH _ Hr).
    destruct sp; reflexivity.
Qed.

Lemma count_lf_none l : forallb no_lf l = true -> count_lf l = 0.
Proof.
  unfold count_lf. induction l as [|c l IH]; [reflexivity|]. cbn [forallb filter]. intros H.
  apply andb_prop in H. destruct H as [Hc Hl]. unfold no_lf in Hc. apply Bool.negb_true_iff in Hc.
  rewrite N.eqb_sym in Hc. rewrite Hc. apply IH, Hl.
Qed.

Lemma count_lf_app a b : count_lf (a ++ b) = count_lf a + count_lf b.
Proof. unfold count_lf. rewrite filter_app, lenN_app. reflexivity. Qed.

Theorem record_is_one_line fmt : protected_fmt lq_enum_NONE fmt ->
  count_lf (log_record fmt) = 1 /\ exists body, log_record fmt = body ++ [10] /\ forallb no_lf body = true.
Proof.
  intros H. unfold log_record. pose proof (assemble_no_lf fmt _ H) as Ha.
  pose proof (cstr_forallb _ _ Ha) as Hc. split.
  - rewrite count_lf_app, (count_lf_none _ Hc). reflexivity.
  - eexists. split; [reflexivity|exact Hc].
Qed.

(* without protection a line feed in the value is a line feed in the log: the raw style, and %codes that do not
   ask for quoting (the user name, the request URL as logged) under no style *)
Theorem unprotected_code_passes_lf :
  count_lf (log_record [FCode (Some 39) 1 (Some [97; 10; 98]) false]) = 2 /\
  count_lf (log_record [FCode None 5 (Some [97; 10; 98]) false]) = 2.
Proof. split; vm_compute; reflexivity. Qed.

(* ---------- statements for Properties_C33.v ---------- *)
Lemma client_cases_keep_do_quote :
  em_init_do_quote = true /\ em_init_no_urlescape = false /\
  em_epilogue_html_quote = true /\ em_epilogue_urlescape = true /\
  client_letters = [97; 66; 102; 70; 72; 109; 77; 111; 80; 82; 115; 85; 117; 122; 90] /\
  forall l, is_client l = true -> dq_kind l = 0.
Proof. repeat split; try reflexivity. exact client_dq. Qed.

Lemma error_page_body st template :
  exists pieces, build_body st template = Some (flatten pieces) /\ Forall (piece_ok st) pieces.
Proof.
  unfold build_body. destruct (compile compile_fuel st false true false template) as [ps|] eqn:E.
  - exists ps. split; [reflexivity|exact (compile_ok _ _ _ _ _ _ _ E)].
  - exfalso. apply (compile_total compile_fuel st false true false template); [unfold depth, compile_fuel; lia|exact E].
Qed.

Lemma deny_info_location st template :
  exists pieces, build_deny_info_url st template = Some (flatten pieces) /\ Forall (piece_ok st) pieces.
Proof.
  unfold build_deny_info_url. destruct (compile compile_fuel st true true false template) as [ps|] eqn:E.
  - exists ps. split; [reflexivity|exact (compile_ok _ _ _ _ _ _ _ E)].
  - exfalso. apply (compile_total compile_fuel st true true false template); [unfold depth, compile_fuel; lia|exact E].
Qed.

(* a concrete ErrorState for the examples: a request for http://h/<x>'& with method M&, a user name a-doublequote-b,
   the detail template %M! and the signature template: by %h %S *)
Definition sample_state : estate :=
  mkE true (Some [97; 34; 98]) (Some [49]) [56; 48] [] [69; 82; 82] (Some [37; 77; 33]) (Some [88]) [48] false []
      None None None None [104] [] [104] [49] None [] None None [77; 38] None (Some [56; 48]) [104; 116; 116; 112]
      [47; 60; 120; 62; 39; 38] [77; 38; 32; 47; 60; 120; 62; 39; 38; 13; 10]
      [104; 116; 116; 112; 58; 47; 47; 104; 47; 60; 120; 62; 39; 38] None [115; 113] [98; 121; 32; 37; 104; 32; 37; 83]
      [116] [84] [104; 116; 116; 112; 58; 47; 47; 104; 47; 60; 120; 62; 39; 38] (Some [119]) true [60; 62] None None None
      (fun _ => None).
