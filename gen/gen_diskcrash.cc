// Table generator for C16/C17: on-disk layout constants of the rock db the crash model depends on.
#include <iostream>
#include <sstream>
#include <limits>
#include <cstddef>
#include <string>
#include <vector>
#include <map>
#include <memory>
#include <atomic>
#include <algorithm>
#include "squid.h"
#include "fs/rock/RockDbCell.h"
#define private public
#define protected public
#include "fs/rock/RockSwapDir.h"
#undef private
#undef protected
#include "store/SwapMeta.h"
#include "defines.h"

int main() {
    std::cout << "@@FILE DiskCrash_gen.v\n";
    std::cout << "(* generated from /repo by gen/gen_diskcrash.cc -- do not edit *)\n"
              "Require Import SquidV.Bytes.\n";
    std::cout << "Definition dc_cell_header_size : Z := " << sizeof(Rock::DbCellHeader) << "%Z.\n";
    std::cout << "Definition dc_db_header_size : Z := " << static_cast<long long>(Rock::SwapDir::HeaderSize) << "%Z.\n";
    std::cout << "Definition dc_page_size : Z := " << SM_PAGE_SIZE << "%Z.\n";
    // byte offsets at which the fields of DbCellHeader END (a write torn exactly there leaves the later fields old)
    std::cout << "Definition dc_end_key0 : Z := " << offsetof(Rock::DbCellHeader, key) + sizeof(uint64_t) << "%Z.\n";
    std::cout << "Definition dc_end_key1 : Z := " << offsetof(Rock::DbCellHeader, key) + 2*sizeof(uint64_t) << "%Z.\n";
    std::cout << "Definition dc_end_entrySize : Z := " << offsetof(Rock::DbCellHeader, entrySize) + sizeof(Rock::DbCellHeader::entrySize) << "%Z.\n";
    std::cout << "Definition dc_end_payloadSize : Z := " << offsetof(Rock::DbCellHeader, payloadSize) + sizeof(Rock::DbCellHeader::payloadSize) << "%Z.\n";
    std::cout << "Definition dc_end_version : Z := " << offsetof(Rock::DbCellHeader, version) + sizeof(Rock::DbCellHeader::version) << "%Z.\n";
    std::cout << "Definition dc_end_firstSlot : Z := " << offsetof(Rock::DbCellHeader, firstSlot) + sizeof(Rock::DbCellHeader::firstSlot) << "%Z.\n";
    std::cout << "Definition dc_end_nextSlot : Z := " << offsetof(Rock::DbCellHeader, nextSlot) + sizeof(Rock::DbCellHeader::nextSlot) << "%Z.\n";
    std::cout << "Definition dc_swap_meta_prefix : Z := " << Store::SwapMetaPrefixSize << "%Z.\n";
    return 0;
}
