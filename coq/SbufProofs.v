(* SbufProofs.v — proofs about SbufModel.v (C48): representation invariant, per-method
   effect lemmas, refinement of every operation to operations on independent byte lists. *)
Require Import SquidV.Bytes SquidV.SbufModel.
Require Import SquidV.gen.Sbuf_gen.
Require Import ZifyBool ZifyN ZifyNat.
Local Open Scope N_scope.
Ltac Zify.zify_post_hook ::= Z.div_mod_to_equations.

(* ------------------------------------------------------------------ *)
(* N-indexed list functions as firstn/skipn                            *)
(* ------------------------------------------------------------------ *)
Lemma takeN_firstn {A} n (l : list A) : takeN n l = firstn (N.to_nat n) l.
Proof.
  revert n; induction l as [|x l IH]; intros n; cbn [takeN].
  - now rewrite firstn_nil.
  - destruct (n =? 0) eqn:E.
    + apply N.eqb_eq in E; subst; reflexivity.
    + apply N.eqb_neq in E. replace (N.to_nat n) with (S (N.to_nat (N.pred n))) by lia.
      cbn [firstn]. now rewrite IH.
Qed.
Lemma dropN_skipn {A} n (l : list A) : dropN n l = skipn (N.to_nat n) l.
Proof.
  revert n; induction l as [|x l IH]; intros n; cbn [dropN].
  - now rewrite skipn_nil.
  - destruct (n =? 0) eqn:E.
    + apply N.eqb_eq in E; subst; reflexivity.
    + apply N.eqb_neq in E. replace (N.to_nat n) with (S (N.to_nat (N.pred n))) by lia.
      cbn [skipn]. now rewrite IH.
Qed.
Lemma lenN_dropN {A} n (l : list A) : lenN (dropN n l) = lenN l - n.
Proof. rewrite dropN_skipn, !lenN_length, skipn_length. lia. Qed.
Lemma lenN_nil {A} (l : list A) : lenN l = 0 -> l = [].
Proof. destruct l; cbn [lenN]; [reflexivity|lia]. Qed.
Lemma takeN_all {A} n (l : list A) : lenN l <= n -> takeN n l = l.
Proof. intros H. rewrite takeN_firstn. apply firstn_all2. rewrite lenN_length in H. lia. Qed.
Lemma takeN_0 {A} (l : list A) : takeN 0 l = [].
Proof. destruct l; reflexivity. Qed.
Lemma dropN_0 {A} (l : list A) : dropN 0 l = l.
Proof. destruct l; reflexivity. Qed.
Lemma dropN_all {A} n (l : list A) : lenN l <= n -> dropN n l = [].
Proof. intros H. rewrite dropN_skipn. apply skipn_all2. rewrite lenN_length in H. lia. Qed.

(* the window [off, off+len) of d *)
Definition window (off len : N) (d : bytes) : bytes := takeN len (dropN off d).

Lemma window_app off len (d x : bytes) : off + len <= lenN d -> window off len (d ++ x) = window off len d.
Proof.
  unfold window. intros H. rewrite !takeN_firstn, !dropN_skipn, lenN_length in *.
  rewrite skipn_app, firstn_app. rewrite skipn_length.
  replace (N.to_nat len - (length d - N.to_nat off))%nat with O by lia.
  rewrite firstn_O, app_nil_r. reflexivity.
Qed.
Lemma window_take off len (d : bytes) : window off len (takeN (off + len) d) = window off len d.
Proof.
  unfold window. rewrite !takeN_firstn, !dropN_skipn.
  rewrite skipn_firstn_comm, firstn_firstn. f_equal. lia.
Qed.
Lemma window_drop off len (d : bytes) : window 0 len (dropN off d) = window off len d.
Proof. unfold window. now rewrite dropN_0. Qed.
Lemma window_len off len (d : bytes) : off + len <= lenN d -> lenN (window off len d) = len.
Proof. unfold window. intros H. rewrite lenN_takeN, lenN_dropN. lia. Qed.
Lemma window_tail_app off len (d w : bytes) :
  off + len = lenN d -> window off (len + lenN w) (d ++ w) = window off len d ++ w.
Proof.
  unfold window. intros H. rewrite !takeN_firstn, !dropN_skipn, !lenN_length in *.
  rewrite skipn_app. replace (N.to_nat off - length d)%nat with O by lia. cbn [skipn].
  rewrite firstn_app, skipn_length.
  rewrite (firstn_all2 (n := N.to_nat (len + N.of_nat (length w)))) by (rewrite skipn_length; lia).
  rewrite (firstn_all2 (n := N.to_nat len)) by (rewrite skipn_length; lia).
  f_equal. apply firstn_all2. lia.
Qed.
Lemma window_whole len (d : bytes) : lenN d = len -> window 0 len d = d.
Proof. unfold window. intros H. rewrite dropN_0. apply takeN_all. lia. Qed.
Lemma window_zero off (d : bytes) : window off 0 d = [].
Proof. unfold window. apply takeN_0. Qed.
Lemma skipn_skipn' {A} x y (l : list A) : skipn x (skipn y l) = skipn (y + x) l.
Proof.
  revert l; induction y as [|y IH]; intros l; [reflexivity|].
  destruct l as [|a l]; cbn [skipn plus]; [now rewrite skipn_nil|apply IH].
Qed.
Lemma window_window off len o2 l2 (d : bytes) :
  o2 + l2 <= len -> window o2 l2 (window off len d) = window (off + o2) l2 d.
Proof.
  unfold window. intros H. rewrite !takeN_firstn, !dropN_skipn.
  rewrite skipn_firstn_comm, firstn_firstn, skipn_skipn'.
  f_equal; [lia|]. f_equal. lia.
Qed.

(* ------------------------------------------------------------------ *)
(* heaps                                                               *)
(* ------------------------------------------------------------------ *)
Lemma length_setb h id b : length (setb h id b) = length h.
Proof. revert id; induction h as [|x h IH]; intros [|id]; cbn [setb length]; auto. Qed.
Lemma getb_setb h id b k : (id < length h)%nat ->
  getb (setb h id b) k = if Nat.eqb k id then b else getb h k.
Proof.
  unfold getb. revert id k; induction h as [|x h IH]; intros id k H; cbn [length] in H; [lia|].
  destruct id as [|id], k as [|k]; cbn [setb nth Nat.eqb]; auto. apply IH. lia.
Qed.
Lemma getb_app_old h x k : (k < length h)%nat -> getb (h ++ x) k = getb h k.
Proof. unfold getb. intros H. now rewrite app_nth1. Qed.
Lemma getb_app_new h b : getb (h ++ [b]) (length h) = b.
Proof. unfold getb. rewrite app_nth2 by lia. now rewrite Nat.sub_diag. Qed.
Lemma getb_oob h k : (length h <= k)%nat -> getb h k = dead.
Proof. unfold getb. intros H. now apply nth_overflow. Qed.

Lemma length_upd {A} (l : list A) i x : length (upd l i x) = length l.
Proof. revert i; induction l as [|y l IH]; intros [|i]; cbn [upd length]; auto. Qed.
Lemma nth_upd {A} (l : list A) i x d k : (i < length l)%nat ->
  nth k (upd l i x) d = if Nat.eqb k i then x else nth k l d.
Proof.
  revert i k; induction l as [|y l IH]; intros i k H; cbn [length] in H; [lia|].
  destruct i as [|i], k as [|k]; cbn [upd nth Nat.eqb]; auto. apply IH. lia.
Qed.
Lemma upd_upd {A} (l : list A) i x y : upd (upd l i x) i y = upd l i y.
Proof. revert i; induction l as [|z l IH]; intros [|i]; cbn [upd]; auto. now rewrite IH. Qed.
Lemma upd_oob {A} (l : list A) i x : (length l <= i)%nat -> upd l i x = l.
Proof. revert i; induction l as [|z l IH]; intros [|i] H; cbn [upd length] in *; auto; [lia|]. rewrite IH; auto. lia. Qed.

Section Proofs.
Variable alloc_cap : N -> N.

Lemma length_lock h id : length (lock h id) = length h.
Proof. apply length_setb. Qed.
Lemma length_unlock h id : length (unlock h id) = length h.
Proof. unfold unlock. destruct (_ <=? _); apply length_setb. Qed.
Lemma length_set_data h id d : length (set_data h id d) = length h.
Proof. apply length_setb. Qed.

Lemma getb_lock h id k : (id < length h)%nat ->
  getb (lock h id) k = if Nat.eqb k id then mkBlob (bdata (getb h id)) (bcap (getb h id)) (blocks (getb h id) + 1)
                       else getb h k.
Proof. intros H. unfold lock. now rewrite getb_setb. Qed.
Lemma getb_unlock h id k : (id < length h)%nat ->
  getb (unlock h id) k =
    if Nat.eqb k id then
      (if blocks (getb h id) <=? 1 then dead
       else mkBlob (bdata (getb h id)) (bcap (getb h id)) (blocks (getb h id) - 1))
    else getb h k.
Proof.
  intros H. unfold unlock. destruct (blocks (getb h id) <=? 1); rewrite getb_setb by assumption; reflexivity.
Qed.
Lemma getb_set_data h id d k : (id < length h)%nat ->
  getb (set_data h id d) k = if Nat.eqb k id then mkBlob d (bcap (getb h id)) (blocks (getb h id)) else getb h k.
Proof. intros H. unfold set_data. now rewrite getb_setb. Qed.

Lemma content_window h s : content h s = window (soff s) (slen s) (bdata (getb h (sstore s))).
Proof. reflexivity. Qed.
Lemma content_eq h h' s s' :
  sstore s' = sstore s -> soff s' = soff s -> slen s' = slen s ->
  bdata (getb h' (sstore s)) = bdata (getb h (sstore s)) -> content h' s' = content h s.
Proof. intros E1 E2 E3 E4. rewrite !content_window, E1, E2, E3, E4. reflexivity. Qed.

(* ------------------------------------------------------------------ *)
(* reference counting invariant                                        *)
(* ------------------------------------------------------------------ *)
Definition dl (a b : nat) : N := if Nat.eqb a b then 1 else 0.
Fixpoint refs (vs : list sbuf) (id : nat) : N :=
  match vs with [] => 0 | s :: r => dl (sstore s) id + refs r id end.

Definition wf (h : heap) (s : sbuf) : Prop :=
  (sstore s < length h)%nat /\ soff s + slen s <= bsize (getb h (sstore s)).

(* ex: locks held by something other than the variables (the static InitialStore pointer on
   blob 0, Lockers, temporaries) *)
Record Inv (h : heap) (vs : list sbuf) (ex : nat -> N) : Prop := mkInv {
  inv_cnt : forall id, (id < length h)%nat -> blocks (getb h id) = refs vs id + ex id;
  inv_ex : forall id, (length h <= id)%nat -> ex id = 0;
  inv_wf : forall j, (j < length vs)%nat -> wf h (nth j vs sb0);
  inv_cap : forall id, (id < length h)%nat -> bsize (getb h id) <= bcap (getb h id);
  inv_capb : forall id, (id < length h)%nat -> bcap (getb h id) < two32 }.   (* capacity is a uint32 field *)

Lemma Inv_ext h vs ex ex' : (forall k, ex' k = ex k) -> Inv h vs ex -> Inv h vs ex'.
Proof.
  intros E [I1 I2 I3 I4 I5]. constructor; auto.
  - intros id H. rewrite E. auto.
  - intros id H. rewrite E. auto.
Qed.

Lemma dl_eq a b : a = b -> dl a b = 1.
Proof. intros ->. unfold dl. now rewrite Nat.eqb_refl. Qed.
Lemma dl_neq a b : a <> b -> dl a b = 0.
Proof. intros H. unfold dl. destruct (Nat.eqb_spec a b); [contradiction|reflexivity]. Qed.
Lemma dl_le a b : dl a b <= 1.
Proof. unfold dl. destruct (Nat.eqb a b); lia. Qed.

Lemma refs_upd vs i s' id : (i < length vs)%nat ->
  refs (upd vs i s') id + dl (sstore (nth i vs sb0)) id = refs vs id + dl (sstore s') id.
Proof.
  revert i; induction vs as [|y vs IH]; intros i H; cbn [length] in H; [lia|].
  destruct i as [|i]; cbn [upd refs nth]; [lia|].
  specialize (IH i ltac:(lia)). lia.
Qed.
Lemma refs_ge1 vs i id : (i < length vs)%nat -> dl (sstore (nth i vs sb0)) id <= refs vs id.
Proof.
  revert i; induction vs as [|y vs IH]; intros i H; cbn [length] in H; [lia|].
  destruct i as [|i]; cbn [refs nth]; [lia|]. specialize (IH i ltac:(lia)). lia.
Qed.
Lemma refs_ge2 vs i j id : (i < length vs)%nat -> (j < length vs)%nat -> i <> j ->
  dl (sstore (nth i vs sb0)) id + dl (sstore (nth j vs sb0)) id <= refs vs id.
Proof.
  revert i j; induction vs as [|y vs IH]; intros i j Hi Hj Hn; cbn [length] in *; [lia|].
  destruct i as [|i], j as [|j]; cbn [refs nth]; try lia.
  - pose proof (refs_ge1 vs j id ltac:(lia)). lia.
  - pose proof (refs_ge1 vs i id ltac:(lia)). lia.
  - specialize (IH i j ltac:(lia) ltac:(lia) ltac:(lia)). lia.
Qed.
Lemma refs_oob h vs ex id : Inv h vs ex -> (length h <= id)%nat -> refs vs id = 0.
Proof.
  intros I H. assert (G : forall j, (j < length vs)%nat -> sstore (nth j vs sb0) <> id).
  { intros j Hj. destruct (inv_wf _ _ _ I j Hj) as [W _]. lia. }
  clear I. induction vs as [|y vs IH]; [reflexivity|]. cbn [refs].
  rewrite dl_neq by (apply (G 0%nat); cbn; lia).
  rewrite IH; [reflexivity|]. intros j Hj. apply (G (S j)). cbn. lia.
Qed.

Definition exadd (ex : nat -> N) (id : nat) : nat -> N := fun k => ex k + dl id k.
Definition exsub (ex : nat -> N) (id : nat) : nat -> N := fun k => ex k - dl id k.

Lemma wf_same h h' s : length h' = length h -> bdata (getb h' (sstore s)) = bdata (getb h (sstore s)) ->
  wf h s -> wf h' s.
Proof. unfold wf, bsize. intros E1 E2 [W1 W2]. rewrite E1, E2. auto. Qed.

Lemma Inv_lock h vs ex id : Inv h vs ex -> (id < length h)%nat -> Inv (lock h id) vs (exadd ex id).
Proof.
  intros [I1 I2 I3 I4 I5] H. constructor.
  - intros k Hk. rewrite length_lock in Hk. rewrite getb_lock by assumption. unfold exadd.
    destruct (Nat.eqb_spec k id) as [->|Hn]; cbn [blocks].
    + rewrite dl_eq by reflexivity. rewrite I1 by assumption. lia.
    + rewrite dl_neq by auto. rewrite I1 by assumption. lia.
  - intros k Hk. rewrite length_lock in Hk. unfold exadd. rewrite I2 by assumption. rewrite dl_neq by lia. lia.
  - intros j Hj. apply (wf_same h); [apply length_lock| |auto].
    rewrite getb_lock by assumption. destruct (Nat.eqb_spec (sstore (nth j vs sb0)) id) as [->|]; reflexivity.
  - intros k Hk. rewrite length_lock in Hk. rewrite getb_lock by assumption.
    destruct (Nat.eqb_spec k id) as [->|]; unfold bsize; cbn [bdata bcap]; apply I4; assumption.
  - intros k Hk. rewrite length_lock in Hk. rewrite getb_lock by assumption.
    destruct (Nat.eqb_spec k id) as [->|]; cbn [bcap]; apply I5; assumption.
Qed.

Lemma refs_zero_nth vs id j : refs vs id = 0 -> (j < length vs)%nat -> sstore (nth j vs sb0) <> id.
Proof.
  intros R Hj E. pose proof (refs_ge1 vs j id Hj) as G. rewrite dl_eq in G by assumption. lia.
Qed.

Lemma Inv_unlock h vs ex id : Inv h vs ex -> (id < length h)%nat -> 1 <= ex id ->
  Inv (unlock h id) vs (exsub ex id).
Proof.
  intros [I1 I2 I3 I4 I5] H Hex. constructor.
  - intros k Hk. rewrite length_unlock in Hk. rewrite getb_unlock by assumption. unfold exsub.
    destruct (Nat.eqb_spec k id) as [->|Hn].
    + rewrite dl_eq by reflexivity. specialize (I1 id H).
      destruct (blocks (getb h id) <=? 1) eqn:E; cbn [blocks dead]; lia.
    + rewrite dl_neq by auto. rewrite I1 by assumption. lia.
  - intros k Hk. rewrite length_unlock in Hk. unfold exsub. rewrite I2 by assumption. lia.
  - intros j Hj. apply (wf_same h); [apply length_unlock| |auto].
    rewrite getb_unlock by assumption.
    destruct (Nat.eqb_spec (sstore (nth j vs sb0)) id) as [E|]; [|reflexivity].
    destruct (blocks (getb h id) <=? 1) eqn:B; [|rewrite E; reflexivity].
    exfalso. specialize (I1 id H). pose proof (refs_ge1 vs j id Hj) as G. rewrite dl_eq in G by assumption. lia.
  - intros k Hk. rewrite length_unlock in Hk. rewrite getb_unlock by assumption.
    destruct (Nat.eqb_spec k id) as [->|]; [|apply I4; assumption].
    destruct (blocks (getb h id) <=? 1); unfold bsize; cbn [bdata bcap dead lenN]; [lia|apply I4; assumption].
  - intros k Hk. rewrite length_unlock in Hk. rewrite getb_unlock by assumption.
    destruct (Nat.eqb_spec k id) as [->|]; [|apply I5; assumption].
    destruct (blocks (getb h id) <=? 1); cbn [bcap dead]; [unfold two32; lia|apply I5; assumption].
Qed.

Lemma Inv_move h vs ex i s' : Inv h vs ex -> (i < length vs)%nat -> wf h s' -> 1 <= ex (sstore s') ->
  Inv h (upd vs i s') (fun k => ex k + dl (sstore (nth i vs sb0)) k - dl (sstore s') k).
Proof.
  intros [I1 I2 I3 I4 I5] Hi W Hex. constructor; auto.
  - intros k Hk. rewrite I1 by assumption. pose proof (refs_upd vs i s' k Hi).
    pose proof (dl_le (sstore s') k). unfold dl in *. destruct (Nat.eqb_spec (sstore s') k); subst; lia.
  - intros k Hk. rewrite I2 by assumption. destruct W as [W _].
    destruct (I3 i Hi) as [W' _]. rewrite !dl_neq by lia. lia.
  - intros j Hj. rewrite length_upd in Hj. rewrite nth_upd by assumption.
    destruct (Nat.eqb j i); auto.
Qed.

Lemma Inv_set_data h vs ex id d : Inv h vs ex -> (id < length h)%nat -> lenN d <= bcap (getb h id) ->
  (forall j, (j < length vs)%nat -> sstore (nth j vs sb0) = id ->
             soff (nth j vs sb0) + slen (nth j vs sb0) <= lenN d) ->
  Inv (set_data h id d) vs ex.
Proof.
  intros [I1 I2 I3 I4 I5] H Hc Hv. constructor.
  - intros k Hk. rewrite length_set_data in Hk. rewrite getb_set_data by assumption.
    destruct (Nat.eqb_spec k id) as [->|]; cbn [blocks]; auto.
  - intros k Hk. rewrite length_set_data in Hk. auto.
  - intros j Hj. destruct (I3 j Hj) as [W1 W2]. split; [now rewrite length_set_data|].
    rewrite getb_set_data by assumption.
    destruct (Nat.eqb_spec (sstore (nth j vs sb0)) id) as [E|]; [|assumption].
    unfold bsize; cbn [bdata]. auto.
  - intros k Hk. rewrite length_set_data in Hk. rewrite getb_set_data by assumption.
    destruct (Nat.eqb_spec k id) as [->|]; [unfold bsize; cbn [bdata bcap]; assumption|auto].
  - intros k Hk. rewrite length_set_data in Hk. rewrite getb_set_data by assumption.
    destruct (Nat.eqb_spec k id) as [->|]; cbn [bcap]; auto.
Qed.

Lemma Inv_new h vs ex c : Inv h vs ex -> c < two32 -> Inv (h ++ [mkBlob [] c 0]) vs ex.
Proof.
  intros I Hc. pose proof I as [I1 I2 I3 I4 I5]. constructor.
  - intros k Hk. rewrite app_length in Hk; cbn [length] in Hk.
    destruct (Nat.eq_dec k (length h)) as [->|Hn].
    + rewrite getb_app_new; cbn [blocks]. rewrite (refs_oob h vs ex) by (auto; lia). rewrite I2 by lia. lia.
    + rewrite getb_app_old by lia. apply I1. lia.
  - intros k Hk. rewrite app_length in Hk; cbn [length] in Hk. apply I2. lia.
  - intros j Hj. destruct (I3 j Hj) as [W1 W2]. split; [rewrite app_length; lia|].
    rewrite getb_app_old by assumption. assumption.
  - intros k Hk. rewrite app_length in Hk; cbn [length] in Hk.
    destruct (Nat.eq_dec k (length h)) as [->|Hn].
    + rewrite getb_app_new. unfold bsize; cbn [bdata bcap lenN]. lia.
    + rewrite getb_app_old by lia. apply I4. lia.
  - intros k Hk. rewrite app_length in Hk; cbn [length] in Hk.
    destruct (Nat.eq_dec k (length h)) as [->|Hn].
    + rewrite getb_app_new. cbn [bcap]. assumption.
    + rewrite getb_app_old by lia. apply I5. lia.
Qed.
End Proofs.

(* ------------------------------------------------------------------ *)
(* method specifications                                               *)
(* ------------------------------------------------------------------ *)
Section Methods.
Variable alloc_cap : N -> N.

Definition others_same (h h' : heap) (vs : list sbuf) (i : nat) : Prop :=
  forall j, (j < length vs)%nat -> j <> i -> content h' (nth j vs sb0) = content h (nth j vs sb0).
(* blobs that are not `this`'s, or that have a second holder, keep their bytes *)
Definition pinned_same (h h' : heap) (sid : nat) : Prop :=
  forall k, (k < length h)%nat -> (k <> sid \/ 2 <= blocks (getb h k)) -> bdata (getb h' k) = bdata (getb h k).
Definition tail (h : heap) (s : sbuf) : Prop := soff s + slen s = bsize (getb h (sstore s)).
Definition sole (vs : list sbuf) (i : nat) (s' : sbuf) : Prop :=
  forall j, (j < length vs)%nat -> j <> i -> sstore (nth j vs sb0) <> sstore s'.

(* what every internal step guarantees, whether it returns or throws *)
Definition keeps (h : heap) (vs : list sbuf) (ex : nat -> N) (i : nat) (r : heap * sbuf) : Prop :=
  Inv (fst r) (upd vs i (snd r)) ex /\ content (fst r) (snd r) = content h (nth i vs sb0) /\
  others_same h (fst r) vs i /\ pinned_same h (fst r) (sstore (nth i vs sb0)) /\
  (length h <= length (fst r))%nat.

Lemma keeps_intro h vs ex i h' s' :
  Inv h' (upd vs i s') ex -> content h' s' = content h (nth i vs sb0) ->
  others_same h h' vs i -> pinned_same h h' (sstore (nth i vs sb0)) -> (length h <= length h')%nat ->
  keeps h vs ex i (h', s').
Proof. unfold keeps; cbn [fst snd]; auto. Qed.

Lemma upd_same {A} (l : list A) i d : upd l i (nth i l d) = l.
Proof.
  revert i; induction l as [|x l IH]; intros [|i]; cbn [upd nth]; auto. now rewrite IH.
Qed.

Lemma upd_same' {A} (l : list A) i d x : nth i l d = x -> upd l i x = l.
Proof. intros <-. apply upd_same. Qed.

Lemma keeps_refl h vs ex i : Inv h vs ex -> keeps h vs ex i (h, nth i vs sb0).
Proof.
  intros I. unfold keeps; cbn [fst snd]. rewrite upd_same.
  split; [assumption|]. split; [reflexivity|]. split; [intros j _ _; reflexivity|].
  split; [intros k _ _; reflexivity|lia].
Qed.

Lemma keeps_trans h vs ex i r1 r2 : (i < length vs)%nat ->
  keeps h vs ex i r1 -> keeps (fst r1) (upd vs i (snd r1)) ex i r2 ->
  sstore (snd r1) = sstore (nth i vs sb0) \/ (length h <= sstore (snd r1))%nat ->
  (forall k, (k < length h)%nat -> 2 <= blocks (getb h k) -> k = sstore (nth i vs sb0) ->
             2 <= blocks (getb (fst r1) k)) ->
  keeps h vs ex i r2.
Proof.
  intros Hi (A1 & A2 & A3 & A4 & A5) (B1 & B2 & B3 & B4 & B5) Hst Hbl.
  rewrite upd_upd in B1. rewrite nth_upd, Nat.eqb_refl in B2, B4 by assumption.
  unfold keeps. split; [exact B1|]. split; [congruence|]. split; [|split].
  - intros j Hj Hn. specialize (B3 j). rewrite length_upd, nth_upd in B3 by assumption.
    destruct (Nat.eqb_spec j i); [contradiction|]. rewrite B3 by assumption. auto.
  - intros k Hk Hp. rewrite B4; [apply A4; assumption|lia|].
    destruct Hst as [E|E]; [|left; lia].
    rewrite E. destruct Hp as [Hp|Hp]; [left; assumption|].
    destruct (Nat.eq_dec k (sstore (nth i vs sb0))) as [E2|]; [right; apply Hbl; assumption|left; assumption].
  - lia.
Qed.

Lemma content_other_blob h h' s : bdata (getb h' (sstore s)) = bdata (getb h (sstore s)) -> content h' s = content h s.
Proof. intros E. rewrite !content_window, E. reflexivity. Qed.

(* unlocking never changes what the variables hold *)
Lemma unlock_contents h vs ex id j : Inv h vs ex -> (id < length h)%nat -> 1 <= ex id -> (j < length vs)%nat ->
  content (unlock h id) (nth j vs sb0) = content h (nth j vs sb0).
Proof.
  intros I H Hex Hj. apply content_other_blob. rewrite getb_unlock by assumption.
  destruct (Nat.eqb_spec (sstore (nth j vs sb0)) id) as [E|]; [|reflexivity].
  pose proof (inv_cnt _ _ _ I id H) as C. pose proof (refs_ge1 vs j id Hj) as G. rewrite dl_eq in G by assumption.
  destruct (blocks (getb h id) <=? 1) eqn:B; [lia|]. rewrite E. reflexivity.
Qed.

Lemma mb_append_ok h id p n h' : mb_append h id p n = Ok h' ->
  (n = 0 /\ h' = h) \/
  (0 < n /\ n <= bcap (getb h id) - bsize (getb h id) /\ lenN (read_src h p n) = n /\
   h' = set_data h id (bdata (getb h id) ++ read_src h p n)).
Proof.
  unfold mb_append, mb_willFit, mb_spaceSize. destruct (n =? 0) eqn:E0; [intros [= <-]; left; split; [lia|reflexivity]|].
  destruct (n <=? _) eqn:E1; cbn [negb]; [|discriminate].
  destruct (lenN (read_src h p n) <? n) eqn:E2; [discriminate|]. intros [= <-]. right.
  assert (lenN (read_src h p n) <= n).
  { destruct p; cbn [read_src]; rewrite lenN_takeN; lia. }
  repeat split; try lia.
Qed.
Lemma mb_append_throw h id p n h' : mb_append h id p n = Throw h' -> h' = h.
Proof.
  unfold mb_append. destruct (n =? 0); [discriminate|]. destruct (negb _); [now intros [= <-]|].
  destruct (_ <? _); discriminate.
Qed.

Lemma reAlloc_spec h vs ex i s ns r (isok : bool) : Inv h vs ex -> (i < length vs)%nat -> nth i vs sb0 = s ->
  reAlloc alloc_cap h s ns = (if isok then Ok r else Throw r) ->
  keeps h vs ex i r /\
  (isok = true -> tail (fst r) (snd r) /\ sole vs i (snd r) /\ slen (snd r) = slen s /\ soff (snd r) = 0 /\
                  (length h <= sstore (snd r))%nat /\ ns <= maxSize /\
                  cap32 alloc_cap ns = bcap (getb (fst r) (sstore (snd r)))).
Proof.
  intros I Hi Hs. unfold reAlloc. destruct (maxSize <? ns) eqn:Emax.
  { destruct isok; [discriminate|]. intros [= <-]. split; [|discriminate]. subst s. apply keeps_refl. assumption. }
  unfold mb_new. set (nid := length h). set (h1 := h ++ [mkBlob [] (cap32 alloc_cap ns) 0]).
  assert (L1 : length h1 = S nid) by (unfold h1; rewrite app_length; cbn [length]; lia).
  assert (Hc32 : cap32 alloc_cap ns < two32) by (unfold cap32; apply N.mod_lt; unfold two32; lia).
  assert (I1 : Inv h1 vs ex) by (exact (Inv_new alloc_cap h vs ex _ I Hc32)).
  set (h2 := lock h1 nid).
  assert (I2 : Inv h2 vs (exadd ex nid)) by (apply Inv_lock; [assumption|lia]).
  assert (L2 : length h2 = S nid) by (unfold h2; rewrite length_lock; assumption).
  destruct (inv_wf _ _ _ I i Hi) as [W1 W2]. rewrite Hs in W1, W2.
  assert (G2 : forall k, (k < nid)%nat -> getb h2 k = getb h k).
  { intros k Hk. unfold h2. rewrite getb_lock by lia. destruct (Nat.eqb_spec k nid); [lia|].
    unfold h1. apply getb_app_old. assumption. }
  assert (G2n : getb h2 nid = mkBlob [] (cap32 alloc_cap ns) 1).
  { unfold h2. rewrite getb_lock by lia. rewrite Nat.eqb_refl. unfold h1. rewrite getb_app_new. reflexivity. }
  assert (Hex0 : ex nid = 0) by (apply (inv_ex _ _ _ I); unfold nid; lia).
  destruct (if 0 <? slen s then mb_append h2 nid (SPtr (sstore s) (soff s)) (slen s) else Ok h2) as [h3|h3|] eqn:E3.
  2:{ (* the copy threw: the new blob is destroyed again *)
      destruct isok; [discriminate|]. intros [= <-]. split; [|discriminate].
      assert (h3 = h2) as ->.
      { destruct (0 <? slen s); [apply mb_append_throw in E3; assumption|discriminate]. }
      assert (I3 : Inv (unlock h2 nid) vs ex).
      { apply (Inv_ext _ _ (exsub (exadd ex nid) nid)).
        - intros k. unfold exsub, exadd. lia.
        - apply Inv_unlock; [assumption|lia|]. unfold exadd. rewrite dl_eq by reflexivity. lia. }
      subst s.
      assert (G3 : forall k, (k < nid)%nat -> getb (unlock h2 nid) k = getb h k).
      { intros k Hk. rewrite getb_unlock by lia. destruct (Nat.eqb_spec k nid); [lia|]. apply G2. assumption. }
      apply keeps_intro.
      - rewrite upd_same. assumption.
      - apply content_other_blob. rewrite G3 by assumption. reflexivity.
      - intros j Hj _. apply content_other_blob. destruct (inv_wf _ _ _ I j Hj) as [Wj _]. rewrite G3 by assumption. reflexivity.
      - intros k Hk _. rewrite G3 by assumption. reflexivity.
      - rewrite length_unlock. lia. }
  2:{ destruct isok; discriminate. }
  destruct isok; [|discriminate]. intros [= <-]. cbn [fst snd].
  (* the new blob now holds a copy of this's bytes *)
  assert (D3 : h3 = set_data h2 nid (content h s) /\ lenN (content h s) = slen s /\ slen s <= cap32 alloc_cap ns).
  { destruct (0 <? slen s) eqn:El.
    - apply mb_append_ok in E3. destruct E3 as [[E _]|(_ & Hfit & Hlen & ->)]; [lia|].
      rewrite G2n in *. cbn [bdata bcap app] in *. unfold bsize in Hfit; cbn [bdata lenN] in Hfit.
      cbn [read_src] in *. rewrite G2 in * by assumption. fold (window (soff s) (slen s) (bdata (getb h (sstore s)))) in *.
      rewrite <- content_window in *. repeat split; auto. lia.
    - injection E3 as <-. assert (slen s = 0) as Z by lia. rewrite content_window, Z, window_zero.
      repeat split; cbn [lenN]; try lia.
      unfold set_data. rewrite G2n. cbn [bcap blocks].
      (* setting the same blob again *)
      apply nth_ext with (d := dead) (d' := dead); [now rewrite length_setb|].
      intros k Hk. fold (getb h2 k). fold (getb (setb h2 nid (mkBlob [] (cap32 alloc_cap ns) 1)) k).
      rewrite getb_setb by lia. destruct (Nat.eqb_spec k nid) as [->|]; [now rewrite G2n|reflexivity]. }
  destruct D3 as (-> & Dlen & Dcap).
  set (h3 := set_data h2 nid (content h s)).
  assert (L3 : length h3 = S nid) by (unfold h3; rewrite length_set_data; assumption).
  assert (I3 : Inv h3 vs (exadd ex nid)).
  { apply Inv_set_data; [assumption|lia|rewrite G2n; cbn [bcap]; lia|].
    intros j Hj E. destruct (inv_wf _ _ _ I j Hj) as [Wj _]. unfold nid in E. lia. }
  assert (G3 : forall k, (k < nid)%nat -> getb h3 k = getb h k).
  { intros k Hk. unfold h3. rewrite getb_set_data by lia. destruct (Nat.eqb_spec k nid); [lia|]. apply G2. assumption. }
  assert (G3n : getb h3 nid = mkBlob (content h s) (cap32 alloc_cap ns) 1).
  { unfold h3. rewrite getb_set_data by lia. rewrite Nat.eqb_refl, G2n. reflexivity. }
  set (s' := mkSBuf nid 0 (slen s)).
  assert (I4 : Inv h3 (upd vs i s') (fun k => exadd ex nid k + dl (sstore (nth i vs sb0)) k - dl (sstore s') k)).
  { apply Inv_move; [assumption|assumption| |].
    - split; cbn [sstore soff slen s']; [lia|]. rewrite G3n. unfold bsize; cbn [bdata]. lia.
    - cbn [sstore s']. unfold exadd. rewrite dl_eq by reflexivity. lia. }
  rewrite Hs in I4.
  assert (I5 : Inv (unlock h3 (sstore s)) (upd vs i s') ex).
  { eapply Inv_ext; [|apply Inv_unlock; [exact I4|lia|]].
    - intros k. unfold exsub, exadd. cbn [sstore s'].
      pose proof (dl_le nid k). pose proof (dl_le (sstore s) k). lia.
    - cbn beta. unfold exadd. cbn [sstore s']. rewrite (dl_eq (sstore s)) by reflexivity.
      rewrite (dl_neq nid) by lia. lia. }
  assert (G5 : forall k, (k < nid)%nat -> (k <> sstore s \/ 2 <= blocks (getb h k)) ->
                         bdata (getb (unlock h3 (sstore s)) k) = bdata (getb h k)).
  { intros k Hk Hp. rewrite getb_unlock by lia. destruct (Nat.eqb_spec k (sstore s)) as [->|]; [|now rewrite G3].
    rewrite G3 by assumption. destruct Hp as [Hp|Hp]; [contradiction|].
    destruct (blocks (getb h (sstore s)) <=? 1) eqn:B; [lia|reflexivity]. }
  assert (G5n : getb (unlock h3 (sstore s)) nid = getb h3 nid).
  { rewrite getb_unlock by lia. destruct (Nat.eqb_spec nid (sstore s)); [lia|reflexivity]. }
  split.
  - apply keeps_intro.
    + assumption.
    + rewrite content_window. cbn [sstore soff slen s']. rewrite G5n, G3n. cbn [bdata].
      rewrite window_whole by assumption. subst s. reflexivity.
    + intros j Hj Hn. apply content_other_blob. destruct (inv_wf _ _ _ I j Hj) as [Wj _].
      apply G5; [assumption|].
      destruct (Nat.eq_dec (sstore (nth j vs sb0)) (sstore s)) as [E|]; [right|left; assumption].
      pose proof (refs_ge2 vs i j (sstore s) Hi Hj ltac:(auto)) as R2.
      rewrite Hs in R2. rewrite !dl_eq in R2 by auto.
      rewrite E, (inv_cnt _ _ _ I) by assumption. lia.
    + intros k Hk Hp. rewrite Hs in Hp. apply G5; assumption.
    + rewrite length_unlock. lia.
  - intros _. repeat split; cbn [sstore soff slen s']; auto.
    + unfold tail. cbn [sstore soff slen s']. rewrite G5n, G3n. unfold bsize; cbn [bdata]. lia.
    + intros j Hj Hn. destruct (inv_wf _ _ _ I j Hj) as [Wj _]. unfold s', nid; cbn [sstore]. lia.
    + lia.
    + rewrite G5n, G3n. reflexivity.
Qed.
End Methods.

Section Methods2.
Variable alloc_cap : N -> N.

(* in-place change of this's blob together with this's own fields *)
Lemma Inv_set_data_upd h vs ex i s' d : Inv h vs ex -> (i < length vs)%nat ->
  sstore s' = sstore (nth i vs sb0) -> lenN d <= bcap (getb h (sstore s')) ->
  soff s' + slen s' <= lenN d ->
  (forall j, (j < length vs)%nat -> j <> i -> sstore (nth j vs sb0) = sstore s' ->
             soff (nth j vs sb0) + slen (nth j vs sb0) <= lenN d) ->
  Inv (set_data h (sstore s') d) (upd vs i s') ex.
Proof.
  intros I Hi Es Hc Hs' Ho. pose proof I as [I1 I2 I3 I4 I5].
  destruct (I3 i Hi) as [Wi _]. rewrite <- Es in Wi.
  constructor.
  - intros k Hk. rewrite length_set_data in Hk. rewrite getb_set_data by assumption.
    pose proof (refs_upd vs i s' k Hi) as R. rewrite <- Es in R.
    destruct (Nat.eqb_spec k (sstore s')) as [->|]; cbn [blocks]; rewrite I1 by assumption; lia.
  - intros k Hk. rewrite length_set_data in Hk. auto.
  - intros j Hj. rewrite length_upd in Hj. rewrite nth_upd by assumption.
    destruct (Nat.eqb_spec j i) as [->|Hn].
    + split; [rewrite length_set_data; assumption|]. rewrite getb_set_data by assumption.
      rewrite Nat.eqb_refl. unfold bsize; cbn [bdata]. assumption.
    + destruct (I3 j Hj) as [W1 W2]. split; [rewrite length_set_data; assumption|].
      rewrite getb_set_data by assumption.
      destruct (Nat.eqb_spec (sstore (nth j vs sb0)) (sstore s')) as [E|]; [|assumption].
      unfold bsize; cbn [bdata]. auto.
  - intros k Hk. rewrite length_set_data in Hk. rewrite getb_set_data by assumption.
    destruct (Nat.eqb_spec k (sstore s')) as [->|]; [unfold bsize; cbn [bdata bcap]; assumption|auto].
  - intros k Hk. rewrite length_set_data in Hk. rewrite getb_set_data by assumption.
    destruct (Nat.eqb_spec k (sstore s')) as [->|]; cbn [bcap]; auto.
Qed.

(* a sole owner: nobody else refers to the blob and nothing else holds it *)
Lemma sole_owner h vs ex i : Inv h vs ex -> (i < length vs)%nat ->
  blocks (getb h (sstore (nth i vs sb0))) = 1 ->
  sole vs i (nth i vs sb0) /\ ex (sstore (nth i vs sb0)) = 0.
Proof.
  intros I Hi B. destruct (inv_wf _ _ _ I i Hi) as [W _].
  pose proof (inv_cnt _ _ _ I _ W) as C. rewrite B in C.
  pose proof (refs_ge1 vs i (sstore (nth i vs sb0)) Hi) as G1. rewrite dl_eq in G1 by reflexivity.
  split; [|lia]. intros j Hj Hn E.
  pose proof (refs_ge2 vs i j (sstore (nth i vs sb0)) Hi Hj ltac:(auto)) as G2.
  rewrite !dl_eq in G2 by auto. lia.
Qed.

(* in-place rewrite of this's blob by its sole owner, or extension at the end of a shared one *)
Lemma inplace_step h vs ex i s' d : Inv h vs ex -> (i < length vs)%nat ->
  sstore s' = sstore (nth i vs sb0) -> lenN d <= bcap (getb h (sstore s')) ->
  soff s' + slen s' <= lenN d ->
  (sole vs i s' \/ exists x, d = bdata (getb h (sstore s')) ++ x) ->
  Inv (set_data h (sstore s') d) (upd vs i s') ex /\
  content (set_data h (sstore s') d) s' = window (soff s') (slen s') d /\
  others_same h (set_data h (sstore s') d) vs i /\
  length (set_data h (sstore s') d) = length h.
Proof.
  intros I Hi Es Hc Hs' Hd.
  destruct (inv_wf _ _ _ I i Hi) as [Wi _]. rewrite <- Es in Wi.
  assert (Ho : forall j, (j < length vs)%nat -> j <> i -> sstore (nth j vs sb0) = sstore s' ->
           soff (nth j vs sb0) + slen (nth j vs sb0) <= lenN d /\
           window (soff (nth j vs sb0)) (slen (nth j vs sb0)) d = content h (nth j vs sb0)).
  { intros j Hj Hn E. destruct Hd as [B|[x ->]].
    - exfalso. apply (B j Hj Hn). assumption.
    - destruct (inv_wf _ _ _ I j Hj) as [_ W2]. rewrite E in W2. unfold bsize in W2.
      split; [rewrite lenN_app; lia|]. rewrite window_app by assumption. rewrite content_window, E. reflexivity. }
  split; [|split; [|split]].
  - apply Inv_set_data_upd; auto. intros j Hj Hn E. apply Ho; assumption.
  - rewrite content_window, getb_set_data, Nat.eqb_refl by assumption. reflexivity.
  - intros j Hj Hn. rewrite (content_window (set_data _ _ _)), getb_set_data by assumption.
    destruct (Nat.eqb_spec (sstore (nth j vs sb0)) (sstore s')) as [E|]; [|reflexivity].
    cbn [bdata]. apply Ho; assumption.
  - apply length_set_data.
Qed.

(* effect of an in-place rewrite of this's blob by its sole owner, or of an extension at the end *)
Lemma inplace_keeps h vs ex i s' d : Inv h vs ex -> (i < length vs)%nat ->
  sstore s' = sstore (nth i vs sb0) -> lenN d <= bcap (getb h (sstore s')) ->
  soff s' + slen s' <= lenN d ->
  window (soff s') (slen s') d = content h (nth i vs sb0) ->
  (blocks (getb h (sstore s')) = 1 \/ exists x, d = bdata (getb h (sstore s')) ++ x) ->
  (2 <= blocks (getb h (sstore s')) -> d = bdata (getb h (sstore s'))) ->
  keeps h vs ex i (set_data h (sstore s') d, s').
Proof.
  intros I Hi Es Hc Hs' Hw Hd Hp.
  destruct (inv_wf _ _ _ I i Hi) as [Wi _]. rewrite <- Es in Wi.
  assert (Ho : forall j, (j < length vs)%nat -> j <> i -> sstore (nth j vs sb0) = sstore s' ->
           soff (nth j vs sb0) + slen (nth j vs sb0) <= lenN d /\
           window (soff (nth j vs sb0)) (slen (nth j vs sb0)) d = content h (nth j vs sb0)).
  { intros j Hj Hn E. destruct Hd as [B|[x ->]].
    - exfalso. rewrite Es in B. destruct (sole_owner h vs ex i I Hi B) as [S _].
      apply (S j Hj Hn). congruence.
    - destruct (inv_wf _ _ _ I j Hj) as [_ W2]. rewrite E in W2. unfold bsize in W2.
      split; [rewrite lenN_app; lia|]. rewrite window_app by assumption. rewrite content_window, E. reflexivity. }
  apply keeps_intro.
  - apply Inv_set_data_upd; auto. intros j Hj Hn E. apply Ho; assumption.
  - rewrite content_window, getb_set_data, Nat.eqb_refl by assumption. cbn [bdata]. assumption.
  - intros j Hj Hn. rewrite (content_window (set_data _ _ _)), getb_set_data by assumption.
    destruct (Nat.eqb_spec (sstore (nth j vs sb0)) (sstore s')) as [E|]; [|reflexivity].
    cbn [bdata]. apply Ho; assumption.
  - intros k Hk Hpin. rewrite getb_set_data by assumption.
    destruct (Nat.eqb_spec k (sstore s')) as [->|]; [|reflexivity]. cbn [bdata].
    destruct Hpin as [Hpin|Hpin]; [congruence|]. auto.
  - rewrite length_set_data. lia.
Qed.

Definition clamp_newsize (s : sbuf) (ns0 : N) : N :=
  if (ns0 =? npos) || (ns0 <? slen s) then slen s else ns0.

Lemma cow_spec h vs ex i s ns0 r (isok : bool) : Inv h vs ex -> (i < length vs)%nat -> nth i vs sb0 = s ->
  cow alloc_cap h s ns0 = (if isok then Ok r else Throw r) ->
  keeps h vs ex i r /\
  (isok = true -> tail (fst r) (snd r) /\ sole vs i (snd r) /\ slen (snd r) = slen s /\
                  ((forall n, n <= maxSize -> n <= cap32 alloc_cap n) ->
                   clamp_newsize s ns0 - slen s <= bcap (getb (fst r) (sstore (snd r))) - bsize (getb (fst r) (sstore (snd r))))).
Proof.
  intros I Hi Hs. unfold cow. fold (clamp_newsize s ns0). set (ns := clamp_newsize s ns0).
  assert (Hns : slen s <= ns).
  { unfold ns, clamp_newsize. destruct ((ns0 =? npos) || (ns0 <? slen s)) eqn:E; lia. }
  destruct (inv_wf _ _ _ I i Hi) as [W1 W2]. rewrite Hs in W1, W2.
  pose proof (inv_cap _ _ _ I _ W1) as Cap.
  destruct (blocks (getb h (sstore s)) =? 1) eqn:B.
  2:{ (* shared: reallocate *)
      intros E. destruct (reAlloc_spec alloc_cap h vs ex i s ns r isok I Hi Hs E) as [K X]. split; [assumption|].
      intros ->. destruct (X eq_refl) as (T & So & L & O & _ & Mx & Cp). repeat split; auto.
      intros A. unfold tail in T. rewrite <- T, <- Cp, O, L. specialize (A ns Mx). lia. }
  apply N.eqb_eq in B.
  destruct (bsize (getb h (sstore s)) <? soff s + slen s) eqn:Esz; [lia|].
  set (d := bdata (getb h (sstore s))) in *.
  set (h1 := set_data h (sstore s) (takeN (soff s + slen s) d)).
  assert (Ld : lenN (takeN (soff s + slen s) d) = soff s + slen s).
  { rewrite lenN_takeN. unfold bsize in W2. fold d in W2. lia. }
  assert (K1 : keeps h vs ex i (h1, s)).
  { unfold h1. unfold bsize in Cap, W2. fold d in Cap, W2.
    apply (inplace_keeps h vs ex i s (takeN (soff s + slen s) d) I Hi).
    - now rewrite Hs.
    - lia.
    - lia.
    - rewrite window_take, Hs. reflexivity.
    - left; assumption.
    - intros; lia. }
  assert (G1 : getb h1 (sstore s) = mkBlob (takeN (soff s + slen s) d) (bcap (getb h (sstore s))) 1).
  { unfold h1. rewrite getb_set_data, Nat.eqb_refl, B by assumption. reflexivity. }
  destruct (sole_owner h vs ex i I Hi ltac:(rewrite Hs; assumption)) as [So _]. rewrite Hs in So.
  destruct (ns - slen s <=? bcap (getb h (sstore s)) - (soff s + slen s)) eqn:Efit.
  { destruct isok; [|discriminate]. intros [= <-]. split; [assumption|]. intros _. cbn [fst snd].
    repeat split; auto.
    - unfold tail. rewrite G1. unfold bsize; cbn [bdata]. lia.
    - intros _. rewrite G1. unfold bsize; cbn [bdata bcap]. lia. }
  destruct (ns - slen s <=? bcap (getb h (sstore s)) - (soff s + slen s) + soff s) eqn:Eshift.
  { destruct isok; [|discriminate]. intros [= <-]. cbn [fst snd].
    rewrite G1. cbn [bdata].
    set (s' := mkSBuf (sstore s) 0 (slen s)).
    assert (L1 : length h1 = length h) by (unfold h1; apply length_set_data).
    pose proof K1 as (J1 & J2 & J3 & J4 & J5). cbn [fst snd] in J1, J2, J3, J4, J5. rewrite <- Hs, upd_same in J1.
    assert (Ldd : lenN (dropN (soff s) (takeN (soff s + slen s) d)) = slen s) by (rewrite lenN_dropN, Ld; lia).
    assert (K2 : keeps h1 vs ex i (set_data h1 (sstore s') (dropN (soff s) (takeN (soff s + slen s) d)), s')).
    { unfold bsize in Cap, W2. fold d in Cap, W2.
      apply (inplace_keeps h1 vs ex i s' _ J1 Hi); cbn [sstore soff slen s']; rewrite ?G1; cbn [bcap blocks bdata].
      - now rewrite Hs.
      - lia.
      - lia.
      - rewrite window_drop, Hs, content_window, G1. reflexivity.
      - left; reflexivity.
      - intros; lia. }
    split.
    - cbn [sstore s'] in K2. eapply (keeps_trans h vs ex i (h1, s)); cbn [fst snd]; auto.
      + rewrite (upd_same' _ _ _ _ Hs). exact K2.
      + left. now rewrite Hs.
      + intros k Hk Hb ->. rewrite Hs in Hb. lia.
    - intros _. repeat split; auto.
      + unfold tail. cbn [sstore soff slen s']. rewrite getb_set_data, Nat.eqb_refl by lia.
        unfold bsize; cbn [bdata]. lia.
      + intros _. cbn [sstore s']. rewrite getb_set_data, Nat.eqb_refl by lia.
        unfold bsize; cbn [bdata bcap]. rewrite G1; cbn [bcap]. lia. }
  (* reallocate after syncing *)
  intros E.
  pose proof K1 as (J1 & J2 & J3 & J4 & J5). cbn [fst snd] in J1, J2, J3, J4, J5. rewrite <- Hs, upd_same in J1.
  destruct (reAlloc_spec alloc_cap h1 vs ex i s ns r isok J1 Hi Hs E) as [K X]. split.
  - eapply (keeps_trans h vs ex i (h1, s)); cbn [fst snd]; auto.
    + rewrite (upd_same' _ _ _ _ Hs). exact K.
    + left. now rewrite Hs.
    + intros k Hk Hb ->. rewrite Hs in Hb. lia.
  - intros ->. destruct (X eq_refl) as (T & So' & L & O & _ & Mx & Cp). repeat split; auto.
    intros A. unfold tail in T. rewrite <- T, <- Cp, O, L. specialize (A ns Mx). lia.
Qed.
End Methods2.

Lemma cow_sync (alloc_cap : N -> N) h s : blocks (getb h (sstore s)) = 1 -> soff s + slen s <= bsize (getb h (sstore s)) ->
  cow alloc_cap h s (slen s) = Ok (set_data h (sstore s) (takeN (soff s + slen s) (bdata (getb h (sstore s)))), s).
Proof.
  intros B W. unfold cow. rewrite (proj2 (N.eqb_eq _ _) B).
  rewrite (proj2 (N.ltb_ge _ _)) by lia. rewrite N.ltb_irrefl, orb_false_r.
  destruct (slen s =? npos); rewrite N.sub_diag; rewrite (proj2 (N.leb_le 0 _)) by lia; reflexivity.
Qed.

Section Methods3.
Variable alloc_cap : N -> N.

Lemma wf_content_len h s : wf h s -> lenN (content h s) = slen s.
Proof. intros [_ W]. rewrite content_window. apply window_len. exact W. Qed.

Lemma reAlloc_defined h vs ex i s ns : Inv h vs ex -> (i < length vs)%nat -> nth i vs sb0 = s ->
  reAlloc alloc_cap h s ns <> Undef.
Proof.
  intros I Hi Hs. unfold reAlloc. destruct (maxSize <? ns); [discriminate|]. unfold mb_new.
  destruct (0 <? slen s) eqn:E; [|discriminate].
  unfold mb_append. destruct (slen s =? 0); [discriminate|]. destruct (negb _); [discriminate|].
  destruct (inv_wf _ _ _ I i Hi) as [W1 W2]. rewrite Hs in W1, W2.
  cbn [read_src]. rewrite getb_lock by (rewrite app_length; cbn [length]; lia).
  destruct (Nat.eqb_spec (sstore s) (length h)); [lia|]. rewrite getb_app_old by assumption.
  fold (window (soff s) (slen s) (bdata (getb h (sstore s)))). rewrite window_len by assumption.
  rewrite N.ltb_irrefl. discriminate.
Qed.

Lemma cow_defined h vs ex i s ns : Inv h vs ex -> (i < length vs)%nat -> nth i vs sb0 = s ->
  cow alloc_cap h s ns <> Undef.
Proof.
  intros I Hi Hs. unfold cow. fold (clamp_newsize s ns).
  destruct (blocks (getb h (sstore s)) =? 1) eqn:B; [|eapply reAlloc_defined; eassumption].
  destruct (_ <? _) eqn:Esz; [discriminate|]. destruct (_ <=? _); [discriminate|]. destruct (_ <=? _); [discriminate|].
  (* the synced heap still satisfies the invariant *)
  assert (K : keeps h vs ex i (set_data h (sstore s) (takeN (soff s + slen s) (bdata (getb h (sstore s)))), s)).
  { destruct (cow_spec alloc_cap h vs ex i s (slen s) (set_data h (sstore s) (takeN (soff s + slen s) (bdata (getb h (sstore s)))), s) true I Hi Hs) as [K _]; [|exact K].
    apply cow_sync; lia. }
  destruct K as (J1 & _). cbn [fst snd] in J1. rewrite (upd_same' _ _ _ _ Hs) in J1.
  eapply reAlloc_defined; eassumption.
Qed.

Lemma rawSpace_spec h vs ex i s n : Inv h vs ex -> (i < length vs)%nat -> nth i vs sb0 = s ->
  match rawSpace alloc_cap h s n with
  | Ok r => keeps h vs ex i r /\ slen (snd r) = slen s /\ (0 < n -> tail (fst r) (snd r)) /\
            sstore (snd r) = sstore s \/ keeps h vs ex i r /\ slen (snd r) = slen s /\ (0 < n -> tail (fst r) (snd r)) /\
            (length h <= sstore (snd r))%nat
  | Throw r => keeps h vs ex i r
  | Undef => False
  end.
Proof.
  intros I Hi Hs. unfold rawSpace. destruct (maxSize <? n).
  { subst s. apply keeps_refl. assumption. }
  destruct (sub32 maxSize n <? slen s).
  { subst s. apply keeps_refl. assumption. }
  destruct (mb_canAppend _ _ _) eqn:Ec.
  { left. cbn [fst snd]. split; [subst s; apply keeps_refl; assumption|]. split; [reflexivity|]. split; [|reflexivity].
    intros Hn. unfold mb_canAppend in Ec. unfold tail. lia. }
  destruct (cow alloc_cap h s (add32 n (slen s))) as [r|r|] eqn:Ecow.
  - destruct (cow_spec alloc_cap h vs ex i s _ r true I Hi Hs Ecow) as [K X].
    destruct (X eq_refl) as (T & So & L & _).
    (* same blob or a new one *)
    unfold cow in Ecow. destruct (blocks (getb h (sstore s)) =? 1) eqn:B.
    + destruct (_ <? _); [discriminate|].
      destruct (_ <=? _); [injection Ecow as <-; left; split; [exact K|]; split; [exact L|]; split; [intros _; exact T|reflexivity]|].
      destruct (_ <=? _); [injection Ecow as <-; left; split; [exact K|]; split; [exact L|]; split; [intros _; exact T|reflexivity]|].
      right. set (h1 := set_data _ _ _) in Ecow.
      assert (K1 : keeps h vs ex i (h1, s)).
      { destruct (cow_spec alloc_cap h vs ex i s (slen s) (h1, s) true I Hi Hs) as [K1 _]; [|exact K1].
        unfold h1. apply cow_sync; [lia|]. destruct (inv_wf _ _ _ I i Hi) as [_ W]. rewrite Hs in W. exact W. }
      destruct K1 as (J1 & _ & _ & _ & J5). cbn [fst snd] in J1, J5. rewrite (upd_same' _ _ _ _ Hs) in J1.
      destruct (reAlloc_spec alloc_cap h1 vs ex i s _ r true J1 Hi Hs Ecow) as [_ Y].
      destruct (Y eq_refl) as (_ & _ & _ & _ & Y5 & _). split; [exact K|]. split; [exact L|]. split; [intros _; exact T|]. lia.
    + right. destruct (reAlloc_spec alloc_cap h vs ex i s _ r true I Hi Hs Ecow) as [_ Y].
      destruct (Y eq_refl) as (_ & _ & _ & _ & Y5 & _). split; [exact K|]. split; [exact L|]. split; [intros _; exact T|]. lia.
  - destruct (cow_spec alloc_cap h vs ex i s _ r false I Hi Hs Ecow) as [K _]. exact K.
  - eapply cow_defined; eassumption.
Qed.

(* a `const char *` argument that may be read after rawSpace() *)
Definition src_ok (h : heap) (s : sbuf) (p : src) (n : N) : Prop :=
  match p with
  | SLit w => n <= lenN w
  | SPtr sid so => n = 0 \/ ((sid < length h)%nat /\ so + n <= bsize (getb h sid) /\
                            (sid <> sstore s \/ 2 <= blocks (getb h sid)))
  end.

Lemma read_src_len h s p n : src_ok h s p n -> lenN (read_src h p n) = n.
Proof.
  destruct p as [w|sid so]; cbn [src_ok read_src]; intros H.
  - rewrite lenN_takeN. lia.
  - destruct H as [->|(H1 & H2 & _)]; [now rewrite takeN_0|].
    fold (window so n (bdata (getb h sid))). apply window_len. exact H2.
Qed.

Lemma lowAppend_spec h vs ex i s p n : Inv h vs ex -> (i < length vs)%nat -> nth i vs sb0 = s ->
  src_ok h s p n ->
  match lowAppend alloc_cap h s p n with
  | Ok r => Inv (fst r) (upd vs i (snd r)) ex /\ others_same h (fst r) vs i /\
            content (fst r) (snd r) = content h s ++ read_src h p n /\ (length h <= length (fst r))%nat
  | Throw r => Inv (fst r) (upd vs i (snd r)) ex /\ others_same h (fst r) vs i /\
               content (fst r) (snd r) = content h s /\ (length h <= length (fst r))%nat
  | Undef => False
  end.
Proof.
  intros I Hi Hs Hsrc. unfold lowAppend.
  pose proof (rawSpace_spec h vs ex i s n I Hi Hs) as R.
  destruct (rawSpace alloc_cap h s n) as [[h1 s1]|[h1 s1]|]; [| |contradiction].
  2:{ destruct R as (J1 & J2 & J3 & J4 & J5). cbn [fst snd] in *. rewrite Hs in J2. auto. }
  assert (R' : keeps h vs ex i (h1, s1) /\ slen s1 = slen s /\ (0 < n -> tail h1 s1) /\
               (sstore s1 = sstore s \/ (length h <= sstore s1)%nat)).
  { cbn [fst snd] in R. destruct R as [(A & B & C & D)|(A & B & C & D)]; auto. }
  clear R. destruct R' as ((J1 & J2 & J3 & J4 & J5) & L & T & St). cbn [fst snd] in J1, J2, J3, J4, J5.
  rewrite Hs in J2, J4.
  (* the bytes the code reads now are the bytes the caller pointed at *)
  assert (Rd : read_src h1 p n = read_src h p n).
  { destruct p as [w|sid so]; [reflexivity|]. cbn [read_src src_ok] in *.
    destruct Hsrc as [->|(H1 & H2 & H3)]; [now rewrite !takeN_0|]. rewrite J4; auto. }
  pose proof (read_src_len h s p n Hsrc) as Rl.
  unfold mb_append. destruct (n =? 0) eqn:E0.
  { apply N.eqb_eq in E0. subst n. cbn [fst snd].
    assert (Es : mkSBuf (sstore s1) (soff s1) (slen s1 + 0) = s1) by (destruct s1; cbn; f_equal; lia).
    rewrite Es. apply lenN_nil in Rl. rewrite Rl, app_nil_r. auto. }
  destruct (negb (mb_willFit (getb h1 (sstore s1)) n)) eqn:Efit.
  { cbn [fst snd]. auto. }
  rewrite Rd, Rl, N.ltb_irrefl. cbn [fst snd].
  assert (Hn : 0 < n) by lia. specialize (T Hn). unfold tail in T.
  assert (Hi1 : (i < length (upd vs i s1))%nat) by (rewrite length_upd; assumption).
  assert (N1 : nth i (upd vs i s1) sb0 = s1) by (rewrite nth_upd, Nat.eqb_refl by assumption; reflexivity).
  set (s2 := mkSBuf (sstore s1) (soff s1) (slen s1 + n)).
  set (d := bdata (getb h1 (sstore s1)) ++ read_src h p n).
  unfold mb_willFit, mb_spaceSize in Efit.
  destruct (inv_wf _ _ _ J1 i Hi1) as [W1 W2]. rewrite N1 in W1, W2.
  pose proof (inv_cap _ _ _ J1 _ W1) as Cap.
  destruct (inplace_step h1 (upd vs i s1) ex i s2 d J1 Hi1) as (K1 & K2 & K3 & K4); cbn [sstore soff slen s2]; rewrite ?N1.
  - reflexivity.
  - unfold d. rewrite lenN_app, Rl. unfold bsize in *. lia.
  - unfold d. rewrite lenN_app, Rl. unfold bsize in *. lia.
  - right. exists (read_src h p n). reflexivity.
  - change (sstore s2) with (sstore s1) in K1, K2, K3, K4.
    rewrite upd_upd in K1. split; [exact K1|]. split; [|split].
    + intros j Hj Hn'. specialize (K3 j). rewrite length_upd, nth_upd in K3 by assumption.
      destruct (Nat.eqb_spec j i); [contradiction|]. rewrite K3 by assumption. apply J3; assumption.
    + rewrite K2. unfold d. change (soff s2) with (soff s1). change (slen s2) with (slen s1 + n).
      rewrite <- Rl at 1. rewrite window_tail_app by (unfold bsize in T; lia).
      rewrite <- content_window, J2. reflexivity.
    + lia.
Qed.
End Methods3.

(* ------------------------------------------------------------------ *)
(* operations on variables refine operations on independent values     *)
(* ------------------------------------------------------------------ *)
Definition ex0 : nat -> N := fun k => dl 0 k.       (* the static InitialStore pointer *)
Definition absv (st : state) : list bytes := map (content (hp st)) (vars st).
Definition SInv (st : state) : Prop := Inv (hp st) (vars st) ex0.

Lemma content_sb0 h : content h sb0 = [].
Proof. rewrite content_window. apply window_zero. Qed.
Lemma nth_map_content h vs k : nth k (map (content h) vs) [] = content h (nth k vs sb0).
Proof. rewrite <- (content_sb0 h). apply map_nth. Qed.
Lemma nth_absv st j : nth j (absv st) [] = content (hp st) (getv st j).
Proof. unfold absv, getv. rewrite <- (content_sb0 (hp st)). apply map_nth. Qed.

Lemma absv_upd h h' vs i s' c : (i < length vs)%nat -> others_same h h' vs i -> content h' s' = c ->
  map (content h') (upd vs i s') = upd (map (content h) vs) i c.
Proof.
  intros Hi Ho Hc. apply nth_ext with (d := []) (d' := []).
  - now rewrite !map_length, !length_upd, map_length.
  - intros k Hk. rewrite map_length, length_upd in Hk.
    rewrite nth_upd by (rewrite map_length; assumption).
    rewrite !nth_map_content, nth_upd by assumption.
    destruct (Nat.eqb_spec k i) as [->|Hn]; [assumption|]. apply Ho; assumption.
Qed.
Lemma absv_same h h' vs : (forall j, (j < length vs)%nat -> content h' (nth j vs sb0) = content h (nth j vs sb0)) ->
  map (content h') vs = map (content h) vs.
Proof.
  intros H. apply nth_ext with (d := []) (d' := []); [now rewrite !map_length|].
  intros k Hk. rewrite map_length in Hk. rewrite !nth_map_content. apply H; assumption.
Qed.

(* only this's offset/length change *)
Lemma Inv_upd_fields h vs ex i s' : Inv h vs ex -> (i < length vs)%nat ->
  sstore s' = sstore (nth i vs sb0) -> soff s' + slen s' <= bsize (getb h (sstore s')) ->
  Inv h (upd vs i s') ex.
Proof.
  intros I Hi Es W. pose proof I as [I1 I2 I3 I4 I5]. constructor; auto.
  - intros k Hk. rewrite I1 by assumption. pose proof (refs_upd vs i s' k Hi) as R. rewrite Es in R. lia.
  - intros j Hj. rewrite length_upd in Hj. rewrite nth_upd by assumption.
    destruct (Nat.eqb_spec j i) as [->|]; [|auto]. destruct (I3 i Hi) as [W1 _]. split; [rewrite Es; assumption|assumption].
Qed.

Lemma sb_clear_spec h vs ex i s h' s' : Inv h vs ex -> (i < length vs)%nat -> nth i vs sb0 = s ->
  sb_clear h s = (h', s') ->
  Inv h' (upd vs i s') ex /\ content h' s' = [] /\ others_same h h' vs i /\ length h' = length h /\
  sstore s' = sstore s /\ (forall k, k <> sstore s -> getb h' k = getb h k) /\
  (2 <= blocks (getb h (sstore s)) -> h' = h).
Proof.
  intros I Hi Hs. unfold sb_clear. intros [= <- <-].
  destruct (inv_wf _ _ _ I i Hi) as [W1 _]. rewrite Hs in W1.
  destruct (blocks (getb h (sstore s)) =? 1) eqn:B.
  - apply N.eqb_eq in B. set (s' := mkSBuf (sstore s) 0 0).
    assert (So : sole vs i s').
    { destruct (sole_owner h vs ex i I Hi ltac:(rewrite Hs; assumption)) as [So _]. rewrite Hs in So. exact So. }
    destruct (inplace_step h vs ex i s' [] I Hi) as (K1 & K2 & K3 & K4); cbn [sstore soff slen s' lenN]; rewrite ?Hs; auto; try lia.
    change (sstore s') with (sstore s) in *.
    split; [exact K1|]. split; [rewrite K2; apply window_zero|]. split; [exact K3|]. split; [exact K4|].
    split; [reflexivity|]. split.
    + intros k Hk. rewrite getb_set_data by assumption. destruct (Nat.eqb_spec k (sstore s)); [contradiction|reflexivity].
    + intros. lia.
  - split; [apply Inv_upd_fields; cbn [sstore soff slen]; auto; try lia; now rewrite Hs|].
    split; [rewrite content_window; apply window_zero|]. split; [intros j _ _; reflexivity|]. auto.
Qed.

Lemma sb_chop_fields (h : heap) (s : sbuf) pos0 n0 : slen s < two32 ->
  let pos := N.min pos0 (slen s) in
  let n := N.min n0 (slen s - pos) in
  sb_chop h s pos0 n0 = if (pos =? slen s) || (n =? 0) then sb_clear h s else (h, mkSBuf (sstore s) (soff s + pos) n).
Proof.
  intros Hl. unfold sb_chop, npos, two32, gen_npos in *. cbn zeta.
  set (pos := if (pos0 =? 4294967295) || (slen s <? pos0) then slen s else pos0) in *.
  assert (Ep : pos = N.min pos0 (slen s)).
  { unfold pos. destruct ((pos0 =? 4294967295) || (slen s <? pos0)) eqn:E; lia. }
  rewrite <- Ep.
  set (n := if (n0 =? 4294967295) || (slen s - pos <? n0) then slen s - pos else n0).
  assert (En : n = N.min n0 (slen s - pos)).
  { unfold n. destruct ((n0 =? 4294967295) || (slen s - pos <? n0)) eqn:E; lia. }
  rewrite <- En. reflexivity.
Qed.

Lemma window_clip off len (d : bytes) pos0 n0 : off + len <= lenN d ->
  window (off + N.min pos0 len) (N.min n0 (len - N.min pos0 len)) d = takeN n0 (dropN pos0 (window off len d)).
Proof.
  intros H. fold (window pos0 n0 (window off len d)).
  set (pos := N.min pos0 len). set (n := N.min n0 (len - pos)).
  rewrite <- (window_window off len pos n) by lia.
  unfold window at 1 3. set (c := takeN len (dropN off d)).
  assert (Lc : lenN c = len) by (apply window_len; assumption).
  rewrite !takeN_firstn, !dropN_skipn.
  destruct (N.leb_spec pos0 len) as [Hp|Hp].
  - replace pos with pos0 by lia. rewrite lenN_length in Lc.
    pose proof (window_len off len d H) as Lw. rewrite lenN_length in Lw.
    destruct (N.leb_spec n0 (len - pos0)) as [Hq|Hq].
    + replace n with n0 by lia. reflexivity.
    + rewrite !firstn_all2 by (rewrite skipn_length; lia). reflexivity.
  - pose proof (window_len off len d H) as Lw. rewrite lenN_length in Lw. rewrite lenN_length in Lc.
    rewrite (skipn_all2 (n := N.to_nat pos0)) by lia.
    rewrite (skipn_all2 (n := N.to_nat pos)) by lia.
    now rewrite !firstn_nil.
Qed.


(* ------------------------------------------------------------------ *)
(* results of methods relative to the variables                        *)
(* ------------------------------------------------------------------ *)
Section Results.
Variable alloc_cap : N -> N.

(* RS h vs ex i c_ok c_throw r: r keeps the invariant with variable i replaced by the new `this`,
   leaves every other variable's contents alone, and the new contents of i are c_ok on return,
   c_throw on throw; Undef is impossible *)
Definition RS (h : heap) (vs : list sbuf) (ex : nat -> N) (i : nat) (c_ok c_throw : bytes)
              (r : res (heap * sbuf)) : Prop :=
  match r with
  | Ok x => Inv (fst x) (upd vs i (snd x)) ex /\ others_same h (fst x) vs i /\
            content (fst x) (snd x) = c_ok /\ (length h <= length (fst x))%nat
  | Throw x => Inv (fst x) (upd vs i (snd x)) ex /\ others_same h (fst x) vs i /\
               content (fst x) (snd x) = c_throw /\ (length h <= length (fst x))%nat
  | Undef => False
  end.

Lemma bdata_lock h id k : (id < length h)%nat -> bdata (getb (lock h id) k) = bdata (getb h k).
Proof. intros H. rewrite getb_lock by assumption. destruct (Nat.eqb_spec k id) as [->|]; reflexivity. Qed.
Lemma content_lock h id s : (id < length h)%nat -> content (lock h id) s = content h s.
Proof. intros H. apply content_other_blob. apply bdata_lock. assumption. Qed.
Lemma read_src_lock h id p n : (id < length h)%nat -> read_src (lock h id) p n = read_src h p n.
Proof. intros H. destruct p; cbn [read_src]; [reflexivity|]. now rewrite bdata_lock. Qed.

Lemma with_locker_RS h vs ex i s p body c1 c2 : Inv h vs ex -> (i < length vs)%nat -> nth i vs sb0 = s ->
  (locker_hits h s p = true ->
     RS (lock h (sstore s)) vs (exadd ex (sstore s)) i c1 c2 (body (lock h (sstore s)))) ->
  (locker_hits h s p = false -> RS h vs ex i c1 c2 (body h)) ->
  RS h vs ex i c1 c2 (with_locker h s p body).
Proof.
  intros I Hi Hs Hhit Hmiss. unfold with_locker. destruct (locker_hits h s p) eqn:E; [|apply Hmiss; reflexivity].
  specialize (Hhit eq_refl). destruct (inv_wf _ _ _ I i Hi) as [W _]. rewrite Hs in W.
  assert (G : forall x c, Inv (fst x) (upd vs i (snd x)) (exadd ex (sstore s)) ->
              others_same (lock h (sstore s)) (fst x) vs i -> content (fst x) (snd x) = c ->
              (length (lock h (sstore s)) <= length (fst x))%nat ->
              Inv (unlock (fst x) (sstore s)) (upd vs i (snd x)) ex /\
              others_same h (unlock (fst x) (sstore s)) vs i /\
              content (unlock (fst x) (sstore s)) (snd x) = c /\ (length h <= length (unlock (fst x) (sstore s)))%nat).
  { intros x c A1 A2 A3 A4. rewrite length_lock in A4.
    assert (X : 1 <= exadd ex (sstore s) (sstore s)) by (unfold exadd; rewrite dl_eq by reflexivity; lia).
    assert (Hi' : (i < length (upd vs i (snd x)))%nat) by (rewrite length_upd; assumption).
    split; [|split; [|split]].
    - eapply Inv_ext; [|apply Inv_unlock; [exact A1|lia|exact X]].
      intros k. unfold exsub, exadd. pose proof (dl_le (sstore s) k). lia.
    - intros j Hj Hn.
      pose proof (unlock_contents _ _ _ (sstore s) j A1 ltac:(lia) X ltac:(rewrite length_upd; assumption)) as U.
      rewrite nth_upd in U by assumption. destruct (Nat.eqb_spec j i); [contradiction|].
      rewrite U, A2 by assumption. apply content_lock. assumption.
    - pose proof (unlock_contents _ _ _ (sstore s) i A1 ltac:(lia) X Hi') as U.
      rewrite nth_upd, Nat.eqb_refl in U by assumption. rewrite U. assumption.
    - rewrite length_unlock. lia. }
  destruct (body (lock h (sstore s))) as [[h1 a]|[h1 a]|]; cbn [RS fst snd] in *; [| |assumption].
  - destruct Hhit as (A1 & A2 & A3 & A4). exact (G (h1, a) c1 A1 A2 A3 A4).
  - destruct Hhit as (A1 & A2 & A3 & A4). exact (G (h1, a) c2 A1 A2 A3 A4).
Qed.

Lemma lowAppend_RS h vs ex i s p n : Inv h vs ex -> (i < length vs)%nat -> nth i vs sb0 = s ->
  src_ok h s p n ->
  RS h vs ex i (content h s ++ read_src h p n) (content h s) (lowAppend alloc_cap h s p n).
Proof.
  intros I Hi Hs Hsrc. pose proof (lowAppend_spec alloc_cap h vs ex i s p n I Hi Hs Hsrc) as L.
  unfold RS. destruct (lowAppend alloc_cap h s p n) as [x|x|]; [| |assumption].
  - destruct L as (A & B & C & D). auto.
  - destruct L as (A & B & C & D). auto.
Qed.

(* a pointer argument that lies inside a live blob's used area (or external bytes) *)
Definition src_in (h : heap) (p : src) (n : N) : Prop :=
  match p with
  | SLit w => n <= lenN w
  | SPtr sid so => n = 0 \/ ((sid < length h)%nat /\ so + n <= bsize (getb h sid))
  end.

Lemma sb_append_raw_RS h vs ex i s p n : Inv h vs ex -> (i < length vs)%nat -> nth i vs sb0 = s ->
  src_in h p n ->
  RS h vs ex i (content h s ++ read_src h p n) (content h s) (sb_append_raw alloc_cap h s p n).
Proof.
  intros I Hi Hs Hin. unfold sb_append_raw. destruct (inv_wf _ _ _ I i Hi) as [W _]. rewrite Hs in W.
  apply with_locker_RS; auto.
  - intros Hit. rewrite <- (content_lock h (sstore s) s W), <- (read_src_lock h (sstore s) p n W).
    apply lowAppend_RS; [apply Inv_lock; assumption|assumption|assumption|].
    destruct p as [w|sid so]; cbn [src_in src_ok locker_hits] in *; [assumption|].
    destruct Hin as [->|[H1 H2]]; [left; reflexivity|right].
    apply andb_prop in Hit. destruct Hit as [Hit _]. apply Nat.eqb_eq in Hit. subst sid.
    rewrite length_lock. split; [assumption|]. rewrite getb_lock, Nat.eqb_refl by assumption.
    unfold bsize in *; cbn [bdata blocks]. split; [assumption|]. right.
    pose proof (inv_cnt _ _ _ I _ W) as C. pose proof (refs_ge1 vs i (sstore s) Hi) as G.
    rewrite Hs, dl_eq in G by reflexivity. lia.
  - intros Miss. apply lowAppend_RS; auto.
    destruct p as [w|sid so]; cbn [src_in src_ok locker_hits] in *; [assumption|].
    destruct Hin as [->|[H1 H2]]; [left; reflexivity|].
    destruct (Nat.eqb_spec sid (sstore s)) as [->|Hn].
    + cbn [andb] in Miss. left. pose proof (inv_cap _ _ _ I _ W). lia.
    + right. auto.
Qed.

Lemma sb_assign_raw_RS h vs ex i s p n : Inv h vs ex -> (i < length vs)%nat -> nth i vs sb0 = s ->
  src_in h p n ->
  RS h vs ex i (read_src h p n) [] (sb_assign_raw alloc_cap h s p n).
Proof.
  intros I Hi Hs Hin. unfold sb_assign_raw. destruct (inv_wf _ _ _ I i Hi) as [W _]. rewrite Hs in W.
  (* clear(), then append: stated for any heap h0 that looks like h to the reader of p *)
  assert (G : forall h0 ex0', Inv h0 vs ex0' -> length h0 = length h ->
              (forall k, bdata (getb h0 k) = bdata (getb h k)) ->
              (forall sid so, p = SPtr sid so -> sid = sstore s -> 0 < n -> 2 <= blocks (getb h0 sid)) ->
              RS h0 vs ex0' i (read_src h p n) []
                 (let '(h1, s1) := sb_clear h0 s in sb_append_raw alloc_cap h1 s1 p n)).
  { intros h0 ex0' I0 L0 D0 P0.
    destruct (sb_clear h0 s) as [h1 s1] eqn:Ec.
    destruct (sb_clear_spec h0 vs ex0' i s h1 s1 I0 Hi Hs Ec) as (K1 & K2 & K3 & K4 & K5 & K6 & K7).
    assert (Hi1 : (i < length (upd vs i s1))%nat) by (rewrite length_upd; assumption).
    assert (N1 : nth i (upd vs i s1) sb0 = s1) by (rewrite nth_upd, Nat.eqb_refl by assumption; reflexivity).
    (* the source is still where it was *)
    assert (Rd : read_src h1 p n = read_src h p n /\ src_in h1 p n).
    { destruct p as [w|sid so]; cbn [read_src src_in] in *; [auto|].
      destruct Hin as [->|[H1 H2]]; [split; [now rewrite !takeN_0|left; reflexivity]|].
      destruct (N.eq_dec n 0) as [->|Hn0]; [split; [now rewrite !takeN_0|left; reflexivity]|].
      assert (E : bdata (getb h1 sid) = bdata (getb h sid)).
      { destruct (Nat.eq_dec sid (sstore s)) as [Es|Es].
        - assert (Pb : 2 <= blocks (getb h0 (sstore s))) by (rewrite <- Es; apply (P0 sid so eq_refl Es); lia).
          rewrite (K7 Pb). apply D0.
        - rewrite K6 by assumption. apply D0. }
      split; [rewrite E; reflexivity|]. right. split; [lia|]. unfold bsize in *. rewrite E. assumption. }
    destruct Rd as [Rd Hin1].
    pose proof (sb_append_raw_RS h1 (upd vs i s1) ex0' i s1 p n K1 Hi1 N1 Hin1) as A.
    rewrite K2, Rd in A. cbn [app] in A.
    unfold RS in *. destruct (sb_append_raw alloc_cap h1 s1 p n) as [x|x|]; [| |assumption].
    - destruct A as (A1 & A2 & A3 & A4). rewrite upd_upd in A1. split; [exact A1|]. split; [|split; [exact A3|lia]].
      intros j Hj Hn. specialize (A2 j). rewrite length_upd, nth_upd in A2 by assumption.
      destruct (Nat.eqb_spec j i); [contradiction|]. rewrite A2 by assumption. apply K3; assumption.
    - destruct A as (A1 & A2 & A3 & A4). rewrite upd_upd in A1. split; [exact A1|]. split; [|split; [exact A3|lia]].
      intros j Hj Hn. specialize (A2 j). rewrite length_upd, nth_upd in A2 by assumption.
      destruct (Nat.eqb_spec j i); [contradiction|]. rewrite A2 by assumption. apply K3; assumption. }
  apply with_locker_RS; auto.
  - intros Hit.
    pose proof (G (lock h (sstore s)) (exadd ex (sstore s)) (Inv_lock _ _ _ _ I W) (length_lock _ _)
                  (fun k => bdata_lock h (sstore s) k W)) as G1.
    assert (RSx : forall hA hB c1 c2 r, (forall j, content hA (nth j vs sb0) = content hB (nth j vs sb0)) ->
                  length hA = length hB -> RS hA vs (exadd ex (sstore s)) i c1 c2 r -> RS hB vs (exadd ex (sstore s)) i c1 c2 r).
    { intros hA hB c1 c2 r Ec El. unfold RS. destruct r as [x|x|]; auto.
      - intros (A1 & A2 & A3 & A4). split; [exact A1|]. split; [|split; [exact A3|lia]].
        intros j Hj Hn. rewrite A2 by assumption. apply Ec.
      - intros (A1 & A2 & A3 & A4). split; [exact A1|]. split; [|split; [exact A3|lia]].
        intros j Hj Hn. rewrite A2 by assumption. apply Ec. }
    apply G1. intros sid so -> -> Hn. rewrite getb_lock, Nat.eqb_refl by assumption. cbn [blocks].
    pose proof (inv_cnt _ _ _ I _ W) as C. pose proof (refs_ge1 vs i (sstore s) Hi) as Gr.
    rewrite Hs, dl_eq in Gr by reflexivity. lia.
  - intros Miss. apply (G h ex I eq_refl (fun k => eq_refl)).
    intros sid so -> -> Hn. exfalso. cbn [locker_hits src_in] in *. rewrite Nat.eqb_refl in Miss. cbn [andb] in Miss.
    destruct Hin as [->|[H1 H2]]; [lia|]. pose proof (inv_cap _ _ _ I _ W). lia.
Qed.
End Results.

Section Results2.
Variable alloc_cap : N -> N.

(* v[d] = std::move(rv): rv is a temporary that already holds one lock on its blob *)
Lemma move_into_spec h vs ex d rv : Inv h vs (exadd ex (sstore rv)) -> (d < length vs)%nat -> wf h rv ->
  Inv (hp (move_into h vs d rv)) (vars (move_into h vs d rv)) ex /\
  (forall k, (k < length vs)%nat ->
     content (hp (move_into h vs d rv)) (nth k (vars (move_into h vs d rv)) sb0) = content h (nth k (upd vs d rv) sb0)).
Proof.
  intros I Hd W. unfold move_into; cbn [hp vars]. set (old := nth d vs sb0).
  destruct (inv_wf _ _ _ I d Hd) as [Wo _]. fold old in Wo.
  assert (X : 1 <= exadd ex (sstore rv) (sstore rv)) by (unfold exadd; rewrite dl_eq by reflexivity; lia).
  pose proof (Inv_move _ _ _ d rv I Hd W X) as I2. cbn beta in I2. fold old in I2.
  assert (Y : 1 <= exadd ex (sstore rv) (sstore old) + dl (sstore old) (sstore old) - dl (sstore rv) (sstore old)).
  { unfold exadd. rewrite (dl_eq (sstore old) (sstore old)) by reflexivity. pose proof (dl_le (sstore rv) (sstore old)). lia. }
  split.
  - eapply Inv_ext; [|apply Inv_unlock; [exact I2|exact Wo|exact Y]].
    intros k. unfold exsub, exadd. cbn beta. pose proof (dl_le (sstore rv) k). pose proof (dl_le (sstore old) k). lia.
  - intros k Hk. apply (unlock_contents _ _ _ (sstore old) k I2 Wo Y). rewrite length_upd. assumption.
Qed.

(* chop() on an object whose blob has another holder never touches the heap *)
Lemma chop_shared h s pos n : 2 <= blocks (getb h (sstore s)) -> slen s < two32 ->
  soff s + slen s <= bsize (getb h (sstore s)) ->
  fst (sb_chop h s pos n) = h /\ sstore (snd (sb_chop h s pos n)) = sstore s /\
  soff (snd (sb_chop h s pos n)) + slen (snd (sb_chop h s pos n)) <= bsize (getb h (sstore s)) /\
  content h (snd (sb_chop h s pos n)) = takeN n (dropN pos (content h s)).
Proof.
  intros B Hl W. rewrite (sb_chop_fields h s pos n Hl).
  set (p' := N.min pos (slen s)). set (n' := N.min n (slen s - p')).
  assert (Cl : takeN n (dropN pos (content h s)) = window (soff s + p') n' (bdata (getb h (sstore s)))).
  { rewrite content_window. symmetry. apply window_clip. exact W. }
  rewrite Cl. destruct ((p' =? slen s) || (n' =? 0)) eqn:E.
  - unfold sb_clear. destruct (blocks (getb h (sstore s)) =? 1) eqn:B1; [lia|]. cbn [fst snd sstore soff slen].
    split; [reflexivity|]. split; [reflexivity|]. split; [lia|].
    assert (Z : n' = 0) by (unfold n' in *; lia). rewrite Z, content_window. cbn [soff slen]. now rewrite !window_zero.
  - cbn [fst snd sstore soff slen]. split; [reflexivity|]. split; [reflexivity|].
    split; [unfold n', p' in *; lia|]. rewrite content_window. reflexivity.
Qed.

Lemma var_len_bound h vs ex j : Inv h vs ex -> (j < length vs)%nat -> slen (nth j vs sb0) < two32.
Proof.
  intros I Hj. destruct (inv_wf _ _ _ I j Hj) as [W1 W2].
  pose proof (inv_cap _ _ _ I _ W1). pose proof (inv_capb _ _ _ I _ W1). lia.
Qed.

(* ---- setAt ---- *)
Lemma lenN_pokeN (l : bytes) p c : lenN (pokeN l p c) = lenN l.
Proof. revert p; induction l as [|x l IH]; intros p; cbn [pokeN lenN]; [reflexivity|]. destruct (p =? 0); cbn [lenN]; [reflexivity|now rewrite IH]. Qed.
Lemma dropN_pokeN_lt (l : bytes) off p c : off <= p -> dropN off (pokeN l p c) = pokeN (dropN off l) (p - off) c.
Proof.
  revert off p; induction l as [|x l IH]; intros off p H; cbn [pokeN dropN]; [reflexivity|].
  destruct (off =? 0) eqn:E0.
  - apply N.eqb_eq in E0. subst off. rewrite N.sub_0_r. destruct (p =? 0) eqn:Ep; cbn [dropN pokeN]; rewrite ?Ep; reflexivity.
  - destruct (p =? 0) eqn:Ep; [lia|]. cbn [dropN]. rewrite E0. rewrite IH by lia. f_equal. lia.
Qed.
Lemma takeN_pokeN_lt (l : bytes) n p c : p < n -> takeN n (pokeN l p c) = pokeN (takeN n l) p c.
Proof.
  revert n p; induction l as [|x l IH]; intros n p H; cbn [pokeN takeN]; [reflexivity|].
  destruct (n =? 0) eqn:En; [lia|]. destruct (p =? 0) eqn:Ep; cbn [takeN pokeN]; rewrite En, ?Ep; [reflexivity|].
  rewrite IH by lia. reflexivity.
Qed.
Lemma window_pokeN off len (d : bytes) pos c : pos < len ->
  window off len (pokeN d (off + pos) c) = pokeN (window off len d) pos c.
Proof.
  intros H. unfold window. rewrite dropN_pokeN_lt by lia. replace (off + pos - off) with pos by lia.
  apply takeN_pokeN_lt. assumption.
Qed.

Lemma sb_setAt_RS h vs ex i s pos c : Inv h vs ex -> (i < length vs)%nat -> nth i vs sb0 = s ->
  RS h vs ex i (pokeN (content h s) pos c) (content h s) (sb_setAt alloc_cap h s pos c) /\
  (forall x, sb_setAt alloc_cap h s pos c = Ok x ->
     tail (fst x) (snd x) /\ sole vs i (snd x) /\ slen (snd x) = slen s).
Proof.
  intros I Hi Hs. unfold sb_setAt. destruct (pos <? slen s) eqn:Ep; cbn [negb].
  2:{ split; [|discriminate]. cbn [RS fst snd]. rewrite (upd_same' _ _ _ _ Hs).
      split; [exact I|]. split; [intros j _ _; reflexivity|]. split; [reflexivity|lia]. }
  destruct (cow alloc_cap h s npos) as [[h1 s1]|[h1 s1]|] eqn:Ec.
  - destruct (cow_spec alloc_cap h vs ex i s npos (h1, s1) true I Hi Hs Ec) as [(K1 & K2 & K3 & K4 & K5) X].
    destruct (X eq_refl) as (T & So & L & _). cbn [fst snd] in *. unfold tail in T.
    destruct (bsize (getb h1 (sstore s1)) <=? soff s1 + pos) eqn:Eb; [lia|].
    assert (Hi1 : (i < length (upd vs i s1))%nat) by (rewrite length_upd; assumption).
    assert (N1 : nth i (upd vs i s1) sb0 = s1) by (rewrite nth_upd, Nat.eqb_refl by assumption; reflexivity).
    destruct (inv_wf _ _ _ K1 i Hi1) as [W1 W2]. rewrite N1 in W1, W2.
    pose proof (inv_cap _ _ _ K1 _ W1) as Cap.
    assert (So1 : sole (upd vs i s1) i s1).
    { intros j Hj Hn. rewrite length_upd in Hj. rewrite nth_upd by assumption.
      destruct (Nat.eqb_spec j i); [contradiction|]. apply So; assumption. }
    destruct (inplace_step h1 (upd vs i s1) ex i s1 (pokeN (bdata (getb h1 (sstore s1))) (soff s1 + pos) c) K1 Hi1)
      as (J1 & J2 & J3 & J4); rewrite ?N1, ?lenN_pokeN; unfold bsize in *; auto.
    rewrite upd_upd in J1. split.
    + cbn [RS fst snd]. split; [exact J1|]. split; [|split].
      * intros j Hj Hn. specialize (J3 j). rewrite length_upd, nth_upd in J3 by assumption.
        destruct (Nat.eqb_spec j i); [contradiction|]. rewrite J3 by assumption. apply K3; assumption.
      * rewrite J2, window_pokeN by lia. rewrite <- content_window, K2, Hs. reflexivity.
      * lia.
    + intros x [= <-]. cbn [fst snd]. split; [|split; [exact So|exact L]].
      unfold tail. rewrite getb_set_data, Nat.eqb_refl by assumption. unfold bsize; cbn [bdata]. rewrite lenN_pokeN. exact T.
  - destruct (cow_spec alloc_cap h vs ex i s npos (h1, s1) false I Hi Hs Ec) as [(K1 & K2 & K3 & K4 & K5) _].
    cbn [fst snd] in *. split; [|discriminate]. cbn [RS fst snd]. rewrite Hs in K2. auto.
  - exfalso. eapply cow_defined; eauto.
Qed.
End Results2.

(* ------------------------------------------------------------------ *)
(* operations on variables refine operations on independent values     *)
(* ------------------------------------------------------------------ *)
Definition lower_byte (c : N) : N := if (65 <=? c) && (c <=? 90) then c + 32 else c.
Definition upper_byte (c : N) : N := if (97 <=? c) && (c <=? 122) then c - 32 else c.
Definition dropwhile (p : N -> bool) (l : bytes) : bytes := snd (span p l).
(* std::string-style trim: strip from the end, then from the beginning, the bytes that occur in R *)
Definition trim_spec (R : bytes) (atBeginning atEnd : bool) (v : bytes) : bytes :=
  let v1 := if atEnd then rev (dropwhile (fun c => memb c R) (rev v)) else v in
  if atBeginning then dropwhile (fun c => memb c R) v1 else v1.

(* effect of an operation that returned normally on a list of independent byte strings *)
Definition spec_vals (vals : list bytes) (o : op) : list bytes :=
  let v k := nth k vals [] in
  match o with
  | OSet i w => upd vals i w
  | OAsg i j => upd vals i (v j)
  | OApp i j => upd vals i (v i ++ v j)
  | OApl i w => upd vals i (v i ++ w)
  | OApr i j off n => upd vals i (v i ++ takeN n (dropN off (v j)))
  | OAsr i j off n => upd vals i (takeN n (dropN off (v j)))
  | OPsh i c => upd vals i (v i ++ [c])
  | OCon d i n => let k := if n =? npos then lenN (v i) else N.min n (lenN (v i)) in
                  upd (upd vals i (dropN k (v i))) d (takeN k (v i))
  | OChp i pos n => upd vals i (takeN n (dropN pos (v i)))
  | OSub d i pos n => upd vals d (takeN n (dropN pos (v i)))
  | OTrm i j b e => upd vals i (trim_spec (v j) b e (v i))
  | OSat i pos c => upd vals i (pokeN (v i) pos c)
  | OLow i => upd vals i (map lower_byte (v i))
  | OUpp i => upd vals i (map upper_byte (v i))
  | OClr i => upd vals i []
  | ORsv _ _ | ORcp _ _ | ORsq _ _ _ _ _ | OCst _ | OQuery _ _ => vals
  | ORaw i n w => upd vals i (v i ++ w)
  end.
(* effect of an operation that threw: nothing changes, except that assign(ptr,n) has already cleared
   the target when its append throws *)
Definition spec_throw (vals : list bytes) (o : op) : list bytes :=
  match o with
  | OSet i _ | OAsr i _ _ _ => upd vals i []
  | _ => vals
  end.
Definition spec_after (vals : list bytes) (o : op) (r : out) : list bytes :=
  match r with
  | RThrow => spec_throw vals o
  | RSkip | RShort => vals
  | _ => spec_vals vals o
  end.

Section StepProofs.
Variable alloc_cap : N -> N.

Lemma fin_RS st i (r : res (heap * sbuf)) c1 c2 : SInv st -> (i < length (vars st))%nat ->
  RS (hp st) (vars st) ex0 i c1 c2 r ->
  SInv (fst (fin st i r)) /\ snd (fin st i r) <> RUndef /\
  absv (fst (fin st i r)) = upd (absv st) i (match snd (fin st i r) with RThrow => c2 | _ => c1 end) /\
  (snd (fin st i r) = RVoid \/ snd (fin st i r) = RThrow).
Proof.
  intros I Hi H. unfold fin. destruct r as [[h1 s1]|[h1 s1]|]; [| |contradiction]; cbn [RS fst snd] in *.
  - destruct H as (H1 & H2 & H3 & _). split; [exact H1|]. split; [discriminate|]. split; [|left; reflexivity].
    unfold absv; cbn [hp vars]. apply absv_upd; assumption.
  - destruct H as (H1 & H2 & H3 & _). split; [exact H1|]. split; [discriminate|]. split; [|right; reflexivity].
    unfold absv; cbn [hp vars]. apply absv_upd; assumption.
Qed.

Lemma upd_absv_same st i : upd (absv st) i (content (hp st) (getv st i)) = absv st.
Proof. rewrite <- nth_absv. apply upd_same. Qed.
End StepProofs.

Lemma dropN_app_len (y r : bytes) : dropN (lenN y) (y ++ r) = r.
Proof.
  induction y as [|a y IH]; cbn [lenN app dropN]; [apply dropN_0|].
  destruct (N.succ (lenN y) =? 0) eqn:E; [lia|]. rewrite N.pred_succ. exact IH.
Qed.
Lemma takeN_app_len (c x : bytes) : takeN (lenN c) (c ++ x) = c.
Proof.
  induction c as [|a c IH]; cbn [lenN app takeN]; [apply takeN_0|].
  destruct (N.succ (lenN c) =? 0) eqn:E; [lia|]. rewrite N.pred_succ, IH. reflexivity.
Qed.

(* ---- trim ---- *)
Lemma trim_end_noalias R rc : trim_end_loop false R rc = dropwhile (fun c => memb c R) rc.
Proof.
  unfold dropwhile. induction rc as [|x r IH]; cbn [trim_end_loop span]; [reflexivity|].
  destruct (memb x R); [|reflexivity]. rewrite IH. destruct (span _ r); reflexivity.
Qed.
Lemma trim_begin_noalias R c : trim_begin_loop false R c = dropwhile (fun c => memb c R) c.
Proof.
  unfold dropwhile. induction c as [|x r IH]; cbn [trim_begin_loop span]; [reflexivity|].
  destruct (memb x R); [|reflexivity]. rewrite IH. destruct (span _ r); reflexivity.
Qed.
Lemma memb_In x l : In x l -> memb x l = true.
Proof. intros H. unfold memb. apply existsb_exists. exists x. split; [assumption|apply N.eqb_refl]. Qed.
Lemma trim_end_alias R rc : trim_end_loop true R rc = [].
Proof.
  induction rc as [|x r IH]; cbn [trim_end_loop]; [reflexivity|].
  rewrite memb_In; [exact IH|]. apply in_rev. rewrite rev_involutive. left; reflexivity.
Qed.
Lemma trim_begin_alias R c : trim_begin_loop true R c = [].
Proof.
  induction c as [|x r IH]; cbn [trim_begin_loop]; [reflexivity|]. rewrite memb_In; [exact IH|left; reflexivity].
Qed.
Lemma dropwhile_all p (l : bytes) : (forall x, In x l -> p x = true) -> dropwhile p l = [].
Proof.
  unfold dropwhile. induction l as [|x r IH]; intros H; cbn [span]; [reflexivity|].
  rewrite (H x) by (left; reflexivity). specialize (IH (fun y Hy => H y (or_intror Hy))).
  destruct (span p r); cbn [snd] in *. assumption.
Qed.
Lemma dropwhile_suffix p (l : bytes) : exists a, l = a ++ dropwhile p l.
Proof. exists (fst (span p l)). unfold dropwhile. symmetry. apply span_app. Qed.

(* the model's trim computes trim_spec with the set of bytes the argument held at the call *)
Lemma trim_model_spec (alias : bool) (R c0 : bytes) (b e : bool) :
  (alias = true -> R = c0) ->
  let c1 := if e then rev (trim_end_loop alias R (rev c0)) else c0 in
  let c2 := if b then trim_begin_loop alias R c1 else c1 in
  c2 = trim_spec R b e c0 /\ exists y x, c0 = y ++ c2 ++ x /\ lenN y = lenN c1 - lenN c2.
Proof.
  intros Ha. cbn zeta. unfold trim_spec.
  assert (E1 : (if e then rev (trim_end_loop alias R (rev c0)) else c0) =
               (if e then rev (dropwhile (fun c => memb c R) (rev c0)) else c0)).
  { destruct e; [|reflexivity]. destruct alias; [|now rewrite trim_end_noalias].
    rewrite trim_end_alias, (Ha eq_refl). rewrite dropwhile_all; [reflexivity|].
    intros x Hx. apply memb_In. apply in_rev. assumption. }
  rewrite E1. set (v1 := if e then rev (dropwhile (fun c => memb c R) (rev c0)) else c0).
  assert (P1 : exists x, c0 = v1 ++ x).
  { unfold v1. destruct e; [|exists []; now rewrite app_nil_r].
    destruct (dropwhile_suffix (fun c => memb c R) (rev c0)) as [a Ea]. exists (rev a).
    rewrite <- rev_app_distr, <- Ea. now rewrite rev_involutive. }
  assert (E2 : (if b then trim_begin_loop alias R v1 else v1) = (if b then dropwhile (fun c => memb c R) v1 else v1)).
  { destruct b; [|reflexivity]. destruct alias; [|now rewrite trim_begin_noalias].
    rewrite trim_begin_alias. rewrite dropwhile_all; [reflexivity|].
    intros x Hx. apply memb_In. rewrite (Ha eq_refl). destruct P1 as [z Pz]. rewrite Pz. apply in_or_app. left; assumption. }
  rewrite E2. split; [reflexivity|].
  set (v2 := if b then dropwhile (fun c => memb c R) v1 else v1).
  assert (P2 : exists y, v1 = y ++ v2).
  { unfold v2. destruct b; [apply dropwhile_suffix|exists []; reflexivity]. }
  destruct P1 as [x Px], P2 as [y Py]. exists y, x. split; [rewrite Px, Py, app_assoc; reflexivity|].
  rewrite Py, lenN_app. lia.
Qed.

(* operations covered by the refinement theorem below (all indices must name existing variables;
   rawAppend: the caller writes at most the n bytes it asked for) *)
Definition covered (st : state) (o : op) : Prop :=
  let nv := length (vars st) in
  match o with
  | OSet i _ | OApl i _ | OPsh i _ | OChp i _ _ | OSat i _ _ | OClr i | ORsv i _ | ORcp i _
  | ORsq i _ _ _ _ | OQuery i _ => (i < nv)%nat
  | OAsg i j | OApp i j | OApr i j _ _ | OAsr i j _ _ | OCon i j _ | OSub i j _ _ | OTrm i j _ _ =>
      (i < nv)%nat /\ (j < nv)%nat
  | ORaw i n w => (i < nv)%nat /\ lenN w <= n
  | OLow _ | OUpp _ | OCst _ => False
  end.

Section StepProofs2.
Variable alloc_cap : N -> N.

Lemma wf_getv st j : SInv st -> (j < length (vars st))%nat -> wf (hp st) (getv st j).
Proof. intros I Hj. exact (inv_wf _ _ _ I j Hj). Qed.

Lemma src_in_var st j off n : SInv st -> (j < length (vars st))%nat -> off + n <= slen (getv st j) ->
  src_in (hp st) (SPtr (sstore (getv st j)) (soff (getv st j) + off)) n /\
  read_src (hp st) (SPtr (sstore (getv st j)) (soff (getv st j) + off)) n = takeN n (dropN off (nth j (absv st) [])).
Proof.
  intros I Hj Hb. destruct (wf_getv st j I Hj) as [W1 W2]. split.
  - cbn [src_in]. right. split; [assumption|lia].
  - cbn [read_src]. rewrite nth_absv, content_window.
    fold (window (soff (getv st j) + off) n (bdata (getb (hp st) (sstore (getv st j))))).
    fold (window off n (window (soff (getv st j)) (slen (getv st j)) (bdata (getb (hp st) (sstore (getv st j)))))).
    symmetry. apply window_window. assumption.
Qed.

Lemma read_lit h w : read_src h (SLit w) (lenN w) = w.
Proof. cbn [read_src]. apply takeN_all. lia. Qed.

(* a state change through `fin` with result contents c_ok / c_throw *)
Ltac foldgetv F :=
  repeat match type of F with context [nth ?k (vars ?s) sb0] => change (nth k (vars s) sb0) with (getv s k) in F end.
Ltac fin_done F :=
  foldgetv F; destruct F as (F1 & F2 & F3 & F4); split; [exact F1|]; split; [exact F2|];
  destruct F4 as [F4|F4]; rewrite F4 in F3 |- *; cbn [spec_after spec_vals spec_throw]; rewrite F3;
  rewrite ?upd_absv_same, ?upd_same; reflexivity.

Lemma RS_refl h vs ex i (isok : bool) : Inv h vs ex ->
  RS h vs ex i (content h (nth i vs sb0)) (content h (nth i vs sb0))
     (if isok then Ok (h, nth i vs sb0) else Throw (h, nth i vs sb0)).
Proof.
  intros I. destruct isok; cbn [RS fst snd]; rewrite upd_same;
    (split; [exact I|]; split; [intros j _ _; reflexivity|]; split; [reflexivity|lia]).
Qed.
Lemma cow_RS h vs ex i ns : Inv h vs ex -> (i < length vs)%nat ->
  RS h vs ex i (content h (nth i vs sb0)) (content h (nth i vs sb0)) (cow alloc_cap h (nth i vs sb0) ns).
Proof.
  intros I Hi. destruct (cow alloc_cap h (nth i vs sb0) ns) as [x|x|] eqn:Ec; cbn [RS].
  - destruct (cow_spec alloc_cap h vs ex i _ ns x true I Hi eq_refl Ec) as [(K1 & K2 & K3 & K4 & K5) _]. auto.
  - destruct (cow_spec alloc_cap h vs ex i _ ns x false I Hi eq_refl Ec) as [(K1 & K2 & K3 & K4 & K5) _]. auto.
  - eapply cow_defined; eauto.
Qed.

(* rawAppendStart(n); write w; rawAppendFinish(p, |w|) *)
Lemma sb_rawAppend_spec h vs ex i n w : Inv h vs ex -> (i < length vs)%nat -> lenN w <= n ->
  match sb_rawAppend alloc_cap h (nth i vs sb0) n w with
  | RawOk h' s' => Inv h' (upd vs i s') ex /\ others_same h h' vs i /\ content h' s' = content h (nth i vs sb0) ++ w
  | RawShort h' s' | RawThrow h' s' =>
      Inv h' (upd vs i s') ex /\ others_same h h' vs i /\ content h' s' = content h (nth i vs sb0)
  | RawUndef => False
  end.
Proof.
  intros I Hi Hw. unfold sb_rawAppend.
  pose proof (rawSpace_spec alloc_cap h vs ex i _ n I Hi eq_refl) as R.
  destruct (rawSpace alloc_cap h (nth i vs sb0) n) as [[h1 s1]|[h1 s1]|]; [| |contradiction].
  2:{ destruct R as (J1 & J2 & J3 & _). cbn [fst snd] in *. auto. }
  assert (R' : keeps h vs ex i (h1, s1) /\ slen s1 = slen (nth i vs sb0) /\ (0 < n -> tail h1 s1)).
  { cbn [fst snd] in R. destruct R as [(A & B & C & D)|(A & B & C & D)]; auto. }
  clear R. destruct R' as ((J1 & J2 & J3 & _) & L & T). cbn [fst snd] in J1, J2, J3.
  assert (Hi1 : (i < length (upd vs i s1))%nat) by (rewrite length_upd; assumption).
  assert (N1 : nth i (upd vs i s1) sb0 = s1) by (rewrite nth_upd, Nat.eqb_refl by assumption; reflexivity).
  destruct (inv_wf _ _ _ J1 i Hi1) as [W1 W2]. rewrite N1 in W1, W2.
  destruct (_ <? n); [auto|].
  destruct (negb (mb_canAppend _ _ _)); [auto|].
  destruct (lenN w =? 0) eqn:E0.
  { apply N.eqb_eq in E0. apply lenN_nil in E0. subst w. rewrite app_nil_r. auto. }
  destruct (N.min maxSize _ <? _) eqn:Emin; [auto|].
  destruct (bsize (getb h1 (sstore s1)) <? soff s1 + slen s1) eqn:Eb; [lia|].
  assert (Tl : tail h1 s1) by (apply T; lia). unfold tail in Tl.
  set (s2 := mkSBuf (sstore s1) (soff s1) (slen s1 + lenN w)).
  set (d := takeN (soff s1 + slen s1) (bdata (getb h1 (sstore s1))) ++ w).
  assert (Ed : d = bdata (getb h1 (sstore s1)) ++ w).
  { unfold d. rewrite takeN_all by (unfold bsize in Tl; lia). reflexivity. }
  destruct (inplace_step h1 (upd vs i s1) ex i s2 d J1 Hi1) as (K1 & K2 & K3 & K4); cbn [sstore soff slen s2]; rewrite ?N1.
  - reflexivity.
  - rewrite Ed, lenN_app. unfold bsize in *. lia.
  - rewrite Ed, lenN_app. unfold bsize in *. lia.
  - right. exists w. exact Ed.
  - change (sstore s2) with (sstore s1) in K1, K2, K3. rewrite upd_upd in K1. split; [exact K1|]. split.
    + intros j Hj Hn. specialize (K3 j). rewrite length_upd, nth_upd in K3 by assumption.
      destruct (Nat.eqb_spec j i); [contradiction|]. rewrite K3 by assumption. apply J3; assumption.
    + rewrite K2, Ed. change (soff s2) with (soff s1). change (slen s2) with (slen s1 + lenN w).
      rewrite window_tail_app by (unfold bsize in Tl; lia). rewrite <- content_window, J2. reflexivity.
Qed.

Theorem step_refines st o : SInv st -> covered st o ->
  SInv (fst (step alloc_cap st o)) /\ snd (step alloc_cap st o) <> RUndef /\
  absv (fst (step alloc_cap st o)) = spec_after (absv st) o (snd (step alloc_cap st o)).
Proof.
  intros I C. destruct o; cbn [covered] in C; try contradiction; cbn [step].
  - (* OSet *)
    pose proof (fin_RS st i _ _ _ I C (sb_assign_raw_RS alloc_cap _ _ _ i _ (SLit w) (lenN w) I C eq_refl (N.le_refl _))) as F. foldgetv F.
    rewrite read_lit in F. fin_done F.
  - (* OAsg *)
    destruct C as [Hi Hj]. destruct (Nat.eqb_spec i j) as [->|Hn]; cbn [fst snd spec_after spec_vals].
    { split; [assumption|]. split; [discriminate|]. symmetry. apply upd_same. }
    unfold sb_assign; cbn [fst snd spec_after spec_vals].
    destruct (wf_getv st j I Hj) as [WS1 WS2].
    pose proof (Inv_lock _ _ _ (sstore (getv st j)) I WS1) as I1.
    assert (WS' : wf (lock (hp st) (sstore (getv st j))) (getv st j)).
    { apply (wf_same (hp st)); [apply length_lock|apply bdata_lock; assumption|split; assumption]. }
    destruct (move_into_spec _ _ _ i (getv st j) I1 Hi WS') as [M1 M2]. unfold move_into in M1, M2. cbn [hp vars] in M1, M2.
    split; [exact M1|]. split; [discriminate|]. unfold absv; cbn [hp vars].
    rewrite (absv_same (hp st) _ (upd (vars st) i (getv st j))).
    + apply (absv_upd (hp st) (hp st) (vars st) i); [assumption|intros k _ _; reflexivity|]. symmetry. apply nth_map_content.
    + intros k Hk. rewrite length_upd in Hk. etransitivity; [exact (M2 k Hk)|apply content_lock; assumption].
  - (* OApp *)
    destruct C as [Hi Hj]. unfold sb_append.
    destruct ((slen (getv st i) =? 0) && Nat.eqb (sstore (getv st i)) 0) eqn:Eopt.
    + (* empty prototype: assign *)
      assert (Ze : nth i (absv st) [] = []).
      { rewrite nth_absv, content_window. replace (slen (getv st i)) with 0 by lia. apply window_zero. }
      destruct (Nat.eqb_spec i j) as [->|Hn]; cbn [fin fst snd spec_after spec_vals].
      { unfold getv. rewrite upd_same. split; [destruct st; exact I|]. split; [discriminate|].
        rewrite Ze. cbn [app]. replace (upd (absv st) j []) with (absv st) by (rewrite <- Ze; symmetry; apply upd_same).
        destruct st; reflexivity. }
      unfold sb_assign; cbn [fin fst snd spec_after spec_vals]. rewrite Ze. cbn [app].
      destruct (wf_getv st j I Hj) as [WS1 WS2].
      pose proof (Inv_lock _ _ _ (sstore (getv st j)) I WS1) as I1.
      assert (WS' : wf (lock (hp st) (sstore (getv st j))) (getv st j)).
      { apply (wf_same (hp st)); [apply length_lock|apply bdata_lock; assumption|split; assumption]. }
      destruct (move_into_spec _ _ _ i (getv st j) I1 Hi WS') as [M1 M2]. unfold move_into in M1, M2. cbn [hp vars] in M1, M2.
      split; [exact M1|]. split; [discriminate|]. unfold absv; cbn [hp vars].
      rewrite (absv_same (hp st) _ (upd (vars st) i (getv st j))).
      * apply (absv_upd (hp st) (hp st) (vars st) i); [assumption|intros k _ _; reflexivity|]. symmetry. apply nth_map_content.
      * intros k Hk. rewrite length_upd in Hk. etransitivity; [exact (M2 k Hk)|apply content_lock; assumption].
    + destruct (src_in_var st j 0 (slen (getv st j)) I Hj ltac:(lia)) as [Sin Srd].
      rewrite N.add_0_r in Sin, Srd. rewrite dropN_0 in Srd.
      pose proof (fin_RS st i _ _ _ I Hi (sb_append_raw_RS alloc_cap _ _ _ i _ _ _ I Hi eq_refl Sin)) as F. foldgetv F.
      unfold sb_append_raw in F. rewrite Srd in F.
      rewrite takeN_all in F by (rewrite nth_absv; rewrite (wf_content_len _ _ (wf_getv st j I Hj)); lia).
      rewrite <- nth_absv in F. fin_done F.
  - (* OApl *)
    pose proof (fin_RS st i _ _ _ I C (sb_append_raw_RS alloc_cap _ _ _ i _ (SLit w) (lenN w) I C eq_refl (N.le_refl _))) as F. foldgetv F.
    rewrite read_lit, <- nth_absv in F. fin_done F.
  - (* OApr *)
    destruct C as [Hi Hj]. destruct (slen (getv st j) <? off + n) eqn:Esk; cbn [fst snd spec_after].
    { split; [assumption|]. split; [discriminate|reflexivity]. }
    destruct (src_in_var st j off n I Hj ltac:(lia)) as [Sin Srd].
    pose proof (fin_RS st i _ _ _ I Hi (sb_append_raw_RS alloc_cap _ _ _ i _ _ _ I Hi eq_refl Sin)) as F. foldgetv F.
    rewrite Srd, <- nth_absv in F. fin_done F.
  - (* OAsr *)
    destruct C as [Hi Hj]. destruct (slen (getv st j) <? off + n) eqn:Esk; cbn [fst snd spec_after].
    { split; [assumption|]. split; [discriminate|reflexivity]. }
    destruct (src_in_var st j off n I Hj ltac:(lia)) as [Sin Srd].
    pose proof (fin_RS st i _ _ _ I Hi (sb_assign_raw_RS alloc_cap _ _ _ i _ _ _ I Hi eq_refl Sin)) as F. foldgetv F.
    rewrite Srd in F. fin_done F.
  - (* OPsh *)
    pose proof (fin_RS st i _ _ _ I C (lowAppend_RS alloc_cap _ _ _ i _ (SLit [c]) 1 I C eq_refl ltac:(cbn; lia))) as F. foldgetv F.
    cbn [read_src takeN N.eqb] in F. rewrite <- nth_absv in F. fin_done F.
  - (* OCon *)
    destruct C as [Hd Hi]. rename i into src. set (s := getv st src).
    set (k := if n =? npos then slen s else N.min n (slen s)).
    destruct (wf_getv st src I Hi) as [W1 W2]. fold s in W1, W2.
    pose proof (var_len_bound _ _ _ src I Hi) as Lb. change (nth src (vars st) sb0) with s in Lb.
    pose proof (wf_content_len _ _ (wf_getv st src I Hi)) as Lc. fold s in Lc.
    assert (Ek : (if n =? npos then lenN (nth src (absv st) []) else N.min n (lenN (nth src (absv st) []))) = k).
    { rewrite nth_absv. fold s. rewrite Lc. reflexivity. }
    unfold sb_substr. set (h1 := lock (hp st) (sstore s)).
    pose proof (Inv_lock _ _ _ (sstore s) I W1) as I1. fold h1 in I1.
    assert (B1 : 2 <= blocks (getb h1 (sstore s))).
    { unfold h1. rewrite getb_lock, Nat.eqb_refl by assumption. cbn [blocks].
      pose proof (inv_cnt _ _ _ I _ W1) as Cn. pose proof (refs_ge1 (vars st) src (sstore s) Hi) as G.
      change (nth src (vars st) sb0) with s in G. rewrite dl_eq in G by reflexivity. lia. }
    assert (Bs : bsize (getb h1 (sstore s)) = bsize (getb (hp st) (sstore s))).
    { unfold bsize, h1. rewrite bdata_lock by assumption. reflexivity. }
    destruct (chop_shared alloc_cap h1 s 0 k B1 Lb ltac:(lia)) as (X1 & X2 & X3 & X4).
    destruct (sb_chop h1 s 0 k) as [h1' rv]. cbn [fst snd] in X1, X2, X3, X4. subst h1'.
    destruct (chop_shared alloc_cap h1 s k npos B1 Lb ltac:(lia)) as (Y1 & Y2 & Y3 & Y4).
    destruct (sb_chop h1 s k npos) as [h2 s']. cbn [fst snd] in Y1, Y2, Y3, Y4. subst h2.
    cbn [fst snd spec_after spec_vals]. rewrite Ek.
    assert (I2 : Inv h1 (upd (vars st) src s') (exadd ex0 (sstore s))).
    { apply Inv_upd_fields; auto. rewrite Y2. assumption. }
    assert (Wrv : wf h1 rv).
    { split; [rewrite X2; unfold h1; rewrite length_lock; assumption|rewrite X2; assumption]. }
    rewrite <- X2 in I2.
    destruct (move_into_spec h1 (upd (vars st) src s') ex0 d rv I2 ltac:(rewrite length_upd; assumption) Wrv) as [M1 M2].
    unfold move_into in M1, M2 |- *. cbn [hp vars] in M1, M2 |- *.
    split; [exact M1|]. split; [discriminate|].
    rewrite length_upd in M2. unfold absv; cbn [hp vars].
    etransitivity; [apply absv_same; intros j Hj; rewrite ?length_upd in Hj; exact (M2 j Hj)|].
    assert (Cl : forall x, content h1 x = content (hp st) x) by (intros x; apply content_lock; assumption).
    rewrite (absv_upd (hp st) h1 (upd (vars st) src s') d rv (takeN k (nth src (absv st) []))).
    + f_equal. apply (absv_upd (hp st) (hp st) (vars st) src s'); [assumption|intros j _ _; reflexivity|].
      rewrite <- Cl, Y4, Cl. rewrite ?nth_absv, ?nth_map_content. change (nth src (vars st) sb0) with s. fold s.
      rewrite takeN_all by (rewrite lenN_dropN, Lc; unfold npos, gen_npos, two32 in *; lia). reflexivity.
    + rewrite length_upd. assumption.
    + intros j _ _. apply Cl.
    + rewrite X4, Cl, dropN_0, ?nth_absv, ?nth_map_content. reflexivity.
  - (* OChp *)
    pose proof (var_len_bound _ _ _ i I C) as Lb. change (nth i (vars st) sb0) with (getv st i) in Lb.
    rewrite (sb_chop_fields _ _ _ _ Lb).
    set (s := getv st i) in *. set (p' := N.min pos (slen s)). set (n' := N.min n (slen s - p')).
    destruct (wf_getv st i I C) as [W1 W2]. fold s in W1, W2.
    assert (Cl : takeN n (dropN pos (nth i (absv st) [])) = window (soff s + p') n' (bdata (getb (hp st) (sstore s)))).
    { rewrite nth_absv. fold s. rewrite content_window. symmetry. apply window_clip. exact W2. }
    cbn [spec_after spec_vals]. 
    destruct ((p' =? slen s) || (n' =? 0)) eqn:E.
    + destruct (sb_clear (hp st) s) as [h1 s1] eqn:Ec. cbn [fst snd spec_after spec_vals]. rewrite Cl.
      destruct (sb_clear_spec (hp st) (vars st) ex0 i s h1 s1 I C eq_refl Ec) as (K1 & K2 & K3 & _).
      split; [exact K1|]. split; [discriminate|].
      assert (Z : n' = 0) by (unfold n' in *; lia). rewrite Z, window_zero.
      unfold absv; cbn [hp vars]. apply absv_upd; assumption.
    + cbn [fst snd spec_after spec_vals]. rewrite Cl. unfold SInv; cbn [hp vars].
      assert (Hb : soff s + p' + n' <= bsize (getb (hp st) (sstore s))) by (unfold n', p' in *; lia).
      split; [apply Inv_upd_fields; cbn [sstore soff slen]; auto|]. split; [discriminate|].
      unfold absv; cbn [hp vars]. apply absv_upd; [assumption|intros j _ _; reflexivity|].
      rewrite content_window. reflexivity.
  - (* OSub *)
    destruct C as [Hd Hi]. rename i into src. set (s := getv st src).
    destruct (wf_getv st src I Hi) as [W1 W2]. fold s in W1, W2.
    pose proof (var_len_bound _ _ _ src I Hi) as Lb. change (nth src (vars st) sb0) with s in Lb.
    unfold sb_substr. set (h1 := lock (hp st) (sstore s)).
    pose proof (Inv_lock _ _ _ (sstore s) I W1) as I1. fold h1 in I1.
    assert (B1 : 2 <= blocks (getb h1 (sstore s))).
    { unfold h1. rewrite getb_lock, Nat.eqb_refl by assumption. cbn [blocks].
      pose proof (inv_cnt _ _ _ I _ W1) as Cn. pose proof (refs_ge1 (vars st) src (sstore s) Hi) as G.
      change (nth src (vars st) sb0) with s in G. rewrite dl_eq in G by reflexivity. lia. }
    assert (Bs : bsize (getb h1 (sstore s)) = bsize (getb (hp st) (sstore s))).
    { unfold bsize, h1. rewrite bdata_lock by assumption. reflexivity. }
    destruct (chop_shared alloc_cap h1 s pos n B1 Lb ltac:(lia)) as (X1 & X2 & X3 & X4).
    destruct (sb_chop h1 s pos n) as [h1' rv]. cbn [fst snd] in X1, X2, X3, X4. subst h1'.
    cbn [fst snd spec_after spec_vals].
    assert (Wrv : wf h1 rv).
    { split; [rewrite X2; unfold h1; rewrite length_lock; assumption|rewrite X2; assumption]. }
    rewrite <- X2 in I1.
    destruct (move_into_spec h1 (vars st) ex0 d rv I1 Hd Wrv) as [M1 M2].
    unfold move_into in M1, M2 |- *. cbn [hp vars] in M1, M2 |- *.
    split; [exact M1|]. split; [discriminate|].
    unfold absv; cbn [hp vars].
    etransitivity; [apply absv_same; intros j Hj; rewrite ?length_upd in Hj; exact (M2 j Hj)|].
    assert (Cl : forall x, content h1 x = content (hp st) x) by (intros x; apply content_lock; assumption).
    apply (absv_upd (hp st) h1 (vars st) d rv); [assumption|intros j _ _; apply Cl|].
    rewrite X4, Cl, ?nth_absv, ?nth_map_content. reflexivity.
  - (* OTrm *)
    destruct C as [Hi Hj]. set (s := getv st i). set (R := content (hp st) (getv st j)).
    destruct (wf_getv st i I Hi) as [W1 W2]. fold s in W1, W2.
    unfold sb_trim. fold s.
    assert (Ha : Nat.eqb i j = true -> R = content (hp st) s).
    { intros E. apply Nat.eqb_eq in E. subst j. reflexivity. }
    destruct (trim_model_spec (Nat.eqb i j) R (content (hp st) s) atBeginning atEnd Ha) as [T1 (y & x & T2 & T3)].
    cbn zeta in T1, T3.
    set (c1 := if atEnd then rev (trim_end_loop (Nat.eqb i j) R (rev (content (hp st) s))) else content (hp st) s) in *.
    set (c2 := if atBeginning then trim_begin_loop (Nat.eqb i j) R c1 else c1) in *.
    set (s2 := mkSBuf (sstore s) (soff s + (lenN c1 - lenN c2)) (lenN c2)).
    pose proof (wf_content_len _ _ (wf_getv st i I Hi)) as Lc. fold s in Lc.
    assert (Lx : lenN y + lenN c2 + lenN x = slen s) by (rewrite <- Lc, T2, !lenN_app; lia).
    assert (Cw : window (soff s2) (slen s2) (bdata (getb (hp st) (sstore s))) = c2).
    { cbn [soff slen s2]. rewrite <- T3.
      rewrite <- (window_window (soff s) (slen s) (lenN y) (lenN c2)) by lia.
      rewrite <- content_window, T2. unfold window. rewrite dropN_app_len, takeN_app_len. reflexivity. }
    assert (Sv : spec_vals (absv st) (OTrm i j atBeginning atEnd) = upd (absv st) i c2).
    { cbn [spec_vals]. rewrite !nth_absv. fold s R. rewrite <- T1. reflexivity. }
    destruct (slen s2 =? 0) eqn:E0.
    + destruct (sb_clear (hp st) s2) as [h1 s1] eqn:Ec. cbn [fst snd spec_after]. rewrite Sv.
      assert (I2 : Inv (hp st) (upd (vars st) i s2) ex0).
      { apply Inv_upd_fields; cbn [sstore soff slen s2]; auto. lia. }
      assert (Hi2 : (i < length (upd (vars st) i s2))%nat) by (rewrite length_upd; assumption).
      assert (N2 : nth i (upd (vars st) i s2) sb0 = s2) by (rewrite nth_upd, Nat.eqb_refl by assumption; reflexivity).
      destruct (sb_clear_spec (hp st) _ ex0 i s2 h1 s1 I2 Hi2 N2 Ec) as (K1 & K2 & K3 & _).
      rewrite upd_upd in K1. split; [exact K1|]. split; [discriminate|].
      assert (Z : c2 = []) by (apply lenN_nil; cbn [slen s2] in E0; lia). rewrite Z.
      unfold absv; cbn [hp vars]. apply absv_upd; [assumption| |assumption].
      intros k Hk Hn. specialize (K3 k). rewrite length_upd, nth_upd in K3 by assumption.
      destruct (Nat.eqb_spec k i); [contradiction|]. apply K3; assumption.
    + cbn [fst snd spec_after]. rewrite Sv. unfold SInv; cbn [hp vars].
      split; [apply Inv_upd_fields; cbn [sstore soff slen s2]; auto; lia|]. split; [discriminate|].
      unfold absv; cbn [hp vars]. apply absv_upd; [assumption|intros k _ _; reflexivity|].
      rewrite content_window. exact Cw.
  - (* OSat *)
    destruct (sb_setAt_RS alloc_cap _ _ _ i _ pos c I C eq_refl) as [R _].
    pose proof (fin_RS st i _ _ _ I C R) as F. foldgetv F. rewrite <- nth_absv in F. fin_done F.
  - (* OClr *)
    destruct (sb_clear (hp st) (getv st i)) as [h1 s1] eqn:Ec. cbn [fst snd spec_after spec_vals].
    destruct (sb_clear_spec (hp st) (vars st) ex0 i _ h1 s1 I C eq_refl Ec) as (K1 & K2 & K3 & _).
    split; [exact K1|]. split; [discriminate|]. unfold absv; cbn [hp vars]. apply absv_upd; assumption.
  - (* ORsv *)
    assert (R : RS (hp st) (vars st) ex0 i (content (hp st) (getv st i)) (content (hp st) (getv st i))
                   (sb_reserveSpace alloc_cap (hp st) (getv st i) n)).
    { unfold sb_reserveSpace, sb_reserveCapacity.
      destruct (maxSize <? n); [exact (RS_refl _ _ _ i false I)|].
      destruct (sub32 maxSize n <? _); [exact (RS_refl _ _ _ i false I)|].
      destruct (maxSize <? _); [exact (RS_refl _ _ _ i false I)|]. apply cow_RS; assumption. }
    pose proof (fin_RS st i _ _ _ I C R) as F. fin_done F.
  - (* ORcp *)
    assert (R : RS (hp st) (vars st) ex0 i (content (hp st) (getv st i)) (content (hp st) (getv st i))
                   (sb_reserveCapacity alloc_cap (hp st) (getv st i) n)).
    { unfold sb_reserveCapacity.
      destruct (maxSize <? n); [exact (RS_refl _ _ _ i false I)|]. apply cow_RS; assumption. }
    pose proof (fin_RS st i _ _ _ I C R) as F. fin_done F.
  - (* ORsq *)
    assert (R : RS (hp st) (vars st) ex0 i (content (hp st) (getv st i)) (content (hp st) (getv st i))
                   (sb_reserve alloc_cap (hp st) (getv st i) ideal minSpace maxCap allowShared)).
    { unfold sb_reserve, sb_reserveCapacity.
      destruct (_ && (minSpace <=? _)); [exact (RS_refl _ _ _ i true I)|].
      destruct (_ && (maxCap <=? _)); [exact (RS_refl _ _ _ i true I)|].
      destruct (maxSize <? _); [exact (RS_refl _ _ _ i false I)|]. apply cow_RS; assumption. }
    destruct (sb_reserve alloc_cap (hp st) (getv st i) ideal minSpace maxCap allowShared) as [[h1 s1]|[h1 s1]|];
      cbn [RS fst snd] in R; [| |contradiction]; destruct R as (R1 & R2 & R3 & _); cbn [fst snd spec_after spec_vals spec_throw].
    + split; [exact R1|]. split; [discriminate|]. unfold absv; cbn [hp vars].
      rewrite (absv_upd _ _ _ _ _ _ C R2 R3). apply upd_absv_same.
    + split; [exact R1|]. split; [discriminate|]. unfold absv; cbn [hp vars].
      rewrite (absv_upd _ _ _ _ _ _ C R2 R3). apply upd_absv_same.
  - (* ORaw *)
    destruct C as [Hi Hw]. pose proof (sb_rawAppend_spec (hp st) (vars st) ex0 i n w I Hi Hw) as R.
    change (nth i (vars st) sb0) with (getv st i) in R.
    destruct (sb_rawAppend alloc_cap (hp st) (getv st i) n w) as [h1 s1|h1 s1|h1 s1|]; [| | |contradiction];
      destruct R as (R1 & R2 & R3); cbn [fst snd spec_after spec_vals spec_throw].
    + split; [exact R1|]. split; [discriminate|]. unfold absv; cbn [hp vars].
      rewrite (absv_upd _ _ _ _ _ _ Hi R2 R3). rewrite ?nth_absv, ?nth_map_content. reflexivity.
    + split; [exact R1|]. split; [discriminate|]. unfold absv; cbn [hp vars].
      rewrite (absv_upd _ _ _ _ _ _ Hi R2 R3). apply upd_absv_same.
    + split; [exact R1|]. split; [discriminate|]. unfold absv; cbn [hp vars].
      rewrite (absv_upd _ _ _ _ _ _ Hi R2 R3). apply upd_absv_same.
  - (* OQuery *)
    cbn [fst snd]. split; [exact I|]. split.
    + destruct q; cbn [run_query]; try discriminate.
      destruct (pos <? slen (getv st i)) eqn:E; [|discriminate].
      pose proof (wf_content_len _ _ (wf_getv st i I C)) as L.
      destruct (nthN pos (content (hp st) (getv st i))) eqn:En; [discriminate|].
      exfalso. revert L En. generalize (content (hp st) (getv st i)). intros l.
      assert (G : forall (l : bytes) p, p < lenN l -> nthN p l <> None).
      { induction l0 as [|x l0 IH]; intros p Hp; cbn [lenN nthN] in *; [lia|].
        destruct (p =? 0) eqn:E0; [discriminate|]. apply IH. lia. }
      intros L En. apply (G l pos); [lia|assumption].
    + destruct (run_query st i q); reflexivity.
Qed.
End StepProofs2.

(* ------------------------------------------------------------------ *)
(* operation sequences                                                 *)
(* ------------------------------------------------------------------ *)
Section Runs.
Variable alloc_cap : N -> N.

Fixpoint run (st : state) (ops : list op) : state * list out :=
  match ops with
  | [] => (st, [])
  | o :: r => let '(st1, x) := step alloc_cap st o in let '(st2, xs) := run st1 r in (st2, x :: xs)
  end.
Fixpoint covered_run (st : state) (ops : list op) : Prop :=
  match ops with
  | [] => True
  | o :: r => covered st o /\ covered_run (fst (step alloc_cap st o)) r
  end.
(* the same sequence on independent values, given which operations threw / were skipped *)
Fixpoint spec_run (vals : list bytes) (ops : list op) (outs : list out) : list bytes :=
  match ops, outs with
  | o :: r, x :: xs => spec_run (spec_after vals o x) r xs
  | _, _ => vals
  end.

Theorem run_refines ops : forall st, SInv st -> covered_run st ops ->
  SInv (fst (run st ops)) /\ Forall (fun x => x <> RUndef) (snd (run st ops)) /\
  absv (fst (run st ops)) = spec_run (absv st) ops (snd (run st ops)).
Proof.
  induction ops as [|o r IH]; intros st I C; cbn [run covered_run spec_run] in *.
  - cbn [fst snd]. auto.
  - destruct C as [C1 C2]. destruct (step_refines alloc_cap st o I C1) as (S1 & S2 & S3).
    destruct (step alloc_cap st o) as [st1 x]. cbn [fst snd] in *.
    destruct (IH st1 S1 C2) as (R1 & R2 & R3). destruct (run st1 r) as [st2 xs]. cbn [fst snd] in *.
    split; [assumption|]. split; [constructor; assumption|]. rewrite R3, S3. reflexivity.
Qed.

Lemma refs_repeat n id : refs (repeat sb0 n) id = dl 0 id * N.of_nat n.
Proof. induction n as [|n IH]; cbn [repeat refs sstore sb0]; [lia|]. rewrite IH. lia. Qed.

Theorem init_inv nv : SInv (init_state alloc_cap nv).
Proof.
  unfold SInv, init_state; cbn [hp vars]. constructor.
  - intros id H. cbn [length] in H. assert (id = 0%nat) as -> by lia. cbn [getb nth blocks].
    rewrite refs_repeat. unfold ex0. rewrite !dl_eq by reflexivity. lia.
  - intros id H. cbn [length] in H. unfold ex0. apply dl_neq. lia.
  - intros j Hj. rewrite nth_repeat. split; cbn [sstore soff slen sb0 length]; [lia|]. lia.
  - intros id H. cbn [length] in H. assert (id = 0%nat) as -> by lia. unfold bsize; cbn [getb nth bdata bcap lenN]. lia.
  - intros id H. cbn [length] in H. assert (id = 0%nat) as -> by lia. cbn [getb nth bcap]. apply N.mod_lt. unfold two32; lia.
Qed.

Theorem init_absv nv : absv (init_state alloc_cap nv) = repeat [] nv.
Proof.
  unfold absv, init_state; cbn [hp vars]. generalize (1 + N.of_nat nv). intros b.
  induction nv as [|n IH]; cbn [repeat map]; [reflexivity|]. rewrite IH, content_sb0. reflexivity.
Qed.
End Runs.

Definition hello : bytes := [104; 101; 108; 108; 111; 32; 119; 111; 114; 108; 100].

(* the <cctype> maps used by toLower()/toUpper() and by memcasecmp() are the ASCII ones on every byte value *)
Definition case_tables_check (c : N) : bool :=
  ((if c_isupper c then to_char (c_tolower c) else c) =? lower_byte c) &&
  ((if c_islower c then to_char (c_toupper c) else c) =? upper_byte c) &&
  (c_tolower_u c =? Z.of_N (lower_byte c))%Z.
Theorem case_tables_ascii : forall c, c < 256 ->
  (if c_isupper c then to_char (c_tolower c) else c) = lower_byte c /\
  (if c_islower c then to_char (c_toupper c) else c) = upper_byte c /\
  c_tolower_u c = Z.of_N (lower_byte c).
Proof.
  intros c Hc. pose proof (forallb_bytes case_tables_check ltac:(vm_compute; reflexivity) c Hc) as H.
  unfold case_tables_check in H. apply andb_prop in H. destruct H as [H H3]. apply andb_prop in H. destruct H as [H1 H2].
  apply N.eqb_eq in H1, H2. apply Z.eqb_eq in H3. auto.
Qed.

(* case-insensitive comparison = byte-wise comparison of the lower-cased values (bytes < 256) *)
Theorem casecmp_is_cmp_of_lowercased : forall a b,
  Forall (fun c => c < 256) a -> Forall (fun c => c < 256) b ->
  cmp_with c_tolower_u a b = cmp_with Z.of_N (map lower_byte a) (map lower_byte b).
Proof.
  induction a as [|x a IH]; intros b Ha Hb; [reflexivity|]. destruct b as [|y b]; [reflexivity|].
  inversion Ha; inversion Hb; subst. cbn [cmp_with map].
  destruct (case_tables_ascii x ltac:(assumption)) as (_ & _ & ->).
  destruct (case_tables_ascii y ltac:(assumption)) as (_ & _ & ->).
  rewrite IH by assumption. reflexivity.
Qed.
