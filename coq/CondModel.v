(* CondModel.v — conditional requests (C14). Executable definitions only.
   Transcribed from
     src/ETag.cc                 etagParseInit, etagIsStrongEqual, etagIsWeakEqual
     src/store.cc                StoreEntry::hasOneOfEtags / hasIfMatchEtag / hasIfNoneMatchEtag / modifiedSince,
                                 StoreEntry::lastModified() (Store.h), StoreEntry::updateOnNotModified
     src/client_side_reply.cc    clientReplyContext::processConditional, sendNotModifiedOrPreconditionFailedError,
                                 handleIMSReply (origin 304 / 200 branches)
     src/HttpHeader.cc           HttpHeader::update, needUpdate, skipUpdateHeader, hasNamed/getByName, getList, getETag
     src/HttpReply.cc            HttpReply::recreateOnNotModified
   The list reader (strListGetItem / strListIsMember / strListAdd) is the model of src/StrList.cc in HopModel.v;
   header ids and the `list` attribute come from the regenerated registered-header table.
   Not modelled: Time::ParseRfc1123 (a Section variable `parse_date`, any function bytes -> Z; the theorems hold for
   every such function; the runner supplies the values for the date strings of a scenario), HttpHdrRange parsing
   (flags.isRanged is a bool input), the entry's `timestamp` (Z input). *)
Require Import SquidV.Bytes SquidV.HopModel.
Require Import SquidV.gen.HdrTable_gen.
Local Open Scope N_scope.

(* ---------- src/ETag.cc ---------- *)
Record etag := { et_weak : bool; et_str : bytes }.   (* et_str = the quoted-string, quotes included *)

(* len >= 2 && str[0] == '"' && str[len-1] == '"' *)
Definition is_quoted (t : bytes) : bool :=
  match t with
  | c :: r => (c =? 34) && match rev r with d :: _ => d =? 34 | [] => false end
  | [] => false
  end.

(* etagParseInit on a C string: weak = !strncmp(str, "W/", 2); if weak, str += 2; quoted-string check *)
Definition etag_parse (s0 : bytes) : option etag :=
  let s := c_str s0 in
  let w := starts_with s [87; 47] in
  let t := if w then dropN 2 s else s in
  if is_quoted t then Some {| et_weak := w; et_str := t |} else None.

(* etagStringsMatch: !strcmp *)
Definition etag_strings_match (a b : etag) : bool := list_eqb (et_str a) (et_str b).
Definition etag_strong_eq (a b : etag) : bool := negb (et_weak a) && negb (et_weak b) && etag_strings_match a b.
Definition etag_weak_eq (a b : etag) : bool := etag_strings_match a b.

(* ---------- header access ---------- *)
Definition ID_IF_MATCH := id_of [73;102;45;77;97;116;99;104]%nat.
Definition ID_ETAG := id_of [69;84;97;103]%nat.
Definition ID_VARY := id_of [86;97;114;121]%nat.
Definition ID_LAST_MODIFIED := id_of [76;97;115;116;45;77;111;100;105;102;105;101;100]%nat.
Definition ID_DATE := id_of [68;97;116;101]%nat.

Definition vals (id : N) (hs : list hdr) : list bytes := map h_value (filter (fun h => hdr_id h =? id) hs).
Definition has_id (id : N) (hs : list hdr) : bool := existsb (fun h => hdr_id h =? id) hs.   (* CBIT_TEST(mask, id) *)
(* HttpHeader::getList(id): strListAdd of every value, in order *)
Definition get_list (id : N) (hs : list hdr) : bytes := str_list_add_all [] (vals id hs).
(* HttpHeader::findEntry(id): first entry with that id *)
Definition find_entry (id : N) (hs : list hdr) : option bytes :=
  match vals id hs with [] => None | v :: _ => Some v end.
(* HttpHeader::getETag(ETAG): {nullptr,-1} unless an ETag entry exists and parses *)
Definition get_etag (hs : list hdr) : option etag :=
  match find_entry ID_ETAG hs with None => None | Some v => etag_parse v end.

(* ---------- StoreEntry::hasOneOfEtags ---------- *)
Definition asterisk : bytes := [42].
Definition item_matches (allow_weak : bool) (rep : etag) (item : bytes) : bool :=
  if list_eqb item asterisk then true                     (* !strncmp(item, "*", ilen), ilen >= 1 *)
  else match etag_parse item with
       | Some q => if allow_weak then etag_weak_eq rep q else etag_strong_eq rep q
       | None => false
       end.
Definition has_one_of_etags (rep : option etag) (req_etags : bytes) (allow_weak : bool) : bool :=
  match rep with
  | None => is_member req_etags asterisk                  (* strListIsMember(&reqETags, "*", ',') *)
  | Some r => existsb (item_matches allow_weak r) (list_items 44 req_etags)   (* while (!matched && strListGetItem) *)
  end.

(* ---------- request / entry ---------- *)
Record creq := {
  rq_get_or_head : bool;    (* method == GET || method == HEAD *)
  rq_ranged : bool;         (* flags.isRanged *)
  rq_hdrs : list hdr;       (* request header entries in order *)
}.
Record centry := {
  en_status : N;            (* mem().baseReply().sline.status() *)
  en_hdrs : list hdr;       (* freshestReply() header entries in order *)
  en_timestamp : Z;         (* timestamp *)
}.

Section WithDateParser.
(* Time::ParseRfc1123 applied to a field value; returns -1 for an unparsable date. No contract is assumed. *)
Variable parse_date : bytes -> Z.

(* HttpHeader::getTime(id): -1 unless an entry exists; then ParseRfc1123 of the first entry *)
Definition get_time (id : N) (hs : list hdr) : Z :=
  match find_entry id hs with None => (-1)%Z | Some v => parse_date v end.
(* clientInterpretRequestHeaders: request->ims = req_hdr->getTime(IF_MODIFIED_SINCE) *)
Definition rq_ims (r : creq) : Z := get_time ID_IF_MODIFIED_SINCE (rq_hdrs r).
(* timestampsSet: lastModified_ = reply->last_modified = header.getTime(LAST_MODIFIED) *)
Definition en_lastmod (e : centry) : Z := get_time ID_LAST_MODIFIED (en_hdrs e).

(* clientInterpretRequestHeaders: if (request->ims > 0) flags.ims = true *)
Definition ims_flag (r : creq) : bool := (0 <? rq_ims r)%Z.
(* HttpRequest::conditional() *)
Definition is_conditional (r : creq) : bool :=
  ims_flag r || has_id ID_IF_MATCH (rq_hdrs r) || has_id ID_IF_NONE_MATCH (rq_hdrs r).

(* StoreEntry::lastModified(): lastModified_ < 0 ? timestamp : lastModified_ *)
Definition last_modified (e : centry) : Z := if (en_lastmod e <? 0)%Z then en_timestamp e else en_lastmod e.
(* StoreEntry::modifiedSince *)
Definition modified_since (e : centry) (ims : Z) : bool :=
  let mod_time := last_modified e in
  if (mod_time <? 0)%Z then true
  else if (ims <? mod_time)%Z then true
  else if (mod_time <? ims)%Z then false
  else false.

Definition has_if_match_etag (e : centry) (r : creq) : bool :=
  has_one_of_etags (get_etag (en_hdrs e)) (get_list ID_IF_MATCH (rq_hdrs r)) false.
Definition allow_weak_match (r : creq) : bool := negb (rq_ranged r) && rq_get_or_head r.
Definition has_if_none_match_etag (e : centry) (r : creq) : bool :=
  has_one_of_etags (get_etag (en_hdrs e)) (get_list ID_IF_NONE_MATCH (rq_hdrs r)) (allow_weak_match r).

(* ---------- clientReplyContext::processConditional (called from cacheHit when r->conditional()) ---------- *)
Inductive cverdict :=
  | VMiss      (* processMiss(): forwarded, full response from the origin *)
  | V412       (* sendPreconditionFailedError *)
  | V304       (* sendNotModified *)
  | VHit.      (* return false: plain hit, full (or range) response from the cache *)

Definition process_conditional (r : creq) (e : centry) : cverdict :=
  if negb (en_status e =? 200) then VMiss
  else if has_id ID_IF_MATCH (rq_hdrs r) && negb (has_if_match_etag e r) then V412
  else if has_id ID_IF_NONE_MATCH (rq_hdrs r) then
    (* r.flags.ims = false; r.ims = -1; ... If-Modified-Since is ignored from here on *)
    if has_if_none_match_etag e r then
      (if rq_get_or_head r then V304 else V412)           (* sendNotModifiedOrPreconditionFailedError *)
    else VHit
  else if ims_flag r then
    if modified_since e (rq_ims r) then VHit else V304
  else VHit.

(* the fresh-hit path of cacheHit for a 200/non-200 entry *)
Definition hit_verdict (r : creq) (e : centry) : cverdict :=
  if is_conditional r then process_conditional r e else VHit.

End WithDateParser.

(* ---------- 304 revalidation: HttpHeader::update and friends ---------- *)
Definition skip_update_header (id : N) : bool := id =? ID_VARY.

Fixpoint lookup_list (tbl : list (N * list N * (bool * bool * bool * bool * bool))) (id : N) : bool :=
  match tbl with
  | [] => false
  | (i, _, (l, _, _, _, _)) :: r => if i =? id then l else lookup_list r id
  end.
Definition is_list_hdr (id : N) : bool := lookup_list hdr_table id.

(* would HttpHeader::update's first loop, processing fresh entry e, delete stored entry h?
   e->id != OTHER: delById(e->id)   else: delByName(e->name) (caseCmp) *)
Definition deleted_by (e h : hdr) : bool :=
  if negb (hdr_id e =? hdr_OTHER) then hdr_id h =? hdr_id e else ci_eqb (h_name h) (h_name e).

(* the skipEntry lambda of HttpHeader::update (repaired code, /repo 5d5369d): a fresh entry is neither used to delete
   nor added when skipUpdateHeader(id), or the registered-header table marks its id hop-by-hop, or the fresh
   message's own Connection field(s) (fresh->getList(CONNECTION)) nominate its name (strListIsMember, caseless).
   needUpdate() below still uses skipUpdateHeader only. *)
Definition skip_entry (fresh : list hdr) (e : hdr) : bool :=
  skip_update_header (hdr_id e) || is_hopbyhop (hdr_id e) || is_member (conn_value fresh) (h_name e).

(* first loop: sequential deletions (sk = the skipEntry predicate, fixed for the whole fresh message) *)
Fixpoint update_delete_sk (sk : hdr -> bool) (fresh : list hdr) (cur : list hdr) : list hdr :=
  match fresh with
  | [] => cur
  | e :: r =>
      if sk e then update_delete_sk sk r cur
      else update_delete_sk sk r (filter (fun h => negb (deleted_by e h)) cur)
  end.
Definition update_delete (fresh : list hdr) (cur : list hdr) : list hdr := update_delete_sk (skip_entry fresh) fresh cur.
(* second loop: addEntry(e->clone()) for every non-skipped fresh entry, in order *)
Definition update_added (fresh : list hdr) : list hdr := filter (fun e => negb (skip_entry fresh e)) fresh.
(* HttpHeader::update followed by compact() *)
Definition hdr_update (old fresh : list hdr) : list hdr := update_delete fresh old ++ update_added fresh.

(* HttpHeader::hasNamed(name, &result): Some joined-value when found *)
Definition get_named (hs : list hdr) (name : bytes) : option bytes :=
  let id := lookup_id hdr_table name in
  if negb (id =? hdr_OTHER) && has_id id hs then
    Some (if is_list_hdr id then get_list id hs
          else match find_entry id hs with Some v => v | None => [] end)
  else
    match filter (fun h => (hdr_id h =? hdr_OTHER) && ci_eqb (h_name h) name) hs with
    | [] => None
    | l => Some (str_list_add_all [] (map h_value l))
    end.
Definition get_by_name (hs : list hdr) (name : bytes) : bytes :=
  match get_named hs name with Some v => v | None => [] end.

(* HttpHeader::needUpdate *)
Definition need_update (old fresh : list hdr) : bool :=
  existsb (fun e =>
    negb (skip_update_header (hdr_id e)) &&
    match get_named old (h_name e) with
    | None => true
    | Some v => negb (list_eqb v (get_by_name fresh (h_name e)))
    end) fresh.

(* HttpReply::recreateOnNotModified + MemObject::updateReply: the stored header after an origin 304 *)
Definition update_on_not_modified (old fresh : list hdr) : list hdr :=
  if need_update old fresh then hdr_update old fresh else old.

(* a stored object: header entries and body; a 304 revalidation touches only the former *)
Record cobject := { ob_hdrs : list hdr; ob_body : bytes }.
Definition revalidated_304 (o : cobject) (fresh304 : list hdr) : cobject :=
  {| ob_hdrs := update_on_not_modified (ob_hdrs o) fresh304; ob_body := ob_body o |}.

(* ---------- clientReplyContext::handleIMSReply: the origin answered our revalidation request ---------- *)
Inductive reval_reply :=
  | RForward304   (* sendClientUpstreamResponse of the origin's 304 *)
  | ROld          (* sendClientOldEntry: the (possibly updated) cached response *)
  | RNew.         (* sendClientUpstreamResponse of the origin's new response, which replaces the cached one *)

Section Revalidation.
Variable parse_date : bytes -> Z.
(* HttpReply::olderThan: !them->date || !date => false; else date < them->date  (date = header.getTime(DATE)) *)
Definition older_than (mine theirs : list hdr) : bool :=
  let d := get_time parse_date ID_DATE mine in
  let t := get_time parse_date ID_DATE theirs in
  if (t =? 0)%Z || (d =? 0)%Z then false else (d <? t)%Z.
(* r: the client's request; old: the stale entry; status/fresh: the origin's reply; ts_after: the entry's timestamp
   after timestampsSet(); fail_on_err: flags.failOnValidationError.
   Returns what the client gets and the header the cache holds for the URL afterwards. *)
Definition handle_ims_reply (r : creq) (old : centry) (status : N) (fresh : list hdr) (ts_after : Z)
           (fail_on_err : bool) : reval_reply * list hdr :=
  if status =? 304 then
    let merged := update_on_not_modified (en_hdrs old) fresh in
    let e_after := {| en_status := en_status old; en_hdrs := merged; en_timestamp := ts_after |} in
    if ims_flag parse_date r && negb (modified_since parse_date e_after (rq_ims parse_date r))
    then (RForward304, merged) else (ROld, merged)
  else if (0 <? status) && (status <? 500) then
    if older_than fresh (en_hdrs old) then (ROld, en_hdrs old) else (RNew, fresh)
  else if fail_on_err then (RNew, en_hdrs old) else (ROld, en_hdrs old).
End Revalidation.

(* tracked header fields (by name, caseless) of a stored header, in order *)
Definition tracked (names : list bytes) (hs : list hdr) : list hdr :=
  filter (fun h => existsb (fun n => ci_eqb (h_name h) n) names) hs.
