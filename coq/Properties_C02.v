(* Properties_C02.v — C02: request bodies reach the origin byte-exactly with valid framing.
   Statements only; proofs live in RelayProofs.v. Model: RelayModel.v (request direction).
   Reading guide: rq_run cap up clen evs = state of the request-body path after the event sequence evs, for a body
   pipe of capacity cap, upstream framing `up` (UpLen n = Content-Length passthrough, UpChunked = re-chunking) and a
   client body announced with Content-Length n (clen = Some n) or chunked (clen = None). Events: QSeg b (the client
   connection delivers b), QSpace (pipe space notification), QAbort (client gone), QNote (end notification reaches
   the server side), QGet (the server side may write). The event sequence is ARBITRARY: every interleaving.
   fed_of evs = all bytes the client delivered; produced q = bytes ever put into the pipe = q_pieces (written
   upstream, one piece per BodyPipe::getMoreData) ++ q_buf (still buffered); up_stream = the body bytes on the
   server connection. *)
Require Import SquidV.Bytes SquidV.RelayModel SquidV.RelayProofs.
Require Import SquidV.gen.Relay_gen.
Local Open Scope N_scope.

(* BodyPipe is a FIFO for every interleaving and every capacity: bytes out ++ bytes buffered = bytes in, the
   counters theGetSize / thePutSize are the lengths, and no empty write is issued *)
Theorem C02_bodypipe_fifo : forall cap up clen evs,
  let q := rq_run cap up clen evs in
  lenN (concat (q_pieces q)) = q_get q /\ lenN (produced q) = q_put q /\ q_get q <= q_put q /\
  Forall nonempty (q_pieces q).
Proof. exact bodypipe_fifo. Qed.
Print Assumptions C02_bodypipe_fifo.

(* bytes in are a prefix of the client's body, Content-Length case (n >= 1: no pipe exists for an empty body);
   when the server side has been told the body is whole, they are all of it *)
Theorem C02_produced_is_prefix_content_length : forall cap up n evs, 1 <= n ->
  let q := rq_run cap up (Some n) evs in
  (exists rest, takeN n (fed_of evs) = produced q ++ rest) /\
  (q_whole q = true -> produced q = takeN n (fed_of evs) /\ n <= lenN (fed_of evs)).
Proof. exact produced_prefix_len. Qed.
Print Assumptions C02_produced_is_prefix_content_length.

(* ... chunked case: a prefix of what the reference chunked reader decodes from the client's bytes, for every
   client segmentation; whole => the reference reader finds a complete message with exactly that body *)
Theorem C02_produced_is_prefix_chunked : forall cap up evs,
  let q := rq_run cap up None evs in
  (exists d o2 r, crun CSize0 (fed_of evs) = (d, produced q ++ o2, r)) /\
  (q_whole q = true -> exists r, crun CSize0 (fed_of evs) = (CDone, produced q, r)).
Proof. exact produced_prefix_chunked. Qed.
Print Assumptions C02_produced_is_prefix_chunked.

(* the upstream stream is validly framed at every moment: re-chunked, it decodes (reference reader) to exactly
   the bytes taken from the pipe and is complete iff last-chunk was written *)
Theorem C02_upstream_framing_valid : forall cap up clen evs,
  let q := rq_run cap up clen evs in
  match up with
  | UpChunked => crun CSize0 (up_stream UpChunked q) = (if q_last q then CDone else CSize0, concat (q_pieces q), [])
  | UpLen n => up_stream (UpLen n) q = concat (q_pieces q)
  end.
Proof. exact upstream_framing_valid. Qed.
Print Assumptions C02_upstream_framing_valid.

(* last-chunk only after the whole client body was received, announced and drained *)
Theorem C02_last_chunk_only_after_whole_body : forall cap up clen evs,
  let q := rq_run cap up clen evs in
  q_last q = true -> q_whole q = true /\ q_buf q = [] /\ q_prod q = false /\ q_size q = Some (q_put q) /\
                     lenN (concat (q_pieces q)) = q_put q.
Proof. exact last_chunk_only_when_whole. Qed.
Print Assumptions C02_last_chunk_only_after_whole_body.

(* complete upstream message = the client's body, exactly (re-chunked upstream, either client framing) *)
Theorem C02_upstream_complete_exact_chunked : forall cap evs clen, clen_ok clen ->
  let q := rq_run cap UpChunked clen evs in
  q_last q = true ->
  exists body, crun CSize0 (up_stream UpChunked q) = (CDone, body, []) /\
    match clen with
    | Some n => body = takeN n (fed_of evs) /\ n <= lenN (fed_of evs)
    | None => exists r, crun CSize0 (fed_of evs) = (CDone, body, r)
    end.
Proof. exact upstream_complete_exact_chunked. Qed.
Print Assumptions C02_upstream_complete_exact_chunked.

(* Content-Length passthrough: always a prefix of the client's first n bytes; the declared length is reached only
   by exactly those n bytes *)
Theorem C02_upstream_content_length_exact : forall cap n evs, 1 <= n ->
  let q := rq_run cap (UpLen n) (Some n) evs in
  (exists rest, takeN n (fed_of evs) = up_stream (UpLen n) q ++ rest) /\
  (lenN (up_stream (UpLen n) q) = n -> up_stream (UpLen n) q = takeN n (fed_of evs) /\ n <= lenN (fed_of evs)).
Proof. exact upstream_len_exact. Qed.
Print Assumptions C02_upstream_content_length_exact.

(* a client body that never completes (abort at any offset, malformed chunk framing) never completes upstream:
   no last-chunk, fewer bytes than the declared length *)
Theorem C02_upstream_abort_visible : forall cap up clen evs, clen_ok clen ->
  match clen with
  | Some n => lenN (fed_of evs) < n
  | None => cst_done (fst (fst (crun CSize0 (fed_of evs)))) = false
  end ->
  let q := rq_run cap up clen evs in
  q_whole q = false /\ q_last q = false /\
  match up with UpLen m => clen = Some m -> lenN (up_stream up q) < m | UpChunked => True end.
Proof. exact upstream_abort_visible. Qed.
Print Assumptions C02_upstream_abort_visible.

Example C02_abort_hypotheses_satisfiable :
  clen_ok (Some 5) /\ lenN (fed_of [QSeg [1; 2]; QGet; QSeg [3]; QAbort]) < 5 /\
  cst_done (fst (fst (crun CSize0 (fed_of [QSeg [51; 13; 10; 97]; QAbort])))) = false.
Proof. split; [exact (N.le_refl 1) || (cbn; lia)|]. split; [vm_compute; reflexivity|reflexivity]. Qed.

(* once the whole body is in the pipe, the end notification and two consumer turns deliver everything and (when
   re-chunking) write the last-chunk — PARTIAL liveness: that the intake reaches this point for every capacity
   under a fair schedule is shown by the end-to-end correspondence only *)
Theorem C02_end_of_body_is_flushed_partial : forall cap up clen evs,
  let q := rq_run cap up clen evs in
  q_prod q = false -> q_size q = Some (q_put q) -> q_abort q = false ->
  let q' := rq_from cap up q [QNote; QGet; QGet] in
  q_buf q' = [] /\ concat (q_pieces q') = produced q /\ q_whole q' = true /\
  match up with UpChunked => q_last q' = true | UpLen _ => True end.
Proof. exact end_of_body_is_flushed. Qed.
Print Assumptions C02_end_of_body_is_flushed_partial.

Example C02_flush_hypotheses_satisfiable :
  let q := rq_run 65536 UpChunked None [QSeg [51; 13; 10; 97; 98; 99; 13; 10; 48; 13; 10; 13; 10]] in
  q_prod q = false /\ q_size q = Some (q_put q) /\ q_abort q = false /\ produced q = [97; 98; 99].
Proof. repeat split. Qed.
