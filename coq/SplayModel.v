(* SplayModel.v — include/splay.h as a functional model (shared library:
   C41 domain ACLs, later C42 IP ACLs and C49 mem_hdr).

   A splay tree is a binary tree of values. Every C++ operation takes the
   comparison function together with the value looked for; here the two are
   passed already applied, [cmp : V -> Z] = [compare(dataToFind, .)], so the
   model does not depend on what the looked-for thing is (a host name for
   match(), a stored value for insert()/remove()).

   [splay_loop] is the top-down loop of SplayNode<V>::splay() statement by
   statement: [L] is the tree hanging under N.right (nodes appended by "link
   left", each with its left subtree), [R] the tree hanging under N.left (nodes
   appended by "link right", each with its right subtree); the second component
   of the result is the value left in the global splayLastResult. *)
Require Import SquidV.Bytes.
Local Open Scope Z_scope.

Inductive tree (V : Type) : Type :=
| Leaf : tree V
| Node : tree V -> V -> tree V -> tree V.
Arguments Leaf {V}.
Arguments Node {V} _ _ _.

Section Splay.
Context {V : Type}.

Fixpoint inorder (t : tree V) : list V :=
  match t with
  | Leaf => []
  | Node l x r => inorder l ++ x :: inorder r
  end.

Fixpoint tree_size (t : tree V) : nat :=
  match t with
  | Leaf => O
  | Node l _ r => S (tree_size l + tree_size r)
  end.

Definition root_value (t : tree V) : option V :=
  match t with Leaf => None | Node _ x _ => Some x end.

(* nodes linked so far, first linked first *)
Definition lctx := list (tree V * V).   (* (left subtree, value): "l->right = top; l = top" *)
Definition rctx := list (V * tree V).   (* (value, right subtree): "r->left = top; r = top" *)

(* the tree under N.right once "l->right = top->left" closes the right spine with [t] *)
Fixpoint buildL (L : lctx) (t : tree V) : tree V :=
  match L with
  | [] => t
  | (l, x) :: L' => Node l x (buildL L' t)
  end.

(* the tree under N.left once "r->left = top->right" closes the left spine with [t] *)
Fixpoint buildR (R : rctx) (t : tree V) : tree V :=
  match R with
  | [] => t
  | (x, r) :: R' => Node (buildR R' t) x r
  end.

(* "assemble": l->right = top->left; r->left = top->right; top->left = N.right; top->right = N.left *)
Definition assemble (L : lctx) (l : tree V) (x : V) (r : tree V) (R : rctx) : tree V :=
  Node (buildL L l) x (buildR R r).

Fixpoint splay_loop (cmp : V -> Z) (t : tree V) (L : lctx) (R : rctx) : tree V * Z :=
  match t with
  | Leaf => (Leaf, 0)                       (* never reached: splay() is a method of a node *)
  | Node l x r =>
      let s := cmp x in                     (* splayLastResult = compare(dataToFind, top->data) *)
      if s <? 0 then
        match l with
        | Leaf => (assemble L l x r R, s)   (* top->left == nullptr: break *)
        | Node ll y lr =>
            let s2 := cmp y in              (* splayLastResult = compare(dataToFind, top->left->data) *)
            if s2 <? 0 then
              (* rotate right: top = y, y->left = ll, y->right = (lr, x, r) *)
              match ll with
              | Leaf => (assemble L Leaf y (Node lr x r) R, s2)   (* top->left == nullptr: break *)
              | Node _ _ _ => splay_loop cmp ll L (R ++ [(y, Node lr x r)])   (* link right; top = top->left *)
              end
            else
              splay_loop cmp l L (R ++ [(x, r)])                  (* link right; top = top->left *)
        end
      else if s >? 0 then
        match r with
        | Leaf => (assemble L l x r R, s)   (* top->right == nullptr: break *)
        | Node rl y rr =>
            let s2 := cmp y in              (* splayLastResult = compare(dataToFind, top->right->data) *)
            if s2 >? 0 then
              (* rotate left: top = y, y->left = (l, x, rl), y->right = rr *)
              match rr with
              | Leaf => (assemble L (Node l x rl) y Leaf R, s2)   (* top->right == nullptr: break *)
              | Node _ _ _ => splay_loop cmp rr (L ++ [(Node l x rl, y)]) R   (* link left; top = top->right *)
              end
            else
              splay_loop cmp r (L ++ [(l, x)]) R                  (* link left; top = top->right *)
        end
      else (assemble L l x r R, s)          (* found: break *)
  end.

(* SplayNode<V>::splay(dataToFind, compare): new top and splayLastResult *)
Definition splay (cmp : V -> Z) (t : tree V) : tree V * Z := splay_loop cmp t [] [].

(* Splay<V>::find: new head, and the value found (if splayLastResult == 0) *)
Definition sp_find (cmp : V -> Z) (h : tree V) : tree V * option V :=
  match h with
  | Leaf => (Leaf, None)
  | Node _ _ _ =>
      let '(h', last) := splay cmp h in
      (h', if last =? 0 then root_value h' else None)
  end.

(* SplayNode<V>::insert(dataToInsert, compare) *)
Definition node_insert (cmp : V -> Z) (v : V) (t : tree V) : tree V :=
  let '(nt, last) := splay cmp t in
  match nt with
  | Leaf => Leaf                              (* never reached *)
  | Node l x r =>
      if last <? 0 then Node l v (Node Leaf x r)
      else if last >? 0 then Node (Node l x Leaf) v r
      else nt                                 (* duplicate entry *)
  end.

(* Splay<V>::insert(value, compare): Some old = "a stored value matches, nothing inserted" *)
Definition sp_insert (cmp : V -> Z) (v : V) (h : tree V) : tree V * option V :=
  match sp_find cmp h with
  | (h', Some old) => (h', Some old)
  | (h', None) =>
      (match h' with
       | Leaf => Node Leaf v Leaf
       | Node _ _ _ => node_insert cmp v h'
       end, None)
  end.

(* SplayNode<V>::remove(dataToRemove, compare). Note "newTop->right = result->right":
   whatever the re-splayed left subtree had on its right is overwritten. *)
Definition node_remove (cmp : V -> Z) (t : tree V) : tree V :=
  let '(res, last) := splay cmp t in
  if last =? 0 then
    match res with
    | Leaf => Leaf                            (* never reached *)
    | Node l x r =>
        match l with
        | Leaf => r
        | Node _ _ _ =>
            match fst (splay cmp l) with
            | Leaf => Leaf                    (* never reached *)
            | Node nl nx nr => Node nl nx r
            end
        end
    end
  else res.

(* Splay<V>::remove(value, compare): new head, and whether an element was removed (--elements) *)
Definition sp_remove (cmp : V -> Z) (h : tree V) : tree V * bool :=
  match sp_find cmp h with
  | (h', None) => (h', false)
  | (h', Some _) => (node_remove cmp h', true)
  end.

End Splay.
