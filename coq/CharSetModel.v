(* CharSetModel.v — src/base/CharacterSet.cc as functions on 256-entry
   storage (list bool), mirroring the loops of the C++ code. *)
Require Import SquidV.Bytes.
Local Open Scope N_scope.

Definition storage := list bool.

Definition empty_storage : storage := map (fun _ => false) all_bytes.

(* operator[] *)
Definition cs_mem (s : storage) (c : N) : bool := tbl_get false s c.

(* operator+= : pairwise walk over both vectors: if *s then *d = 1 *)
Fixpoint cs_plus (d s : storage) : storage :=
  match s, d with
  | sb :: s', db :: d' => (if sb then true else db) :: cs_plus d' s'
  | _, _ => d
  end.

(* operator-= : if *s then *d = 0 *)
Fixpoint cs_minus (d s : storage) : storage :=
  match s, d with
  | sb :: s', db :: d' => (if sb then false else db) :: cs_minus d' s'
  | _, _ => d
  end.

(* complement(): std::transform with logical_not *)
Definition cs_complement (s : storage) : storage := map negb s.

(* chars_[c] = v *)
Fixpoint cs_set (s : storage) (c : N) (v : bool) : storage :=
  match s with
  | [] => []
  | x :: r => if c =? 0 then v :: r else x :: cs_set r (N.pred c) v
  end.

Definition cs_add (s : storage) (c : N) : storage := cs_set s c true.
Definition cs_remove (s : storage) (c : N) : storage := cs_set s c false.

(* addRange: while (low < high) { set low; ++low } ; set high.
   fuel = 256 iterations are always enough for unsigned char arguments. *)
Fixpoint cs_addRange_loop (fuel : nat) (s : storage) (low high : N) : storage :=
  match fuel with
  | O => s
  | S k => if low <? high then cs_addRange_loop k (cs_add s low) (low + 1) high else s
  end.
Definition cs_addRange (s : storage) (low high : N) : storage :=
  cs_add (cs_addRange_loop 256 s low high) high.

(* CharacterSet(label, const char *c): add every char of the C string *)
Definition cs_of_string (cs : bytes) : storage := fold_left cs_add cs empty_storage.
