#define H_MATH_PART 9
#include "h_math_part.h"
