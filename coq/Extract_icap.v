(* Extract_icap.v — extraction of the ICAP transaction model (ExtrOcamlBasic only). *)
Require Import ExtrOcamlBasic.
Require Import SquidV.Bytes SquidV.IcapModel.
Extraction "m_icap.ml" simulate drive init run step view deliver handler pv_enabled saw_ieof.
