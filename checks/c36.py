"""C36: base64 coding round-trips and decodes Basic credentials safely."""
import base64, random, re, zlib
from vlib import std, hbuild, coq, common

PID = "C36"
META = {
    "text": "20 theorems (Properties_C36.v, all closed under the global context) about a line-by-line Gallina model of "
            "lib/base64.cc at /repo HEAD (encode_raw written back to front, encode_single/update/final, decode_single/update/final "
            "with the 16-bit word and the 8-bit bits/padding counters of the C structs), of the libnettle 3.8 decoder this build "
            "links (same code with the older padding test; selected by a flag) and of Auth::Basic::Config::decodeCleartext plus the "
            "user:password split of Auth::Basic::Config::decode. For ALL byte strings and ALL ways of cutting the input into "
            "update() calls: the encoder output is the RFC 4648 encoding (spec written from the RFC over the literal alphabet); "
            "decoding it, under any cutting and with any white space interleaved, returns the input exactly; the decoder's verdict "
            "and output do not depend on the cutting; every decode_update call from any reachable context stores at most "
            "BASE64_DECODE_LENGTH(src_length) bytes whether it accepts or rejects and never reaches the abort() arm (all of these for "
            "both decoders). Bundled copy: C36_malformed_rejected at full strength (accepted => input is, white space aside, the "
            "canonical encoding of the output). Basic: for ALL user names and passwords the whole path scheme SP base64 [LF ...] is "
            "refused when they contain NUL/CR/LF and otherwise yields (bytes before the first colon, lower-cased unless "
            "casesensitive; bytes after it). Tables (alphabet, 256-entry decode table, the four length macros, struct field sizes; "
            "bundled copy and linked libnettle) are regenerated from the code on every run and the theorems re-checked against them. "
            "The model is tied to the code by differential runs of the extracted model against (a) the bundled copy compiled from "
            "the working tree inside the harness unit (HAVE_NETTLE_BASE64_H forced to 0), (b) the libnettle functions squid links, "
            "(c) the real Auth::Basic::Config::decodeCleartext()/decode() (src/auth/basic/Config.cc #included into the harness unit, "
            "linked with every in-tree squid object except main.o) under ASan+UBSan with guard-zone write detection; all 16.7M "
            "strings of length 3 are swept on both implementations on every run.",
    "note": "Remaining known finding C36-nettle-A-triple-pad: the linked libnettle 3.8 (system library, outside /repo) accepts "
            "'A===' (one zero symbol + three '=') as an empty quantum, so `Basic A===` yields empty credentials "
            "(C36_nettle_strict_rejection_refuted, C36_nettle_accepted_language_exact, C36_nettle_malformed_rejected_partial); the "
            "same defect of the bundled copy (bb5de60) and the NUL truncation of Basic credentials (06c1c79) are fixed in /repo and "
            "their reproducers are regression cases (corpus/C36/regress.txt). White space (HT LF VT FF CR SP) inside base64 is "
            "skipped by design of the decoder and is not counted as malformed. Not modelled: the utf8=on transcoding branch of "
            "decodeCleartext (utf8 is off in the harness, the default); the user cache side effects of decode(). The nettle model is "
            "validated by correspondence only (its source is not in /repo). Trusted: Coq kernel, extraction, gen/gen_b64.cc, "
            "harness/h_b64.cc + harness/h_b64_basic.h (four no-op symbols of main.cc are supplied there).",
    "technique": "Coq proof (induction over triples/quanta, forward simulation encoder-context ~ streaming spec, inversion of "
                 "the decoder step for the accepted-language theorems, lia over div/mod; vm_compute sweeps over the regenerated "
                 "64/256-entry tables) + extracted-model differential correspondence + exhaustive implementation sweep of all "
                 "strings of length <= 3 judged by an independent Python oracle",
}

# the in-tree squid objects (everything the squid binary links except main.o and the dlopen module loader);
# src/auth/basic/Config.cc itself is compiled from the working tree inside the harness unit, lib/base64.cc too
SQUID_OBJS = (
    "AclRegs.o AuthReg.o dns_internal.o htcp.o ipc.o snmp_core.o snmp_agent.o unlinkd.o AccessLogEntry.o AsyncEngine.o "
    "BodyPipe.o CacheDigest.o CachePeer.o CachePeers.o CollapsedForwarding.o CommandLine.o ConfigOption.o ConfigParser.o "
    "CpuAffinity.o CpuAffinityMap.o CpuAffinitySet.o Downloader.o ETag.o EventLoop.o ExternalACLEntry.o FadingCounter.o "
    "FwdState.o HappyConnOpener.o HeaderMangling.o HttpBody.o HttpControlMsg.o HttpHdrCc.o HttpHdrContRange.o HttpHdrRange.o "
    "HttpHdrSc.o HttpHdrScTarget.o HttpHeader.o HttpHeaderTools.o HttpReply.o HttpRequest.o HttpUpgradeProtocolAccess.o "
    "Instance.o LogTags.o MasterXaction.o MemBuf.o MemObject.o MemStore.o Notes.o Parsing.o PeerPoolMgr.o Pipeline.o "
    "RemovalPolicy.o RequestFlags.o ResolvedPeers.o SBufStatsAction.o SquidMath.o StatCounters.o StatHist.o StoreFileSystem.o "
    "StoreIOState.o StoreStats.o StoreSwapLogData.o StrList.o String.o Transients.o XactionInitiator.o cache_cf.o "
    "cache_manager.o carp.o cbdata.o clientStream.o client_db.o client_side.o client_side_reply.o client_side_request.o "
    "dlink.o errorpage.o event.o external_acl.o fatal.o fd.o fde.o filemap.o fqdncache.o fs_io.o helper.o http.o icp_v2.o "
    "icp_v3.o int.o internal.o ipcache.o mem_node.o mime.o mime_header.o multicast.o neighbors.o pconn.o peer_digest.o "
    "peer_proxy_negotiate_auth.o peer_select.o peer_sourcehash.o peer_userhash.o redirect.o refresh.o stat.o stmem.o store.o "
    "store_client.o store_digest.o store_io.o store_key_md5.o store_log.o store_rebuild.o store_swapin.o store_swapout.o "
    "tools.o tunnel.o urn.o wccp.o wccp2.o wordlist.o globals.o hier_code.o icp_opcode.o lookup_t.o repl_modules.o "
    "swap_log_op.o auth/libacls.la acl/libacls.la acl/libstate.la auth/libauth.la acl/libapi.la clients/libclients.la "
    "servers/libservers.la ftp/libftp.la helper/libhelper.la http/libhttp.la dns/libdns.la base/libbase.la libsquid.la "
    "fs/libfs.la DiskIO/libdiskio.la comm/libcomm.la ip/libip.la anyp/libanyp.la security/libsecurity.la error/liberror.la "
    "ipc/libipc.la mgr/libmgr.la proxyp/libproxyp.la parser/libparser.la eui/libeui.la icmp/libicmp.la log/liblog.la "
    "format/libformat.la sbuf/libsbuf.la debug/libdebug.la repl/liblru.a adaptation/libadaptation.la html/libhtml.la "
    "snmp/libsnmp.la ../lib/snmplib/libsnmplib.la mem/libmem.la store/libstore.la time/libtime.la "
    "../lib/libmisccontainers.la ../lib/libmiscencoding.la ../lib/libmiscutil.la ../compat/libcompatsquid.la").split()


def impl(sanitize="asan"):
    # the anchored sources (lib/base64.cc, include/base64.h, src/auth/basic/Config.cc) are #included into the
    # harness unit, which is recompiled from /repo's working tree whenever its preprocessed text changes
    return hbuild.build("h_b64", "h_b64.cc", fresh=[], link=SQUID_OBJS, sanitize=sanitize,
                        syslibs=hbuild.SYSLIBS + ["-lsystemd"])


def prebuild():
    impl()


# ---------------------------------------------------------------------------------------------
def hx(b):
    return bytes(b).hex() if len(b) else "-"


def unhx(h):
    return b"" if h == "-" else bytes.fromhex(h)


B64WS = b"\t\n\x0b\x0c\r "
ALPHABET = b"ABCDEFGHIJKLMNOPQRSTUVWXYZabcdefghijklmnopqrstuvwxyz0123456789+/"


def strip_ws(s):
    return bytes(c for c in s if c not in B64WS)


def canonical_decode(s):
    """RFC 4648 section 4 decoder written from the RFC (independent of model and implementation):
    returns the decoded bytes if s (no white space) is a canonical encoding, else None."""
    if len(s) % 4:
        return None
    try:
        d = base64.b64decode(s, validate=True)
    except Exception:
        return None
    return d if base64.b64encode(d) == s else None


def rand_bytes(rng, n):
    k = rng.random()
    if k < 0.5:
        return bytes(rng.randrange(256) for _ in range(n))
    if k < 0.7:
        return bytes(rng.choice([0, 255, 0x80, 0x7f, 3, 0xfc, 0x0f, 0xf0]) for _ in range(n))
    if k < 0.85:
        return bytes(rng.randrange(32, 127) for _ in range(n))
    return bytes([rng.randrange(256)]) * n


def rand_len(rng):
    return rng.choice([0, 1, 2, 3, 4, 5, 6, 7, 8, 9, 10, 11, 12, 13, 16, 17, 31, 32, 33, 47, 48, 49, 57, 63, 64, 65,
                       rng.randrange(0, 40), rng.randrange(0, 40), rng.randrange(0, 300)])


def rand_split(rng, n):
    if rng.random() < 0.35:
        return "-"
    k = rng.choice([1, 1, 2, 3, 5])
    return ",".join(str(rng.choice([0, 1, 2, 3, 4, 5, 7, rng.randrange(0, n + 2)])) for _ in range(k))


def mutate_b64(rng, e):
    """bad characters / bad padding / truncation / white space"""
    e = bytearray(e)
    for _ in range(rng.choice([1, 1, 1, 2, 3])):
        k = rng.random()
        pos = rng.randrange(len(e) + 1)
        if k < 0.18 and e:
            e[rng.randrange(len(e))] = rng.choice(b"!#$%&*()-_.,:;<>?@[]^`{|}~\x00\x7f\x80\xff\"'\\")
        elif k < 0.30 and e:
            e[rng.randrange(len(e))] = rng.randrange(256)
        elif k < 0.45:
            e[pos:pos] = b"=" * rng.choice([1, 1, 2, 3])
        elif k < 0.55 and e:
            del e[rng.randrange(len(e))]
        elif k < 0.65 and e:
            del e[rng.randrange(len(e)):]
        elif k < 0.80:
            e[pos:pos] = bytes(rng.choice(B64WS) for _ in range(rng.choice([1, 1, 2])))
        elif k < 0.90 and e:
            i = rng.randrange(len(e))
            if e[i] in ALPHABET:                      # flip low bits of a symbol: left-over bits before padding
                e[i] = ALPHABET[ALPHABET.index(e[i]) ^ rng.choice([1, 2, 3, 4, 8, 15, 32])]
        else:
            e += rng.choice([b"A", b"=", b"A=", b"A==", b"A===", b"AA=", b"AA==", b"AAA=", b"====", b"AAAA", b"Zg"])
    return bytes(e)


USERS = [b"Aladdin", b"alice", b"Bob", b"ADMIN", b"", b"a", b"user@example.com", b"DOMAIN\\User", b"j\xc3\xbcrgen", b"\xe9l\xe8ve",
         b"x" * 40, b"u s e r", b"MiXeD.Case-9"]
PASSES = [b"open sesame", b"secret", b"", b"p", b"pa:ss", b":", b"::", b"pass word ", b"\xff\xfe", b"Z" * 33, b"p%40ss", b"=", b"a=b"]


def gen_basic(rng):
    u = rng.choice(USERS) if rng.random() < 0.7 else rand_bytes(rng, rng.randrange(0, 9)).replace(b":", b"")
    p = rng.choice(PASSES) if rng.random() < 0.7 else rand_bytes(rng, rng.randrange(0, 9))
    k = rng.random()
    if k < 0.60:
        clear = u + b":" + p
    elif k < 0.68:
        clear = u                                   # no colon at all
    elif k < 0.80:                                  # control bytes inside: NUL / CR / LF
        clear = bytearray(u + b":" + p)
        for _ in range(rng.choice([1, 1, 2])):
            clear.insert(rng.randrange(len(clear) + 1), rng.choice([0, 0, 13, 10]))
        clear = bytes(clear)
    else:
        clear = rand_bytes(rng, rng.randrange(0, 12))
    enc = base64.b64encode(clear)
    m = rng.random()
    if m < 0.25:
        enc = mutate_b64(rng, enc)
    scheme = rng.choice([b"Basic", b"Basic", b"Basic", b"basic", b"BASIC", b"B", b"", b"Negotiate", b"Bas\x7fic", b"Ba\xe9"])
    sep = rng.choice([b" ", b" ", b" ", b"  ", b"\t", b" \t ", b"", b"\r\n ", b"\x0b"])
    tail = rng.choice([b"", b"", b"", b"\n", b"\r\n", b"\nXYZ", b" ", b"\n\n", b"\x00junk"])
    return "basic %d %s" % (rng.choice([0, 1]), hx(scheme + sep + enc + tail))


def gen_cases(rng, n):
    cases = []
    # --- small-scope exhaustive part: every string of length <= 1 through every entry, every string of
    #     length 2 round-tripped, every 3-byte string swept on the implementation (b64.isweep3)
    for ln in (0, 1):
        for v in range(256 ** ln):
            s = bytes([v]) if ln else b""
            cases += ["b64.enc - " + hx(s), "b64.raw " + hx(s), "b64.rt - - " + hx(s), "b64.dec - " + hx(s)]
    step = 1 if n >= 100000 else 5                   # quick: every 5th 2-byte string (+ random offset), thorough: all
    off = rng.randrange(step)
    for v in range(off, 65536, step):
        cases.append("b64.rt - - " + hx(bytes([v >> 8, v & 255])))
    for a in range(256):
        cases.append("b64.isweep3 %d" % a)
    # every 2-symbol and padded quantum shape over a small alphabet of symbols (decoder case splits)
    syms = b"AQgwBP/=+ \n!"
    for a in syms:
        for b in syms:
            cases.append("b64.dec - " + hx(bytes([a, b])))
            for c in b"AQ=g":
                for d in b"Aw=":
                    cases.append("b64.dec - " + hx(bytes([a, b, c, d])))
    for tailq in (b"A===", b"Q===", b"AA==", b"AQ==", b"AAA=", b"AAB=", b"A==", b"A=", b"====", b"A====", b"AA===", b"AAA=="):
        for pre in (b"", b"QUJD", b"QUJDREVG"):
            cases.append("b64.dec - " + hx(pre + tailq))
            cases.append("b64.dec 4,1,1 " + hx(pre + tailq))
    # --- random part
    while len(cases) < n + 1300:
        k = rng.random()
        ln = rand_len(rng)
        if rng.random() < 0.008:
            ln = rng.choice([1000, 4095, 4096, 4097, 8190, 8191, 8192])   # up to 8 KB
        s = rand_bytes(rng, ln)
        if k < 0.15:
            cases.append("b64.enc %s %s" % (rand_split(rng, ln), hx(s)))
        elif k < 0.20:
            cases.append("b64.raw " + hx(s))
        elif k < 0.40:
            cases.append("b64.rt %s %s %s" % (rand_split(rng, ln), rand_split(rng, (ln + 2) // 3 * 4), hx(s)))
        elif k < 0.50:
            e = base64.b64encode(s)                                         # well-formed, maybe with white space
            if rng.random() < 0.5:
                e = bytearray(e)
                for _ in range(rng.choice([1, 2, 5])):
                    e.insert(rng.randrange(len(e) + 1), rng.choice(B64WS))
                e = bytes(e)
            cases.append("b64.dec %s %s" % (rand_split(rng, len(e)), hx(e)))
        elif k < 0.75:
            e = mutate_b64(rng, base64.b64encode(s if ln < 400 else s[:rng.randrange(0, 60)]))
            cases.append("b64.dec %s %s" % (rand_split(rng, len(e)), hx(e)))
        elif k < 0.80:
            e = rand_bytes(rng, rng.randrange(0, 24))                       # arbitrary bytes as "base64"
            cases.append("b64.dec %s %s" % (rand_split(rng, len(e)), hx(e)))
        else:
            cases.append(gen_basic(rng))
    return cases


# ---------------------------------------------------------------------------------------------
# oracle: the property, stated independently of the model, evaluated on the implementation's answer
def chunks_of(spec, src):
    if spec == "-":
        return [src]
    out = []
    pos = 0
    for l in spec.split(","):
        l = min(int(l), len(src) - pos)
        out.append(src[pos:pos + l])
        pos += l
    out.append(src[pos:])
    return out


def dec_promised(n):
    return ((n + 1) * 6) // 8


_SWEEP = {}


def sweep3_crc(a0):
    """CRC-32 of the RFC 4648 encodings (Python's base64 module) of all 65536 strings a0,b,c in order;
    a multiple of three bytes encodes without padding, so the concatenation of the encodings is the
    encoding of the concatenation"""
    if a0 not in _SWEEP:
        if "base" not in _SWEEP:
            base = bytearray(3 * 65536)
            base[1::3] = bytes(b for b in range(256) for _ in range(256))
            base[2::3] = bytes(range(256)) * 256
            _SWEEP["base"] = base
        buf = bytearray(_SWEEP["base"])
        buf[0::3] = bytes([a0]) * 65536
        _SWEEP[a0] = zlib.crc32(base64.b64encode(bytes(buf))) & 0xffffffff
    return _SWEEP[a0]


def check_dec_answer(inp_chunks, ans, tag):
    """one implementation's answer to a decode case (tag = bundled | nettle)"""
    w = ans.split()
    if "BAD-" in ans or w[0] not in ("ok", "trunc", "rej") or len(w) != 2:
        return ("oracle:dec-unsafe", "decoder wrote outside the promised size / broke its accounting: " + ans[:200])
    data = b"".join(inp_chunks)
    got = unhx(w[1])
    if len(got) > sum(dec_promised(len(c)) for c in inp_chunks):
        return ("oracle:dec-unsafe", "more output than BASE64_DECODE_LENGTH promises")
    core = strip_ws(data)
    want = canonical_decode(core)
    if want is not None:
        if w[0] != "ok" or got != want:
            return ("oracle:dec-wellformed", "well-formed base64 must decode to %s" % hx(want))
        return None
    if w[0] == "ok":
        if core.endswith(b"A===") and canonical_decode(core[:-4]) == got and len(got) % 3 == 0:
            return ("oracle:dec-accepts-A===:" + tag, "malformed input (zero symbol followed by three '=') accepted")
        return ("oracle:dec-accepts-malformed", "malformed base64 accepted as %s" % hx(got))
    return None


def oracle(case, out):
    a = case.split()
    op = a[0]
    if out.startswith(("CRASH", "EXC", "ERR")) or "BAD-" in out:
        return ("oracle:unsafe", "implementation crashed / threw / wrote out of bounds: " + out[:300])
    try:
        if op in ("b64.enc", "b64.raw", "b64.rt", "b64.dec", "b64.isweep3"):
            halves = out.split(" | ")
            if len(halves) != 2:
                return ("oracle:format", "expected two answers (bundled | nettle)")
            for which, tag, ans in zip(("bundled lib/base64.cc", "linked libnettle"), ("bundled", "nettle"), halves):
                v = None
                if op in ("b64.enc", "b64.raw"):
                    src = unhx(a[-1])
                    if unhx(ans) != base64.b64encode(src):
                        v = ("oracle:enc-not-rfc4648", "encoding differs from RFC 4648: expected %s" % hx(base64.b64encode(src)))
                elif op == "b64.rt":
                    src = unhx(a[3])
                    if ans != "ok " + hx(src):
                        v = ("oracle:roundtrip", "decode(encode(x)) != x")
                elif op == "b64.dec":
                    v = check_dec_answer(chunks_of(a[1], unhx(a[2])), ans, tag)
                elif op == "b64.isweep3":
                    exp = "n=65536 rtfail=0 rawdiff=0 lenbad=0 crc=%d" % sweep3_crc(int(a[1]))
                    if ans != exp:
                        v = ("oracle:sweep3", "exhaustive 3-byte sweep: expected `%s`" % exp)
                if v:
                    return (v[0], which + ": " + v[1])
            return None
        if op == "basic":
            cs = a[1] == "1"
            hdr = unhx(a[2]).split(b"\x00")[0]           # the header is handed over as a C string
            i = 0
            while i < len(hdr) and 33 <= hdr[i] <= 126:
                i += 1
            while i < len(hdr) and hdr[i] in B64WS:
                i += 1
            blob = hdr[i:].split(b"\n")[0]
            core = strip_ws(blob)
            clear = canonical_decode(core)
            if clear is None:
                if out == "null":
                    return None
                if core.endswith(b"A===") and canonical_decode(core[:-4]) is not None:
                    # decodeCleartext runs the base64 decoder the build links, which is libnettle here
                    return ("oracle:basic-accepts-A===:nettle", "credentials with malformed base64 (…A===) accepted")
                return ("oracle:basic-accepts-malformed", "credentials with malformed base64 accepted")
            m = re.match(r"^user=(\S+) pass=(\S+) ct=(\S+)$", out)
            if b"\x00" in clear:
                # credentials are C strings inside squid: a NUL cannot be represented, so they must be refused
                if out == "null":
                    return None
                return ("oracle:basic-nul", "credentials containing NUL were not refused (user name / password truncated)")
            if b"\r" in clear or b"\n" in clear:
                # CR / LF inside credentials: must not produce credentials
                if out == "null":
                    return None
                return ("oracle:basic-crlf", "credentials containing CR/LF were not refused")
            if not m:
                return ("oracle:basic-refused", "valid credentials %s refused" % hx(clear))
            user = unhx(m.group(1))
            pw = None if m.group(2) == "null" else unhx(m.group(2))
            euser, sep, epw = clear.partition(b":")
            if not cs:
                euser = bytes(c + 32 if 65 <= c <= 90 else c for c in euser)
            if user != euser:
                return ("oracle:basic-user", "user name is not the text before the first colon (%s)" % hx(euser))
            if (pw or b"") != epw or (pw is not None and not sep):
                return ("oracle:basic-pass", "password is not the text after the first colon (%s)" % hx(epw))
            return None
    except Exception as ex:
        return ("oracle:format", "unparsable implementation output %r (%s)" % (out[:120], ex))
    return None


def mutate(rng, case):
    a = case.split()
    if a[0] in ("b64.isweep3",):
        return "b64.isweep3 %d" % rng.randrange(256)
    b = bytearray(unhx(a[-1]))
    k = rng.random()
    if a[0] in ("b64.dec", "basic") and k < 0.5:
        b = bytearray(mutate_b64(rng, bytes(b)))
    elif b and k < 0.8:
        b[rng.randrange(len(b))] = rng.randrange(256)
    elif k < 0.9:
        b.insert(rng.randrange(len(b) + 1), rng.randrange(256))
    elif b:
        del b[rng.randrange(len(b))]
    a[-1] = hx(b)
    if a[0] in ("b64.enc", "b64.dec") and rng.random() < 0.3:
        a[1] = rand_split(rng, len(b))
    return " ".join(a)


def kind(c, o):
    op = c.split()[0]
    if op == "b64.dec":
        return "dec:" + o.split()[0]
    if op == "basic":
        if o == "null":
            return "basic:null"
        return "basic:" + ("user+pass" if "pass=null" not in o else "user-only")
    return op


def nontrivial(c, o):
    a = c.split()
    return a[-1] != "-" and not o.startswith(("CRASH", "ERR"))


def model_blind(case):
    # the exhaustive 3-byte sweep is an implementation-only stream (16.7M strings, judged by the oracle);
    # the model covers the same strings by proof
    return case.startswith("b64.isweep3")


def run(res, tier):
    res.rule = ("exhaustive: all strings of length <= 1 through every entry, 2-byte strings round-tripped (quick: every 5th, "
                "thorough: all), all 16.7M 3-byte strings swept on the implementation; decoder quantum shapes over a symbol "
                "alphabet; random strings up to 8 KB with random update() segmentation; encodings mutated with bad characters, "
                "padding, truncation, white space, left-over bits; Basic headers with scheme/space/terminator variants, "
                "colons, NUL/CR/LF, mutated base64. Non-trivial = non-empty input that produced an answer")
    std.run_standard(res, PID, tier, area="b64", build_impl=impl, gen_cases=gen_cases, oracle=oracle,
                     corr_name="B64Model vs lib/base64.cc (bundled, compiled from the working tree), linked libnettle, "
                               "src/auth/basic/Config.cc decodeCleartext/decode",
                     gens=["b64"], n_quick=30000, n_thorough=400000, seed_salt=36, mutate=mutate,
                     kind_fn=kind, nontrivial_fn=nontrivial, model_blind=model_blind)
