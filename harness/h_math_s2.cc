#define H_MATH_PART 2
#include "h_math_part.h"
