(* HdrparseModel.v — header-block parsing as it exists in /repo (property C25):
     src/HttpHeader.cc   HttpHeader::parse (NUL test, the field loop with its inner per-line do-loop,
                         the Content-Length / Transfer-Encoding branches after the loop),
                         HttpHeaderEntry::parse, HttpHeaderEntry::packInto, HttpHeader::packInto,
                         addEntry / delById / getByIdIfPresent(getList) / putInt64 as used by parse
     src/http/RegisteredHeaders.cc  HeaderLookupTable.lookup(name,len) (table regenerated: HdrTable_gen)
   Line splitting, left trimming, the Content-Length interpreter and int64 printing are REUSED from
   ClenModel.v (property C26, validated against the same code); the per-line pass and right trimming
   are ClenModel's with a linear-time reverse (proved equal).
   ClenModel's entry_parse / fields_loop / entries_loop / post_process know only three header ids and
   drop the field name; they are COPIED here and generalised to (id, name, value) entries with the
   full registered-header table (the check_field calls, cl_init and int64 printing are ClenModel's).
   Second half: the REFERENCE reading of a header block (RFC 9112 section 5 field-line / obs-fold
   grammar plus Squid's documented tolerances), written as a pipeline lines -> groups -> fields.
   Executable definitions only. *)
Require Import SquidV.Bytes.
Require Import SquidV.ClenModel.
Require Import SquidV.gen.CharSets_gen.
Require Import SquidV.gen.HdrTable_gen.
Local Open Scope N_scope.

(* ------------------------------------------------------------------ linear-time helpers
   ClenModel's rtrim / last_is / strip_last / proc_line are written with List.rev (quadratic when
   extracted).  The same functions with the accumulator reverse, so that fields at the 64K limits can
   be run; HdrparseProofs.h_rtrim_eq / h_last_is_eq / h_strip_last_eq / h_proc_line_eq prove them equal
   to the ClenModel originals. *)
Definition frev (l : bytes) : bytes := rev_append l [].
Definition h_rtrim_by (p : N -> bool) (l : bytes) : bytes := frev (snd (span p (frev l))).
Definition h_rtrim (l : bytes) : bytes := h_rtrim_by c_isspace l.
Definition h_last_is (p : N -> bool) (l : bytes) : bool :=
  match frev l with c :: _ => p c | [] => false end.
Definition h_strip_last (l : bytes) : bytes := frev (tl (frev l)).

(* one pass of the inner do-loop body on one line (ClenModel.proc_line); cont = (this_line > field_start).
   Result: (line text up to field_end after the relaxed CR->SP rewrite, CR stripped?, bare CR seen) *)
Definition h_proc_line (relaxed req : bool) (ln : bytes) (cont : bool) : option (bytes * bool * bool) :=
  let crlf := h_last_is is_cr ln in
  let fe := if crlf then h_strip_last ln else ln in
  if crlf && req && negb (lenN fe =? 0) && forallb is_cr fe then None       (* CR+ field in a request *)
  else
    let bare := existsb is_cr fe in
    if bare && negb relaxed then None
    else
      let fe' := if bare then map (fun c => if is_cr c then 32 else c) fe else fe in
      if (lenN fe' =? 1) && cont then None                                   (* blank continuation line *)
      else Some (fe', crlf, bare).

(* ------------------------------------------------------------------ entries *)
Record hentry := { he_id : N; he_name : bytes; he_value : bytes }.

(* Http::HeaderLookupTable.lookup(buf, len): gperf perfect hash + gperf_case_memcmp on equal length
   = the registered record whose name equals the key ignoring ASCII case; BAD_HDR/OTHER otherwise *)
Fixpoint tbl_find (tbl : list (N * list N * (bool * bool * bool * bool * bool))) (name : bytes)
  : option (N * bytes) :=
  match tbl with
  | [] => None
  | (id, nm, _) :: r => if ci_eqb name nm then Some (id, nm) else tbl_find r name
  end.

(* id and stored spelling: "if (id == OTHER) theName.append(field_start, name_len) else theName = table name" *)
Definition canon_name (name : bytes) : N * bytes :=
  match tbl_find hdr_table name with Some (id, nm) => (id, nm) | None => (hdr_OTHER, name) end.

Definition ID_CL : N := fst (canon_name name_content_length).
Definition ID_TE : N := fst (canon_name name_transfer_encoding).

(* "trimmable": around the framing-sensitive Content-Length and Transfer-Encoding values only SP and
   HTAB are dropped, around every other value all of xisspace() (is_wsp, ltrim_by: ClenModel) *)
Definition framing_id (id : N) : bool := (id =? ID_CL) || (id =? ID_TE).
Definition value_ws (id : N) : N -> bool := if framing_id id then is_wsp else c_isspace.

(* HttpHeaderEntry::parse(field_start, field_end, msgType); req = (msgType == hoRequest), the other
   owner modelled is hoReply (for which stripWhitespace is true in both parser modes).
   The value goes through String::assign and then the HttpHeaderEntry constructor's
   `value = aValue` (a C string): it ends at the first NUL.  The id lookup precedes the value trim. *)
Definition h_entry_parse (req : bool) (field : bytes) : option hentry :=
  let '(name, rest) := span (fun c => negb (c =? 58)) field in
  match rest with
  | [] => None                                            (* no ':' *)
  | _ :: after =>
    if lenN name =? 0 then None
    else if 65534 <? lenN name then None
    else
      let name' := if h_last_is c_isspace name then (if req then [] else h_rtrim name) else name in
      match name' with
      | [] => None
      | _ =>
        if negb (forallb cs_TCHAR name') then None
        else
          let '(id, nm) := canon_name name' in
          let trimmable := value_ws id in
          let value := h_rtrim_by trimmable (ltrim_by trimmable after) in
          if 65534 <? lenN value then None
          else Some {| he_id := id; he_name := nm; he_value := c_str value |}
      end
  end.

Definition h_is_framing (e : hentry) : bool := (he_id e =? ID_CL) || (he_id e =? ID_TE).

(* the outer while loop with the inner do-while, as one pass over the lines (ClenModel.fields_loop
   with full entries).  acc = bytes of the current field before this line, nl = lines already in it,
   bare = bare CR seen in it *)
Fixpoint h_fields_loop (relaxed req : bool) (lines : list bytes) (rem : bytes)
         (acc : bytes) (nl : N) (bare : bool) : option (list hentry) :=
  match lines with
  | [] => match rem with [] => Some [] | _ => None end                     (* missing LF *)
  | ln :: rest =>
    match h_proc_line relaxed req ln (0 <? nl) with
    | None => None
    | Some (fe, cr, bare1) =>
      let next := match rest with [] => rem | x :: _ => x ++ [10] end in
      let cont := match next with c :: _ => (c =? 32) || (c =? 9) | [] => false end in
      if cont then
        match rest with
        | [] => None                                                        (* missing LF *)
        | _ => h_fields_loop relaxed req rest rem
                 (acc ++ fe ++ (if cr then [13] else []) ++ [10]) (N.succ nl) (bare || bare1)
        end
      else
        match acc ++ fe with
        | [] => match rest, rem with [], [] => Some [] | _, _ => None end   (* blank line: must be last *)
        | field =>
          match h_entry_parse req field with
          | None => None
          | Some e =>
            if ((0 <? nl) || bare || bare1) && h_is_framing e then None     (* obs-fold / bare CR in CL or TE *)
            else option_map (cons e) (h_fields_loop relaxed req rest rem [] 0 false)
          end
        end
    end
  end.

(* everything HttpHeader::parse does before the Content-Length interpreter sees an entry *)
Definition h_block_fields (relaxed req : bool) (block : bytes) : option (list hentry) :=
  if has_nul block then None
  else let '(lines, rem) := split_lines block in h_fields_loop relaxed req lines rem [] 0 false.

(* the Content-Length test inside the loop: kept entries (addEntry order) and interpreter state *)
Fixpoint h_entries_loop (relaxed : bool) (es : list hentry) (st : clst) : option (list hentry * clst) :=
  match es with
  | [] => Some ([], st)
  | e :: r =>
    if he_id e =? ID_CL then
      let '(keep, st') := check_field relaxed st (he_value e) in
      if keep then
        match h_entries_loop relaxed r st' with Some (k, s) => Some (e :: k, s) | None => None end
      else if relaxed then h_entries_loop relaxed r st'
      else None
    else match h_entries_loop relaxed r st with Some (k, s) => Some (e :: k, s) | None => None end
  end.

Definition h_del_id (i : N) (es : list hentry) : list hentry := filter (fun e => negb (he_id e =? i)) es.
Definition h_has_id (i : N) (es : list hentry) : bool := existsb (fun e => he_id e =? i) es.

(* getByIdIfPresent(TRANSFER_ENCODING) = getList: values joined with ", " (strListAdd) *)
Definition h_te_joined (es : list hentry) : bytes :=
  fold_left (fun s e => if he_id e =? ID_TE
                        then (match s with [] => [] | _ => s ++ [44; 32] end) ++ c_str (he_value e)
                        else s) es [].

Record hresult := { hr_entries : list hentry; hr_conflicting : bool; hr_teUnsupported : bool }.

(* putInt64(CONTENT_LENGTH, v): new HttpHeaderEntry(id, SBuf(), xint64toa(v)) — the name comes from the table *)
Definition h_cl_entry (v : Z) : hentry :=
  {| he_id := ID_CL; he_name := snd (canon_name name_content_length); he_value := int64_to_a v |}.

Definition h_post_process (proh : bool) (kept : list hentry) (st : clst) : hresult :=
  if proh then
    {| hr_entries := h_del_id ID_TE (h_del_id ID_CL kept); hr_conflicting := false; hr_teUnsupported := false |}
  else if h_has_id ID_TE kept then
    {| hr_entries := h_del_id ID_CL kept; hr_conflicting := false;
       hr_teUnsupported := negb (ci_eqb (h_te_joined kept) word_chunked) |}
  else if cl_sawBad st then
    {| hr_entries := h_del_id ID_CL kept; hr_conflicting := true; hr_teUnsupported := false |}
  else if cl_needsSan st then
    {| hr_entries := h_del_id ID_CL kept ++ (if cl_sawGood st then [h_cl_entry (cl_value st)] else []);
       hr_conflicting := false; hr_teUnsupported := false |}
  else {| hr_entries := kept; hr_conflicting := false; hr_teUnsupported := false |}.

(* HttpHeader::parse(header_start, hdrLen, clen) with a fresh interpreter; proh = clen.prohibitedAndIgnored();
   None = return 0 (after clean()) *)
Definition h_parse (relaxed req proh : bool) (block : bytes) : option hresult :=
  match h_block_fields relaxed req block with
  | None => None
  | Some es =>
    match h_entries_loop relaxed es cl_init with
    | None => None
    | Some (kept, st) => Some (h_post_process proh kept st)
    end
  end.

(* HttpHeaderEntry::packInto / HttpHeader::packInto(p, false) *)
Definition pack_entry (e : hentry) : bytes := he_name e ++ [58; 32] ++ he_value e ++ [13; 10].
Definition h_pack (es : list hentry) : bytes := concat (map pack_entry es).

(* ================================================================== REFERENCE
   How RFC 9112 section 5 (with Squid's documented tolerances) reads a header block:

     block       = *( field-line EOL ) [ EOL ]              EOL = [CR] LF   (bare LF tolerated)
     field-line  = field-name [BWS, replies only] ":" OWS field-value OWS
     obs-fold    : a line that begins with SP / HTAB continues the previous field-line

   tolerances / restrictions that Squid documents:
     - NUL anywhere: reject
     - every line must be LF-terminated; an empty line (nothing or a lone CR before its LF) ends the block
       and may only be the last line
     - a CR that is not the one right before LF ("bare CR"): strict mode rejects; relaxed mode reads it as SP
     - in a request a line made of CRs only (CR CR+ LF) is rejected
     - a continuation line consisting of its SP/HTAB alone is rejected
     - field-name: 1*tchar, at most 65534 bytes; a request must not have white space before ':',
       a reply has it removed; value: at most 65534 bytes after trimming
     - Content-Length / Transfer-Encoding written with obs-fold or with a bare CR: reject
     - obs-fold is kept as written inside the value (the unfolding pass of Http::One::Parser has run
       before HttpHeader::parse for messages read from the wire); the first line's name and the
       trimmed text of all the field's lines give the field
   The pipeline: ref_lines, ref_groups, ref_line_ok / ref_group_text, ref_split, ref_process. *)

(* 1. lines: the block must be empty or end in LF; the lines are the LF-separated pieces *)
Fixpoint ref_cut (cur : bytes) (l : bytes) : list bytes * bytes :=
  match l with
  | [] => ([], rev cur)
  | c :: r => if c =? 10 then let '(ls, rem) := ref_cut [] r in (rev cur :: ls, rem)
              else ref_cut (c :: cur) r
  end.
Definition ref_lines (block : bytes) : option (list bytes) :=
  let '(ls, rem) := ref_cut [] block in match rem with [] => Some ls | _ => None end.

(* 2. groups: a line that starts with SP / HTAB belongs to the group of the line before it *)
Definition ref_is_cont (ln : bytes) : bool :=
  match ln with c :: _ => (c =? 32) || (c =? 9) | [] => false end.
Definition ref_next_is_cont (r : list bytes) : bool :=
  match r with n :: _ => ref_is_cont n | [] => false end.
Fixpoint ref_groups (ls : list bytes) : list (list bytes) :=
  match ls with
  | [] => []
  | l :: r =>
    match ref_groups r with
    | g :: gs => if ref_next_is_cont r then (l :: g) :: gs else [l] :: g :: gs
    | [] => [[l]]
    end
  end.

(* 3. one line: its body is the line without the CR of its CRLF *)
Definition ref_ends_cr (ln : bytes) : bool := last_is is_cr ln.
Definition ref_body (ln : bytes) : bytes := if ref_ends_cr ln then strip_last ln else ln.
Definition ref_has_bare_cr (ln : bytes) : bool := existsb is_cr (ref_body ln).
Definition ref_line_ok (relaxed req first : bool) (ln : bytes) : bool :=
  negb (req && ref_ends_cr ln && negb (lenN (ref_body ln) =? 0) && forallb is_cr (ref_body ln))
  && (relaxed || negb (ref_has_bare_cr ln))
  && (first || negb (lenN (ref_body ln) =? 1)).
Definition cr_to_sp (c : N) : N := if is_cr c then 32 else c.
Definition ref_line_text (relaxed : bool) (ln : bytes) : bytes :=
  if relaxed then map cr_to_sp (ref_body ln) else ref_body ln.
Definition ref_eol (ln : bytes) : bytes := (if ref_ends_cr ln then [13] else []) ++ [10].

Fixpoint ref_lines_ok (relaxed req first : bool) (g : list bytes) : bool :=
  match g with
  | [] => true
  | l :: r => ref_line_ok relaxed req first l && ref_lines_ok relaxed req false r
  end.
(* the field text: the lines' texts, the inner line ends kept as written *)
Fixpoint ref_group_text (relaxed : bool) (g : list bytes) : bytes :=
  match g with
  | [] => []
  | [l] => ref_line_text relaxed l
  | l :: r => ref_line_text relaxed l ++ ref_eol l ++ ref_group_text relaxed r
  end.

(* 4. field-line = name ":" OWS value OWS
   OWS is SP / HTAB (RFC 9110 5.5) and that is all that is removed around Content-Length and
   Transfer-Encoding values; around other values (and after a reply's field name) Squid also removes
   LF VT FF CR (documented tolerance). *)
Definition ref_ows (c : N) : bool := (c =? 32) || (c =? 9) || (c =? 10) || (c =? 11) || (c =? 12) || (c =? 13).
Definition ref_wsp (c : N) : bool := (c =? 32) || (c =? 9).
Fixpoint ref_trim_left (ws : N -> bool) (l : bytes) : bytes :=
  match l with c :: r => if ws c then ref_trim_left ws r else l | [] => [] end.
Definition ref_trim_right (ws : N -> bool) (l : bytes) : bytes := rev (ref_trim_left ws (rev l)).
Definition ref_trim (ws : N -> bool) (l : bytes) : bytes := ref_trim_right ws (ref_trim_left ws l).
Definition ref_is_framing_name (name : bytes) : bool :=
  (fst (canon_name name) =? ID_CL) || (fst (canon_name name) =? ID_TE).
Definition ref_value_ws (name : bytes) : N -> bool := if ref_is_framing_name name then ref_wsp else ref_ows.
Fixpoint ref_before_colon (l : bytes) : option (bytes * bytes) :=
  match l with
  | [] => None
  | c :: r => if c =? 58 then Some ([], r)
              else match ref_before_colon r with Some (n, v) => Some (c :: n, v) | None => None end
  end.
(* field-name = token.  A request's name must be a token as written (so no white space anywhere
   around it); a reply may carry BWS between name and colon, which is removed. *)
Definition ref_split (req : bool) (text : bytes) : option (bytes * bytes) :=
  match ref_before_colon text with
  | None => None
  | Some (raw_name, raw_value) =>
    let name := if req then raw_name else ref_trim_right ref_ows raw_name in
    if (lenN name =? 0) || (65534 <? lenN raw_name) || negb (forallb cs_TCHAR name) then None
    else let value := ref_trim (ref_value_ws name) raw_value in
         if 65534 <? lenN value then None else Some (name, value)
  end.

Definition ref_field (relaxed req : bool) (g : list bytes) : option hentry :=
  match ref_split req (ref_group_text relaxed g) with
  | None => None
  | Some (name, value) =>
    let '(id, nm) := canon_name name in
    let e := {| he_id := id; he_name := nm; he_value := value |} in
    if ((1 <? lenN g) || existsb ref_has_bare_cr g) && h_is_framing e then None else Some e
  end.

(* 5. the block: every group is a field; an empty group ends the block and must be the last *)
Fixpoint ref_process (relaxed req : bool) (gs : list (list bytes)) : option (list hentry) :=
  match gs with
  | [] => Some []
  | g :: rest =>
    if negb (ref_lines_ok relaxed req true g) then None
    else match ref_group_text relaxed g with
         | [] => match rest with [] => Some [] | _ => None end
         | _ => match ref_field relaxed req g with
                | None => None
                | Some e => option_map (cons e) (ref_process relaxed req rest)
                end
         end
  end.

Definition ref_fields (relaxed req : bool) (block : bytes) : option (list hentry) :=
  if existsb (N.eqb 0) block then None
  else match ref_lines block with
       | None => None
       | Some ls => ref_process relaxed req (ref_groups ls)
       end.
