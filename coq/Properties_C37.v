(* Properties_C37.v — C37: DNS message decoding is memory-safe and faithful.
   Statements only; proofs live in DnsProofs.v. *)
Require Import SquidV.Bytes SquidV.gen.Dns_gen SquidV.DnsModel SquidV.DnsProofs.
Local Open Scope N_scope.

(* --- for ANY datagram (any bytes, any length) decoding terminates within the fixed fuel, performs no read outside
       the datagram, no write outside a name buffer, trips no assertion and no unsigned wrap-around --- *)
Theorem C37_unpack_any_datagram_terminates_in_bounds : forall buf,
  exists u, message_unpack buf = Ok u /\ unpacked_sane u.
Proof. exact message_unpack_total. Qed.
Print Assumptions C37_unpack_any_datagram_terminates_in_bounds.

(* the name decoder alone: any datagram, any start offset, any recursion depth, any destination size ns <= capacity;
   pointer loops end by the rdepth limit; a returned offset is inside the datagram *)
Theorem C37_name_unpack_any_input_in_bounds : forall buf off ns cap rdepth,
  0 < ns -> ns <= cap -> name_res_ok (lenN buf) (name_unpack buf (lenN buf) off ns cap rdepth).
Proof. exact name_unpack_safe. Qed.
Print Assumptions C37_name_unpack_any_input_in_bounds.
