// Table generator for C63 (forwarding loops / Max-Forwards): constants the LoopmfModel depends on,
// as the tree that is being checked defines them now.
//   app_fullname  APP_FULLNAME (include/version.h: PACKAGE "/" VERSION) = default visible_appname_string,
//                 the text inside the Via comment "(squid/x.y)" (src/cache_cf.cc configDoConfigure)
//   llong_max/min the int64_t range httpHeaderParseOffset (strtoll) can return
//   c_isspace     isspace() in the C locale for 0..255 (what strtoll skips before the number)
//   ids/flags     Http::HdrType ids of Via and Max-Forwards, Via is a list header, Max-Forwards is ftInt64
//                 (HttpHeader::getList / getInt64 assert exactly this)
#include "squid.h"
#include "http/RegisteredHeaders.h"
#include <cctype>
#include <climits>
#include <cstring>
#include <iostream>

int main() {
    std::cout << "@@FILE Loopmf_gen.v\n";
    std::cout << "(* generated from /repo by gen/gen_loopmf.cc -- do not edit *)\n"
              "Require Import SquidV.Bytes.\nLocal Open Scope N_scope.\n";
    const char *app = APP_FULLNAME;
    std::cout << "Definition app_fullname : list N := [";
    for (size_t i = 0; i < strlen(app); ++i)
        std::cout << (i ? ";" : "") << static_cast<int>(static_cast<unsigned char>(app[i]));
    std::cout << "].\n";
    std::cout << "Definition llong_max : Z := " << LLONG_MAX << "%Z.\n";
    std::cout << "Definition llong_min : Z := (" << LLONG_MIN << ")%Z.\n";
    std::cout << "Definition c_isspace_tbl : list bool := [";
    for (int c = 0; c < 256; ++c)
        std::cout << (c ? ";" : "") << (isspace(c) ? "true" : "false");
    std::cout << "].\n";
    const auto &via = Http::HeaderLookupTable.lookup(Http::HdrType::VIA);
    const auto &mf = Http::HeaderLookupTable.lookup(Http::HdrType::MAX_FORWARDS);
    std::cout << "Definition gen_id_via : N := " << static_cast<int>(Http::HdrType::VIA) << ".\n";
    std::cout << "Definition gen_id_max_forwards : N := " << static_cast<int>(Http::HdrType::MAX_FORWARDS) << ".\n";
    std::cout << "Definition gen_via_is_list : bool := " << (via.list ? "true" : "false") << ".\n";
    std::cout << "Definition gen_max_forwards_is_int64 : bool := "
              << (mf.type == Http::HdrFieldType::ftInt64 ? "true" : "false") << ".\n";
    return 0;
}
