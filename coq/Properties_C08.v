(* Properties_C08.v — C08: no descriptor leaks or crashes across abort histories.
   PARTIAL: the theorems are about src/fd.cc's accounting functions (transcribed line by line) and about a
   descriptor-ownership PROTOCOL machine (FdleakModel.v: _comm_close / comm_close_complete, close handlers,
   timeouts, the idle pool, ConnStateData / HttpStateData as owners). That every owner in the real proxy follows
   this protocol is NOT proved; it rests on the end-to-end runs of checks/c08.py.
   Statements only; proofs live in FdleakProofs.v. *)
Require Import SquidV.Bytes SquidV.FdleakModel SquidV.FdleakProofs.

(* --- src/fd.cc -------------------------------------------------------------------------------------------
   after ANY sequence of fd_open/fd_close calls that respects the callers' obligations (descriptor inside the
   table; fd_close only on an open entry) -- fd_open on an entry that is already open included -- the open flags
   are those of the plain replay, Number_FD is the number of open flags, Biggest_FD is the largest open
   descriptor (-1 when none) *)
Theorem C08_fd_table_accounting : forall maxfd ops d,
  ops_valid maxfd (fun _ => false) ops -> run_fdops maxfd fds_empty ops = Some d ->
  (forall g, fopen d g = replay (fun _ => false) ops g) /\
  fnum d = Z.of_nat (count_open maxfd (fopen d)) /\
  (forall g, fopen d g = true -> (Z.of_nat g <= fbig d)%Z) /\
  ((0 <= fbig d)%Z -> fopen d (Z.to_nat (fbig d)) = true) /\
  (-1 <= fbig d < Z.of_nat maxfd)%Z.
Proof. exact fd_accounting. Qed.
Print Assumptions C08_fd_table_accounting.

(* ... and no assert of fd.cc (flags.open in fd_close; the three asserts of fdUpdateBiggest) fires *)
Theorem C08_fd_valid_calls_never_assert : forall maxfd ops,
  ops_valid maxfd (fun _ => false) ops -> run_fdops maxfd fds_empty ops <> None.
Proof. exact fd_valid_never_asserts. Qed.
Print Assumptions C08_fd_valid_calls_never_assert.

Example C08_ops_valid_example : ops_valid 8 (fun _ => false) [FOpen 3; FOpen 5; FClose 5; FOpen 3; FOpen 7; FClose 7].
Proof. cbn. repeat split; lia. Qed.

(* --- src/comm.cc _comm_close ------------------------------------------------------------------------------
   calling it again on a descriptor that is already being closed changes nothing *)
Theorem C08_comm_close_idempotent : forall s f, comm_close (comm_close s f) f = comm_close s f.
Proof. exact comm_close_idempotent. Qed.
Print Assumptions C08_comm_close_idempotent.

(* on an open descriptor it schedules every registered close handler once, in list order, then
   comm_close_complete, and leaves no handler and no timeout behind *)
Theorem C08_comm_close_schedules_handlers_then_complete : forall s f, active s f = true ->
  q (comm_close s f) = q s ++ map CHandler (hs s f) ++ [CComplete f] /\
  hs (comm_close s f) f = [] /\ tmo (comm_close s f) f = false /\ closing (comm_close s f) f = true.
Proof. exact comm_close_schedules. Qed.
Print Assumptions C08_comm_close_schedules_handlers_then_complete.

(* --- the protocol machine: ALL event sequences ---------------------------------------------------------------
   (accepts, connects, pool pops, complete / failed server replies, client completions and aborts, timeouts in
   any order, idle-connection reads, closes by third parties, and the call queue firing at any time)
   from the start state with descriptors 0..ninfra-1 open: no assert of fd.cc fires *)
Theorem C08_no_assertion_in_any_history : forall maxfd ninfra reserved, ninfra <= maxfd ->
  forall evs, run maxfd reserved (init ninfra) evs <> None.
Proof. exact never_asserts. Qed.
Print Assumptions C08_no_assertion_in_any_history.

(* in every reachable state Number_FD = number of open flags, Biggest_FD = largest open descriptor, the kernel's
   descriptor set equals the table's, exactly the descriptors being closed have one comm_close_complete pending,
   and PconnPool's count is the pool size *)
Theorem C08_accounting_invariant : forall maxfd ninfra reserved, ninfra <= maxfd ->
  forall evs s, run maxfd reserved (init ninfra) evs = Some s ->
  fnum (tbl s) = Z.of_nat (count_open maxfd (fopen (tbl s))) /\
  fbig (tbl s) = lower (fopen (tbl s)) maxfd /\
  (forall f, kern s f = fopen (tbl s) f) /\
  (forall f, fopen (tbl s) f = true -> f < maxfd) /\
  (forall f, ncomplete f (q s) = if closing s f then 1 else 0) /\
  pcount s = Z.of_nat (length (pool s)).
Proof. exact reachable_accounting. Qed.
Print Assumptions C08_accounting_invariant.

(* a descriptor being closed is still open, has no handlers and no timeout left, and is closed exactly once *)
Theorem C08_close_happens_once : forall maxfd ninfra reserved, ninfra <= maxfd ->
  forall s f, reachable maxfd ninfra reserved s ->
  ncomplete f (q s) = (if closing s f then 1 else 0) /\
  (closing s f = true -> fopen (tbl s) f = true /\ hs s f = [] /\ tmo s f = false).
Proof. exact reach_close_once. Qed.
Print Assumptions C08_close_happens_once.

(* no orphans: whenever the call queue is empty, every open descriptor is an infrastructure descriptor, or belongs
   to exactly one live job that has its close handler registered and a timeout armed, or sits in the idle pool with
   a timeout armed *)
Theorem C08_every_descriptor_has_an_owner : forall maxfd ninfra reserved, ninfra <= maxfd ->
  forall s f, reachable maxfd ninfra reserved s -> q s = [] -> fopen (tbl s) f = true ->
  kern s f = true /\ closing s f = false /\
  ((f < ninfra /\ own s f = OInfra) \/
   (exists c, (own s f = OCli c \/ own s f = OSrv c) /\ hs s f = [own s f] /\ tmo s f = true /\ ~ In f (pool s)) \/
   (own s f = OIdle /\ In f (pool s) /\ tmo s f = true /\ hs s f = [])).
Proof. exact reach_no_orphans. Qed.
Print Assumptions C08_every_descriptor_has_an_owner.

Theorem C08_one_descriptor_per_job : forall maxfd ninfra reserved, ninfra <= maxfd ->
  forall s f g, reachable maxfd ninfra reserved s -> active s f = true -> active s g = true ->
  own s f = own s g -> is_job (own s f) = true -> f = g.
Proof. exact reach_one_descriptor_per_job. Qed.
Print Assumptions C08_one_descriptor_per_job.

(* close => close handler => owner ends: a close from anywhere notifies the owning job before the descriptor is
   released, and when a client's handler runs with the transaction aborted, its server connection is released too *)
Theorem C08_close_notifies_owner : forall maxfd ninfra reserved, ninfra <= maxfd ->
  forall s f o, reachable maxfd ninfra reserved s -> active s f = true -> own s f = o -> is_job o = true ->
  exists s', step maxfd reserved s (EClose f) = Some s' /\
             q s' = q s ++ [CHandler o; CComplete f] /\ closing s' f = true /\ fopen (tbl s') f = true.
Proof. exact reach_close_notifies_owner. Qed.
Print Assumptions C08_close_notifies_owner.

Theorem C08_owner_end_releases_server : forall maxfd ninfra reserved, ninfra <= maxfd ->
  forall s c r f, reachable maxfd ninfra reserved s -> q s = CHandler (OCli c) :: r ->
  active s f = true -> own s f = OSrv c ->
  exists s', step maxfd reserved s (ERun true) = Some s' /\ closing s' f = true /\ q s' = r ++ [CComplete f].
Proof. exact reach_owner_end_releases_server. Qed.
Print Assumptions C08_owner_end_releases_server.

(* idle pool limit: PconnPool::push closes the connection instead of pooling it when fdUsageHigh() *)
Theorem C08_pool_refuses_when_fd_usage_high : forall maxfd ninfra reserved, ninfra <= maxfd ->
  forall s c f, reachable maxfd ninfra reserved s -> find_own maxfd s (OSrv c) = Some f ->
  fd_usage_high maxfd reserved (fnum (tbl s)) = true ->
  exists s', step maxfd reserved s (ESrvDone c true) = Some s' /\ pool s' = pool s /\ closing s' f = true.
Proof. exact reach_push_refused. Qed.
Print Assumptions C08_pool_refuses_when_fd_usage_high.

(* THE PROPERTY, in the protocol model (hence _partial): after ANY history, once every armed timeout has fired and
   the call queue has run dry, exactly the descriptors open before traffic are open -- in the table and in the
   kernel -- Number_FD and Biggest_FD are back at their start values, nothing is being closed, the idle pool is
   empty. Missing for the full statement: a proof that each real owner (ConnStateData, FwdState, HttpStateData,
   store and helper descriptors, tunnels) follows the protocol. *)
Theorem C08_quiescent_returns_to_baseline_partial : forall maxfd ninfra reserved, ninfra <= maxfd ->
  forall evs s, run maxfd reserved (init ninfra) evs = Some s ->
  exists s', settle maxfd reserved s = Some s' /\
    q s' = [] /\ (forall f, fopen (tbl s') f = true <-> f < ninfra) /\
    (forall f, kern s' f = fopen (tbl s') f) /\ (forall f, closing s' f = false) /\
    fnum (tbl s') = Z.of_nat ninfra /\ fbig (tbl s') = (Z.of_nat ninfra - 1)%Z /\
    pool s' = [] /\ pcount s' = 0%Z.
Proof. exact quiescence. Qed.
Print Assumptions C08_quiescent_returns_to_baseline_partial.

(* the prediction the extracted model prints for the correspondence runs is this theorem: for EVERY list of lab
   transactions (sequential or interleaved) the history runs without a failed assertion and the quiescent
   observation is "no extra descriptor, accounting consistent, pool and call queue empty" *)
Theorem C08_model_prediction : forall maxfd ninfra reserved, ninfra <= maxfd ->
  forall seqmode txs,
  exists o idle, hist_result maxfd ninfra reserved seqmode txs = Some (o, idle) /\
                 qo_leak o = 0%Z /\ qo_kleak o = 0%Z /\ qo_acct o = true /\ qo_idle o = 0 /\ qo_queue o = 0.
Proof. exact hist_prediction. Qed.
Print Assumptions C08_model_prediction.

(* non-vacuity: a history that leaves a client connection, a server connection being closed and an idle pooled
   connection open is reachable, and settles *)
Example C08_reachable_example :
  exists s, run 32 0%Z (init 4) [EAccept 0; EConnect 0; ESrvDone 0 true; EAccept 1; EConnect 1; ECliEOF 1; ERun true] = Some s /\
            pool s = [5] /\ closing s 7 = true /\ active s 4 = true /\ fnum (tbl s) = 8%Z.
Proof. eexists. split; [vm_compute; reflexivity|]. vm_compute. repeat split. Qed.

Example C08_fd_usage_high_example : fd_usage_high 16 0 14 = true.
Proof. vm_compute. reflexivity. Qed.
