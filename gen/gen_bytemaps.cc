// Table generator: per-byte images of the quoting / escaping functions as the
// code computes them *now*.  Prints Coq source; "@@FILE <name>" starts a file.
//
// Every table has 256 entries; entry c is the output of the real function on
// the one-byte string <c>.  For the functions taking C strings the byte 0
// cannot be passed (it is the terminator): entry 0 is [] there, which is also
// what the function returns for the string "\0" (= the empty string).
//
//   bm_html_quote                 html_quote()                      src/html/Quoting.cc
//   bm_rfc1738_<flags>            rfc1738_do_escape(.., flags)      lib/rfc1738.cc
//   bm_uri_userinfo(_set)         AnyP::Uri::Encode as used by Uri::absolute() for userinfo
//   bm_uri_path(_set)             AnyP::Uri::Encode as used by Uri::absolutePath()
//   bm_uri_unreserved(_set)       AnyP::Uri::Encode(.., CharacterSet::RFC3986_UNRESERVED())
//   bm_mimeblob                   Format::QuoteMimeBlob()           src/format/Quoting.cc
//   bm_username_quote             Format::QuoteUrlEncodeUsername()  src/format/Quoting.cc
//   bm_log_quoted_string          log_quoted_string() (file-static) src/format/Format.cc
// The last three are dumped for later reuse (C13/C33/C34); C31/C32 prove nothing about them.
#include "squid.h"
#include "anyp/Uri.h"
#include "anyp/UriScheme.h"
#include "base/CharacterSet.h"
#include "format/Quoting.h"
#include "html/Quoting.h"
#include "rfc1738.h"
#include "sbuf/SBuf.h"

#include <cstring>
#include <iostream>
#include <string>
#include <vector>

// file-static log_quoted_string(): reached by textual inclusion; everything else in that file is
// discarded by the linker (-ffunction-sections + --gc-sections, see gen_bytemaps.json)
#include "format/Format.cc"

typedef std::vector<std::string> Table;

static void dumpBytes(const std::string &s) {
    std::cout << "[";
    for (size_t i = 0; i < s.size(); ++i)
        std::cout << (i ? ";" : "") << static_cast<unsigned>(static_cast<unsigned char>(s[i]));
    std::cout << "]";
}
static void dumpTable(const std::string &name, const Table &t) {
    std::cout << "Definition " << name << " : list bytes := [";
    for (size_t c = 0; c < t.size(); ++c) {
        std::cout << (c ? ";" : "");
        if (c % 16 == 0) std::cout << "\n ";
        dumpBytes(t[c]);
    }
    std::cout << "].\n";
}
static void dumpSet(const std::string &name, const Table &t) {
    // the set of bytes the encoder leaves alone, read off its behaviour
    std::cout << "Definition " << name << " : list bool := [";
    for (size_t c = 0; c < t.size(); ++c)
        std::cout << (c ? ";" : "") << ((t[c].size() == 1 && static_cast<unsigned char>(t[c][0]) == c) ? "true" : "false");
    std::cout << "].\n";
}

static std::string sb2s(const SBuf &b) { return std::string(b.rawContent(), b.length()); }

// Encode() exactly as Uri::absolute() applies it to the userinfo subcomponent
static std::string userinfoImage(const std::string &raw) {
    AnyP::Uri u;
    u.setScheme(AnyP::PROTO_FTP, "ftp");
    u.host("h");
    u.userInfo(SBuf(raw.data(), raw.size()));
    const std::string abs = sb2s(u.absolute());
    const std::string pre = "ftp://";
    const std::string post = "@" + sb2s(u.authority());
    if (abs.compare(0, pre.size(), pre) != 0) throw std::string("absolute(): unexpected prefix");
    const auto at = abs.find(post, pre.size() + 1);
    // the encoded userinfo contains no raw '@' unless '@' is in the ignore set; take the last match
    const auto last = abs.rfind(post);
    if (last == std::string::npos || last < pre.size()) throw std::string("absolute(): no userinfo found");
    (void)at;
    return abs.substr(pre.size(), last - pre.size());
}
// Encode() exactly as Uri::absolutePath() applies it
static std::string pathImage(const std::string &raw) {
    AnyP::Uri u;
    u.setScheme(AnyP::PROTO_HTTP, "http");
    u.host("h");
    u.path(SBuf(raw.data(), raw.size()));
    return sb2s(u.absolutePath());
}

int main() {
    try {
        AnyP::UriScheme::Init();
        std::cout << "@@FILE ByteMaps_gen.v\n";
        std::cout << "(* generated from /repo by gen/gen_bytemaps.cc -- do not edit *)\n"
                  "Require Import SquidV.Bytes.\n"
                  "Local Open Scope N_scope.\n";

        // --- C strings: bytes 1..255 ---
        {
            Table t(256);
            for (int c = 1; c < 256; ++c) { char in[2] = {static_cast<char>(c), 0}; t[c] = html_quote(in); }
            dumpTable("bm_html_quote", t);
        }
        const int flagSets[] = {0, RFC1738_ESCAPE_UNSAFE, RFC1738_ESCAPE_UNSAFE | RFC1738_ESCAPE_CTRLS,
                                RFC1738_ESCAPE_RESERVED, RFC1738_ESCAPE_ALL, RFC1738_ESCAPE_UNESCAPED,
                                RFC1738_ESCAPE_NOSPACE | RFC1738_ESCAPE_UNESCAPED
                               };
        std::string flagList;
        for (const int flags : flagSets) {
            Table t(256);
            for (int c = 1; c < 256; ++c) { char in[2] = {static_cast<char>(c), 0}; t[c] = rfc1738_do_escape(in, flags); }
            const std::string name = "bm_rfc1738_" + std::to_string(flags);
            dumpTable(name, t);
            flagList += (flagList.empty() ? "" : "; ") + ("(" + std::to_string(flags) + ", " + name + ")");
        }
        std::cout << "(* every flag combination passed to rfc1738_do_escape in the tree *)\n"
                  "Definition bm_rfc1738_all : list (N * list bytes) := [" << flagList << "].\n";
        std::cout << "Definition bm_RFC1738_ESCAPE_CTRLS : N := " << RFC1738_ESCAPE_CTRLS << ".\n"
                  "Definition bm_RFC1738_ESCAPE_UNSAFE : N := " << RFC1738_ESCAPE_UNSAFE << ".\n"
                  "Definition bm_RFC1738_ESCAPE_RESERVED : N := " << RFC1738_ESCAPE_RESERVED << ".\n"
                  "Definition bm_RFC1738_ESCAPE_NOSPACE : N := " << RFC1738_ESCAPE_NOSPACE << ".\n"
                  "Definition bm_RFC1738_ESCAPE_NOPERCENT : N := " << RFC1738_ESCAPE_NOPERCENT << ".\n";

        // --- SBuf based: all 256 bytes ---
        {
            Table ui(256), path(256), unres(256);
            for (int c = 0; c < 256; ++c) {
                const std::string in(1, static_cast<char>(c));
                ui[c] = userinfoImage(in);
                path[c] = pathImage(in);
                unres[c] = sb2s(AnyP::Uri::Encode(SBuf(in.data(), 1), CharacterSet::RFC3986_UNRESERVED()));
            }
            dumpTable("bm_uri_userinfo", ui);   dumpSet("bm_uri_userinfo_set", ui);
            dumpTable("bm_uri_path", path);     dumpSet("bm_uri_path_set", path);
            dumpTable("bm_uri_unreserved", unres); dumpSet("bm_uri_unreserved_set", unres);
        }

        // --- log quoting (reuse by C13/C33/C34) ---
        {
            Table mb(256), un(256), lq(256);
            for (int c = 1; c < 256; ++c) {
                char in[2] = {static_cast<char>(c), 0};
                char *r = Format::QuoteMimeBlob(in); mb[c] = r; xfree(r);
                r = Format::QuoteUrlEncodeUsername(in); un[c] = r ? r : ""; xfree(r);
                char out[8] = {0};
                log_quoted_string(in, out); lq[c] = out;
            }
            dumpTable("bm_mimeblob", mb);
            dumpTable("bm_username_quote", un);
            dumpTable("bm_log_quoted_string", lq);
        }
    } catch (const std::string &e) {
        std::cerr << "gen_bytemaps: " << e << "\n";
        return 2;
    } catch (const std::exception &e) {
        std::cerr << "gen_bytemaps: " << e.what() << "\n";
        return 2;
    }
    return 0;
}
