(* handlers for the loopmf area (C63): headers are name:value hex pairs "6e616d65:76616c" *)
let hdr_of (s : string) : hdr =
  match String.split_on_char ':' s with
  | [n; v] -> { h_name = bytes_of_hex n; h_value = bytes_of_hex v }
  | _ -> failwith "hdr"
let meth_of = function
  | "GET" -> M_GET | "HEAD" -> M_HEAD | "POST" -> M_POST | "PUT" -> M_PUT | "DELETE" -> M_DELETE
  | "OPTIONS" -> M_OPTIONS | "TRACE" -> M_TRACE | _ -> failwith "method"
let cstate_of = function "0" -> CNone | "1" -> CFresh | "2" -> CStale | _ -> failwith "cstate"
let zs (l : z list) : string = if l = [] then "-" else String.concat "," (List.map string_of_z l)
let show = function
  | Local st -> "local " ^ string_of_n st
  | Forward (cond, mfs, via) -> "fwd cond=" ^ b2s cond ^ " mf=" ^ zs mfs ^ " via=" ^ hex_of_bytes via

let () =
  (* loopmf.handle <host> <method> <major> <minor> <cache 0|1|2> <nocache 0|1> <hdr>... *)
  reg "loopmf.handle" (fun (host :: m :: maj :: min :: cache :: nc :: hs) ->
    show (handle (cfg_of (bytes_of_hex host)) (meth_of m) (n_of_string maj) (n_of_string min)
            (cstate_of cache) (nc = "1") (List.map hdr_of hs)));
  reg "loopmf.loop" (fun (host :: hs) -> b2s (loop_detected (cfg_of (bytes_of_hex host)) (List.map hdr_of hs)));
  reg "loopmf.offset" (fun [v] -> match parse_offset (bytes_of_hex v) with None -> "fail" | Some x -> "ok " ^ string_of_z x);
  reg "loopmf.substr" (fun [n; h] -> b2s (str_list_is_substr (bytes_of_hex h) (bytes_of_hex n)));
  reg "loopmf.mffirst" (fun hs -> string_of_z (mf_first (List.map hdr_of hs)));
  reg "loopmf.addvia" (fun (host :: maj :: min :: hs) ->
    hex_of_bytes (fwd_via (cfg_of (bytes_of_hex host)) (n_of_string maj) (n_of_string min) (List.map hdr_of hs)))
