// Unit harness for the purge area (C20): drives the real string/URI helpers the invalidation code is built from.
//   purge.samehost <url1> <url2>            -> sameUrlHosts(url1, url2)      (static in src/clients/Client.cc; its text is cut
//                                              out of the working tree's Client.cc by checks/c20.py and included below)
//   purge.isrel <url>                       -> urlIsRelative(url)            (src/anyp/Uri.cc)
//   purge.encode <bytes>                    -> Uri::Encode(bytes, PathChars())
//   purge.resolve <front> <path> <ref> <w>  -> what purgeEntriesByHeader computes for a relative reference: copy the request
//                                              Uri (front = "http://host[:port]", path), path(ref) if ref starts with '/'
//                                              else addRelativePath(ref), then absolute(); w=1: absolute() had been called
//                                              on the original before the copy (as maybePurgeOthers does)
// Byte strings in hex, "-" = empty. src/anyp/Uri.cc is included into this unit (file-static PathChars()).
#include "squid.h"
#include <cstring>
#include <string>
#include "anyp/Uri.cc"
#include "mem/forward.h"
#include "hcommon.h"

#ifndef PURGE_EXTRACT
#error "PURGE_EXTRACT (text of sameUrlHosts cut out of src/clients/Client.cc) not given"
#endif
#include PURGE_EXTRACT

static std::string sb(const SBuf &b) { return tohex(b.rawContent(), b.length()); }

int main() {
    Mem::Init();
    AnyP::UriScheme::Init();
    std::string line;
    while (std::getline(std::cin, line)) {
        const auto w = splitws(line);
        std::string out;
        try {
            if (w.empty()) {
                out = "";
            } else if (w[0] == "purge.samehost" && w.size() == 3) {
                const auto a = unhex(w[1]), b = unhex(w[2]);
                out = sameUrlHosts(a.c_str(), b.c_str()) ? "1" : "0";
            } else if (w[0] == "purge.isrel" && w.size() == 2) {
                const auto a = unhex(w[1]);
                out = urlIsRelative(a.c_str()) ? "1" : "0";
            } else if (w[0] == "purge.encode" && w.size() == 2) {
                const auto a = unhex(w[1]);
                out = sb(AnyP::Uri::Encode(SBuf(a.data(), a.size()), PathChars()));
            } else if (w[0] == "purge.resolve" && w.size() == 5) {
                const auto front = unhex(w[1]), path = unhex(w[2]), ref = unhex(w[3]);
                // front = "http://host[:port]"
                const auto hp = front.substr(front.find("://") + 3);
                AnyP::Uri u;
                u.setScheme(AnyP::PROTO_HTTP, "http");
                const auto colon = hp.rfind(':');
                if (colon == std::string::npos) {
                    u.host(hp.c_str());
                    u.port(80);
                } else {
                    u.host(hp.substr(0, colon).c_str());
                    u.port(static_cast<AnyP::KnownPort>(atoi(hp.substr(colon + 1).c_str())));
                }
                u.path(SBuf(path.data(), path.size()));
                if (w[4] == "1")
                    (void)u.absolute();
                AnyP::Uri tmp = u;
                if (!ref.empty() && ref[0] == '/')
                    tmp.path(ref.c_str());
                else
                    tmp.addRelativePath(ref.c_str());
                out = sb(tmp.absolute());
            } else {
                out = "ERR bad-case";
            }
        } catch (const std::exception &e) {
            out = std::string("EXC ") + e.what();
        } catch (...) {
            out = "EXC unknown";
        }
        std::cout << out << "\n" << std::flush;
    }
    return 0;
}
