"""C16: disk cache crash consistency (rock; end to end through the real squid, killed at a chosen cache-file write).

This file also holds the scenario driver shared with C17 (checks/c17.py imports it)."""
import concurrent.futures, hashlib, json, os, random, shutil, struct, threading, time
from vlib import std, lab, common

PID = "C16"
META = {
    "text": "Model (DiskcrashModel.v): rock db image = slot id -> (DbCellHeader, payload area); the running cache (StoreMap "
            "anchors/slices + lowest-free slot set, PURGE only marks an entry, a store frees whatever occupies its anchor) turns "
            "every store into a session of slot writes in chain order, in the order tryWrite/writeToDisk reserve the slots "
            "(second-lowest free slot first), entrySize only in the last write; crash = any prefix of the write list plus an "
            "optionally torn next write (cut at a header field boundary or inside the payload); recovery = Rock::Rebuild "
            "(loadOneSlot .. addSlotToEntry/importEntry/finalizeOrThrow/freeBadEntry, validateOneEntry) transcribed branch by "
            "branch; hit = key lookup + walk of the mapped chain + swap-meta checks + Content-Length framing. Theorems "
            "(Properties_C16.v, closed under the global context): (1) C16_rock_crash_hit_is_complete_version_refuted: the full "
            "statement is FALSE at write boundaries (same-key overwrite into the recycled slots, killed before its last slot "
            "write: hit = new,new,old; versions are never compared) and (2) C16_rock_torn_write_..._refuted: FALSE for a torn "
            "slot write (header complete, payload cut) -- both witnesses replayed on the real binary on every run; (3) "
            "C16_rock_crash_consistent_write_once_partial: for ALL workloads that write every slot at most once and ALL crash "
            "points, every hit after recovery is the complete stream of a session with that key whose last write completed "
            "(induction over the rebuild scan and validation with per-chain invariants, chain-walk lemmas); (4) "
            "C16_rock_completed_entries_served_after_crash_write_once_partial: under the same hypotheses every completely "
            "written entry IS a hit with its bytes; (5) C16_rock_crash_consistent_unless_overwrite_in_flight_bounded_partial: "
            "exhaustive vm_compute sweep of all 41371 workloads of <= 4 operations (stores of 1-3 slots under two keys, purges; "
            "slot reuse and same-key overwrites included) x all crash points: a hit is wrong ONLY when a same-key overwrite is "
            "in flight at the crash.",
    "note": "partial: theorems and model cover rock only; ufs and aufs (swap.state replay, RebuildState, UFSSwapDir) are "
            "exercised end to end by the same driver and judged by the oracle alone (no model, no theorem; diskd not run); the general "
            "theorem needs the write-once hypothesis (slot reuse is covered only by the bounded sweep and the end-to-end "
            "runs); 'restarts successfully' rests on the end-to-end runs (the model's rebuild is total; assertion freedom of "
            "the rebuild on arbitrary images is C57's subject). Theorems are about the transcribed model, tied to the code by "
            "the generated layout constants (gen_diskcrash) and by the end-to-end correspondence (slot ids and lengths of "
            "every cache-file write, restart, hit/miss and hit bytes per URL) on the explored scenarios. Not modelled: SMP / "
            "asynchronous disk I/O, concurrent readers, slot exhaustion (purgeOne), header updates, writes torn inside one "
            "header field, writes torn inside the stored metadata/header prefix of a recycled slot (old and new prefix bytes "
            "coincide; those scenarios are judged by the oracle only), object bodies that imitate swap metadata. Trusted: Coq kernel, extraction, gen/gen_diskcrash.cc, "
            "vlib/lab.py stubs, lab/shim_crash.c.",
    "technique": "Coq proof (inductive invariants over the rebuild's slot scan and entry validation, quantified over all "
                 "write-once workloads and all crash prefixes; exhaustive vm_compute sweep for the bounded theorem; vm_compute "
                 "witnesses for the refutations) + end-to-end differential correspondence of the extracted model against the "
                 "running squid killed at chosen cache-file writes (LD_PRELOAD shim) + independent oracle on the bytes of "
                 "post-restart hits",
}

CACHE_MB = 16
SLOT = 16384
BODY_HDRS = [["Cache-Control", "max-age=100000"]]

_state = {}
_lock = threading.Lock()


# ------------------------------------------------------------------ helpers shared by generator, driver, oracle
def store_key(url):
    """storeKeyPublic(url, GET): MD5(method id byte 1 ++ url) as the two native-endian uint64 of DbCellHeader::key"""
    dg = hashlib.md5(b"\x01" + url.encode("latin1")).digest()
    return struct.unpack("<QQ", dg)


def objects_of(s):
    """the objects a scenario's ops create, in order: dicts id (1-based, global), u (url index), ver, size"""
    out = []
    ver = {}
    for op in s["ops"]:
        if op[0] in ("get", "reload"):
            u = op[1]
            ver[u] = ver.get(u, 0) + 1
            out.append({"id": len(out) + 1, "u": u, "ver": ver[u], "size": op[2]})
    return out


def digits(n):
    return len(str(n))


# ------------------------------------------------------------------ the driver: one scenario on one squid instance
def _wait(pred, timeout, step=0.02):
    t0 = time.time()
    while time.time() - t0 < timeout:
        if pred():
            return True
        time.sleep(step)
    return pred()


def _log_lines(path):
    try:
        with open(path) as f:
            return [l.split() for l in f.read().splitlines() if l.strip()]
    except OSError:
        return []


class Inst:
    """one squid with its own rock cache_dir and crash log"""

    def __init__(self, L, tag, store="rock"):
        with _lock:
            _state["n"] = _state.get("n", 0) + 1
            k = _state["n"]
        self.L = L
        self.name = "v%s%dp%d" % (tag, k, os.getpid())
        self.cdir = os.path.join(L.dir, self.name, "cd")
        self.clog = os.path.join(L.dir, self.name, "crash.log")
        env = {"LD_PRELOAD": _state["so"], "VERIF_CRASH_PREFIX": self.cdir + "/", "VERIF_CRASH_LOG": self.clog}
        self.store = store
        if store == "rock":
            conf = "cache_dir rock %s %d max-size=4000000\ndebug_options ALL,1 47,2\n" % (self.cdir, CACHE_MB)
        else:       # ufs / aufs: oracle-only runs (no model): small directory fan-out keeps squid -z fast
            conf = "cache_dir %s %s %d 4 4 max-size=4000000\ndebug_options ALL,1 47,2\n" % (store, self.cdir, CACHE_MB)
        self.sq = lab.Squid(L, conf, 0, env, self.name, "0 MB", "acl PURGE method PURGE\n", "http_access allow all")
        with _lock:
            L.procs.append(self.sq)
        os.makedirs(self.cdir, exist_ok=True)
        shutil.chown(self.cdir, "nobody")

    def rebuilt(self, timeout=30):
        return _wait(lambda: "Finished rebuilding" in self.sq.log_tail(6000) or not self.sq.alive(), timeout, 0.05) \
            and self.sq.alive()

    def nwrites(self):
        return len(_log_lines(self.clog))

    def main_writes(self):
        """(slot, len) of the cache-file writes of the squid processes after -z (the -z process writes the db header)"""
        out = []
        for w in _log_lines(self.clog):
            if len(w) >= 4 and w[1].endswith("/rock"):
                off, ln = int(w[2]), int(w[3])
                if off >= SLOT:
                    out.append(((off - SLOT) // SLOT, ln))
        return out

    def limits(self):
        """slot limit as squid reports it (debug 47,2)"""
        import re
        try:
            txt = open(self.sq.cache_log, "rb").read().decode("utf-8", "replace")
        except OSError:
            return None
        m = re.search(r"limits:\s+(\d+) disk bytes,\s+(\d+) entries, and\s+(\d+) slots", txt)
        return (int(m.group(2)), int(m.group(3))) if m else None

    def close(self):
        try:
            self.sq.stop()
        except Exception:
            pass
        with _lock:
            if self.sq in self.L.procs:
                self.L.procs.remove(self.sq)
        shutil.rmtree(os.path.join(self.L.dir, self.name), ignore_errors=True)


def _url(org, sid, u):
    return "http://127.0.0.1:%d/s%05du%d/obj" % (org.port, sid, u)


def _rid(sid, u):
    return "s%05du%d" % (sid, u)


def calibrate(L):
    """learn, from one stored object, the slot limit, the swap metadata length and the constant part of the stored
    prefix (swap metadata + reply header), by reading the db file squid wrote"""
    org = _state["org"]
    it = Inst(L, "cal")
    try:
        if it.sq.run_z() != 0:
            raise lab.LabError("squid -z failed: " + it.sq.log_tail())
        it.sq.start()
        if not it.rebuilt():
            raise lab.LabError("calibration: rebuild of the empty rock db did not finish: " + it.sq.log_tail())
        size = 23456
        _state["cur"][_rid(0, 0)] = (1, size)
        url = _url(org, 0, 0)
        r, raw = lab.get(it.sq.port, url)
        if r is None or r.status != 200 or len(r.body) != size:
            raise lab.LabError("calibration fetch failed")
        _wait(lambda: len(it.main_writes()) >= 2, 3)
        lim = it.limits()
        ws = it.main_writes()
        total = sum(ln - 40 for _, ln in ws)
        first = ws[0][0]
        with open(os.path.join(it.cdir, "rock"), "rb") as f:
            f.seek(SLOT + SLOT * first)
            cell = f.read(4096)
        k0, k1, esz, psz, ver, fs, ns = struct.unpack("<QQQIIii", cell[:40])
        if (k0, k1) != store_key(url):
            raise lab.LabError("calibration: store key of %s is not MD5(\\x01 url): the key model is wrong" % url)
        magic, mlen = struct.unpack("<bi", cell[40:45])
        prefix = total - size
        _state["cal"] = {"N": lim[1] if lim else (CACHE_MB * 1024 * 1024 - SLOT) // SLOT, "P": SLOT - 40, "mlen_c": mlen - len(url),
                         "prefix_c": prefix - len(url) - digits(size)}
        it.sq.stop()
    finally:
        it.close()


def prefix_of(url, size):
    c = _state["cal"]
    return c["prefix_c"] + len(url) + digits(size)


def mlen_of(url):
    return _state["cal"]["mlen_c"] + len(url)


def classify(resp, objs, P):
    """describe the bytes of a hit as segments obj:off:count of stored streams (as the model prints them)"""
    xv = resp.get("X-V")
    oh = None
    for o in objs:
        if "%04d" % o["ver"] == xv:
            oh = o
    if oh is None:
        return "H:?hdr"
    segs = [[oh["id"], 0, oh["prefix"]]]
    body = resp.body
    j = 0
    n = len(body)
    while j < n:
        s = oh["prefix"] + j
        found = None
        if body[j] == 0:
            z = j
            while z < n and body[z] == 0:
                z += 1
            if segs[-1][0] == 0:
                segs[-1][2] += z - j
            else:
                segs.append([0, 0, z - j])
            j = z
            continue
        # continuation of the current segment first, then the same stream offset in another object, then offsets
        # shifted by whole slots
        cands = []
        last = segs[-1]
        for o in objs:
            if o["id"] == last[0]:
                cands.append((o, last[1] + last[2]))
        for o in objs:
            cands.append((o, s))
        for m in (1, -1, 2, -2, 3, -3):
            for o in objs:
                cands.append((o, s + m * P))
        for o, off in cands:
            b = off - o["prefix"]
            if 0 <= b < o["size"] and o["body"][b] == body[j]:
                found = (o, off)
                break
        if found is None:
            return "H:" + "+".join("%d:%d:%d" % tuple(x) for x in segs) + "+?@%d" % j
        o, off = found
        # extend as far as the bytes agree
        b = off - o["prefix"]
        k = 0
        ob = o["body"]
        while j + k < n and b + k < o["size"] and ob[b + k] == body[j + k]:
            k += 1
        if segs[-1][0] == o["id"] and segs[-1][1] + segs[-1][2] == off:
            segs[-1][2] += k
        else:
            segs.append([o["id"], off, k])
        j += k
    return "H:" + "+".join("%d:%d:%d" % tuple(x) for x in segs)


def run_one(L, s):
    """drive one scenario; returns the observation line"""
    org = _state["org"]
    sid = s["_sid"]
    store = s.get("dir", "rock")
    it = Inst(L, "s", store)
    sq = it.sq
    cal = _state["cal"]
    try:
        if sq.run_z() != 0:
            return "SETUP-FAIL squid -z"
        at = s.get("at")
        if at:
            sq.env["VERIF_CRASH_AT"] = str(at)
            if s.get("partial"):
                sq.env["VERIF_CRASH_PARTIAL"] = str(s["partial"])
        early = False
        try:
            sq.start(wait=40)
        except lab.LabError:
            # ufs writes swap.state while starting: a small crash point kills squid before it listens
            if at and sq.proc is not None and sq.proc.poll() == 137:
                early = True
            else:
                return "SETUP-FAIL first start"
        if not early and not it.rebuilt():
            if at and sq.proc is not None and sq.proc.poll() == 137:
                early = True
            else:
                return "SETUP-FAIL first start"
        objs = objects_of(s)
        urls = sorted(set(op[1] for op in s["ops"]))
        for o in objs:
            o["url"] = _url(org, sid, o["u"])
            o["prefix"] = prefix_of(o["url"], o["size"])
            o["body"] = body_of(o["size"], 1000 * sid + o["id"])
        k = 0
        expected = 0
        crashed = early
        for op in ([] if early else s["ops"]):
            u = op[1]
            url = _url(org, sid, u)
            if op[0] in ("get", "reload"):
                o = objs[k]
                k += 1
                _state["cur"][_rid(sid, u)] = (o["ver"], o["size"], 1000 * sid + o["id"])
                hs = [("Cache-Control", "no-cache")] if op[0] == "reload" else []
                try:
                    r, raw = lab.get(sq.port, url, headers=hs, total=20.0)
                except OSError:
                    r = None
                expected += -(-(o["prefix"] + o["size"]) // cal["P"])
                if store == "rock":
                    _wait(lambda: len(it.main_writes()) >= expected or not sq.alive(), 3.0)
                else:       # ufs: object file pages + swap.state record; wait until the write log is quiet
                    seen = [it.nwrites(), time.time()]
                    def quiet():
                        k2 = it.nwrites()
                        if k2 != seen[0]:
                            seen[0], seen[1] = k2, time.time()
                        return not sq.alive() or time.time() - seen[1] > 0.25
                    _wait(quiet, 3.0)
            else:
                try:
                    r, raw = lab.get(sq.port, url, method="PURGE", total=10.0)
                except OSError:
                    r = None
            if not sq.alive():
                crashed = True
                break
        if at and not crashed:
            _wait(lambda: not sq.alive(), 1.0)
            crashed = not sq.alive()
        writes = it.main_writes()
        if crashed:
            try:
                sq.proc.wait(timeout=5)
            except Exception:
                pass
            sq.stop()
        else:
            sq.stop()            # clean shutdown: SIGTERM, shutdown_lifetime 0
            writes = it.main_writes()
        wtxt = ",".join("%d:%d" % w for w in writes) or "-"
        if store != "rock":
            wtxt = "-"          # the write trace of ufs is not modelled
        for v in ("VERIF_CRASH_AT", "VERIF_CRASH_PARTIAL"):
            sq.env.pop(v, None)
        open(sq.cache_log, "w").close()
        try:
            sq.start(wait=40)
        except lab.LabError as ex:
            return "W %s | RESTART-FAIL %s" % (wtxt, " ".join(str(ex).split())[-200:])
        if not it.rebuilt(60):
            return "W %s | RESTART-FAIL rebuild did not finish: %s" % (wtxt, " ".join(sq.log_tail(600).split())[-300:])
        res = []
        for u in urls:
            url = _url(org, sid, u)
            r, raw = lab.get(sq.port, url, headers=[("Cache-Control", "only-if-cached")], total=20.0)
            if r is None:
                res.append("ERR")
            elif r.status == 504:
                res.append("M")
            elif r.status == 200:
                res.append(classify(r, [o for o in objs if o["u"] == u], cal["P"]))
            else:
                res.append("S%d" % r.status)
        bad = sq.log_has("assertion failed", "FATAL")
        if bad or not sq.alive():
            return "W %s | RESTART-FAIL %s" % (wtxt, ",".join(bad) or "died")
        return "W %s | %s" % (wtxt, " ".join(res))
    finally:
        it.close()


_bodies = {}


def body_of(size, seed):
    """deterministic body without zero bytes (so that the zero filling of a never-written slot area is recognisable)"""
    with _lock:
        b = _bodies.get((size, seed))
    if b is None:
        r = random.Random(seed)
        block = bytes(r.randrange(1, 256) for _ in range(min(size, 4099)))
        b = (block * (size // len(block) + 1))[:size] if size else b""
        with _lock:
            if len(_bodies) > 400:
                _bodies.clear()
            _bodies[(size, seed)] = b
    return b


def _hook(rec, spec):
    cur = _state["cur"].get(rec["rid"])
    if not cur:
        return {"status": 404, "body": "nope"}
    ver, size = cur[0], cur[1]
    seed = cur[2] if len(cur) > 2 else 1
    import base64
    return {"body_b64": base64.b64encode(body_of(size, seed)).decode(), "headers": BODY_HDRS + [["X-V", "%04d" % ver]]}


def setup(L):
    if "org" in _state:
        return
    _state["cur"] = {}
    _state["org"] = L.origin(hook=_hook)
    _state["so"] = L.shim("crash")
    calibrate(L)


def run_impl(L, scenarios):
    """run_lab calls to_case and the oracle AFTER run_impl with the same dicts: every scenario keeps the id (hence the
    URLs and store keys) it got on its first run; each run uses a fresh squid instance and cache_dir"""
    setup(L)
    for s in scenarios:
        if "_sid" not in s:
            _state["sid"] = _state.get("sid", 0) + 1
            s["_sid"] = _state["sid"]
    with concurrent.futures.ThreadPoolExecutor(max_workers=int(os.environ.get("VERIF_C16_PAR", "8"))) as ex:
        return list(ex.map(lambda s: run_one(L, s), scenarios))


# ------------------------------------------------------------------ model side
def to_case(s):
    """the case line of the extracted model; needs the calibration (N, P, metadata and prefix lengths), which is taken
    from the db file squid writes for a fixed calibration object, and the origin's port (URL -> store key)"""
    cal = _state["cal"]
    org = _state["org"]
    sid = s["_sid"]
    ops = []
    k = 0
    objs = objects_of(s)
    for op in s["ops"]:
        url = _url(org, sid, op[1])
        k0, k1 = store_key(url)
        if op[0] in ("get", "reload"):
            o = objs[k]
            k += 1
            tot = prefix_of(url, o["size"]) + o["size"]
            ops.append("S:%d:%d:%d:%d:%d:%d:0" % (k0, k1, o["id"], o["ver"], tot, mlen_of(url)))
        else:
            ops.append("P:%d:%d" % (k0, k1))
    urls = sorted(set(op[1] for op in s["ops"]))
    qs = ["%d:%d" % store_key(_url(org, sid, u)) for u in urls]
    at = s.get("at")
    n = str(at - 1) if at else "-"
    torn = str(s["partial"]) if (at and s.get("partial")) else "-"
    return "dc.run %d %d %s %s %s / %s" % (cal["N"], cal["P"], n, torn, " ".join(ops), " ".join(qs))


# ------------------------------------------------------------------ the property, on what squid did
def parse_obs(s, obs):
    if not obs.startswith("W "):
        return None
    w, _, rest = obs[2:].partition(" | ")
    return w, rest.split()


def hit_is_whole_object(tok, cands):
    """tok = H:<o>:0:<total> for one of the candidate objects (id, total stream length)"""
    parts = tok[2:].split("+")
    if len(parts) != 1:
        return False
    f = parts[0].split(":")
    if len(f) != 3 or not all(x.lstrip("-").isdigit() for x in f):
        return False
    o, off, cnt = int(f[0]), int(f[1]), int(f[2])
    return any(o == c[0] and off == 0 and cnt == c[1] for c in cands)


def crashing_op(s):
    """index of the operation during which the kill happens (None = after all of them), by slot arithmetic"""
    at = s.get("at")
    if not at:
        return None
    org = _state["org"]
    cal = _state["cal"]
    done = 0
    objs = objects_of(s)
    k = 0
    for i, op in enumerate(s["ops"]):
        if op[0] == "purge":
            continue
        o = objs[k]
        k += 1
        url = _url(org, s["_sid"], op[1])
        done += -(-(prefix_of(url, o["size"]) + o["size"]) // cal["P"])
        if at <= done:
            return i
    return None


def bad_hit_signature(s, u, tok):
    """names the two known ways (and keeps everything else apart): (a) crash at a write boundary while a new version
    of the same URL is being written over the slots of its predecessor; (b) torn slot write"""
    nobj = len(set(x.split(":")[0] for x in tok[2:].split("+")))
    what = "mixed" if nobj > 1 else "cut"
    if s.get("partial"):
        return "oracle:hit-not-one-version:torn-write:" + what
    i = crashing_op(s)
    if i is not None and s["ops"][i][1] == u and any(op[1] == u and op[0] != "purge" for op in s["ops"][:i]):
        return "oracle:hit-not-one-version:same-url-overwrite-in-flight:" + what
    return "oracle:hit-not-one-version:other:" + what


def oracle(s, obs):
    """C16 on what squid did: it restarts; every hit after the restart is byte for byte one complete response
    (metadata + headers + body) that the origin had sent for that URL before the crash"""
    p = parse_obs(s, obs)
    if p is None:
        return ("oracle:no-run", "the scenario could not be driven: " + obs[:200])
    w, res = p
    if res and res[0] == "RESTART-FAIL":
        return ("oracle:restart-failed", "squid did not come back after the crash: " + obs[:300])
    urls = sorted(set(op[1] for op in s["ops"]))
    objs = objects_of(s)
    cal = _state.get("cal")
    org = _state.get("org")
    for u, tok in zip(urls, res):
        if tok == "M":
            continue
        if not tok.startswith("H:"):
            return ("oracle:no-answer", "URL %d: neither a hit nor a miss after the restart: %s" % (u, tok))
        cands = []
        for o in objs:
            if o["u"] == u:
                url = _url(org, s.get("_sid"), u)
                cands.append((o["id"], prefix_of(url, o["size"]) + o["size"]))
        if not hit_is_whole_object(tok, cands):
            return (bad_hit_signature(s, u, tok),
                    "URL %d: the hit served after the restart is not one complete stored response: content %s "
                    "(object:offset:count segments of the stored streams, object 0 = never-written zero bytes; "
                    "complete versions would be %s)" % (u, tok, cands))
    return None


# ------------------------------------------------------------------ generator
SIZES = [300, 5000, 16000, 16101, 17000, 30000, 32400, 33000, 40000, 49000, 70000]


def nwrites_est(size):
    return -(-(size + 300) // (SLOT - 40))


def gen_workload(rng, nurls, nops):
    ops = []
    have = set()
    for _ in range(nops):
        u = rng.randrange(nurls)
        r = rng.random()
        if u in have and r < 0.2:
            ops.append(["purge", u])
            have.discard(u)
        else:
            ops.append(["reload" if u in have else "get", u, rng.choice(SIZES)])
            have.add(u)
    return ops


def gen_scenarios(rng, n):
    """crash scenarios: a workload of stores / same-URL reloads / purges and a crash at one of its cache-file writes
    (every write boundary of the workload is used in turn), some with a torn crashing write"""
    out = []
    while len(out) < n:
        ops = gen_workload(rng, rng.choice([1, 2, 3]), rng.randrange(2, 6))
        total = sum(nwrites_est(op[2]) for op in ops if op[0] != "purge")
        ats = list(range(1, total + 1))
        rng.shuffle(ats)
        for at in ats[:max(1, min(len(ats), 4))]:
            s = {"k": "crash", "ops": ops, "at": at}
            if rng.random() < 0.3:
                s["partial"] = rng.choice([8, 16, 24, 28, 32, 36, 40, 41, 300, 1000, 4096, 8000, 16000])
            out.append(s)
    out = out[:n]
    # ufs / aufs: driven end to end and judged by the oracle only (no model): about one scenario in six
    for i in range(max(2, n // 6)):
        ops = gen_workload(rng, rng.choice([1, 2, 3]), rng.randrange(2, 5))
        s = {"k": "crash", "dir": rng.choice(["ufs", "aufs"]), "ops": ops,
             "at": rng.randrange(1, 4 + 4 * sum(nwrites_est(op[2]) for op in ops if op[0] != "purge"))}
        if rng.random() < 0.3:
            s["partial"] = rng.choice([100, 1000, 3000])
        out.append(s)
    return out


def run(res, tier):
    res.rule = ("random workloads of 2-5 operations (GET miss, reload of a cached URL with a new version of another size, "
                "PURGE) over 1-3 URLs with body sizes from 300 bytes to 70 KB (1-5 rock slots), squid killed at a randomly "
                "chosen cache-file write of the workload (30 % with only a prefix of that write reaching the file, cut at a "
                "DbCellHeader field boundary or inside the payload), restarted, every URL fetched with only-if-cached; plus "
                "about one scenario in six on a ufs or aufs cache_dir (killed at a random write to swap.state or an object "
                "file), judged by the oracle only; thorough = 240 generated scenarios with at most 4 crash points per workload "
                "(not every write boundary: each scenario costs a squid -z, two starts and a kill, about 4 s); "
                "non-trivial = the scenario ran to the post-restart queries")
    os.environ.setdefault("VERIF_STALL", "180")      # one model case takes 0.3-3 s; never mistake load for a hang
    try:
        std.run_lab(res, PID, tier, area="diskcrash", gens=["diskcrash"], gen_scenarios=gen_scenarios,
                    run_impl=run_impl, to_case=to_case, oracle=oracle,
                    corr_name="DiskcrashModel (writes, rebuild, hit) vs the running squid",
                    n_quick=18, n_thorough=240, seed_salt=16, model_blind=model_blind,
                    kind_fn=kind_fn, nontrivial_fn=lambda s, o: " | " in o, retries=1)
    finally:
        _state.clear()


def model_blind(s):
    """ufs/aufs scenarios are outside the model: only the oracle judges them"""
    if s.get("dir", "rock") != "rock":
        return True
    # a write torn INSIDE the stored prefix (swap metadata + reply header) of a slot that held an earlier version of
    # the same URL: old and new metadata bytes largely coincide (magic, length, key, URL), which the model's symbolic
    # bytes (every version's bytes distinct) cannot express -- e.g. cut after 41 bytes squid still serves the complete
    # OLD version. Judged by the oracle only.
    return bool(s.get("at")) and 40 < (s.get("partial") or 0) < 440


def kind_fn(s, o):
    p = parse_obs(s, o)
    if not p:
        return "norun"
    toks = p[1]
    if toks and toks[0] == "RESTART-FAIL":
        return "restart-fail"
    h = sum(1 for t in toks if t.startswith("H:"))
    return s.get("dir", "rock") + ":" + ("torn" if s.get("partial") else ("crash" if s.get("at") else "clean")) + \
        ":hits=%d/%d" % (h, len(toks))

