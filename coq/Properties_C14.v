(* Properties_C14.v — C14: conditional requests are answered according to their validators.
   Statements only; proofs live in CondProofs.v. Header ids and the `list` attribute come from gen/HdrTable_gen.v,
   regenerated from src/http/RegisteredHeaders* on every run. `pd` is Time::ParseRfc1123 (any function). *)
Require Import SquidV.Bytes SquidV.HopModel SquidV.CondModel SquidV.CondProofs.
Require Import SquidV.gen.HdrTable_gen.
Local Open Scope N_scope.

(* etagParseInit accepts exactly [W/] DQUOTE ... DQUOTE and returns the weak flag and the quoted string *)
Theorem C14_etag_parse_accepts_exactly_quoted : forall s t,
  no_nul s = true ->
  (etag_parse s = Some t <-> exists mid, s = render_tag (et_weak t) mid /\ et_str t = 34 :: mid ++ [34]).
Proof. exact etag_parse_spec. Qed.
Print Assumptions C14_etag_parse_accepts_exactly_quoted.

(* RFC 7232 2.3.2: weak comparison = opaque-tags equal; strong = additionally neither is weak *)
Theorem C14_weak_comparison : forall a b, etag_weak_eq a b = true <-> et_str a = et_str b.
Proof. exact weak_eq_spec. Qed.
Print Assumptions C14_weak_comparison.
Theorem C14_strong_comparison : forall a b,
  etag_strong_eq a b = true <-> et_weak a = false /\ et_weak b = false /\ et_str a = et_str b.
Proof. exact strong_eq_spec. Qed.
Print Assumptions C14_strong_comparison.
Theorem C14_weak_comparison_is_equivalence :
  (forall a, etag_weak_eq a a = true) /\
  (forall a b, etag_weak_eq a b = etag_weak_eq b a) /\
  (forall a b c, etag_weak_eq a b = true -> etag_weak_eq b c = true -> etag_weak_eq a c = true).
Proof. exact weak_eq_equivalence. Qed.
Print Assumptions C14_weak_comparison_is_equivalence.

(* 304 exactly when the validators match the stored 200 *)
Theorem C14_answer_304_iff_validators_match : forall pd r e,
  process_conditional pd r e = V304 <->
  en_status e = 200 /\
  (im_present r = true -> has_if_match_etag e r = true) /\
  ((inm_present r = true /\ has_if_none_match_etag e r = true /\ rq_get_or_head r = true) \/
   (inm_present r = false /\ (0 < rq_ims pd r)%Z /\ not_modified_since pd e (rq_ims pd r))).
Proof. exact verdict_304_iff. Qed.
Print Assumptions C14_answer_304_iff_validators_match.

(* If-Match failures get 412 (and only they, plus a matching If-None-Match on a method other than GET/HEAD) *)
Theorem C14_if_match_fail_412 : forall pd r e,
  process_conditional pd r e = V412 <->
  en_status e = 200 /\
  ((im_present r = true /\ has_if_match_etag e r = false) \/
   ((im_present r = true -> has_if_match_etag e r = true) /\
    inm_present r = true /\ has_if_none_match_etag e r = true /\ rq_get_or_head r = false)).
Proof. exact verdict_412_iff. Qed.
Print Assumptions C14_if_match_fail_412.

(* otherwise the full response: plain hit of the stored 200, or a forwarded miss for any other stored status *)
Theorem C14_otherwise_full_response : forall pd r e,
  process_conditional pd r e <> V304 -> process_conditional pd r e <> V412 ->
  (process_conditional pd r e = VHit /\ en_status e = 200) \/ (process_conditional pd r e = VMiss /\ en_status e <> 200).
Proof. exact verdict_otherwise_full. Qed.
Print Assumptions C14_otherwise_full_response.

Theorem C14_unconditional_request_is_plain_hit : forall pd r e, is_conditional pd r = false -> hit_verdict pd r e = VHit.
Proof. exact unconditional_is_hit. Qed.
Print Assumptions C14_unconditional_request_is_plain_hit.

(* If-None-Match overrides If-Modified-Since: the answer does not depend on any date *)
Theorem C14_if_none_match_overrides_ims : forall pd1 pd2 r e,
  has_id ID_IF_NONE_MATCH (rq_hdrs r) = true -> hit_verdict pd1 r e = hit_verdict pd2 r e.
Proof. exact inm_overrides_ims. Qed.
Print Assumptions C14_if_none_match_overrides_ims.

(* weak comparison only for GET/HEAD without Range; If-Match always strong *)
Theorem C14_weak_match_only_get_head_unranged : forall e r,
  (rq_ranged r = true \/ rq_get_or_head r = false) ->
  has_if_none_match_etag e r = has_one_of_etags (get_etag (en_hdrs e)) (get_list ID_IF_NONE_MATCH (rq_hdrs r)) false.
Proof. exact weak_only_get_head_unranged. Qed.
Print Assumptions C14_weak_match_only_get_head_unranged.

(* ---- the list walk: for every list of well-formed elements (`*` or [W/]"opaque"), written with any whitespace after
   an element, any mix of commas/whitespace (empty elements) between, before and after them, Squid iterates over
   exactly the elements ... *)
Theorem C14_list_reading_partial : forall es pre post,
  forallb elem_ok es = true -> forallb is_dl pre = true -> post_ok post = true ->
  list_items 44 (pre ++ render es ++ post) = map elem_text es.
Proof. exact list_items_render. Qed.
Print Assumptions C14_list_reading_partial.

(* ... and hasOneOfEtags answers "some listed element matches the entity-tag" (`*`, or equal opaque-tags and, for the
   strong comparison, neither tag weak). _partial: elem_ok excludes a backslash inside an opaque-tag, see _refuted. *)
Theorem C14_etag_list_walk_partial : forall es pre post rep w,
  forallb elem_ok es = true -> forallb is_dl pre = true -> post_ok post = true ->
  has_one_of_etags (Some rep) (pre ++ render es ++ post) w = existsb (elem_matches w rep) es.
Proof. exact has_one_of_render. Qed.
Print Assumptions C14_etag_list_walk_partial.

(* the partial statement covers exactly the RFC lists without a backslash in an opaque-tag *)
Theorem C14_partial_hypothesis_is_rfc_minus_backslash : forall e,
  elem_ok_rfc e = true -> forallb (fun c => negb (c =? 92)) (el_mid e) = true -> elem_ok e = true.
Proof. exact elem_ok_is_rfc_without_backslash. Qed.
Print Assumptions C14_partial_hypothesis_is_rfc_minus_backslash.

(* entity without a (valid) ETag: only `*` matches *)
Theorem C14_etag_list_walk_no_entity_tag : forall es pre post w,
  forallb elem_ok es = true -> forallb is_dl pre = true -> post_ok post = true ->
  has_one_of_etags None (pre ++ render es ++ post) w = existsb el_star es.
Proof. exact has_one_of_render_none. Qed.
Print Assumptions C14_etag_list_walk_no_entity_tag.

(* REFUTED at full RFC 7232 strength (etagc includes the backslash): the list `"a\", "v1"` contains the entity's tag
   "v1" but the walk says no (known finding C14-backslash-etag-list, replayed against the running proxy) *)
Theorem C14_etag_list_walk_refuted :
  exists es rep, forallb elem_ok_rfc es = true /\
    existsb (elem_matches false rep) es = true /\ has_one_of_etags (Some rep) (render es) false = false.
Proof. exact list_walk_refuted. Qed.
Print Assumptions C14_etag_list_walk_refuted.

(* ... so "412 only when If-Match fails" is refuted too: this request gets 412 although "v1" is listed *)
Theorem C14_if_match_412_only_on_failure_refuted : forall pd,
  get_etag (en_hdrs wit_entry) = Some wit_rep /\
  get_list ID_IF_MATCH (rq_hdrs wit_req) = render wit_es /\
  existsb (elem_matches false wit_rep) wit_es = true /\
  hit_verdict pd wit_req wit_entry = V412.
Proof. exact if_match_412_refuted. Qed.
Print Assumptions C14_if_match_412_only_on_failure_refuted.

(* ---- revalidation merge: HttpHeader::update (as repaired by /repo 5d5369d) in closed form; update_added fresh =
   the 304's fields that are not Vary, not hop-by-hop in the registered-header table and not nominated by the 304's
   own Connection field(s) ---- *)
Theorem C14_update_closed_form : forall old fresh,
  hdr_update old fresh = filter (fun h => negb (named_in (update_added fresh) h)) old ++ update_added fresh.
Proof. exact hdr_update_closed. Qed.
Print Assumptions C14_update_closed_form.

(* after an origin 304: body unchanged; per field name the stored fields are the 304's if it has any of that name
   (Vary excepted), else the old ones; when needUpdate says "nothing new" the stored values already equal the 304's *)
Theorem C14_revalidation_merge : forall o fresh,
  let o' := revalidated_304 o fresh in
  ob_body o' = ob_body o /\
  (need_update (ob_hdrs o) fresh = true ->
     forall n, fields_named n (ob_hdrs o') =
               if existsb (fun e => ci_eqb (h_name e) n) (update_added fresh)
               then fields_named n (update_added fresh) else fields_named n (ob_hdrs o)) /\
  (need_update (ob_hdrs o) fresh = false ->
     ob_hdrs o' = ob_hdrs o /\
     forall e, In e (update_added fresh) -> get_named (ob_hdrs o) (h_name e) = Some (get_by_name fresh (h_name e))).
Proof. exact revalidation_merge. Qed.
Print Assumptions C14_revalidation_merge.

Theorem C14_vary_not_updated : forall old fresh h,
  In h (hdr_update old fresh) -> hdr_id h = ID_VARY -> In h old.
Proof. exact vary_not_updated. Qed.
Print Assumptions C14_vary_not_updated.

(* nothing hop-by-hop of the 304 enters the stored header ... *)
Theorem C14_hop_by_hop_of_304_not_merged : forall old fresh h,
  In h (hdr_update old fresh) ->
  In h old \/
  (In h fresh /\ is_hopbyhop (hdr_id h) = false /\ is_member (conn_value fresh) (h_name h) = false /\ hdr_id h <> ID_VARY).
Proof. exact hop_by_hop_of_304_not_merged. Qed.
Print Assumptions C14_hop_by_hop_of_304_not_merged.
(* ... and a stored field disappears only because an end-to-end field of the 304 bears its name *)
Theorem C14_stored_field_replaced_only_by_end_to_end_field : forall old fresh h,
  In h old -> ~ In h (hdr_update old fresh) ->
  exists e, In e fresh /\ ci_eqb (h_name h) (h_name e) = true /\
            is_hopbyhop (hdr_id e) = false /\ is_member (conn_value fresh) (h_name e) = false.
Proof. exact stored_field_deleted_only_by_end_to_end_304_field. Qed.
Print Assumptions C14_stored_field_replaced_only_by_end_to_end_field.

(* the registered-header table still maps each id to one name (needed for "by name"; re-checked against the regenerated table) *)
Theorem C14_table_ids_unique : ids_unique hdr_table = true.
Proof. exact table_ids_unique. Qed.
Print Assumptions C14_table_ids_unique.

(* after an origin 304 the client is answered 304 only when its own If-Modified-Since covers the updated entity *)
Theorem C14_revalidated_304_only_when_ims_covers : forall pd r old fresh ts fail,
  let merged := update_on_not_modified (en_hdrs old) fresh in
  let e' := {| en_status := en_status old; en_hdrs := merged; en_timestamp := ts |} in
  snd (handle_ims_reply pd r old 304 fresh ts fail) = merged /\
  (fst (handle_ims_reply pd r old 304 fresh ts fail) = RForward304 <->
     (0 < rq_ims pd r)%Z /\ not_modified_since pd e' (rq_ims pd r)) /\
  (fst (handle_ims_reply pd r old 304 fresh ts fail) <> RForward304 ->
     fst (handle_ims_reply pd r old 304 fresh ts fail) = ROld).
Proof. exact ims_reply_304. Qed.
Print Assumptions C14_revalidated_304_only_when_ims_covers.

(* ---- non-vacuity ---- *)
(* `, W/"a,b"  ,, *` is a well-formed list: two elements, the weak tag "a,b" and `*` *)
Definition ex_es : list elem :=
  [ {| el_star := false; el_weak := true; el_mid := [97; 44; 98]; el_ws := [32; 32]; el_dl := [44; 32] |};
    {| el_star := true; el_weak := false; el_mid := []; el_ws := []; el_dl := [] |} ].
Example C14_list_example :
  forallb elem_ok ex_es = true /\
  [44; 32] ++ render ex_es ++ [] = map N.of_nat [44;32;87;47;34;97;44;98;34;32;32;44;44;32;42]%nat /\
  list_items 44 ([44; 32] ++ render ex_es ++ []) = [map N.of_nat [87;47;34;97;44;98;34]%nat; [42]].
Proof. vm_compute. repeat split. Qed.
(* GET with If-None-Match: W/"v1" and an If-Modified-Since that does NOT cover the entity, entity ETag "v1": 304 *)
Definition ex_req : creq :=
  {| rq_get_or_head := true; rq_ranged := false;
     rq_hdrs := [ one_field [73;102;45;78;111;110;101;45;77;97;116;99;104]%nat [87;47;34;118;49;34];
                  one_field [73;102;45;77;111;100;105;102;105;101;100;45;83;105;110;99;101]%nat [120] ] |}.
Example C14_decision_example :
  hit_verdict (fun _ => 5%Z) ex_req wit_entry = V304 /\
  hit_verdict (fun _ => 5%Z) {| rq_get_or_head := true; rq_ranged := true; rq_hdrs := rq_hdrs ex_req |} wit_entry = VHit /\
  hit_verdict (fun _ => 5%Z) {| rq_get_or_head := true; rq_ranged := false;
                                rq_hdrs := [one_field [73;102;45;77;97;116;99;104]%nat [87;47;34;118;49;34]] |} wit_entry = V412.
Proof. vm_compute. repeat split. Qed.
(* a 304 carrying X-Foo replaces both stored x-foo fields, keeps ETag, appends in the 304's order *)
Example C14_merge_example :
  let old := [one_field [69;84;97;103]%nat [49]; one_field [120;45;102;111;111]%nat [50]; one_field [88;45;70;111;111]%nat [51]] in
  let fresh := [one_field [88;45;70;79;79]%nat [52]; one_field [86;97;114;121]%nat [53];
                one_field [67;111;110;110;101;99;116;105;111;110]%nat [69;116;97;103];       (* Connection: Etag *)
                one_field [69;84;97;103]%nat [54];                                          (* ETag: nominated, skipped *)
                one_field [75;101;101;112;45;65;108;105;118;101]%nat [55]] in               (* Keep-Alive: hop-by-hop *)
  need_update old fresh = true /\
  update_on_not_modified old fresh = [one_field [69;84;97;103]%nat [49]; one_field [88;45;70;79;79]%nat [52]].
Proof. vm_compute. repeat split. Qed.
