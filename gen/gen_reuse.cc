// Table generator for C11 (ReuseModel.v): Cache-Control directive names/ids as HttpHdrCc.cc defines them now,
// the Http::StatusCode values named by HttpStateData::reusableReply's switch, the request-method table with
// respMaybeCacheable(), the implicit refresh_pattern rule (RefreshPattern constructor defaults) and the C
// integer limits httpHeaderParseInt() tests against.
#include "squid.h"
#include "HttpHdrCc.h"
#include "http/RequestMethod.h"
#include "http/StatusCode.h"
#include "RefreshPattern.h"
#include "sbuf/SBuf.h"
#include <climits>
#include <iostream>
#include <sstream>
#include <string>

static void bytes(const std::string &s) {
    std::cout << "[";
    for (size_t i = 0; i < s.size(); ++i) std::cout << (i ? ";" : "") << static_cast<int>(static_cast<unsigned char>(s[i]));
    std::cout << "]";
}

#define CCDEF(x) std::cout << "Definition " #x " : N := " << static_cast<int>(HttpHdrCcType::x) << ".\n"
#define SCDEF(x) std::cout << "Definition " #x " : N := " << static_cast<int>(Http::x) << ".\n"
#define MDEF(x) std::cout << "Definition " #x " : N := " << static_cast<int>(Http::x) << ".\n"

int main() {
    std::cout << "@@FILE Reuse_gen.v\n";
    std::cout << "(* generated from /repo by gen/gen_reuse.cc -- do not edit *)\n"
              "Require Import SquidV.Bytes.\nLocal Open Scope N_scope.\n";
    // directive names, by id, as printed by operator<<(std::ostream&, HttpHdrCcType): "name[id]"
    std::cout << "(* (directive name, HttpHdrCcType) in table order; lookups are case-insensitive *)\n"
              "Definition cc_attrs : list (list N * N) := [\n";
    for (int i = 0; i < static_cast<int>(HttpHdrCcType::CC_ENUM_END); ++i) {
        std::ostringstream os;
        os << static_cast<HttpHdrCcType>(i);
        std::string s = os.str();
        const auto br = s.rfind('[');
        std::cout << (i ? ";\n  (" : "  (");
        bytes(s.substr(0, br));
        std::cout << ", " << i << ")";
    }
    std::cout << "].\n";
    CCDEF(CC_PUBLIC); CCDEF(CC_PRIVATE); CCDEF(CC_NO_CACHE); CCDEF(CC_NO_STORE); CCDEF(CC_NO_TRANSFORM);
    CCDEF(CC_MUST_REVALIDATE); CCDEF(CC_PROXY_REVALIDATE); CCDEF(CC_MAX_AGE); CCDEF(CC_S_MAXAGE);
    CCDEF(CC_MAX_STALE); CCDEF(CC_MIN_FRESH); CCDEF(CC_ONLY_IF_CACHED); CCDEF(CC_STALE_IF_ERROR);
    CCDEF(CC_IMMUTABLE); CCDEF(CC_OTHER); CCDEF(CC_ENUM_END);
    std::cout << "Definition MAX_STALE_ANY : Z := " << HttpHdrCc::MAX_STALE_ANY << "%Z.\n";
    std::cout << "Definition C_INT_MIN : Z := (" << INT_MIN << ")%Z.\nDefinition C_INT_MAX : Z := " << INT_MAX << "%Z.\n";
    std::cout << "Definition C_LONG_MIN : Z := (" << LONG_MIN << ")%Z.\nDefinition C_LONG_MAX : Z := " << LONG_MAX << "%Z.\n";

    // status codes named in HttpStateData::reusableReply
    SCDEF(scOkay); SCDEF(scNonAuthoritativeInformation); SCDEF(scMultipleChoices); SCDEF(scMovedPermanently);
    SCDEF(scPermanentRedirect); SCDEF(scGone); SCDEF(scFound); SCDEF(scTemporaryRedirect); SCDEF(scNoContent);
    SCDEF(scUseProxy); SCDEF(scForbidden); SCDEF(scNotFound); SCDEF(scMethodNotAllowed); SCDEF(scUriTooLong);
    SCDEF(scInternalServerError); SCDEF(scNotImplemented); SCDEF(scBadGateway); SCDEF(scServiceUnavailable);
    SCDEF(scGatewayTimeout); SCDEF(scMisdirectedRequest); SCDEF(scBadRequest); SCDEF(scSeeOther);
    SCDEF(scNotModified); SCDEF(scUnauthorized); SCDEF(scProxyAuthenticationRequired); SCDEF(scPaymentRequired);
    SCDEF(scInsufficientStorage); SCDEF(scPartialContent); SCDEF(scNotAcceptable); SCDEF(scRequestTimeout);
    SCDEF(scConflict); SCDEF(scLengthRequired); SCDEF(scPreconditionFailed); SCDEF(scContentTooLarge);
    SCDEF(scUnsupportedMediaType); SCDEF(scUnprocessableEntity); SCDEF(scLocked); SCDEF(scFailedDependency);
    SCDEF(scRequestedRangeNotSatisfied); SCDEF(scExpectationFailed); SCDEF(scInvalidHeader); SCDEF(scHeaderTooLarge);

    // request methods: (id, image, respMaybeCacheable)
    std::cout << "Definition method_table : list (N * list N * bool) := [\n";
    bool first = true;
    for (int i = Http::METHOD_NONE + 1; i < Http::METHOD_ENUM_END; ++i) {
        if (i == Http::METHOD_OTHER) continue; // has no fixed image
        HttpRequestMethod m(static_cast<Http::MethodType>(i));
        const SBuf im = m.image();
        std::cout << (first ? "  (" : ";\n  (") << i << ", ";
        first = false;
        bytes(std::string(im.rawContent(), im.length()));
        std::cout << ", " << (m.respMaybeCacheable() ? "true" : "false") << ")";
    }
    std::cout << "].\n";
    MDEF(METHOD_GET); MDEF(METHOD_HEAD); MDEF(METHOD_PURGE); MDEF(METHOD_OTHER);
    {
        HttpRequestMethod m(Http::METHOD_OTHER);
        std::cout << "Definition method_other_cacheable : bool := " << (m.respMaybeCacheable() ? "true" : "false") << ".\n";
    }

    // the implicit refresh_pattern rule (refresh.cc: static RefreshPattern DefaultRefresh(nullptr))
    {
        RefreshPattern r(nullptr);
        std::cout << "Definition refresh_default_min : Z := (" << static_cast<long>(r.min) << ")%Z.\n";
        std::cout << "Definition refresh_default_pct_ppm : Z := (" << static_cast<long>(r.pct * 1000000.0 + 0.5) << ")%Z.\n";
        std::cout << "Definition refresh_default_max : Z := (" << static_cast<long>(r.max) << ")%Z.\n";
        std::cout << "Definition refresh_default_max_stale : Z := (" << r.max_stale << ")%Z.\n";
        std::cout << "Definition refresh_default_flags_clear : bool := "
                  << ((!r.flags.refresh_ims && !r.flags.store_stale
#if USE_HTTP_VIOLATIONS
                       && !r.flags.override_expire && !r.flags.override_lastmod && !r.flags.reload_into_ims
                       && !r.flags.ignore_reload && !r.flags.ignore_no_store && !r.flags.ignore_private
#endif
                      ) ? "true" : "false") << ".\n";
    }
#if USE_HTTP_VIOLATIONS
    std::cout << "Definition use_http_violations : bool := true.\n";
#else
    std::cout << "Definition use_http_violations : bool := false.\n";
#endif
    return 0;
}
