(* Extract_storemap.v — extraction of the StoreMap model (C55) to OCaml.
   Only ExtrOcamlBasic is used; N, Z, positive and nat stay the extracted Coq datatypes. *)
Require Import ExtrOcamlBasic.
Require Import SquidV.Bytes SquidV.RwlockModel SquidV.StoremapModel.
Extraction "m_storemap.ml" srun_case sprobe cm_lmode.
