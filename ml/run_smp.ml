(* handlers for the smp area (C18, C19) *)
let ws_of (s : string) : n list = if s = "-" then [] else List.map n_of_string (String.split_on_char ',' s)
let cls_of = function "P" -> Pos | "S" -> Share | _ -> Not
let out_s (c : cfg) (cl : client) : string =
  match outcome_of c cl with
  | OFull v -> "F" ^ (if int_of_n v = 1 then "1" else "+")
  | OTrunc v -> "T" ^ (if int_of_n v = 1 then "1" else "+")
  | OPending -> "P"
  | ONone -> "N"
let rec take k l = if k = 0 then [] else match l with [] -> [] | x :: r -> x :: take (k - 1) r
let rec drop k l = if k = 0 then l else match l with [] -> [] | _ :: r -> drop (k - 1) r
let join c l = if l = [] then "-" else String.concat "," (List.map (out_s c) l)

let () =
  (* smp.c18 <smp> <memmax> <nw> <lw> <A> <B> <C> <cls> <known> <total> <first> <cut|-> *)
  reg "smp.c18" (fun [smp; memmax; nw; lw; a; b; cc; k; known; total; first; cut] ->
      let p = { p_cls = cls_of k; p_known = (known = "1"); p_total = n_of_string total } in
      let c = { smp = (smp = "1"); memmax = n_of_string memmax; par = (fun _ -> p) } in
      let s = { sc_nw = n_of_string nw; sc_lw = n_of_string lw; sc_A = ws_of a; sc_B = ws_of b; sc_C = ws_of cc;
                sc_first = n_of_string first; sc_cutat = (if cut = "-" then None else Some (n_of_string cut)) } in
      let (g, n1) = run_scen c s in
      let cl = g.cs in
      let na = List.length s.sc_A and nb = List.length s.sc_B in
      Printf.sprintf "n=%s/%s L=%s A=%s B=%s C=%s" (string_of_n n1) (string_of_n g.nf)
        (join c (take 1 cl)) (join c (take na (drop 1 cl))) (join c (take nb (drop (1 + na) cl)))
        (join c (drop (1 + na + nb) cl)))
