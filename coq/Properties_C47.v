(* Properties_C47.v — C47: helper replies reach the request that asked. Statements only. *)
Require Import SquidV.Bytes SquidV.AuthhelperModel SquidV.AuthhelperProofs.
Local Open Scope N_scope.

Theorem C47_eof_drops_everything : forall st, h_reqs (fst (heof st)) = [].
Proof. exact heof_drops. Qed.
Print Assumptions C47_eof_drops_everything.
