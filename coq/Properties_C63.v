(* Properties_C63.v — C63: forwarding loops and Max-Forwards are honoured.
   Statements only; proofs live in LoopmfProofs.v. The application string inside the Via comment, the int64 limits,
   the isspace table and the header ids come from gen/Loopmf_gen.v and gen/HdrTable_gen.v, regenerated from the
   code on every run. `nonul` = the text has no NUL byte (the request parser rejects NUL in header blocks; host and
   application strings are C strings). *)
Require Import SquidV.Bytes SquidV.HopModel SquidV.LoopmfModel SquidV.LoopmfProofs.
Require Import SquidV.gen.HdrTable_gen SquidV.gen.Loopmf_gen.
Local Open Scope N_scope.

(* the hand-written model and the code agree on which header ids are Via / Max-Forwards, Via is a list header
   (getList asserts it) and Max-Forwards an int64 header (getInt64 asserts it) *)
Theorem C63_tables_consistent :
  ID_VIA = gen_id_via /\ ID_MAX_FORWARDS = gen_id_max_forwards /\ gen_via_is_list = true /\ gen_max_forwards_is_int64 = true.
Proof. exact gen_tables_consistent. Qed.
Print Assumptions C63_tables_consistent.

(* ---------------- forwarding loops ---------------- *)

(* the strstr model (strListIsSubstr / String::find) finds the needle iff the text is a ++ needle ++ b *)
Theorem C63_substring_search_correct : forall needle hay,
  is_substr needle hay = true <-> exists a b, hay = a ++ needle ++ b.
Proof. exact is_substr_spec. Qed.
Print Assumptions C63_substring_search_correct.

(* loopDetected is set exactly when a Via field exists and the ", "-joined value of all Via fields contains
   " <host> (<app>)" *)
Theorem C63_loop_detection_is_substring_of_joined_via : forall c hs,
  loop_detected c hs = true <->
  has_via hs = true /\ exists a b, via_value hs = a ++ c_str (this_cache2 c) ++ b.
Proof. exact loop_detected_spec. Qed.
Print Assumptions C63_loop_detection_is_substring_of_joined_via.

(* an entry " <host> (<app>)" is found wherever it stands: in any of several Via fields (field names in any letter
   case, by the regenerated header table), at any position of the list, whatever precedes and follows it *)
Theorem C63_own_via_entry_detected_anywhere : forall c hs h pre post,
  nonul (c_host c) = true -> nonul (c_app c) = true ->
  In h hs -> is_via h = true -> nonul pre = true ->
  h_value h = pre ++ this_cache2 c ++ post ->
  loop_detected c hs = true.
Proof. exact own_entry_detected. Qed.
Print Assumptions C63_own_via_entry_detected_anywhere.

(* round trip of Via construction and loop detection: whatever this Squid sends upstream as Via (addVia: received
   list + "<major>.<minor> <host> (<app>)", any HTTP version, any received headers hs0) is recognised when it comes
   back in any Via field, however later hops extended it *)
Theorem C63_forwarded_via_recognised_on_return : forall c major minor hs0 hs h post,
  nonul (c_host c) = true -> nonul (c_app c) = true ->
  In h hs -> is_via h = true ->
  h_value h = fwd_via c major minor hs0 ++ post ->
  loop_detected c hs = true.
Proof. exact via_round_trip. Qed.
Print Assumptions C63_forwarded_via_recognised_on_return.

(* every forwarded request carries the received Via list followed by this Squid's entry, and its Max-Forwards
   fields are those computed by the copy loop *)
Theorem C63_forwarded_request_shape : forall c m major minor cache nocache hs cnd mfs via,
  handle c m major minor cache nocache hs = Forward cnd mfs via ->
  via = fwd_via c major minor hs /\ mfs = fwd_mfs m hs.
Proof. exact forwarded_via. Qed.
Print Assumptions C63_forwarded_request_shape.

(* loopDetected means refused: a request for which the loop test fires is never sent upstream -- every method,
   HTTP version, store state (none / fresh / STALE since the processExpired repair c010c4f), no-cache or not *)
Theorem C63_detected_loop_never_forwarded : forall c m major minor cache nocache hs,
  loop_detected c hs = true ->
  exists st, handle c m major minor cache nocache hs = Local st.
Proof. exact loop_not_forwarded. Qed.
Print Assumptions C63_detected_loop_never_forwarded.

(* the same from the other side: whatever goes upstream had no detected loop *)
Theorem C63_forwarded_request_had_no_detected_loop : forall c m major minor cache nocache hs cnd mfs via,
  handle c m major minor cache nocache hs = Forward cnd mfs via -> loop_detected c hs = false.
Proof. exact forwarded_no_loop. Qed.
Print Assumptions C63_forwarded_request_had_no_detected_loop.

(* "a request whose Via already names this Squid is not forwarded again" -- PARTIAL for ONE reason only: "names this
   Squid" is proved for an entry written byte-for-byte as Squid writes it (" <host> (<app>)", any position, any
   field, any prefix/suffix), for every method / version / store state incl. stale hits. Missing: entries that name
   the host in another letter case or without / with another comment -- see the two _refuted theorems (F15). *)
Theorem C63_own_via_not_forwarded_partial : forall c m major minor cache nocache hs h pre post,
  nonul (c_host c) = true -> nonul (c_app c) = true ->
  In h hs -> is_via h = true -> nonul pre = true ->
  h_value h = pre ++ this_cache2 c ++ post ->
  exists st, handle c m major minor cache nocache hs = Local st.
Proof. exact own_via_not_forwarded_partial. Qed.
Print Assumptions C63_own_via_not_forwarded_partial.

(* full strength for what this Squid itself wrote: a request it forwarded earlier (any received headers hs0, any
   version) that comes back -- extended by later hops, in any Via field -- is never forwarded again *)
Theorem C63_returned_request_not_forwarded : forall c major minor hs0 m' major' minor' cache nocache hs h post,
  nonul (c_host c) = true -> nonul (c_app c) = true ->
  In h hs -> is_via h = true ->
  h_value h = fwd_via c major minor hs0 ++ post ->
  exists st, handle c m' major' minor' cache nocache hs = Local st.
Proof. exact returned_request_not_forwarded. Qed.
Print Assumptions C63_returned_request_not_forwarded.

(* a conditional revalidation goes upstream only for a stale entry, without no-cache, never on TRACE *)
Theorem C63_revalidation_only_for_stale_entry : forall c m major minor cache nocache hs mfs via,
  handle c m major minor cache nocache hs = Forward true mfs via ->
  cache = CStale /\ nocache = false /\ is_trace m = false.
Proof. exact revalidation_only_stale. Qed.
Print Assumptions C63_revalidation_only_for_stale_entry.

(* 403 is produced by loop detection only *)
Theorem C63_no_loop_no_403 : forall c m major minor cache nocache hs,
  loop_detected c hs = false -> handle c m major minor cache nocache hs <> Local st_forbidden.
Proof. exact no_loop_no_403. Qed.
Print Assumptions C63_no_loop_no_403.

(* REFUTED (known finding F15): an entry naming this host in another letter case is forwarded on a plain miss *)
Theorem C63_own_via_other_case_refuted :
  exists c hs h host', In h hs /\ is_via h = true /\ ci_eqb host' (c_host c) = true /\
    h_value h = w_11 ++ host' ++ [32; 40] ++ c_app c ++ [41] /\
    is_local (handle c M_GET 1 1 CNone false hs) = false.
Proof. exact own_via_other_case_refuted. Qed.
Print Assumptions C63_own_via_other_case_refuted.

(* REFUTED (known finding F15): "1.1 <host>" without the comment is forwarded on a plain miss *)
Theorem C63_own_via_without_comment_refuted :
  exists c hs h, In h hs /\ is_via h = true /\ h_value h = w_11 ++ c_host c /\
    is_local (handle c M_GET 1 1 CNone false hs) = false.
Proof. exact own_via_without_comment_refuted. Qed.
Print Assumptions C63_own_via_without_comment_refuted.

(* ---------------- Max-Forwards ---------------- *)

(* OPTIONS / TRACE whose (first) Max-Forwards field reads 0 is answered by Squid (501 / echo 200), never forwarded,
   whatever else the request carries *)
Theorem C63_maxforwards_zero_answered_locally : forall c m major minor cache nocache hs,
  is_options m || is_trace m = true -> mf_first hs = 0%Z ->
  handle c m major minor cache nocache hs = Local (if is_options m then st_not_implemented else st_ok).
Proof. exact mf_zero_local. Qed.
Print Assumptions C63_maxforwards_zero_answered_locally.

(* ... and 501 is produced only that way *)
Theorem C63_501_only_for_options_maxforwards_zero : forall c m major minor cache nocache hs,
  handle c m major minor cache nocache hs = Local st_not_implemented -> is_options m = true /\ mf_first hs = 0%Z.
Proof. exact local_501_only_mf_zero. Qed.
Print Assumptions C63_501_only_for_options_maxforwards_zero.

(* the strtoll model reads "%d"-printed numbers back: Max-Forwards: n is n for every n <= INT64_MAX (regenerated) *)
Theorem C63_decimal_maxforwards_read_exactly : forall n,
  (Z.of_N n <= llong_max)%Z -> parse_offset (dec_N n) = Some (Z.of_N n).
Proof. exact parse_offset_decimal. Qed.
Print Assumptions C63_decimal_maxforwards_read_exactly.

(* every Max-Forwards value sent upstream is a received (parsed) value minus one: never negative, never equal to a
   received value unless another field says one more, computed inside int64; and only TRACE / OPTIONS carry any *)
Theorem C63_forwarded_maxforwards_is_received_minus_one : forall c m major minor cache nocache hs cnd mfs via x,
  handle c m major minor cache nocache hs = Forward cnd mfs via -> In x mfs ->
  is_trace m || is_options m = true /\
  exists e, In e hs /\ is_mf e = true /\ parse_offset (h_value e) = Some (x + 1)%Z /\ (0 <= x < llong_max)%Z.
Proof. exact forwarded_mfs_sound. Qed.
Print Assumptions C63_forwarded_maxforwards_is_received_minus_one.

(* the property's second sentence — PARTIAL: for a request with one decimal Max-Forwards field n <= INT64_MAX that is
   not refused as a loop: n = 0 is answered locally, n > 0 is forwarded with exactly [n-1]
   (missing: n > INT64_MAX, see the _refuted theorem) *)
Theorem C63_maxforwards_decimal_partial : forall c m major minor nocache hs e n,
  is_options m || is_trace m = true ->
  filter is_mf hs = [e] -> h_value e = dec_N n -> (Z.of_N n <= llong_max)%Z ->
  loop_detected c hs = false ->
  handle c m major minor CNone nocache hs =
    if n =? 0 then Local (if is_options m then st_not_implemented else st_ok)
    else Forward false [(Z.of_N n - 1)%Z] (fwd_via c major minor hs).
Proof. exact maxforwards_decimal_partial. Qed.
Print Assumptions C63_maxforwards_decimal_partial.

(* REFUTED beyond int64 (known finding): OPTIONS with Max-Forwards: 9223372036854775808 is forwarded WITHOUT a
   Max-Forwards field (strtoll ERANGE => getInt64 = -1 => the field is dropped, not decremented or capped) *)
Theorem C63_maxforwards_beyond_int64_refuted :
  exists c hs e n, filter is_mf hs = [e] /\ h_value e = dec_N n /\ (llong_max < Z.of_N n)%Z /\ loop_detected c hs = false /\
    handle c M_OPTIONS 1 1 CNone false hs = Forward false [] (fwd_via c 1 1 hs).
Proof. exact maxforwards_beyond_int64_refuted. Qed.
Print Assumptions C63_maxforwards_beyond_int64_refuted.

(* ---------------- non-vacuity ---------------- *)
(* own entry in the middle of the second of two Via fields, field name in upper case: detected, GET miss => 403 *)
Example C63_example_own_entry_second_field :
  let hs := [mk_via (map N.of_nat [49;46;48;32;102;114;101;100]%nat);
             {| h_name := map N.of_nat [86;73;65]%nat;
                h_value := map N.of_nat [49;46;49;32;97]%nat ++ [44; 32] ++ w_11 ++ this_cache w_cfg ++ [44; 32; 49; 46; 49; 32; 98] |}] in
  nonul (c_host w_cfg) = true /\ nonul (c_app w_cfg) = true /\
  loop_detected w_cfg hs = true /\ handle w_cfg M_GET 1 1 CNone false hs = Local st_forbidden.
Proof. vm_compute. repeat split; reflexivity. Qed.

(* what is forwarded for a request that already has a Via field, and that it is refused when it returns *)
Example C63_example_round_trip :
  let hs0 := [mk_via (map N.of_nat [49;46;48;32;102;114;101;100]%nat)] in
  let back := [mk_via (fwd_via w_cfg 1 1 hs0 ++ map N.of_nat [44;32;49;46;49;32;122]%nat)] in
  handle w_cfg M_POST 1 0 CNone false back = Local st_forbidden.
Proof. vm_compute. reflexivity. Qed.

(* Max-Forwards: 5 on OPTIONS => forwarded with 4; Max-Forwards: 0 on TRACE => echoed locally; INT64_MAX is decremented *)
Example C63_example_maxforwards :
  (exists via, handle w_cfg M_OPTIONS 1 1 CNone false [mk_mf (dec_N 5)] = Forward false [4%Z] via) /\
  handle w_cfg M_TRACE 1 1 CNone false [mk_mf (dec_N 0)] = Local st_ok /\
  (exists via, handle w_cfg M_TRACE 1 1 CNone false [mk_mf (dec_N 9223372036854775807)] = Forward false [9223372036854775806%Z] via) /\
  loop_detected w_cfg [mk_mf (dec_N 5)] = false /\ filter is_mf [mk_mf (dec_N 5)] = [mk_mf (dec_N 5)].
Proof. vm_compute. repeat split; try reflexivity; eexists; reflexivity. Qed.

(* own Via against the three store states: fresh hit served from cache, stale hit refused (repaired F16),
   stale + no-cache refused -- nothing forwarded in any of them *)
Example C63_example_cache_states :
  let hs := [mk_via (w_11 ++ this_cache w_cfg)] in
  handle w_cfg M_GET 1 1 CFresh false hs = Local st_ok /\ handle w_cfg M_GET 1 1 CStale false hs = Local st_forbidden /\
  handle w_cfg M_HEAD 1 1 CStale false hs = Local st_forbidden /\ handle w_cfg M_GET 1 1 CStale true hs = Local st_forbidden /\
  (exists mfs via, handle w_cfg M_GET 1 1 CStale false [] = Forward true mfs via).
Proof. vm_compute. repeat split; try reflexivity. eexists; eexists; reflexivity. Qed.
