// Unit harness for C63 (component level; the decision itself is checked end to end through the squid binary):
// httpHeaderParseOffset / HttpHeader::getInt64, strListIsSubstr (String::find), HttpHeader::getList + addVia,
// compiled from /repo's working tree.
// stdin: one case per line; stdout: one canonical result line per case.
//   loopmf.offset <hex value>                         httpHeaderParseOffset(c-string)      -> "ok <v>" | "fail"
//   loopmf.substr <hex needle> <hex hay>              strListIsSubstr(&String(hay), needle, ',') -> 0 | 1
//   loopmf.mffirst <name:value hex>...                HttpHeader::getInt64(MAX_FORWARDS)   -> <v>
//   loopmf.addvia <hex host> <major> <minor> <name:value hex>...
//        ThisCache is formatted exactly as src/cache_cf.cc does ("%s (%s)", host, APP_FULLNAME); then
//        out.addVia(ProtocolVersion(HTTP, major, minor), &in) and the resulting Via field value in hex
#include "squid.h"
#include "hcommon.h"
#include "anyp/ProtocolVersion.h"
#include "globals.h"
#include "HttpHeader.h"
#include "HttpHeaderTools.h"
#include "SquidConfig.h"
#include "SquidString.h"
#include "StrList.h"
#include "mem/forward.h"
#include "sbuf/SBuf.h"
#include <cstring>

class SquidConfig Config;

static void addEntries(HttpHeader &h, const std::vector<std::string> &a, size_t from)
{
    for (size_t i = from; i < a.size(); ++i) {
        const auto colon = a[i].find(':');
        const std::string name = unhex(a[i].substr(0, colon));
        const std::string value = unhex(a[i].substr(colon + 1));
        auto id = Http::HeaderLookupTable.lookup(name.data(), name.size()).id;
        if (id == Http::HdrType::BAD_HDR)
            id = Http::HdrType::OTHER;
        h.addEntry(new HttpHeaderEntry(id, SBuf(name.data(), name.size()), value.c_str()));
    }
}

int main()
{
    Mem::Init();
    httpHeaderInitModule();
    std::string line;
    while (std::getline(std::cin, line)) {
        auto a = splitws(line);
        if (a.empty()) { std::cout << "\n"; continue; }
        const std::string &op = a[0];
        std::ostringstream o;
        try {
            if (op == "loopmf.offset" && a.size() == 2) {
                const std::string s = unhex(a[1]);
                int64_t v = -7;
                if (httpHeaderParseOffset(s.c_str(), &v)) o << "ok " << v;
                else o << "fail";
            } else if (op == "loopmf.substr" && a.size() == 3) {
                const std::string n = unhex(a[1]), h = unhex(a[2]);
                String s;
                if (!h.empty()) s.assign(h.data(), h.size());
                o << (strListIsSubstr(&s, n.c_str(), ',') ? 1 : 0);
            } else if (op == "loopmf.mffirst") {
                HttpHeader in(hoRequest);
                addEntries(in, a, 1);
                o << in.getInt64(Http::HdrType::MAX_FORWARDS);
            } else if (op == "loopmf.addvia" && a.size() >= 4) {
                const std::string host = unhex(a[1]);
                snprintf(ThisCache, sizeof(ThisCache), "%s (%s)", host.c_str(), APP_FULLNAME);
                Config.onoff.via = 1;
                HttpHeader in(hoRequest);
                addEntries(in, a, 4);
                HttpHeader out(hoRequest);
                out.addVia(AnyP::ProtocolVersion(AnyP::PROTO_HTTP, std::stoi(a[2]), std::stoi(a[3])), &in);
                const String v = out.getList(Http::HdrType::VIA);
                o << tohex(v.rawBuf(), v.size());
            } else o << "ERR unknown-entry " << op;
        } catch (const std::exception &e) { o.str(""); o << "EXC " << e.what(); }
        catch (...) { o.str(""); o << "EXC unknown"; }
        std::cout << o.str() << "\n" << std::flush;
    }
    return 0;
}
