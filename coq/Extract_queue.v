(* Extract_queue.v — extraction of the OneToOneUniQueue/QueueReader model (C56) to OCaml.
   Only ExtrOcamlBasic is used; N, positive and nat stay the extracted Coq datatypes. *)
Require Import ExtrOcamlBasic.
Require Import SquidV.Bytes SquidV.QueueModel.
Extraction "m_queue.ml" run_case drain_all.
