// Harness: AnyP::Uri (parse / authority / absolute / absolutePath), AnyP::UriScheme and AnyP::Host
// compiled from /repo's working tree.
// stdin: one case per line; stdout: one canonical result line per case.
//
//   uri.rt <cfg> <method-id> <url-hex> <iptable>
//        cfg = <check_hostnames 0|1><allow_underscore 0|1><uri_whitespace s|a|c|d>
//        parse the URL with the method; print the parsed fields, the canonical form
//        (absolute(), or authority(true) for CONNECT), and the fields of the re-parsed canonical form.
//        <iptable> is for the model only (answers of ip.q for the strings the model asks about).
//   ip.q <hex>     what Ip::Address::fromHost / isAnyAddr / toHostStr say about a string (the
//                  model's oracle for IP-literal recognition)
//   ip.fix <hex q> <hex c>   same as ip.q <q> (the check's oracle expects the answer I<c>: canonical
//                  forms are fixed points of the recognition)
//   uri.info       method ids
#include "squid.h"
#include <sstream>
#include <iostream>
#include <optional>
#include <vector>
#include <map>
#include <memory>
#include "sbuf/SBuf.h"
#include "ip/Address.h"
#include "base/CharacterSet.h"
#include "parser/Tokenizer.h"
#define private public
#define protected public
#include "anyp/Uri.h"
#include "anyp/Host.h"
#include "anyp/UriScheme.h"
#undef private
#undef protected
#include "http/RequestMethod.h"
#include "ip/Address.h"
#include "mem/forward.h"
#include "SquidConfig.h"
#include "sbuf/SBuf.h"
#include "hcommon.h"
#include <cstring>

static std::string hx(const SBuf &b) { return tohex(b.rawContent(), b.length()); }
static std::string hxs(const char *s) { return tohex(s, strlen(s)); }

static void setCfg(const std::string &c) {
    Config.onoff.check_hostnames = (c[0] == '1');
    Config.onoff.allow_underscore = (c[1] == '1');
    switch (c[2]) {
    case 'a': Config.uri_whitespace = URI_WHITESPACE_ALLOW; break;
    case 'c': Config.uri_whitespace = URI_WHITESPACE_CHOP; break;
    case 'd': Config.uri_whitespace = URI_WHITESPACE_DENY; break;
    default: Config.uri_whitespace = URI_WHITESPACE_STRIP; break;
    }
    Config.appendDomain = nullptr;
    Config.appendDomainLen = 0;
}

// every accessor is called on its own copy: authority() appends to its caches when they stay empty
static void fields(std::ostream &o, const AnyP::Uri &u) {
    o << "sch=" << static_cast<int>(u.getScheme().theScheme_) << ":" << hx(u.getScheme().image())
      << " ui=" << hx(u.userInfo())
      << " host=" << hxs(u.host())
      << " num=" << (u.hostIsNumeric() ? 1 : 0)
      << " port=";
    if (u.port().has_value()) o << *u.port(); else o << "none";
    o << " path=" << hx(u.path_);
    { AnyP::Uri c(u); o << " auth=" << hx(c.authority(false)); }
    { AnyP::Uri c(u); o << " authp=" << hx(c.authority(true)); }
    { AnyP::Uri c(u); o << " abspath=" << hx(c.absolutePath()); }
}

int main() {
    Mem::Init();
    AnyP::UriScheme::Init();
    std::string line;
    while (std::getline(std::cin, line)) {
        auto a = splitws(line);
        if (a.empty()) { std::cout << "\n"; continue; }
        const std::string &op = a[0];
        std::ostringstream o;
        try {
            if (op == "uri.rt") {
                setCfg(a[1]);
                const HttpRequestMethod m(static_cast<Http::MethodType>(std::stoi(a[2])));
                const std::string raw = unhex(a[3]);
                AnyP::Uri u;
                if (!u.parse(m, SBuf(raw.data(), raw.size()))) {
                    o << "rej";
                } else {
                    o << "ok ";
                    fields(o, u);
                    SBuf canon;
                    { AnyP::Uri c(u); canon = (m == Http::METHOD_CONNECT) ? c.authority(true) : c.absolute(); }
                    o << " canon=" << hx(canon) << " | ";
                    AnyP::Uri v;
                    if (!v.parse(m, canon)) o << "rej";
                    else { o << "ok "; fields(o, v); }
                }
            } else if (op == "ip.q" || op == "ip.fix") {
                const std::string raw = unhex(a[1]);
                Ip::Address ip;
                if (!ip.fromHost(raw.c_str())) o << "N";
                else {
                    char buf[MAX_IPSTRLEN + 8];
                    ip.toHostStr(buf, sizeof(buf));
                    o << (ip.isAnyAddr() ? "A" : "I") << hxs(buf);
                }
            } else if (op == "uri.info") {
                o << "methods";
                for (int i = 1; i < Http::METHOD_ENUM_END; ++i) o << " " << i;
                o << " connect=" << Http::METHOD_CONNECT << " options=" << Http::METHOD_OPTIONS << " trace=" << Http::METHOD_TRACE;
            } else o << "ERR unknown-entry " << op;
        } catch (const std::exception &e) { o.str(""); o << "EXC " << e.what(); }
        catch (...) { o.str(""); o << "EXC"; }
        std::cout << o.str() << "\n" << std::flush;
    }
    return 0;
}
