(* RockrebuildProofs.v — proofs about the rock rebuild model (C57). *)
Require Import SquidV.Bytes SquidV.RockrebuildModel.
Require Import SquidV.gen.RockRebuild_gen.
Require Import ZifyBool.
Local Open Scope Z_scope.

(* ================================================================ 1. termination: the fuel is enough *)

(* number of slot ids k < n whose LoadingSlot/slice satisfies p *)
Fixpoint cnt (p : sl -> bool) (g : Z -> sl) (n : nat) : nat :=
  match n with
  | O => O
  | S k => (if p (g (Z.of_nat k)) then 1 else 0) + cnt p g k
  end.

Lemma cnt_le : forall p g n, (cnt p g n <= n)%nat.
Proof. induction n; cbn [cnt]; [lia|]. destruct (p (g (Z.of_nat n))); lia. Qed.

Lemma cnt_upd_out : forall p g n i x, ~ (0 <= i < Z.of_nat n) -> cnt p (upd g i x) n = cnt p g n.
Proof.
  induction n; intros i x Hi; cbn [cnt]; [reflexivity|].
  unfold upd at 1. destruct (Z.of_nat n =? i) eqn:E; [lia|].
  rewrite IHn by lia. reflexivity.
Qed.

(* turning one p-slot inside the range into a non-p slot lowers the count by one *)
Lemma cnt_upd_dec : forall p g n i x, 0 <= i < Z.of_nat n -> p (g i) = true -> p x = false ->
  S (cnt p (upd g i x) n) = cnt p g n.
Proof.
  induction n; intros i x Hi Hp Hx; [lia|]. cbn [cnt].
  unfold upd at 1. destruct (Z.of_nat n =? i) eqn:E.
  - assert (Z.of_nat n = i) by lia. subst i. rewrite Hx, Hp.
    rewrite cnt_upd_out by lia. lia.
  - rewrite <- (IHn i x) by (try lia; assumption).
    destruct (p (g (Z.of_nat n))); lia.
Qed.

Definition nonfinal (x : sl) : bool := negb (s_final x).
Definition unfreed (x : sl) : bool := negb (s_freed x).
Definition linked (x : sl) : bool := 0 <=? s_next x.

Lemma bind_nofuel : forall r k, bind r k = NoFuel -> r = NoFuel \/ exists s, r = Ok s /\ k s = NoFuel.
Proof. intros [s| s | |] k H; cbn in H; try discriminate; eauto. Qed.

Lemma push_free_nofuel : forall i s, push_free i s <> NoFuel.
Proof. intros i s. unfold push_free. destruct (memZ i (free s)); discriminate. Qed.

Lemma push_free_sls : forall i s s', push_free i s = Ok s' -> sls s' = sls s /\ ents s' = ents s.
Proof. intros i s s'. unfold push_free. destruct (memZ i (free s)); [discriminate|]. intros H; inversion H; auto. Qed.

Lemma free_slot_nofuel : forall N pos inv i s, free_slot N pos inv i s <> NoFuel.
Proof.
  intros. unfold free_slot. destruct (negb (ls_ok N pos i)); [discriminate|].
  destruct (s_freed (sls s i)); [discriminate|]. apply push_free_nofuel.
Qed.

Lemma free_slot_sls : forall N pos inv i s s', free_slot N pos inv i s = Ok s' ->
  ls_ok N pos i = true /\ s_freed (sls s i) = false /\
  sls s' = upd (sls s) i (s_set_freed (sls s i) true) /\ ents s' = ents s.
Proof.
  intros N pos inv i s s'. unfold free_slot.
  destruct (ls_ok N pos i) eqn:L; cbn [negb]; [|discriminate].
  destruct (s_freed (sls s i)) eqn:F; [discriminate|].
  intros H. apply push_free_sls in H. destruct H as [H1 H2].
  destruct inv; cbn in H1, H2; auto.
Qed.

Lemma free_more_chain_fuel : forall N pos fuel i s,
  0 <= N -> (cnt unfreed (sls s) (Z.to_nat N) < fuel)%nat ->
  free_more_chain N pos fuel i s <> NoFuel.
Proof.
  induction fuel; intros i s HN Hc; [lia|].
  cbn [free_more_chain]. destruct (i <? 0); [discriminate|].
  destruct (ls_ok N pos i) eqn:L; cbn [negb]; [|discriminate].
  intros H. apply bind_nofuel in H. destruct H as [H|[s1 [H1 H2]]].
  - eapply free_slot_nofuel; eauto.
  - revert H2. apply IHfuel; [assumption|].
    apply free_slot_sls in H1. destruct H1 as (_ & F & S1 & _). rewrite S1.
    unfold ls_ok in L.
    pose proof (cnt_upd_dec unfreed (sls s) (Z.to_nat N) i (s_set_freed (sls s i) true)) as D.
    rewrite Z2Nat.id in D by assumption.
    assert (S (cnt unfreed (upd (sls s) i (s_set_freed (sls s i) true)) (Z.to_nat N)) = cnt unfreed (sls s) (Z.to_nat N)).
    { apply D; [lia| unfold unfreed; rewrite F; reflexivity | reflexivity]. }
    lia.
Qed.

Lemma free_more_chain_total : forall N pos i s, 0 <= N -> free_more_chain N pos (fuel_of N) i s <> NoFuel.
Proof.
  intros. apply free_more_chain_fuel; [assumption|]. unfold fuel_of.
  pose proof (cnt_le unfreed (sls s) (Z.to_nat N)). lia.
Qed.

Lemma forget_writing_nofuel : forall f s, forget_writing f s <> NoFuel.
Proof. intros. unfold forget_writing. destruct (negb (a_writing (ents s f))); discriminate. Qed.

Lemma free_bad_entry_total : forall N pos f s, 0 <= N -> free_bad_entry N pos f s <> NoFuel.
Proof.
  intros N pos f s HN. unfold free_bad_entry.
  match goal with |- context [negb (a_writing ?e)] => destruct (negb (a_writing e)) end; [discriminate|].
  match goal with |- context [negb ?c] => destruct (negb c) end; [discriminate|].
  intros H. apply bind_nofuel in H. destruct H as [H|[s1 [_ H2]]].
  - eapply free_more_chain_total; eauto.
  - eapply forget_writing_nofuel; eauto.
Qed.

Lemma fin_walk_fuel : forall N pos f lesz fuel i msz s,
  0 <= N -> (cnt nonfinal (sls s) (Z.to_nat N) < fuel)%nat ->
  fin_walk N pos f lesz fuel i msz s <> WNoFuel.
Proof.
  induction fuel; intros i msz s HN Hc; [lia|].
  cbn [fin_walk]. destruct ((0 <=? i) && (msz <? lesz)); [|discriminate].
  destruct (ls_ok N pos i) eqn:L; cbn [negb]; [|discriminate].
  destruct (s_final (sls s i)) eqn:F; [discriminate|].
  destruct (negb (s_mapped (sls s i))); [discriminate|].
  destruct (s_freed (sls s i)); [discriminate|].
  match goal with |- context [negb (a_writing ?e)] => destruct (negb (a_writing e)) end; [discriminate|].
  destruct (negb (0 <? s_size (sls s i))); [discriminate|].
  apply IHfuel; [assumption|]. cbn [sls set_sl].
  unfold ls_ok in L.
  pose proof (cnt_upd_dec nonfinal (sls s) (Z.to_nat N) i (s_set_final (sls s i) true)) as D.
  rewrite Z2Nat.id in D by assumption.
  assert (S (cnt nonfinal (upd (sls s) i (s_set_final (sls s i) true)) (Z.to_nat N)) = cnt nonfinal (sls s) (Z.to_nat N)).
  { apply D; [lia| unfold nonfinal; rewrite F; reflexivity | reflexivity]. }
  lia.
Qed.

Lemma finalize_or_throw_total : forall N pos f s, 0 <= N -> finalize_or_throw N pos f s <> NoFuel.
Proof.
  intros N pos f s HN. unfold finalize_or_throw.
  destruct (negb (a_writing (ents s f))); [discriminate|].
  destruct (negb (0 <? e_size (ents s f))); [discriminate|].
  destruct (fin_walk N pos f (e_size (ents s f)) (fuel_of N) (a_start (ents s f)) 0 s) eqn:W; try discriminate.
  - destruct (negb (slotId <? 0)); [discriminate|].
    destruct (negb (mapped =? e_size (ents s f))); [discriminate|].
    match goal with |- context [negb (a_writing ?e)] => destruct (negb (a_writing e)) end; discriminate.
  - exfalso. revert W. apply fin_walk_fuel; [assumption|]. unfold fuel_of.
    pose proof (cnt_le nonfinal (sls s) (Z.to_nat N)). lia.
Qed.

Lemma finalize_or_free_total : forall N pos f s, 0 <= N -> finalize_or_free N pos f s <> NoFuel.
Proof.
  intros N pos f s HN. unfold finalize_or_free.
  destruct (finalize_or_throw N pos f s) eqn:E; try discriminate.
  - apply free_bad_entry_total; assumption.
  - exfalso. revert E. apply finalize_or_throw_total; assumption.
Qed.

(* freeChainAt: every continuing step clears a slice that was still linked *)
Lemma free_chain_at_fuel : forall N fuel i s,
  0 <= N -> (cnt linked (sls s) (Z.to_nat N) < fuel)%nat ->
  free_chain_at N fuel i s <> NoFuel.
Proof.
  induction fuel; intros i s HN Hc; [lia|].
  cbn [free_chain_at]. destruct (i <? 0) eqn:I0; [discriminate|].
  destruct ((0 <=? i) && (i <? N)) eqn:R; cbn [negb]; [|discriminate].
  intros H. apply bind_nofuel in H. destruct H as [H|[s1 [H1 H2]]].
  - eapply push_free_nofuel; eauto.
  - apply push_free_sls in H1. destruct H1 as [S1 _]. cbn [sls set_sl] in S1.
    destruct (0 <=? s_next (sls s i)) eqn:Lk.
    + revert H2. apply IHfuel; [assumption|]. rewrite S1.
      pose proof (cnt_upd_dec linked (sls s) (Z.to_nat N) i (s_set_slice (sls s i) 0 (-1))) as D.
      rewrite Z2Nat.id in D by assumption.
      assert (S (cnt linked (upd (sls s) i (s_set_slice (sls s i) 0 (-1))) (Z.to_nat N)) = cnt linked (sls s) (Z.to_nat N)).
      { apply D; [lia| unfold linked; exact Lk | reflexivity]. }
      lia.
    + (* the chain ends here: the next call returns at once *)
      destruct fuel; cbn [free_chain_at] in H2.
      * destruct (s_next (sls s i) <? 0) eqn:Q; [discriminate| lia].
      * destruct (s_next (sls s i) <? 0) eqn:Q; [discriminate| lia].
Qed.

Lemma free_chain_at_total : forall N i s, 0 <= N -> free_chain_at N (fuel_of N) i s <> NoFuel.
Proof.
  intros. apply free_chain_at_fuel; [assumption|]. unfold fuel_of.
  pose proof (cnt_le linked (sls s) (Z.to_nat N)). lia.
Qed.

Lemma free_chain_total : forall N f k s, 0 <= N -> free_chain N f k s <> NoFuel.
Proof.
  intros N f k s HN. unfold free_chain. intros H. apply bind_nofuel in H.
  destruct H as [H|[s1 [_ H2]]]; [|discriminate].
  destruct (a_empty (ents s f)); [discriminate|]. revert H. apply free_chain_at_total; assumption.
Qed.

Lemma free_entry_total : forall N f s, 0 <= N -> free_entry N f s <> NoFuel.
Proof.
  intros N f s HN. unfold free_entry. destruct (a_writing (ents s f)); [discriminate|].
  apply free_chain_total; assumption.
Qed.

Lemma free_unused_slot_nofuel : forall N pos inv i s, free_unused_slot N pos inv i s <> NoFuel.
Proof.
  intros. unfold free_unused_slot. destruct (negb (ls_ok N pos i)); [discriminate|].
  destruct (s_mapped (sls s i)); [discriminate|]. apply free_slot_nofuel.
Qed.

Lemma map_slot_nofuel : forall N pos i h s, map_slot N pos i h s <> NoFuel.
Proof.
  intros. unfold map_slot. destruct (negb (ls_ok N pos i)); [discriminate|].
  destruct (s_mapped (sls s i)); [discriminate|]. destruct (s_freed (sls s i)); discriminate.
Qed.

Lemma add_tail_total : forall N pos f i h s, 0 <= N -> add_tail N pos f i h s <> NoFuel.
Proof.
  intros N pos f i h s HN. unfold add_tail.
  match goal with |- context [if ?c then free_bad_entry _ _ _ _ else _] => destruct c end.
  - apply free_bad_entry_total; assumption.
  - intros H. apply bind_nofuel in H. destruct H as [H|[s1 [_ H2]]].
    + eapply map_slot_nofuel; eauto.
    + revert H2. match goal with |- context [if ?c then _ else _] => destruct c end; [|discriminate].
      apply finalize_or_free_total; assumption.
Qed.

Lemma add_slot_to_entry_total : forall N pos f i h m s, 0 <= N -> add_slot_to_entry N pos f i h m s <> NoFuel.
Proof.
  intros N pos f i h m s HN. unfold add_slot_to_entry.
  destruct (negb (a_writing (ents s f))); [discriminate|].
  intros H. apply bind_nofuel in H. destruct H as [H|[s2 [_ H2]]].
  - revert H. destruct (e_anch (ents s f)).
    + destruct (negb (ls_ok N pos (a_start (ents s f)))); [discriminate|].
      destruct (negb (ls_ok N pos i)); [discriminate|].
      destruct (negb (s_more (sls s i) <? 0)); discriminate.
    + destruct (negb (ls_ok N pos i)); [discriminate|].
      destruct (negb (s_more (sls s i) <? 0)); discriminate.
  - revert H2. cbv zeta.
    destruct (h_first h =? i); [|apply add_tail_total; assumption].
    match goal with |- context [if e_anch ?e then _ else _] => destruct (e_anch e) end.
    + intros H. apply bind_nofuel in H. destruct H as [H|[s4 [_ H4]]]; [|discriminate].
      revert H. apply free_bad_entry_total; assumption.
    + match goal with |- context [import_entry ?a ?b ?c] => destruct (import_entry a b c) end.
      * apply free_bad_entry_total; assumption.
      * destruct (negb (h_esz h =? 0)); [|apply add_tail_total; assumption].
        destruct (h_esz h =? rr_entry_size_max); [discriminate|].
        destruct (a_swapsz e =? 0); [apply add_tail_total; assumption|].
        destruct (negb (h_esz h =? a_swapsz e)); [apply free_bad_entry_total | apply add_tail_total]; assumption.
Qed.

Lemma start_new_entry_total : forall N pos f i h m s, 0 <= N -> start_new_entry N pos f i h m s <> NoFuel.
Proof.
  intros N pos f i h m s HN. unfold start_new_entry.
  destruct (a_writing (ents s f)); [apply free_unused_slot_nofuel|].
  destruct (negb (a_wtbf (ents s f)) && negb (a_empty (ents s f))); [apply free_unused_slot_nofuel|].
  intros H. apply bind_nofuel in H. destruct H as [H|[s1 [_ H2]]].
  - revert H. destruct (a_wtbf (ents s f) || negb (a_empty (ents s f))); [|discriminate].
    apply free_chain_total; assumption.
  - revert H2. cbv zeta. destruct (negb (a_empty (ents s1 f))); [discriminate|].
    match goal with |- context [if ?c then Abort else _] => destruct c end; [discriminate|].
    intros H. apply bind_nofuel in H. destruct H as [H|[s3 [_ H3]]].
    + revert H. apply add_slot_to_entry_total; assumption.
    + revert H3. match goal with |- context [if ?c then Abort else _] => destruct c end; discriminate.
Qed.

Lemma use_new_slot_total : forall N pos i h m s, 0 <= N -> use_new_slot N pos i h m s <> NoFuel.
Proof.
  intros N pos i h m s HN. unfold use_new_slot. cbv zeta.
  match goal with |- context [if negb ?c then Abort else _] => destruct (negb c) end; [discriminate|].
  match goal with |- context [match e_state ?e with _ => _ end] => destruct (e_state e) end.
  - apply start_new_entry_total; assumption.
  - match goal with |- context [if negb ?c then Abort else _] => destruct (negb c) end; [discriminate|].
    match goal with |- context [if ?c then add_slot_to_entry _ _ _ _ _ _ _ else _] => destruct c end.
    + apply add_slot_to_entry_total; assumption.
    + intros H. apply bind_nofuel in H. destruct H as [H|[s1 [_ H1]]].
      * revert H. apply free_bad_entry_total; assumption.
      * apply bind_nofuel in H1. destruct H1 as [H1|[s2 [_ H2]]]; [|discriminate].
        revert H1. apply free_unused_slot_nofuel.
  - intros H. apply bind_nofuel in H. destruct H as [H|[s1 [_ H1]]].
    + revert H. apply free_entry_total; assumption.
    + apply bind_nofuel in H1. destruct H1 as [H1|[s2 [_ H2]]]; [|discriminate].
      revert H1. apply free_unused_slot_nofuel.
  - apply free_unused_slot_nofuel.
  - apply free_unused_slot_nofuel.
Qed.

Lemma load_one_slot_total : forall ssz N pos d s, 0 <= N -> load_one_slot ssz N pos d s <> NoFuel.
Proof.
  intros ssz N pos d s HN. unfold load_one_slot. destruct d as [|h m].
  - apply free_unused_slot_nofuel.
  - destruct (hdr_empty h); [apply free_unused_slot_nofuel|].
    destruct (negb (hdr_sane ssz N h)); [apply free_unused_slot_nofuel|].
    apply use_new_slot_total; assumption.
Qed.

Lemma load_all_total : forall ssz N img pos s, 0 <= N -> load_all ssz N pos img s <> NoFuel.
Proof.
  induction img as [|d r IH]; intros pos s HN; cbn [load_all]; [discriminate|].
  intros H. apply bind_nofuel in H. destruct H as [H|[s1 [_ H1]]].
  - revert H. apply load_one_slot_total; assumption.
  - revert H1. apply IH; assumption.
Qed.

Lemma for_range_total : forall step, (forall k s, step k s <> NoFuel) ->
  forall n k s, for_range n k step s <> NoFuel.
Proof.
  intros step Hs. induction n; intros k s; cbn [for_range]; [discriminate|].
  intros H. apply bind_nofuel in H. destruct H as [H|[s1 [_ H1]]].
  - eapply Hs; eauto.
  - eapply IHn; eauto.
Qed.

Lemma validate_one_entry_total : forall N f s, 0 <= N -> validate_one_entry N f s <> NoFuel.
Proof.
  intros N f s HN. unfold validate_one_entry. cbv zeta.
  match goal with |- context [match e_state ?e with _ => _ end] => destruct (e_state e) end; try discriminate.
  apply finalize_or_free_total; assumption.
Qed.

Lemma validate_one_slot_total : forall N i s, validate_one_slot N i s <> NoFuel.
Proof.
  intros. unfold validate_one_slot. cbv zeta. destruct (negb (ls_ok N N i)); [discriminate|].
  match goal with |- context [if ?c then Ok _ else _] => destruct c end; discriminate.
Qed.

(* the rebuild of ANY image ends: the fuel given to the three link-following loops always suffices *)
Theorem rebuild_terminates : forall slotSize doublecheck img, rebuild slotSize doublecheck img <> NoFuel.
Proof.
  intros ssz dbl img. unfold rebuild. cbv zeta.
  assert (HN : 0 <= Z.of_nat (length img)) by lia.
  intros H. apply bind_nofuel in H. destruct H as [H|[s1 [_ H1]]].
  - revert H. apply load_all_total; assumption.
  - apply bind_nofuel in H1. destruct H1 as [H1|[s2 [_ H2]]].
    + revert H1. apply for_range_total. intros; apply validate_one_entry_total; assumption.
    + destruct dbl; [|discriminate]. revert H2. apply for_range_total. intros; apply validate_one_slot_total.
Qed.

(* ================================================================ 2. what "readable" and "chain" mean *)

(* StoreMap::openForReadingAt succeeds: nobody writes, not marked for removal, a key is present *)
Definition readable (e : entry) : bool := negb (a_writing e) && negb (a_wtbf e) && negb (a_empty e).

(* l is the list of slots visited from slot id i through the map's slice links, ending at a negative id *)
Fixpoint chain_of (s : st) (i : Z) (l : list Z) : Prop :=
  match l with
  | [] => i < 0
  | x :: r => i = x /\ 0 <= x /\ chain_of s (s_next (sls s x)) r
  end.

Fixpoint sumsz (s : st) (l : list Z) : Z :=
  match l with [] => 0 | x :: r => s_size (sls s x) + sumsz s r end.

Definition holds_after (slotSize : Z) (dbl : bool) (img : list dslot) (P : st -> Prop) : Prop :=
  match rebuild slotSize dbl img with Ok s => P s | _ => False end.

Definition dE : dslot := DHdr (mkHdr 0 0 0 0 0 0 0) MZero.

(* ---- witnesses (each confirmed against the real code through the harness, corpus/C57/known.txt) ---- *)

(* a single cell whose entrySize field is all ones aborts the rebuild (assert(totalSize != -1)) *)
Lemma crash_allones_witness :
  rebuild 131072 false
    [DHdr (mkHdr 5 7 rr_entry_size_max 200 1 0 (-1)) (MOk true 5 7 0 false 75); dE; dE; dE; dE; dE; dE] = Abort.
Proof. vm_compute. reflexivity. Qed.

(* cross-linked chains: entry A absorbs slot 0 of entry B, B's later validation failure frees slot 0, a third
   cell of A's key then frees A's chain again: the free-slot index asserts on the second push of slot 0 *)
Definition img_double_free : list dslot :=
  [DHdr (mkHdr 2 0 0 100 1 4 (-1)) MBad;
   DHdr (mkHdr 1 0 200 100 1 1 0) (MOk true 1 0 0 false 75);
   DHdr (mkHdr 1 0 0 100 1 1 (-1)) MBad;
   dE;
   DHdr (mkHdr 2 0 200 100 1 4 0) (MOk true 2 0 0 false 75);
   DHdr (mkHdr 1 0 0 100 1 1 (-1)) MBad;
   dE].

Lemma crash_double_free_witness : rebuild 131072 false img_double_free = Abort.
Proof. vm_compute. reflexivity. Qed.

(* the same image without the sixth cell: entry 1 stays readable although its slot 0 is in the free-slot index *)
Definition img_freed_slot_in_use : list dslot :=
  [DHdr (mkHdr 2 0 0 100 1 4 (-1)) MBad;
   DHdr (mkHdr 1 0 200 100 1 1 0) (MOk true 1 0 0 false 75);
   DHdr (mkHdr 1 0 0 100 1 1 (-1)) MBad;
   dE;
   DHdr (mkHdr 2 0 200 100 1 4 0) (MOk true 2 0 0 false 75);
   dE; dE].

Lemma freed_slot_in_use_witness :
  holds_after 131072 false img_freed_slot_in_use (fun s =>
    readable (ents s 1) = true /\ chain_of s (a_start (ents s 1)) [1; 0] /\ In 0 (free s)).
Proof.
  unfold holds_after. set (r := rebuild _ _ _). vm_compute in r. subst r. cbv beta iota.
  split; [reflexivity|]. split; [cbn; lia|]. cbn. tauto.
Qed.

(* with squid -S the leftover slot 2 of that image makes validateOneSlot throw out of the job *)
Lemma crash_doublecheck_witness : exists s, rebuild 131072 true img_freed_slot_in_use = Thrown s.
Proof. eexists. vm_compute. reflexivity. Qed.

(* an inode announcing 300 bytes, followed by nothing, with nextSlot = -1: indexed with 100 bytes of chain *)
Lemma short_chain_witness :
  holds_after 131072 false
    [DHdr (mkHdr 5 7 300 100 1 0 (-1)) (MOk true 5 7 0 false 75); dE; dE; dE; dE; dE; dE] (fun s =>
    readable (ents s 5) = true /\ chain_of s (a_start (ents s 5)) [0] /\
    sumsz s [0] = 100 /\ a_swapsz (ents s 5) = 300).
Proof.
  unfold holds_after. set (r := rebuild _ _ _). vm_compute in r. subst r. cbv beta iota.
  repeat split; cbn; lia.
Qed.

(* a lone continuation cell (its first slot, 4, is empty) is indexed as a complete entry *)
Lemma no_inode_witness :
  holds_after 131072 false
    [DHdr (mkHdr 5 7 0 100 1 4 (-1)) MBad; dE; dE; dE; dE; dE; dE] (fun s =>
    readable (ents s 5) = true /\ chain_of s (a_start (ents s 5)) [0] /\ e_anch (ents s 5) = false).
Proof.
  unfold holds_after. set (r := rebuild _ _ _). vm_compute in r. subst r. cbv beta iota.
  repeat split; cbn; lia.
Qed.

(* two chains with swapped nextSlot links: both entries end up readable, each with a slot of the other key *)
Definition img_hodgepodge : list dslot :=
  [DHdr (mkHdr 2 0 0 100 1 4 (-1)) MBad;
   DHdr (mkHdr 1 0 200 100 1 1 0) (MOk true 1 0 0 false 75);
   DHdr (mkHdr 1 0 0 100 1 1 (-1)) MBad;
   dE;
   DHdr (mkHdr 2 0 200 100 1 4 2) (MOk true 2 0 0 false 75);
   dE; dE].

Lemma hodgepodge_witness :
  holds_after 131072 false img_hodgepodge (fun s =>
    readable (ents s 1) = true /\ a_k0 (ents s 1) = 1 /\ chain_of s (a_start (ents s 1)) [1; 0] /\
    readable (ents s 2) = true /\ a_k0 (ents s 2) = 2 /\ chain_of s (a_start (ents s 2)) [4; 2]).
Proof.
  unfold holds_after. set (r := rebuild _ _ _). vm_compute in r. subst r. cbv beta iota.
  repeat split; cbn; lia.
Qed.

(* same key, two versions (an old tail cell, version 1, left where the new chain's link points) *)
Lemma version_mix_witness :
  holds_after 131072 false
    [DHdr (mkHdr 5 7 0 100 2 0 1) (MOk true 5 7 0 false 75); DHdr (mkHdr 5 7 0 100 1 0 (-1)) MBad; dE; dE; dE; dE; dE]
    (fun s => readable (ents s 5) = true /\ chain_of s (a_start (ents s 5)) [0; 1] /\ a_swapsz (ents s 5) = 200).
Proof.
  unfold holds_after. set (r := rebuild _ _ _). vm_compute in r. subst r. cbv beta iota.
  repeat split; cbn; lia.
Qed.
