(* handlers for the clpmap area (src/base/ClpMap.h): one case = one operation history.
   Value = (id, accounted size); MemoryUsedBy = snd. *)
let vmem (v : n * n) : n = snd v

let parse_op (s : string) =
  match String.split_on_char ':' s with
  | ["a"; k; id; sz; ttl] -> OAdd (bytes_of_hex k, (n_of_string id, n_of_string sz), z_of_string ttl)
  | ["A"; k; id; sz] -> OAddDefault (bytes_of_hex k, (n_of_string id, n_of_string sz))
  | ["g"; k] -> OGet (bytes_of_hex k)
  | ["d"; k] -> ODel (bytes_of_hex k)
  | ["l"; x] -> OSetLimit (n_of_string x)
  | ["t"; z] -> OSetClock (z_of_string z)
  | _ -> failwith "bad-op"

let show_entry e =
  let (id, sz) = e.e_val in
  hex_of_bytes e.e_key ^ ":" ^ string_of_n id ^ ":" ^ string_of_n sz ^ ":" ^ string_of_z e.e_expires ^ ":" ^ string_of_n e.e_mem

let () =
  reg "seq" (fun (t0 :: cap :: dttl :: opss) ->
    let now = z_of_string t0 in
    let cap = n_of_string cap in
    let d = if dttl = "-" then None else Some (z_of_string dttl) in
    let ops = List.map parse_op opss in
    let m0 = clp_new now cap d clp_default_ttl in
    let (outs, (_, mf)) = clp_run vmem clp_entry_size clp_index_item_size clp_time_max (now, m0) ops in
    (* the specification is run alongside; the refinement theorem says it cannot differ *)
    let s0 = spec_new cap d clp_default_ttl in
    let (souts, (_, sf)) = spec_run vmem clp_entry_size clp_index_item_size clp_time_max (now, s0) ops in
    let b = Buffer.create 256 in
    Buffer.add_string b ("o" ^ string_of_n clp_entry_size ^ "+" ^ string_of_n clp_index_item_size);
    List.iter2 (fun o (r, (used, es)) ->
      Buffer.add_char b ' ';
      (match r, o with
       | RGet (Some (id, _)), _ -> Buffer.add_string b ("g=" ^ string_of_n id)
       | RGet None, _ -> Buffer.add_string b "g=n"
       | RAdd true, _ -> Buffer.add_string b "a=1"
       | RAdd false, _ -> Buffer.add_string b "a=0"
       | RUnit, ODel _ -> Buffer.add_string b "d"
       | RUnit, OSetLimit _ -> Buffer.add_string b "l"
       | RUnit, _ -> Buffer.add_string b "t");
      Buffer.add_string b ("[" ^ string_of_n used ^ "," ^ string_of_int (List.length es) ^ "]")) ops outs;
    Buffer.add_string b " |";
    List.iteri (fun i e -> Buffer.add_string b ((if i = 0 then " " else ",") ^ show_entry e)) mf.entries;
    Buffer.add_string b (" L" ^ string_of_n mf.memLimit);
    (match mf.stat with StOk -> () | StAssertFail -> Buffer.add_string b " MODEL-ASSERT" | StOutOfFuel -> Buffer.add_string b " MODEL-OUT-OF-FUEL");
    if souts <> outs || sf.s_items <> mf.entries || sf.s_limit <> mf.memLimit then Buffer.add_string b " MODEL-SPEC-DIFFER";
    Buffer.contents b)
