// Harness (C14): src/ETag.cc and src/StrList.cc from /repo's working tree.
// stdin: one case per line (same syntax as ml/run_cond.ml); stdout: one result line.
//   cond.parse <hex>            etagParseInit
//   cond.eq <hexA> <hexB>       etagIsStrongEqual / etagIsWeakEqual on two parsed tags
//   cond.items <hex>            the strListGetItem(',') loop
//   cond.oneof <weak> <rep|none> <hexlist>
//        the list walk of StoreEntry::hasOneOfEtags composed HERE from the real strListGetItem / strListIsMember /
//        etagParseInit / etagIs*Equal (the member function itself needs a StoreEntry and is exercised end to end
//        through the squid binary by checks/c14.py)
#include "squid.h"
#include "ETag.h"
#include "SquidString.h"
#include "StrList.h"
#include "sbuf/SBuf.h"
#include "hcommon.h"
#include <cstring>

static String toString(const std::string &raw) {
    String s;
    if (!raw.empty()) s.append(raw.data(), raw.size());
    return s;
}

int main() {
    std::string line;
    while (std::getline(std::cin, line)) {
        auto a = splitws(line);
        if (a.empty()) { std::cout << "\n"; continue; }
        const std::string &op = a[0];
        std::ostringstream o;
        try {
            if (op == "cond.parse") {
                const std::string raw = unhex(a.at(1));
                ETag t = {nullptr, -1};
                if (etagParseInit(&t, raw.c_str())) o << "ok " << (t.weak ? 1 : 0) << " " << tohex(t.str, strlen(t.str));
                else o << "none";
            } else if (op == "cond.eq") {
                const std::string ra = unhex(a.at(1)), rb = unhex(a.at(2));
                ETag x = {nullptr, -1}, y = {nullptr, -1};
                if (etagParseInit(&x, ra.c_str()) && etagParseInit(&y, rb.c_str()))
                    o << "strong=" << (etagIsStrongEqual(x, y) ? 1 : 0) << " weak=" << (etagIsWeakEqual(x, y) ? 1 : 0);
                else o << "none";
            } else if (op == "cond.items") {
                const String s = toString(unhex(a.at(1)));
                const char *pos = nullptr, *item = nullptr; int ilen = 0; bool first = true;
                while (strListGetItem(&s, ',', &item, &ilen, &pos)) {
                    if (!first) o << "|";
                    first = false;
                    o << tohex(item, ilen);
                }
            } else if (op == "cond.oneof") {
                const bool allowWeakMatch = a.at(1) == "1";
                const std::string repRaw = a.at(2) == "none" ? std::string() : unhex(a.at(2));
                ETag repETag = {nullptr, -1};
                if (a.at(2) != "none") etagParseInit(&repETag, repRaw.c_str());
                const String reqETags = toString(unhex(a.at(3)));
                bool matched = false;
                if (!repETag.str) {
                    static SBuf asterisk("*", 1);
                    matched = strListIsMember(&reqETags, asterisk, ',');
                } else {
                    const char *pos = nullptr, *item = nullptr; int ilen = 0;
                    while (!matched && strListGetItem(&reqETags, ',', &item, &ilen, &pos)) {
                        if (!strncmp(item, "*", ilen)) matched = true;
                        else {
                            String str; str.append(item, ilen);
                            ETag reqETag;
                            if (etagParseInit(&reqETag, str.termedBuf()))
                                matched = allowWeakMatch ? etagIsWeakEqual(repETag, reqETag) : etagIsStrongEqual(repETag, reqETag);
                        }
                    }
                }
                o << (matched ? 1 : 0);
            } else o << "ERR unknown-entry " << op;
        } catch (const std::exception &e) { o << "EXC " << e.what(); }
        catch (...) { o << "EXC unknown"; }
        std::cout << o.str() << "\n" << std::flush;
    }
    return 0;
}
