(* AdversarialModel.v -- bounds-checked models of the datagram decoders behind the ICP, HTCP and SNMP listeners
   (property C39) -- executable definitions only.

   Every access of a receive buffer or of a fixed-size destination goes through [rd] / [wr] / [idx_ok], which
   answer the distinct outcome [OOB] when the index is outside the object.  The theorems (AdversarialProofs.v)
   are about which inputs can / cannot produce [OOB].

   Transcribed from /repo:
     lib/snmplib/asn1.c      asn_parse_length / _header / _int / _unsigned_int / _string / _objid
     lib/snmplib/snmp_msg.c  snmp_msg_Decode
     lib/snmplib/snmp_pdu.c  snmp_pdu_decode            (TRP_REQ_MSG is not defined in this tree)
     lib/snmplib/snmp_vars.c snmp_var_DecodeVarBind
     lib/snmplib/snmp_api.c  snmp_parse
     src/snmp_core.cc        snmpHandleUdp (receive-buffer discipline)
     src/icp_v2.cc           icpHandleUdp, icp_common_t::icp_common_t(char*,unsigned), icpHandleIcpV2, icpGetUrl
     src/icp_v3.cc           icpHandleIcpV3 (same checks)
     src/htcp.cc             htcpRecv, htcpHandleMsg, htcpHandleTst*, htcpHandleClr, parseUint16,
                             htcpUnpackSpecifier, htcpUnpackDetail
   Sizes, offsets, opcode numbers and bit-field maps come from gen/Adversarial_gen.v (compiled against /repo),
   the receive limits of the three handlers from gen/Udpbufs_gen.v (read from the source text).
   All quantities are Z: C `int` lengths can in principle be negative, and the unsigned 32-bit wrap-arounds of the
   C code are written out ([u32], [s32]) where the code computes in `u_int` / `int`. *)
Require Import SquidV.Bytes SquidV.gen.Adversarial_gen SquidV.gen.Udpbufs_gen.
Local Open Scope Z_scope.

(* ------------------------------------------------------------------ outcomes *)
Inductive res (A : Type) : Type :=
| Ok (a : A)      (* the C code went on with this value *)
| Fail            (* the C code refused the input (returned NULL / false) *)
| OOB             (* the C code accessed an object outside its bounds *)
| NoFuel.         (* model artefact: loop budget exhausted (excluded by theorems) *)
Arguments Ok {A} a.
Arguments Fail {A}.
Arguments OOB {A}.
Arguments NoFuel {A}.

Definition bind {A B} (r : res A) (f : A -> res B) : res B :=
  match r with Ok a => f a | Fail => Fail | OOB => OOB | NoFuel => NoFuel end.
Notation "'do' x <- r ; k" := (bind r (fun x => k)) (at level 200, x name, r at level 100, k at level 200, right associativity).
Notation "'do' ' p <- r ; k" := (bind r (fun x => match x with p => k end))
  (at level 200, p pattern, r at level 100, k at level 200, right associativity).

(* ------------------------------------------------------------------ memory objects *)
(* An object of [bsize] bytes; [bget] is only ever consulted through [rd]. *)
Record buf := mkbuf { bsize : Z; bget : Z -> Z }.

Definition in_obj (b : buf) (i : Z) : bool := (0 <=? i) && (i <? bsize b).
Definition rd (b : buf) (i : Z) : res Z := if in_obj b i then Ok (bget b i) else OOB.
Definition wr (b : buf) (i v : Z) : res buf :=
  if in_obj b i then Ok (mkbuf (bsize b) (fun j => if j =? i then v else bget b j)) else OOB.
(* a write into / read of a fixed array of [cap] elements that the model does not keep *)
Definition idx_ok (cap i : Z) : res unit := if (0 <=? i) && (i <? cap) then Ok tt else OOB.

Fixpoint nthZ (l : list Z) (i : Z) : Z :=
  match l with [] => 0 | x :: r => if i =? 0 then x else nthZ r (i - 1) end.
Fixpoint lenZ (l : list Z) : Z := match l with [] => 0 | _ :: r => 1 + lenZ r end.

(* a list as an object: reads are exactly the checked list lookups *)
Definition buf_of_list (l : list Z) : buf := mkbuf (lenZ l) (nthZ l).

(* a receive buffer of [size] bytes whose previous content is [stale], after a datagram [d] of which [len]
   bytes were received *)
Definition recv_buf (size : Z) (stale : Z -> Z) (d : list Z) (len : Z) : buf :=
  mkbuf size (fun i => if i <? len then nthZ d i else stale i).

Definition u32 (z : Z) : Z := z mod 4294967296.
Definition s32 (z : Z) : Z := (z + 2147483648) mod 4294967296 - 2147483648.

Definition be16 (b : buf) (p : Z) : res Z := do x <- rd b p; do y <- rd b (p + 1); Ok (x * 256 + y).
Definition be32 (b : buf) (p : Z) : res Z :=
  do x <- rd b p; do y <- rd b (p + 1); do z <- rd b (p + 2); do w <- rd b (p + 3);
  Ok (((x * 256 + y) * 256 + z) * 256 + w).

(* big-endian value of n bytes (memcpy + ntohl + shift of asn_parse_length) *)
Fixpoint rd_be (b : buf) (p : Z) (n : nat) (acc : Z) : res Z :=
  match n with O => Ok acc | S k => do x <- rd b p; rd_be b (p + 1) k (acc * 256 + x) end.

Fixpoint rd_bytes (b : buf) (p : Z) (n : nat) : res (list Z) :=
  match n with O => Ok [] | S k => do x <- rd b p; do r <- rd_bytes b (p + 1) k; Ok (x :: r) end.

(* strlen(): scan to the first NUL *)
Fixpoint cstrlen_from (b : buf) (fuel : nat) (p acc : Z) : res Z :=
  match fuel with
  | O => NoFuel
  | S f => do x <- rd b p; if x =? 0 then Ok acc else cstrlen_from b f (p + 1) (acc + 1)
  end.
Definition cstrlen (b : buf) (p : Z) : res Z := cstrlen_from b (S (Z.to_nat (bsize b))) p 0.

(* ================================================================== ASN.1 (lib/snmplib/asn1.c) *)

(* asn_parse_length(data, &length): result = (pointer after the length field, length) *)
Definition asn_parse_length (b : buf) (p : Z) : res (Z * Z) :=
  do lb <- rd b p;                                              (* u_char lengthbyte = *data; *)
  if negb (Z.land lb asn_long_len =? 0) then
    let n := Z.land lb (255 - asn_long_len) in                 (* lengthbyte &= ~ASN_LONG_LEN; *)
    if n =? 0 then Fail
    else if sizeof_int <? n then Fail                          (* lengthbyte > sizeof(int) *)
    else do v <- rd_be b (p + 1) (Z.to_nat n) 0;               (* memcpy(length, data + 1, lengthbyte); ntohl; >>= *)
         Ok (p + n + 1, v)
  else Ok (p + 1, lb).

(* asn_header_fits(data, datalength): the identifier octet and the whole length field lie inside datalength bytes;
   checked by every reader before it looks at them *)
Definition asn_header_fits (b : buf) (p dl : Z) : res bool :=
  if dl <? 2 then Ok false else
  do x <- rd b (p + 1);
  if negb (Z.land x asn_long_len =? 0) then Ok (2 + Z.land x (255 - asn_long_len) <=? dl) else Ok true.

(* asn_parse_header(data, &datalength, &type): result = (contents pointer, new datalength, type) *)
Definition asn_parse_header (b : buf) (p dl : Z) : res (Z * Z * Z) :=
  do fits <- asn_header_fits b p dl;
  if negb fits then Fail else
  do t <- rd b p;                                               (* IS_EXTENSION_ID( *bufp ) *)
  if Z.land t asn_extension_id =? asn_extension_id then Fail else
  do '(p', alen) <- asn_parse_length b (p + 1);
  let header_len := p' - p in
  (* header_len + asn_length > *datalength is computed in u_int; asn_length > (u_int)(2 << 18) *)
  if (u32 dl <? u32 (header_len + alen)) || (asn_max_len <? alen) then Fail
  else Ok (p', alen, t).

Fixpoint int_bytes (b : buf) (p : Z) (n : nat) (v : Z) : res Z :=
  match n with O => Ok v | S k => do x <- rd b p; int_bytes b (p + 1) k (s32 (v * 256 + x)) end.

(* asn_parse_int(data, &datalength, &type, intp, sizeof(int)): (next, datalength, type, value) *)
Definition asn_parse_int (b : buf) (p dl : Z) : res (Z * Z * Z * Z) :=
  do fits <- asn_header_fits b p dl;
  if negb fits then Fail else
  do t <- rd b p;                                               (* *type = *bufp++; *)
  do '(p', alen) <- asn_parse_length b (p + 1);
  if dl <? alen + (p' - p) then Fail else                       (* asn_length + (bufp - data) > *datalength (long) *)
  if sizeof_int <? alen then Fail else                          (* asn_length > intsize *)
  let dl' := dl - (alen + (p' - p)) in
  do b0 <- rd b p';                                             (* if ( *bufp & 0x80) -- also when asn_length == 0 *)
  do v <- int_bytes b p' (Z.to_nat alen) (if Z.land b0 128 =? 0 then 0 else -1);
  Ok (p' + alen, dl', t, v).

(* asn_parse_unsigned_int(...): the value is stored into a u_int *)
Definition asn_parse_unsigned_int (b : buf) (p dl : Z) : res (Z * Z * Z * Z) :=
  do fits <- asn_header_fits b p dl;
  if negb fits then Fail else
  do t <- rd b p;
  do '(p', alen) <- asn_parse_length b (p + 1);
  if dl <? alen + (p' - p) then Fail else
  if sizeof_int + 1 <? alen then Fail else                      (* asn_length > intsize + 1 *)
  do bad <- (if alen =? sizeof_int + 1                          (* (asn_length == intsize + 1) && *bufp != 0x00 *)
             then do x <- rd b p'; Ok (negb (x =? 0)) else Ok false);
  if (bad : bool) then Fail else
  let dl' := dl - (alen + (p' - p)) in
  do b0 <- rd b p';
  do v <- int_bytes b p' (Z.to_nat alen) (if Z.land b0 128 =? 0 then 0 else -1);
  Ok (p' + alen, dl', t, u32 v).

(* memcpy(dst, src, n): the source range must lie inside the object (a contiguous range does iff its ends do) *)
Definition rd_range (b : buf) (p n : Z) : res unit :=
  if n <=? 0 then Ok tt else do _ <- rd b p; do _ <- rd b (p + n - 1); Ok tt.

(* asn_parse_string(data, &datalength, &type, string, &strlength): [cap] = *strlength on entry, [dcap] = size of the
   destination array, [keep] = whether the model materialises the copied bytes (only the community is looked at
   later). Result (next, datalength, type, length, bytes). *)
Definition asn_parse_string (keep : bool) (b : buf) (p dl cap dcap : Z) : res (Z * Z * Z * Z * list Z) :=
  do fits <- asn_header_fits b p dl;
  if negb fits then Fail else
  do t <- rd b p;
  do '(p', alen) <- asn_parse_length b (p + 1);
  if dl <? alen + (p' - p) then Fail else
  if u32 cap <? alen then Fail else                             (* asn_length > *strlength (unsigned) *)
  do _ <- (if alen =? 0 then Ok tt else idx_ok dcap (alen - 1)); (* memcpy(string, bufp, asn_length): last byte written *)
  do _ <- rd_range b p' alen;                                   (*                                 bytes read *)
  do s <- (if keep then rd_bytes b p' (Z.to_nat alen) else Ok []);
  Ok (p' + alen, dl - (alen + (p' - p)), t, alen, s).

(* one sub-identifier: do { if (length-- <= 0) fail; sub = (sub << 7) | ( *bufp & ~ASN_BIT8); } while ( *bufp++ & ASN_BIT8); *)
Fixpoint objid_sub (b : buf) (fuel : nat) (p length sub : Z) : res (Z * Z * Z) :=
  match fuel with
  | O => NoFuel
  | S f =>
    if length <=? 0 then Fail else
    do x <- rd b p;
    let sub' := u32 (sub * 128 + Z.land x (255 - asn_bit8)) in
    if negb (Z.land x asn_bit8 =? 0) then objid_sub b f (p + 1) (length - 1) sub'
    else Ok (p + 1, length - 1, sub')
  end.

(* while (length > 0 && ( *objidlength)-- > 0) { ...; *oidp++ = sub; }   [ocap] = elements of the destination *)
Fixpoint objid_loop (b : buf) (fuel : nat) (p length objlen oidx ocap : Z) (acc : list Z) : res (Z * Z * list Z) :=
  match fuel with
  | O => NoFuel
  | S f =>
    if 0 <? length then
      if 0 <? objlen then
        do '(p', length', sub) <- objid_sub b (S (Z.to_nat length)) p length 0;
        if max_subid <? sub then Fail else
        do _ <- idx_ok ocap oidx;                                (* *oidp++ = (oid) subidentifier; *)
        objid_loop b f p' length' (objlen - 1) (oidx + 1) ocap (sub :: acc)
      else Ok (p, oidx, acc)
    else Ok (p, oidx, acc)
  end.

(* asn_parse_objid(data, &datalength, &type, objid, &objidlength): result (next, datalength, type, sub-ids, count) *)
Definition asn_parse_objid (b : buf) (p dl objlen ocap : Z) : res (Z * Z * Z * list Z * Z) :=
  do fits <- asn_header_fits b p dl;
  if negb fits then Fail else
  do t <- rd b p;
  do '(p', alen) <- asn_parse_length b (p + 1);
  if dl <? alen + (p' - p) then Fail else
  let dl' := dl - (alen + (p' - p)) in
  do _ <- (if alen =? 0 then do _ <- idx_ok ocap 0; idx_ok ocap 1 else Ok tt);   (* objid[0] = objid[1] = 0; *)
  do '(pe, n, acc) <- objid_loop b (S (Z.to_nat alen)) p' alen (objlen - 1) 1 ocap [];
  do _ <- idx_ok ocap 1;                                         (* subidentifier = objid[1]; objid[0..1] = ... *)
  do _ <- idx_ok ocap 0;
  let rest := rev acc in
  let first := match rest with [] => 0 | x :: _ => x end in
  let '(o0, o1) := if first =? 43 then (1, 3)
                   else (((first - first mod 40) / 40) mod 256, (first mod 40) mod 256) in
  Ok (pe, dl', t, o0 :: o1 :: tl rest, n).

(* ================================================================== SNMP message *)
Record snmp_var := mkvar { v_type : Z; v_name_len : Z; v_val_len : Z }.
Record snmp_msg := mkmsg { m_ver : Z; m_comm : list Z; m_cmd : Z; m_reqid : Z; m_es : Z; m_ei : Z; m_vars : list snmp_var }.

(* snmp_pdu_decode: header, then three integers (GETBULK and the default branch read the same shapes) *)
Definition snmp_pdu_decode (b : buf) (p dl : Z) : res (Z * Z * Z * Z * Z * Z) :=
  do '(p, dl, cmd) <- asn_parse_header b p dl;
  do '(p, dl, _, reqid) <- asn_parse_int b p dl;
  do '(p, dl, _, es) <- asn_parse_int b p dl;
  do '(p, dl, _, ei) <- asn_parse_int b p dl;
  Ok (p, dl, cmd, reqid, es, ei).

Definition is_in (x : Z) (l : list Z) : bool := existsb (Z.eqb x) l.

(* one iteration of the variable loop of snmp_var_DecodeVarBind: (bufp, AllVarLen, variable) *)
Definition varbind_one (b : buf) (p allvarlen : Z) : res (Z * Z * snmp_var) :=
  do '(tmp, thisvarlen, t) <- asn_parse_header b p allvarlen;
  let allvarlen := allvarlen - (thisvarlen + (tmp - p)) in
  let p := tmp in
  if negb (t =? asn_seq_con) then Fail else
  do '(p, thisvarlen, t, _, name_len) <- asn_parse_objid b p thisvarlen max_name_len max_name_len;
  if negb (t =? asn_object_id) then Fail else
  let dataptr := p in
  let datalen := thisvarlen in
  do '(p, _, vt) <- asn_parse_header b p thisvarlen;
  let thisvarlen := datalen in
  if vt =? asn_integer then
    do '(p, _, t, _) <- asn_parse_int b dataptr thisvarlen;
    Ok (p, allvarlen, mkvar t name_len sizeof_int)
  else if is_in vt [smi_counter32; smi_gauge32; smi_timeticks] then
    do '(p, _, t, _) <- asn_parse_unsigned_int b dataptr thisvarlen;
    Ok (p, allvarlen, mkvar t name_len sizeof_int)
  else if is_in vt [asn_octet_str; smi_ipaddress; smi_opaque] then
    let val_len := if 0 <=? thisvarlen then thisvarlen else 0 in
    (* xmalloc(val_len + 1); asn_parse_string(.., Var->val.string, &Var->val_len); string[val_len] = 0 *)
    match asn_parse_string false b dataptr thisvarlen val_len (val_len + 1) with
    | Ok (p, _, t, n, _) => do _ <- idx_ok (val_len + 1) n; Ok (p, allvarlen, mkvar t name_len n)
    | Fail => do _ <- idx_ok (val_len + 1) val_len; Fail
    | OOB => OOB
    | NoFuel => NoFuel
    end
  else if vt =? asn_object_id then
    do '(p, _, t, _, n) <- asn_parse_objid b dataptr thisvarlen max_name_len max_name_len;
    Ok (p, allvarlen, mkvar t name_len (n * sizeof_oid))
  else if is_in vt [asn_null; smi_nosuchinstance; smi_nosuchobject; smi_endofmibview] then
    Ok (p, allvarlen, mkvar vt name_len 0)                     (* bufp stays right after the value's header *)
  else Fail.

Fixpoint varbind_loop (b : buf) (fuel : nat) (p allvarlen : Z) (acc : list snmp_var) : res (Z * list snmp_var) :=
  match fuel with
  | O => NoFuel
  | S f =>
    if 0 <? allvarlen then
      do '(p', all', v) <- varbind_one b p allvarlen;
      varbind_loop b f p' all' (v :: acc)
    else Ok (p, rev acc)
  end.

Definition snmp_var_decode (b : buf) (p dl : Z) : res (Z * list snmp_var) :=
  do '(p, allvarlen, t) <- asn_parse_header b p dl;
  if negb (t =? asn_seq_con) then Fail else
  varbind_loop b (S (Z.to_nat allvarlen)) p allvarlen [].

(* snmp_msg_Decode (called by snmp_parse with Community[snmp_comm_cap], CommunityLen = snmp_comm_len0) *)
Definition snmp_msg_decode (b : buf) (len : Z) : res snmp_msg :=
  do '(p, dl, t) <- asn_parse_header b 0 len;
  if negb (t =? asn_seq_con) then Fail else
  do '(p, dl, _, ver) <- asn_parse_int b p dl;
  do '(p, dl, _, clen, comm) <- asn_parse_string true b p dl snmp_comm_len0 snmp_comm_cap;
  if clen =? snmp_comm_len0 then Fail else                     (* cannot zero-terminate *)
  do _ <- idx_ok snmp_comm_cap clen;                           (* Community[ *CommLenP ] = '\0'; *)
  if is_in 0 comm then Fail else                                (* memchr(Community, 0, len) *)
  do '(p, dl, cmd, reqid, es, ei) <- snmp_pdu_decode b p dl;
  do '(_, vars) <- snmp_var_decode b p dl;
  Ok (mkmsg ver comm cmd reqid es ei vars).

Inductive udp_out (A : Type) : Type := Empty | Got (r : res A).
Arguments Empty {A}.
Arguments Got {A} r.

(* snmpHandleUdp + snmpDecodePacket + snmp_parse: buffer of [size] bytes, at most [recvmax] received; the buffer is
   zeroed before the receive when snmp_buf_zeroed, otherwise it keeps [stale] *)
Definition snmp_udp (size recvmax : Z) (stale : Z -> Z) (d : list Z) : udp_out snmp_msg :=
  let len := Z.min (lenZ d) recvmax in
  if len <=? 0 then Empty
  else Got (snmp_msg_decode (recv_buf size (if snmp_buf_zeroed then (fun _ => 0) else stale) d len) len).

(* the same decoder on an object of exactly the received size *)
Definition snmp_exact (d : list Z) : udp_out snmp_msg :=
  if lenZ d <=? 0 then Empty else Got (snmp_msg_decode (buf_of_list d) (lenZ d)).

(* ================================================================== ICP (src/icp_v2.cc, src/icp_v3.cc) *)
Record icp_hdr := mkicp { i_opcode : Z; i_version : Z; i_length : Z; i_reqnum : Z; i_flags : Z; i_pad : Z }.

(* icp_common_t::icp_common_t(char *buf, unsigned int len) *)
Definition icp_header (b : buf) (len : Z) : res icp_hdr :=
  if len <? icp_hdr_size then Ok (mkicp icp_invalid 0 ((len + 1) mod 2 ^ (8 * icp_sizeof_length)) 0 0 0)
  else
    do _ <- rd b (icp_hdr_size - 1);                             (* memcpy(this, buf, sizeof(icp_common_t)) *)
    do op <- rd b icp_off_opcode;
    do ver <- rd b icp_off_version;
    do l <- be16 b icp_off_length;
    do rq <- be32 b icp_off_reqnum;
    do fl <- be32 b icp_off_flags;
    do pd <- be32 b icp_off_pad;
    Ok (mkicp op ver l rq fl pd).

(* icp_common_t::getOpCode(), used as an index into icp_opcode_str[ICP_END + 1] *)
Definition icp_get_opcode (h : icp_hdr) : Z := if icp_end <? i_opcode h then icp_invalid else i_opcode h.

(* icpGetUrl(from, buf, header): Some (offset, strlen) or None *)
Definition icp_get_url (b : buf) (h : icp_hdr) : res (option (Z * Z)) :=
  let size := i_length h in
  let url_off := icp_hdr_size + (if i_opcode h =? icp_query then icp_query_prefix else 0) in
  if size <=? url_off then Ok None else
  do last <- rd b (size - 1);
  if negb (last =? 0) then Ok None else
  do n <- cstrlen b url_off;
  if url_off + n + 1 =? size then Ok (Some (url_off, n)) else Ok None.

Inductive icp_class :=
| IcpSmall | IcpVersion | IcpBadLen
| IcpQuery (url : option (Z * Z)) | IcpReply (url : option (Z * Z)) | IcpIgnored | IcpUnknown.

(* icpHandleIcpV2 / icpHandleIcpV3 after the header was built *)
Definition icp_dispatch (b : buf) (len : Z) : res icp_class :=
  if len <=? 0 then Ok IcpSmall else
  do h <- icp_header b len;
  if negb (len =? i_length h) then Ok IcpBadLen else
  do _ <- idx_ok (icp_end + 1) (icp_get_opcode h);             (* icp_opcode_str[header.getOpCode()] *)
  let op := i_opcode h in
  if op =? icp_query then do u <- icp_get_url b h; Ok (IcpQuery u)
  else if is_in op [icp_hit; icp_decho; icp_miss; icp_denied; icp_miss_nofetch] then
    do _ <- idx_ok (icp_end + 1) op;                             (* icp_opcode_str[opcode] in handleReply *)
    do u <- icp_get_url b h; Ok (IcpReply u)
  else if is_in op [icp_invalid; icp_err] then Ok IcpIgnored
  else Ok IcpUnknown.

(* icpHandleUdp for one datagram: LOCAL_ARRAY buf of [size] bytes with stale content, [recvmax] received at most *)
Definition icp_udp (size recvmax : Z) (stale : Z -> Z) (d : list Z) : udp_out icp_class :=
  let len := Z.min (lenZ d) recvmax in
  if len <=? 0 then Empty else
  Got (let b0 := recv_buf size stale d len in
       do _ <- (if icp_hdr_size <=? len then rd b0 icp_off_opcode else Ok 0);      (* icpCount *)
       do b <- (if icp_terminates then wr b0 len 0 else Ok b0);                    (* buf[len] = '\0'; *)
       if len <? icp_hdr_size then Ok IcpSmall else
       do ver <- rd b 1;                                                           (* icp_version = (int) buf[1]; *)
       if (ver =? icp_version_2) || (ver =? icp_version_3) then icp_dispatch b len
       else Ok IcpVersion).

(* what the unit harness observes: the header built from the buffer, and icpGetUrl under the handlers' guards *)
Definition icp_unit (size recvmax : Z) (stale : Z -> Z) (d : list Z) : res (icp_hdr * option (option (Z * Z))) :=
  let len := Z.min (lenZ d) recvmax in
  do b <- wr (recv_buf size stale d len) len 0;
  do h <- icp_header b len;
  if (0 <? len) && (icp_hdr_size <=? len) && (len =? i_length h)
  then do u <- icp_get_url b h; Ok (h, Some u)
  else Ok (h, None).

(* ================================================================== HTCP (src/htcp.cc) *)
(* buffer + log of in-place NUL writes (newest first) *)
Record hst := mkhst { hb : buf; hw : list Z }.
Definition hwr (s : hst) (i : Z) : res hst := do b <- wr (hb s) i 0; Ok (mkhst b (i :: hw s)).

(* parseUint16(buf, sz, out, field) *)
Definition parse_uint16 (b : buf) (p sz : Z) : res Z := if sz <? 2 then Fail else be16 b p.

Record htcp_spec := mkspec { sp_method : Z; sp_uri : Z; sp_version : Z; sp_hdrs : Z; sp_hdrs_sz : Z;
                             sp_lens : list Z (* strlen of the four C strings *) }.

(* a counted field whose length was read at [p]: after the length check the C code NUL-terminates the previous
   field by overwriting the first length byte *)
(* htcpUnpackSpecifier(buf, sz): the state is returned also when the unpacker refuses ([None]) *)
Definition htcp_unpack_specifier (s : hst) (p sz : Z) : res (hst * option htcp_spec) :=
  match parse_uint16 (hb s) p sz with                              (* METHOD length *)
  | Fail => Ok (s, None) | OOB => OOB | NoFuel => NoFuel
  | Ok l =>
    let sz := sz - 2 in let p := p + 2 in
    if sz <? l then Ok (s, None) else
    let method := p in let p := p + l in let sz := sz - l in
    match parse_uint16 (hb s) p sz with                            (* URI length *)
    | Fail => Ok (s, None) | OOB => OOB | NoFuel => NoFuel
    | Ok l =>
      let sz := sz - 2 in
      if sz <? l then Ok (s, None) else
      do s <- hwr s p;                                             (* terminate METHOD *)
      let p := p + 2 in let uri := p in let p := p + l in let sz := sz - l in
      match parse_uint16 (hb s) p sz with                          (* VERSION length *)
      | Fail => Ok (s, None) | OOB => OOB | NoFuel => NoFuel
      | Ok l =>
        let sz := sz - 2 in
        if sz <? l then Ok (s, None) else
        do s <- hwr s p;                                           (* terminate URI *)
        let p := p + 2 in let version := p in let p := p + l in let sz := sz - l in
        match parse_uint16 (hb s) p sz with                        (* REQ-HDRS length *)
        | Fail => Ok (s, None) | OOB => OOB | NoFuel => NoFuel
        | Ok l =>
          let sz := sz - 2 in
          if sz <? l then Ok (s, None) else
          do s <- hwr s p;                                         (* terminate VERSION *)
          let p := p + 2 in let hdrs := p in let p := p + l in
          do s <- hwr s p;                                         (* terminate REQ-HDRS: the byte after the data *)
          (* the four fields are now used as C strings (HttpRequestMethodXXX, FromUrlXXX, debugs) *)
          do ml <- cstrlen (hb s) method;
          do ul <- cstrlen (hb s) uri;
          do vl <- cstrlen (hb s) version;
          do hl <- cstrlen (hb s) hdrs;
          Ok (s, Some (mkspec method uri version hdrs l [ml; ul; vl; hl]))
        end
      end
    end
  end.

Record htcp_detail := mkdetail { d_resp : Z; d_resp_sz : Z; d_entity : Z; d_entity_sz : Z; d_cache : Z; d_cache_sz : Z;
                                 d_lens : list Z }.

(* htcpUnpackDetail(buf, sz) *)
Definition htcp_unpack_detail (s : hst) (p sz : Z) : res (hst * option htcp_detail) :=
  match parse_uint16 (hb s) p sz with                              (* RESP-HDRS length *)
  | Fail => Ok (s, None) | OOB => OOB | NoFuel => NoFuel
  | Ok l =>
    let sz := sz - 2 in let p := p + 2 in
    if sz <? l then Ok (s, None) else
    let resp := p in let rl := l in let p := p + l in let sz := sz - l in
    match parse_uint16 (hb s) p sz with                            (* ENTITY-HDRS length *)
    | Fail => Ok (s, None) | OOB => OOB | NoFuel => NoFuel
    | Ok l =>
      let sz := sz - 2 in
      if sz <? l then Ok (s, None) else
      do s <- hwr s p;
      let p := p + 2 in let ent := p in let el := l in let p := p + l in let sz := sz - l in
      match parse_uint16 (hb s) p sz with                          (* CACHE-HDRS length *)
      | Fail => Ok (s, None) | OOB => OOB | NoFuel => NoFuel
      | Ok l =>
        let sz := sz - 2 in
        if sz <? l then Ok (s, None) else
        do s <- hwr s p;
        let p := p + 2 in let cac := p in let p := p + l in
        do s <- hwr s p;
        do a <- cstrlen (hb s) resp;
        do e <- cstrlen (hb s) ent;
        do c <- cstrlen (hb s) cac;
        Ok (s, Some (mkdetail resp rl ent el cac l [a; e; c]))
      end
    end
  end.

Definition tbl (t : list Z) (x : Z) : Z := nthZ t x.

Inductive htcp_class :=
| HtcpDropped                                 (* refused by a header check *)
| HtcpNoOp                                    (* NOP / MON / SET, or a TST request without anything to do *)
| HtcpTstReq (sp : option htcp_spec)
| HtcpTstRsp (d : option (option htcp_detail)) (* None: no matching outstanding query *)
| HtcpClr (sp : option (option htcp_spec)).    (* None: too short for reserved+reason *)

Record htcp_result := mkhres { hr_old : option bool (* old_squid_format after the call; None = untouched *);
                               hr_class : htcp_class; hr_state : hst }.

(* htcpHandleMsg(buf, sz, from); [pending id] = this sender has an outstanding TST query with that msg_id *)
Definition htcp_handle_msg (pending : Z -> bool) (s : hst) (sz : Z) : res htcp_result :=
  let b := hb s in
  if (sz <? 0) || (sz <? htcp_hdr_size) then Ok (mkhres None HtcpDropped s) else
  do _ <- rd b (htcp_hdr_size - 1);                               (* memcpy(&htcpHdr, buf, sizeof(htcpHeader)) *)
  do hlen <- be16 b 0;
  do major <- rd b htcp_off_major;
  do minor <- rd b htcp_off_minor;
  let old := minor =? 0 in
  let drop := Ok (mkhres (Some old) HtcpDropped s) in
  if negb (sz =? hlen) then drop else
  if negb (major =? 0) then drop else
  let hbuf := htcp_hdr_size in
  let hsz := sz - htcp_hdr_size in
  if hsz <? htcp_dhdr_size then drop else
  (* memcpy of the data header: sizeof(hdr), or for the old format sizeof(htcpDataHeaderSquid) when available *)
  let copy := if old then (if htcp_dhdr_squid_size <=? hsz then htcp_dhdr_squid_size else htcp_dhdr_size)
              else htcp_dhdr_size in
  do _ <- rd b (hbuf + copy - 1);
  do dlen <- be16 b hbuf;
  do b2 <- rd b (hbuf + 2);
  do b3 <- rd b (hbuf + 3);
  do msg_id <- be32 b (hbuf + 4);
  let opcode := tbl (if old then htcp_old_opcode else htcp_new_opcode) b2 in
  let f1 := tbl (if old then htcp_old_f1 else htcp_new_f1) b3 in
  let rr := tbl (if old then htcp_old_rr else htcp_new_rr) b3 in
  if htcp_op_end <=? opcode then drop else
  do _ <- idx_ok (htcp_op_end + 1) opcode;                         (* htcpOpcodeStr[hdr.opcode] *)
  if dlen <? htcp_dhdr_size then drop else
  if hsz <? dlen then drop else
  let hsz := dlen - htcp_dhdr_size in
  let hbuf := hbuf + htcp_dhdr_size in
  if opcode =? htcp_op_tst then
    if rr =? htcp_rr_request then
      if hsz =? 0 then Ok (mkhres (Some old) HtcpNoOp s) else
      if f1 =? 0 then Ok (mkhres (Some old) HtcpNoOp s) else
      do '(s', sp) <- htcp_unpack_specifier s hbuf hsz;
      Ok (mkhres (Some old) (HtcpTstReq sp) s')
    else
      do _ <- idx_ok htcp_n_queried (msg_id mod htcp_n_queried);   (* queried_id[hdr->msg_id % N_QUERIED_KEYS] *)
      if negb (pending msg_id) then Ok (mkhres (Some old) (HtcpTstRsp None) s) else
      if f1 =? 1 then Ok (mkhres (Some old) (HtcpTstRsp None) s) else
      do '(s', d) <- htcp_unpack_detail s hbuf hsz;
      Ok (mkhres (Some old) (HtcpTstRsp (Some d)) s')
  else if opcode =? htcp_op_clr then
    if hsz <? 2 then Ok (mkhres (Some old) (HtcpClr None) s) else
    do _ <- rd b (hbuf + 1);                                       (* reason = buf[1] << 4 *)
    do '(s', sp) <- htcp_unpack_specifier s (hbuf + 2) (hsz - 2);
    Ok (mkhres (Some old) (HtcpClr (Some sp)) s')
  else Ok (mkhres (Some old) HtcpNoOp s).

(* htcpRecv: static char buf[size] with stale content, at most [recvmax] bytes received *)
Definition htcp_udp (pending : Z -> bool) (size recvmax : Z) (stale : Z -> Z) (d : list Z) : res htcp_result :=
  let len := Z.min (lenZ d) recvmax in
  htcp_handle_msg pending (mkhst (recv_buf size stale d len) []) len.

Definition htcp_spec_unit (size recvmax : Z) (stale : Z -> Z) (d : list Z) : res (hst * option htcp_spec) :=
  let len := Z.min (lenZ d) recvmax in
  htcp_unpack_specifier (mkhst (recv_buf size stale d len) []) 0 len.

Definition htcp_detail_unit (size recvmax : Z) (stale : Z -> Z) (d : list Z) : res (hst * option htcp_detail) :=
  let len := Z.min (lenZ d) recvmax in
  htcp_unpack_detail (mkhst (recv_buf size stale d len) []) 0 len.
