(* Properties_C41.v — C41: domain-name ACLs match exactly the configured domain sets.
   Statements only; proofs live in SplayProofs.v (shared splay-tree library) and AcldomProofs.v. *)
Require Import SquidV.Bytes SquidV.SplayModel SquidV.SplayProofs SquidV.AcldomModel SquidV.AcldomProofs.
Require Import SquidV.gen.AclDom_gen.
Local Open Scope Z_scope.

(* ===== include/splay.h, for every value type and every comparator ===== *)

(* splay() keeps the in-order sequence *)
Theorem C41_splay_preserves_inorder : forall (V : Type) (cmp : V -> Z) (t : tree V),
  t <> Leaf -> inorder (fst (splay cmp t)) = inorder t.
Proof. exact @splay_inorder. Qed.

(* ... leaves compare(query, new root) in splayLastResult and stops at a boundary: a root that
   compares "less" has an in-order predecessor that compares "greater", and symmetrically *)
Theorem C41_splay_root_and_boundary : forall (V : Type) (cmp : V -> Z) (t : tree V), t <> Leaf ->
  exists a z b, splay cmp t = (Node a z b, cmp z) /\
    inorder t = inorder a ++ z :: inorder b /\
    (cmp z < 0 -> last_pos cmp (inorder a)) /\
    (cmp z > 0 -> first_neg cmp (inorder b)).
Proof. exact @splay_spec. Qed.

(* find() never changes the stored sequence *)
Theorem C41_find_preserves_inorder : forall (V : Type) (cmp : V -> Z) (h : tree V),
  inorder (fst (sp_find cmp h)) = inorder h.
Proof. exact @sp_find_inorder. Qed.

(* find() succeeds iff some stored element compares equal, provided the sign of
   compare(query, .) never increases along the in-order sequence *)
Theorem C41_find_iff_equal_element : forall (V : Type) (cmp : V -> Z) (h : tree V),
  mono cmp (inorder h) ->
  ((exists x, snd (sp_find cmp h) = Some x) <-> (exists x, In x (inorder h) /\ cmp x = 0)).
Proof. exact @sp_find_iff. Qed.

(* what find() returns compares equal and is stored (no condition on the comparator) *)
Theorem C41_find_returns_equal_element : forall (V : Type) (cmp : V -> Z) (h : tree V) (x : V),
  snd (sp_find cmp h) = Some x -> cmp x = 0 /\ In x (inorder h).
Proof. exact @sp_find_some. Qed.

(* insert(): a stored element that compares equal is returned and nothing changes ... *)
Theorem C41_insert_duplicate_unchanged : forall (V : Type) (cmp : V -> Z) (v : V) (h h' : tree V) (old : V),
  sp_insert cmp v h = (h', Some old) ->
  inorder h' = inorder h /\ cmp old = 0 /\ In old (inorder h).
Proof. exact @sp_insert_found. Qed.

(* ... otherwise the value goes exactly between the "greater" and the "less" elements *)
Theorem C41_insert_new_in_order : forall (V : Type) (cmp : V -> Z) (v : V) (h h' : tree V),
  mono cmp (inorder h) -> sp_insert cmp v h = (h', None) ->
  exists A B, inorder h = A ++ B /\ inorder h' = A ++ v :: B /\
    Forall (fun y => cmp y > 0) A /\ Forall (fun y => cmp y < 0) B.
Proof. exact @sp_insert_new. Qed.

(* remove() deletes exactly the element that compares equal (and loses nothing else) *)
Theorem C41_remove_deletes_equal_element : forall (V : Type) (cmp : V -> Z) (h : tree V) (A : list V) (x : V) (B : list V),
  inorder h = A ++ x :: B -> cmp x = 0 ->
  Forall (fun y => cmp y > 0) A -> Forall (fun y => cmp y < 0) B ->
  exists h', sp_remove cmp h = (h', true) /\ inorder h' = A ++ B.
Proof. exact @sp_remove_spec. Qed.

(* ===== matchDomainName and the insertion rules ===== *)

(* the regenerated xtolower table is idempotent and maps exactly '.' to '.' *)
Theorem C41_xtolower_table : forall c : N,
  lower (lower c) = lower c /\ (lower c = dot <-> c = dot).
Proof. exact lower_facts. Qed.

(* one value, ANY non-empty value: the comparison used by match() is 0 exactly for the names the
   value stands for ('.x' = x and every name ending in '.x'; otherwise the name itself; ignoring case) *)
Theorem C41_single_value_semantics : forall host v : bytes, v <> [] ->
  (matchDomainName host v = 0 <-> dom_match v host).
Proof. exact mdn_zero_iff. Qed.

(* matchDomainName(h, d) is the position of h (read from its end, '.' smallest, case folded)
   relative to the interval [lo d, hi d) that d denotes in the lexicographic order *)
Theorem C41_matchDomainName_is_interval_position : forall h d : bytes, d <> [] -> strip_dots h <> [] ->
  sign_is (vpos (rk (strip_dots h)) d) (matchDomainName h d).
Proof. exact mdn_pos. Qed.

(* leading dots of the looked-up name are ignored *)
Theorem C41_host_leading_dot_ignored : forall host d : bytes,
  matchDomainName (dot :: host) d = matchDomainName host d.
Proof. exact mdn_leading_dot. Qed.

(* Compare(a, b) orders disjoint intervals and answers 0 only for overlapping ones. The values
   that reach it are well-formed (a non-empty name not starting with '.', optionally preceded by
   one '.') or the value "."; the single pair it does not treat as duplicates is (".", "."). *)
Theorem C41_compare_orders_disjoint_sets : forall a b : bytes, wfx a -> wfx b -> ~ (a = dotv /\ b = dotv) ->
  (dcompare a b < 0 <-> before a b) /\ (dcompare a b > 0 <-> before b a) /\
  (dcompare a b = 0 -> inI (lo b) a \/ inI (lo a) b).
Proof. exact dcompare_sign. Qed.

(* both comparators have monotone sign along a sequence sorted by "entirely before"
   (in which only copies of "." may repeat) *)
Theorem C41_compare_sign_monotone : forall (a : bytes) (l : list bytes),
  wfx a -> Forall wfx l -> sd l -> mono (dcompare a) l.
Proof. exact mono_dcompare. Qed.

Theorem C41_lookup_sign_monotone : forall (host : bytes) (l : list bytes),
  Forall wfx l -> sd l -> mono (host_cmp host) l.
Proof. exact mono_host. Qed.

(* IsSubset(a, b) is right about overlapping sets (any two values), and one of the two directions
   always holds, so MakeCombinedValue() is never reached *)
Theorem C41_issubset_sound : forall a b : bytes, (inI (lo b) a \/ inI (lo a) b) ->
  is_subset a b = true -> forall q, inI q a -> inI q b.
Proof. exact subset_sound. Qed.

Theorem C41_issubset_total : forall a b : bytes, is_subset a b = false -> is_subset b a = true.
Proof. exact subset_total. Qed.

(* parse() hands Merge() a well-formed value or "." for every non-empty token, and skipping
   redundant dots changes nothing else *)
Theorem C41_normalised_token_shape : forall t : bytes, t <> [] -> wfx (collapse_dots t).
Proof. exact collapse_wfx. Qed.

Theorem C41_normalisation_only_redundant_dots : forall tok : bytes,
  (forall r, tok <> dot :: dot :: r) -> norm tok = tok.
Proof. exact norm_id. Qed.

(* Merge(): terminates normally (never frees a stored value, never reaches MakeCombinedValue()),
   keeps the stored sets sorted and pairwise disjoint, and the union of the stored sets grows by
   exactly the new value's set *)
Theorem C41_merge_keeps_disjoint_same_union : forall (fuel : nat) (t : tree bytes) (n : Z) (v : bytes),
  inv t -> wfx v -> (tree_size t < fuel)%nat ->
  exists t' n', merge fuel t n v = MOk t' n' /\ inv t' /\
    (forall q, covered q (inorder t') <-> covered q (inorder t) \/ inI q v).
Proof. exact merge_spec. Qed.

(* ===== the property ===== *)

(* For EVERY list of non-empty tokens (the configuration parser never yields an empty one), in any
   order, with duplicates and overlaps, in any letter case: parse() ends normally and match(host)
   is true exactly when some token matches the host, where a token stands for its value with
   redundant leading dots skipped ([norm]; "..x" is ".x"), a value beginning with a dot matches
   that domain and all its sub-domains and any other value matches only itself ([dom_match]). *)
Theorem C41_acl_match_iff_some_value_matches : forall toks : list bytes, Forall nonempty toks ->
  exists t n, acl_parse toks = MOk t n /\
    forall host, snd (acl_match t host) = true <-> exists tok, In tok toks /\ dom_match (norm tok) host.
Proof. exact acl_correct. Qed.

(* the same for every later lookup: lookups re-shape the tree but never change an answer *)
Theorem C41_acl_match_sequence : forall toks : list bytes, Forall nonempty toks ->
  forall (hosts : list bytes) (t : tree bytes), acl_holds toks t ->
  Forall2 (fun host b => b = true <-> exists tok, In tok toks /\ dom_match (norm tok) host)
          hosts (snd (acl_match_seq t hosts)).
Proof. exact acl_match_seq_correct. Qed.

Theorem C41_acl_parse_establishes_invariant : forall toks : list bytes, Forall nonempty toks ->
  exists t n, acl_parse toks = MOk t n /\ acl_holds toks t.
Proof. exact acl_parse_ok. Qed.

(* non-vacuity: concrete instances of the hypotheses *)
Example C41_wfx_example : Forall wfx [s_da; s_a; [120; 46; 97]%N; [65; 46; 98]%N; dotv].
Proof.
  repeat (apply Forall_cons;
          [first [left; split; cbn; first [discriminate | reflexivity] | right; reflexivity]|]).
  constructor.
Qed.
Example C41_inv_example : inv (Node (Node Leaf dotv Leaf) s_a (Node Leaf [120; 46; 97]%N Leaf)).
Proof.
  split.
  - cbn [inorder app].
    repeat (apply Forall_cons;
            [first [left; split; cbn; first [discriminate | reflexivity] | right; reflexivity]|]).
    constructor.
  - cbn [inorder app sd].
    repeat split; repeat (apply Forall_cons; [left; unfold before, lle; vm_compute; discriminate|]); constructor.
Qed.
Example C41_mono_example : mono (fun b : Z => 3 - b) [1; 3; 5].
Proof. cbn [mono]. repeat split; repeat (constructor; [vm_compute; discriminate|]); constructor. Qed.
Example C41_parse_example :
  acl_parse [s_da; [120; 46; 97]%N; [66; 46; 99]%N] =
  MOk (Node (Node Leaf s_da Leaf) [98; 46; 99]%N Leaf) 2.
Proof. vm_compute. reflexivity. Qed.
Example C41_dom_match_example : dom_match s_da [88; 46; 65]%N /\ ~ dom_match s_a [120; 46; 97]%N.
Proof.
  split.
  - unfold dom_match. cbn. split; [discriminate|]. right. exists [120%N]. reflexivity.
  - unfold dom_match. cbn. intros [_ H]. discriminate.
Qed.
(* the two inputs that broke the code before the repair of parse() (lost value; freed stored value) *)
Example C41_former_counterexamples :
  (exists t n, acl_parse [s_dda; s_a] = MOk t n /\ snd (acl_match t s_a) = true) /\
  acl_parse [s_dda; s_da] = MOk (Node Leaf s_da Leaf) 1.
Proof. split; [eexists; eexists; split; vm_compute; reflexivity| vm_compute; reflexivity]. Qed.
(* "." is the one value that is not its own duplicate; it is merely stored twice *)
Example C41_dot_value_stored_twice :
  dcompare dotv dotv = -1 /\ acl_parse [dotv; dotv] = MOk (Node Leaf dotv (Node Leaf dotv Leaf)) 2.
Proof. split; vm_compute; reflexivity. Qed.

Print Assumptions C41_splay_preserves_inorder.
Print Assumptions C41_splay_root_and_boundary.
Print Assumptions C41_find_preserves_inorder.
Print Assumptions C41_find_iff_equal_element.
Print Assumptions C41_find_returns_equal_element.
Print Assumptions C41_insert_duplicate_unchanged.
Print Assumptions C41_insert_new_in_order.
Print Assumptions C41_remove_deletes_equal_element.
Print Assumptions C41_xtolower_table.
Print Assumptions C41_single_value_semantics.
Print Assumptions C41_matchDomainName_is_interval_position.
Print Assumptions C41_host_leading_dot_ignored.
Print Assumptions C41_compare_orders_disjoint_sets.
Print Assumptions C41_compare_sign_monotone.
Print Assumptions C41_lookup_sign_monotone.
Print Assumptions C41_issubset_sound.
Print Assumptions C41_issubset_total.
Print Assumptions C41_normalised_token_shape.
Print Assumptions C41_normalisation_only_redundant_dots.
Print Assumptions C41_merge_keeps_disjoint_same_union.
Print Assumptions C41_acl_match_iff_some_value_matches.
Print Assumptions C41_acl_match_sequence.
Print Assumptions C41_acl_parse_establishes_invariant.
