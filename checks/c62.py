"""C62: header size limits are enforced before forwarding (parser level + end to end through the real squid)."""
import base64, concurrent.futures, json, os, random
from vlib import std, lab, common, hbuild, coq, corr
from checks import c21

PID = "C62"
META = {
    "text": "Theorems (Properties_C62.v, closed under the global context) over ALL inputs, ALL segmentations, both parser modes "
            "and every request_header_max_size >= 34: (1) a request is accepted (handed on towards forwarding) only if its request "
            "line is shorter than the limit and method + target + 12 + header-block bytes stay below the limit, stated on the raw "
            "input bytes (input = tolerated empty lines ++ line ++ LF ++ header block ++ rest) - so an oversized request is never "
            "accepted however it arrives (via the C21 theorem); (2) a parser that still waits holds fewer than limit bytes; "
            "(3) every rejection carries 400, 414 or 431; an over-long line with a well-formed method and delimiter gets 414; after "
            "an accepted request line the only possible rejection is 431; (4) reply half: the reply_header_max_size decision "
            "(grabMimeBlock as reached from HttpStateData::processReplyHeader) relays only when status-line + header block < limit "
            "and its verdict is stable under arrival of more bytes. Tie: unit-level differential run of the extracted model against "
            "the real RequestParser on heads sized around the limit x segmentations, AND an end-to-end run against the real squid "
            "binary (request_header_max_size 2 KB, reply_header_max_size 2 KB) between a raw client and the scripted origin: request "
            "heads sized limit-3..+3 and far beyond, delivered in 1-4 TCP segments, must get exactly the predicted outcome (forwarded / "
            "414 / 431) and oversized ones never reach the origin; reply heads sized around the limit (origin writes in pieces) are "
            "relayed or replaced by a 502 exactly as predicted.",
    "note": "partial: the theorems are about the parser model and the reply-limit decision function; that the proxy answers a "
            "parser rejection with an error page of that status without forwarding (ConnStateData::parseHttpRequest -> "
            "abortRequestParsing -> Http::One::Server::buildHttpRequest -> setReplyError) and turns scHeaderTooLarge into ERR_TOO_BIG/502 "
            "(HttpStateData::continueAfterParsingHeader) rests on the end-to-end correspondence. The limit is applied to "
            "method+target+12+header block, not to the bytes on the wire: in relaxed mode a request with many delimiter bytes / CRs can "
            "be accepted with up to ~2x limit bytes in total while line < limit and headers < limit (reported, not a violation of the "
            "statement 'line or headers exceed'). Trusted: Coq kernel, extraction, gen/gen_reqparse.cc, harness/h_reqparse.cc, vlib/lab.py.",
    "technique": "Coq proof (case analysis of the limit branches on top of the C21 segmentation theorem, headersEnd monotonicity) + "
                 "unit-level differential correspondence + end-to-end differential correspondence of the extracted model against the "
                 "running squid + independent size oracle on raw bytes",
}

LIMIT = 2048          # request_header_max_size / reply_header_max_size used in the lab
STATUS_LINE = b"HTTP/1.1 200 OK\r\n"
FLS_REPLY = 7 + 1 + 5 + 2 + 2      # ResponseParser::firstLineSize() for "HTTP/1.1 200 OK\r\n"


def hx(b):
    return bytes(b).hex() if len(b) else "-"


# ------------------------------------------------------------------ end-to-end scenarios
DELTAS = [-3, -2, -1, 0, 1, 2, 3]


def gen_scenarios(rng, n):
    out = []
    for k in range(n):
        r = rng.random()
        d = rng.choice(DELTAS) if rng.random() < 0.75 else rng.choice([-600, -100, 17, 200, 1000, 3 * LIMIT])
        if r < 0.6:
            form = rng.choice(["uri", "uri", "hdr", "hdr", "hdr2", "nolf", "fold", "fold", "wsp", "wsp", "plain"])
            if form in ("fold", "wsp", "plain"):
                # received head bytes from limit-400 to limit+600; mostly everything in one read
                d = rng.choice([rng.randrange(-400, 601), rng.randrange(1, 601), rng.choice(DELTAS)])
            ncut = rng.choice([0, 0, 1, 2, 3])
            if form in ("fold", "wsp", "plain") and rng.random() < 0.5:
                ncut = 0
            cuts = sorted(round(rng.random(), 3) for _ in range(ncut))
            if ncut and rng.random() < 0.4:
                cuts[rng.randrange(ncut)] = rng.choice([0.97, 0.999, 0.5])     # near the end / at the boundary region
                cuts.sort()
            out.append({"half": "req", "form": form, "delta": d, "cuts": cuts, "ver": rng.choice(["1.1", "1.1", "1.0"])})
        else:
            ns = rng.choice([0, 0, 1, 2, 4])
            out.append({"half": "resp", "delta": d, "splits": [rng.choice([1, 5, 17, 100, 700, 1500]) for _ in range(ns)],
                        "nhdr": rng.choice([1, 1, 2, 5])})
    return out


def build_request(s, port, rid):
    """bytes of the request head; sizes are relative to LIMIT:
       uri : request line (without LF) has LIMIT+delta bytes
       hdr : method+target+12+header block = LIMIT+delta
       hdr2: same, several header lines
       nolf: LIMIT+delta bytes without any LF first, the rest of a valid head afterwards"""
    base = b"http://127.0.0.1:%d/%s/" % (port, rid.encode())
    ver = b" HTTP/" + s["ver"].encode()
    host = b"Host: 127.0.0.1:%d\r\n" % port
    d = s["delta"]
    if s["form"] in ("uri", "nolf"):
        want = max(LIMIT + d, len(base) + 20)
        fixed = len(b"GET ") + len(base) + len(ver) + 1          # + CR
        if s["form"] == "nolf":
            fixed = len(b"GET ") + len(base)
        fill = max(want - fixed, 0)
        line = b"GET " + base + b"a" * fill + ver + b"\r\n"
        return line + host + b"\r\n"
    line = b"GET " + base + ver + b"\r\n"
    fls = 3 + len(base) + 12
    want = max(LIMIT + d - fls, len(host) + 12)
    if s["form"] in ("fold", "wsp", "plain"):
        return line + shaped_block(s["form"], want, host, s.get("run", 38))
    if s["form"] == "hdr":
        fill = want - len(host) - len(b"X-Fill: \r\n") - 2
        block = host + b"X-Fill: " + b"f" * max(fill, 0) + b"\r\n\r\n"
    else:
        block = host
        i = 0
        while len(block) + 2 + 14 < want:
            room = want - len(block) - 2
            ln = b"X-F%d: " % (i % 10)
            n = min(room - len(ln) - 2, 90)
            if n < 0:
                break
            block += ln + b"g" * n + b"\r\n"
            i += 1
        block += b"\r\n"
    return line + block


def shaped_block(shape, want, host=b"Host: x\r\n", run=38):
    """a header block (incl. the empty line) of exactly `want` received bytes:
       plain: one long field; fold: a field continued over many obs-fold lines (CRLF + run of SP/HTAB) which
       unfoldMime() collapses to one SP each; wsp: whitespace-prefixed lines right after the start-line, which
       cleanMimePrefix() drops"""
    if shape == "plain":
        return host + b"X-Fill: " + b"f" * max(want - len(host) - 10 - 2, 0) + b"\r\n\r\n"
    if shape == "fold":
        head = host + b"X-Folded: a"
        tail = b"b\r\n\r\n"
        room = want - len(head) - len(tail)
        body = b""
        while room - len(body) >= 3:
            n = min(run, room - len(body) - 2)
            body += b"\r\n" + (b" " * (n - 1) + b"\t" if n > 3 else b" " * n)
        body += b"c" * (room - len(body))
        return head + body + tail
    # wsp
    tail = host + b"\r\n"
    room = want - len(tail)
    body = b""
    while room - len(body) >= 4:
        n = min(run + 20, room - len(body) - 3)
        body += b" " + b"w" * n + b"\r\n"
    if room - len(body) > 0:
        body = b" " + b"w" * (room - len(body)) + body[1:] if body else b""
        tail = tail if body else host[:-2] + b"x" * room + b"\r\n\r\n"
    return body + tail


def cut(b, cuts):
    pts = sorted(set(min(len(b) - 1, max(1, int(len(b) * c))) for c in cuts))
    return [b[i:j] for i, j in zip([0] + pts, pts + [len(b)])]


_state = {}


def origin_hook(rec, spec):
    if "fill" in spec:
        spec = dict(spec)
        spec["raw"] = base64.b64encode(build_reply(spec["fill"], spec.get("nhdr", 1))).decode()
        spec["close"] = True
    return spec


def build_reply(size, nhdr):
    """a reply whose head (status line + header block incl. the empty line) has exactly `size` bytes"""
    fixed = STATUS_LINE + b"Content-Length: 2\r\nX-Marker: relayed\r\n"
    room = size - len(fixed) - 2
    block = b""
    for i in range(nhdr):
        last = i == nhdr - 1
        ln = b"X-R%d: " % i
        n = (room - len(block) - len(ln) - 2) if last else min(40, max(room - len(block) - len(ln) - 2 - 12 * (nhdr - i - 1), 0))
        if n < 0:
            break
        block += ln + b"r" * n + b"\r\n"
    return fixed + block + b"\r\n" + b"ok"


def _one(args):
    sq, org, s, rid = args
    try:
        if s["half"] == "req":
            b = build_request(s, org.port, rid)
            segs = cut(b, s["cuts"])
            s["_segs"] = [x.hex() for x in segs]
            raw, closed = lab.exchange(sq.port, segs, gap=0.04, idle=0.7, total=10.0,
                                       until=lambda raw: lab.n_complete(raw, 1))
            resps, rest = lab.parse_responses(raw, methods=["GET"], eof=closed)
            arr = org.arrivals(rid)
            st = resps[0].status if resps else None
            if arr:
                return "fwd" if st == 200 else "fwd status=%s" % st
            if st is None:
                return "noreply"
            return "rej %d" % st
        spec = {"fill": LIMIT + s["delta"], "nhdr": s["nhdr"]}
        if s["splits"]:
            spec["splits"] = s["splits"]; spec["split_delay"] = 0.02
        reply = build_reply(spec["fill"], spec["nhdr"])
        s["_reply"] = reply.hex()
        r, raw = lab.get(sq.port, org.url(spec, rid))
        if r is None:
            return "noreply"
        if r.status == 200 and r.get("X-Marker") == "relayed":
            ok = all(v in [x for _, x in r.headers] for v in [h.split(b": ", 1)[1].decode() for h in reply.split(b"\r\n\r\n")[0].split(b"\r\n")[1:]])
            return "relay" if ok and r.body == b"ok" else "relay-altered"
        if r.status == 502:
            return "toobig"
        return "other %d" % r.status
    except Exception as ex:  # lab hiccup: reported as a (retried) non-answer
        return "error %s" % type(ex).__name__


def run_impl(L, scenarios):
    if "sq" not in _state or not _state["sq"].alive():
        _state["org"] = L.origin(hook=origin_hook)
        _state["sq"] = L.squid(extra_conf="request_header_max_size %d bytes\nreply_header_max_size %d bytes\n" % (LIMIT, LIMIT))
        _state.setdefault("n", 0)
    sq, org = _state["sq"], _state["org"]
    jobs = []
    for s in scenarios:
        _state["n"] += 1
        jobs.append((sq, org, s, "q%06d" % _state["n"]))
    with concurrent.futures.ThreadPoolExecutor(max_workers=6) as ex:
        return list(ex.map(_one, jobs))


def to_case(s):
    if s["half"] == "req":
        return "rp.e2e 1 %d %s" % (LIMIT, " ".join(x or "-" for x in s.get("_segs", ["-"])))
    reply = bytes.fromhex(s.get("_reply", ""))
    return "resp.limit %d %d %s" % (LIMIT, FLS_REPLY, hx(reply[len(STATUS_LINE):]))


def head_sizes(b):
    """(request-line length without LF, header block length incl. the empty line) of a request head"""
    i = b.find(b"\n")
    if i < 0:
        return len(b), 0
    rest = b[i + 1:]
    ends = [k + len(t) for t in (b"\r\n\r\n", b"\n\n", b"\n\r\n") for k in [rest.find(t)] if k >= 0]
    if rest.startswith(b"\r\n"):
        ends.append(2)
    return i, (min(ends) if ends else len(rest))


def oracle(s, obs):
    """C62 on what squid did: a request whose request line or header block exceeds the limit is answered 414/431
    and does not reach the origin; a reply whose head exceeds the limit is not relayed."""
    if obs.startswith(("noreply", "error", "other")):
        return ("oracle:no-transaction", "the transaction did not complete as a relay or an error page: " + obs)
    if s["half"] == "req":
        b = b"".join(bytes.fromhex(x) for x in s.get("_segs", []))
        line, block = head_sizes(b)
        complete = b"\r\n\r\n" in b or b"\n\n" in b
        if line > LIMIT or block > LIMIT or (complete and line + 1 + block > LIMIT):
            if obs.startswith("fwd"):
                return ("oracle:oversized-request-forwarded", "request line %d + header block %d received bytes (limit %d) reached the origin"
                        % (line, block, LIMIT))
            if obs not in ("rej 414", "rej 431"):
                return ("oracle:oversized-request-status", "request line %d / header block %d bytes (limit %d) answered `%s`, not 414/431"
                        % (line, block, LIMIT, obs))
        return None
    reply = bytes.fromhex(s.get("_reply", ""))
    head = len(reply.split(b"\r\n\r\n")[0]) + 4
    if head > LIMIT and obs.startswith("relay"):
        return ("oracle:oversized-reply-relayed", "reply head of %d bytes (limit %d) was relayed to the client" % (head, LIMIT))
    if obs == "relay-altered":
        return ("oracle:reply-altered", "reply head relayed with different header values")
    return None


# ------------------------------------------------------------------ unit level: the real RequestParser around the limit
def shaped_unit_case(rng, relaxed, limit, shape, total, segmode):
    """request head with method+target+12+block = total received bytes, in the given shape"""
    line = rng.choice([b"GET /a HTTP/1.1\r\n", b"POST /ab HTTP/1.0\r\n", b"GET /a HTTP/1.1\r\n"])
    fls = len(line)
    block = shaped_block(shape, max(total - fls, 14), b"Host: x\r\n", rng.choice([5, 17, 38]))
    b = line + block + rng.choice([b"", b"", b"BODY"])
    if segmode == 0:
        segs = [b]                                     # everything in one read
    elif segmode == 1:
        segs = [b[:-len(b) + len(line) + len(block) - 2] or b, b[len(line) + len(block) - 2:]] if False else [b[:len(line) + len(block) - 2], b[len(line) + len(block) - 2:]]
    elif segmode == 2:
        segs = c21.split_at_interesting(rng, b)
    else:
        segs = c21.rand_split(rng, b)
    return "rp.seg %d %d %s" % (relaxed, limit, " ".join(c21.hx(x) for x in segs if x) or "-")


def gen_unit(rng, n):
    cases = []
    # heads from limit-400 to limit+600 received bytes: plain, obs-folded, whitespace-prefixed; several segmentations
    for _ in range(max(n // 4, 200)):
        relaxed = 1 if rng.random() < 0.6 else 0
        limit = rng.choice([512, 1024, 1024, 700])
        shape = rng.choice(["plain", "fold", "fold", "wsp", "wsp"])
        total = limit + rng.choice([rng.randrange(-400, 601), rng.randrange(0, 601), rng.choice([-2, -1, 0, 1, 2])])
        cases.append(shaped_unit_case(rng, relaxed, limit, shape, total, rng.choice([0, 0, 1, 2, 3])))
    while len(cases) < n:
        relaxed = 1 if rng.random() < 0.6 else 0
        limit = rng.choice(c21.LIMITS_SMALL + [256, 300])
        b = rng.choice(c21.LEAD if relaxed else [b""]) + c21.sized_head(rng, relaxed, limit)
        if rng.random() < 0.15:
            b = c21.mutate_bytes(rng, b)
        segs = c21.split_at_interesting(rng, b) if rng.random() < 0.4 else c21.rand_split(rng, b)
        cases.append("rp.seg %d %d %s" % (relaxed, limit, " ".join(c21.hx(x) for x in segs)))
    return cases


def unit_oracle(case, out):
    """the C62 statement on the implementation's answers, sizes recomputed from the raw input bytes"""
    v = c21.oracle(case, out)
    if v and not v[0].startswith("oracle:blame-window"):
        return ("oracle:segmentation:" + v[0].split(":", 1)[1], v[1])
    a = case.split()
    relaxed, limit = a[1] == "1", int(a[2])
    b = b"".join(c21.unhx(x) for x in a[3:])
    try:
        w, i = c21.parse_seg_out(out)
    except Exception as ex:
        return ("oracle:unparsable", str(ex))
    for name, o in (("one-shot", w), ("incremental", i)):
        left = c21.unhx(o["rem"]) + c21.unhx(o["unfed"])
        if o["kind"] == "M" and len(c21.unhx(o["rem"])) >= limit:
            return ("oracle:waiting-with-full-buffer", "%s: parser waits for more data with %d bytes retained (limit %d)"
                    % (name, len(c21.unhx(o["rem"])), limit))
        if o["kind"] == "R" and o["code"] not in ("400", "414", "431"):
            return ("oracle:reject-status", "%s: rejected with status %s" % (name, o["code"]))
        if o["kind"] == "A":
            k = 0
            if relaxed:          # tolerated empty lines
                while k < len(b) and (b[k] == 10 or (b[k] == 13 and k + 1 < len(b) and b[k + 1] == 10)):
                    k += 1
            j = b.find(b"\n", k)
            line = (j - k) if j >= 0 else len(b) - k
            consumed = len(b) - len(left)
            block = consumed - (j + 1)
            if line >= limit:
                return ("oracle:oversized-line-accepted", "%s: request line of %d bytes accepted with limit %d" % (name, line, limit))
            if o["ver"].startswith("1.") and len(c21.unhx(o["mimg"])) + len(c21.unhx(o["uri"])) + 12 + block >= limit:
                return ("oracle:oversized-head-accepted", "%s: method+target+12+header block = %d accepted with limit %d"
                        % (name, len(c21.unhx(o["mimg"])) + len(c21.unhx(o["uri"])) + 12 + block, limit))
    return None


def unit_stage(res, tier):
    rng = random.Random(common.seed() * 1000003 + 6262)
    exe = c21.impl()
    runner = coq.build_runner("reqparse")
    n = 4000 if tier == "quick" else 150000
    corpus = std.load_corpus(PID)
    cases = corpus + gen_unit(rng, n)
    impl_out, model_out, dis = std.corr_stage(
        res, cases, exe, runner,
        kind_fn=lambda c, o: "unit:" + (o[2:3] if o.startswith("W=") else "x") + (o.split(",")[2] if o.startswith("W=R") else ""),
        nontrivial_fn=lambda c, o: True)
    found = 0
    for c, o in zip(cases, impl_out):
        v = unit_oracle(c, o)
        if v:
            sig, why = v
            if res.fail(sig, "%s on input `%s`: implementation answered `%s`: %s" % (PID, c[:400], o[:300], why),
                        {"case": c, "impl": o, "oracle": why, "signature": sig}):
                found += 1
    if dis and not found:
        k, c, a, b = dis[0]
        res.fail("corr:rp.seg", "model and implementation disagree on %d unit cases (first: `%s` impl=`%s` model=`%s`); the size oracle holds on every implementation answer explored"
                 % (len(dis), c[:300], a[:150], b[:150]),
                 {"no_failing_input_found": True, "broken": "correspondence ReqparseModel vs RequestParser (limits)",
                  "case": c, "impl": a, "model": b, "disagreements": len(dis)})
    res.extra["unit_cases"] = len(cases)
    res.extra["unit_disagreements"] = len(dis)


def prebuild():
    c21.impl()


def run(res, tier):
    res.rule = ("end to end: request heads whose line / method+target+12+headers is limit-3..+3 and far beyond (limit 2048), forms "
                "{long target, one long header, many headers, no LF within the limit}, HTTP/1.0 and 1.1, delivered in 1-4 TCP segments; reply "
                "heads of limit-3..+3 and beyond written by the origin in pieces; unit: generated heads bracketing limits 34..300 x "
                "segmentations on the real parser; every case is non-trivial (each is sized relative to the limit)")
    try:
        unit_stage(res, tier)
        std.run_lab(res, PID, tier, area="reqparse", gen_scenarios=gen_scenarios, run_impl=run_impl, to_case=to_case,
                    oracle=oracle, corr_name="ReqparseModel (parse_segments, resp_head_decision) vs the running squid",
                    gens=["charsets", "reqparse"], n_quick=110, n_thorough=1500, seed_salt=62,
                    kind_fn=lambda s, o: s["half"] + ":" + o.split(" status")[0],
                    nontrivial_fn=lambda s, o: True)
    finally:
        _state.clear()
