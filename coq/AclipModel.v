(* AclipModel.v — IP-address ACL data as the code has it:
     src/ip/Address.cc        isAnyAddr, isNoAddr, isIPv4, matchIPAddr, operator < <= > >= (no longer used
                              by the ACL code since 98f97cc; kept for the correspondence run),
                              applyMask(Address), applyMask(cidr, type), turnMaskedBitsOn
     src/acl/Ip.cc            acl_ip_data::firstAddress/lastAddress,
                              Acl::SplayInserter<acl_ip_data*>::Compare / IsSubset / MakeCombinedValue,
                              aclIpAddrNetworkCompare, ACLIP::parseGlobal / parse / match
     src/acl/SplayInserter.h  Acl::SplayInserter<>::Merge
     include/splay.h          via SplayModel.v (shared with C41)

   An Ip::Address is its 16-byte sin6_addr read as one big-endian 128-bit number
   (IPv4 a.b.c.d is ::ffff:a.b.c.d, as the code stores it); a mask is an
   Ip::Address as well. The conversion of configuration text to the
   (addr1, addr2, mask) triple (the sscanf patterns of FactoryParse, getaddrinfo,
   DecodeMask's text handling) is NOT modelled: the model starts from the triples
   the real FactoryParse produced. Executable definitions only. *)
Require Import SquidV.Bytes SquidV.SplayModel.
Local Open Scope N_scope.

(* ---------------- src/ip/Address.cc ---------------- *)
Definition TOP : N := 2 ^ 128.
Definition ALL1 : N := N.ones 128.                  (* v6_noaddr  ffff:...:ffff *)
Definition V4ANY : N := 281470681743360.            (* v4_anyaddr ::ffff:0.0.0.0       = 0xffff00000000 *)
Definition V4NO : N := 281474976710655.             (* v4_noaddr  ::ffff:255.255.255.255 = 0xffffffffffff *)

(* IN6_IS_ADDR_UNSPECIFIED || == v4_anyaddr *)
Definition isAnyAddr (a : N) : bool := (a =? 0) || (a =? V4ANY).
(* == v6_noaddr || == v4_noaddr *)
Definition isNoAddr (a : N) : bool := (a =? ALL1) || (a =? V4NO).
(* IN6_IS_ADDR_V4MAPPED: first 80 bits zero, next 16 bits one *)
Definition isIPv4 (a : N) : bool := a / 2 ^ 32 =? 65535.
Definition isIPv6 (a : N) : bool := negb (isIPv4 a).

Local Open Scope Z_scope.
(* matchIPAddr(): byte-wise compare from s6_addr[0], i.e. the order of the 128-bit numbers *)
Definition matchIPAddr (l r : N) : Z :=
  match (l ?= r)%N with Lt => -1 | Eq => 0 | Gt => 1 end.
Local Open Scope N_scope.

(* operator <  : if (isAnyAddr() && !rhs.isAnyAddr()) return true; return matchIPAddr(rhs) < 0;  *)
Definition addr_lt (a b : N) : bool := (isAnyAddr a && negb (isAnyAddr b)) || (a <? b).
(* operator <= : same shortcut; matchIPAddr(rhs) <= 0 *)
Definition addr_le (a b : N) : bool := (isAnyAddr a && negb (isAnyAddr b)) || (a <=? b).
(* operator >  : if (isNoAddr() && !rhs.isNoAddr()) return true; return matchIPAddr(rhs) > 0;   *)
Definition addr_gt (a b : N) : bool := (isNoAddr a && negb (isNoAddr b)) || (b <? a).
(* operator >= *)
Definition addr_ge (a b : N) : bool := (isNoAddr a && negb (isNoAddr b)) || (b <=? a).

(* applyMask(Address const &): p1[i] &= p2[i] on the four 32-bit words; returns the number of changed words *)
Definition applyMask (a m : N) : N := N.land a m.
Definition word32 (i : N) (a : N) : N := (a / 2 ^ (32 * i)) mod 2 ^ 32.
Definition mask_changes (a m : N) : N :=
  let chg i := if word32 i (N.land a m) =? word32 i a then 0 else 1 in
  chg 0 + chg 1 + chg 2 + chg 3.

(* turnMaskedBitsOn(): addressWords[i] |= ~maskWords[i] *)
Definition turnMaskedBitsOn (a m : N) : N := N.lor a (N.ldiff ALL1 m).

(* applyMask(cidrMask, mtype) applied to a NoAddr mask, as DecodeMask() does for "/<int>":
   the resulting mask, or None when the function returns false.
   [v4] = (mtype == AF_INET). Note the "/0 is NoAddr" shortcut. *)
Definition mask_of_cidr (cidr : N) (v4 : bool) : option N :=
  if 128 <? cidr then None
  else if (32 <? cidr) && v4 then None
  else if cidr =? 0 then Some ALL1
  else let clearbits := (if v4 then 32 else 128) - cidr in
       Some (N.shiftl (N.shiftr ALL1 clearbits) clearbits).

(* ---------------- src/acl/Ip.cc ---------------- *)
Record ipval : Type := IpVal { a1 : N; a2 : N; mk : N }.

(* acl_ip_data::firstAddress() *)
Definition first_addr (v : ipval) : N :=
  if isNoAddr (mk v) then a1 v else applyMask (a1 v) (mk v).

(* acl_ip_data::lastAddress() *)
Definition last_addr (v : ipval) : N :=
  let ip := if isAnyAddr (a2 v) then a1 v else a2 v in
  if isNoAddr (mk v) then ip else turnMaskedBitsOn ip (mk v).

Local Open Scope Z_scope.
(* Acl::SplayInserter<acl_ip_data*>::Compare(a, b) *)
Definition icompare (a b : ipval) : Z :=
  if matchIPAddr (last_addr a) (first_addr b) <? 0 then -1      (* a->lastAddress().matchIPAddr(b->firstAddress()) < 0 *)
  else if matchIPAddr (first_addr a) (last_addr b) >? 0 then 1  (* a->firstAddress().matchIPAddr(b->lastAddress()) > 0 *)
  else 0.

(* Acl::SplayInserter<acl_ip_data*>::IsSubset(a, b) *)
Definition is_subset (a b : ipval) : bool :=
  (matchIPAddr (first_addr b) (first_addr a) <=? 0) && (matchIPAddr (last_addr a) (last_addr b) <=? 0).

(* std::min(x, y, less) = less(y, x) ? y : x ; std::max(x, y, less) = less(x, y) ? y : x ;
   with less(x, y) = x.matchIPAddr(y) < 0 *)
Definition addr_less (x y : N) : bool := matchIPAddr x y <? 0.
Definition addr_min (x y : N) : N := if addr_less y x then y else x.
Definition addr_max (x y : N) : N := if addr_less x y then y else x.

(* Acl::SplayInserter<acl_ip_data*>::MakeCombinedValue(a, b) *)
Definition combined (a b : ipval) : ipval :=
  IpVal (addr_min (first_addr a) (first_addr b)) (addr_max (last_addr a) (last_addr b)) ALL1.

(* aclIpAddrNetworkCompare(p, q): p->addr1 is the client address [c] *)
Definition net_cmp (c : N) (q : ipval) : Z :=
  let A := applyMask c (mk q) in
  if isAnyAddr (a2 q) then matchIPAddr A (a1 q)
  else if (matchIPAddr A (a1 q) >=? 0) && (matchIPAddr A (a2 q) <=? 0) then 0
  else matchIPAddr A (a1 q).

(* Outcome of Merge() / parse() *)
Inductive merge_out : Type :=
| MOk (t : tree ipval) (elements : Z)
| MDangling    (* storage.remove(oldItem) found nothing, yet DestroyValue(oldItem) frees the value
                  the tree still points to: behaviour undefined from here on *)
| MFuel.       (* loop bound of the model exhausted *)

(* Acl::SplayInserter<acl_ip_data*>::Merge(storage, newItem); one unit of fuel per loop iteration *)
Fixpoint merge (fuel : nat) (t : tree ipval) (n : Z) (v : ipval) : merge_out :=
  match fuel with
  | O => MFuel
  | S f =>
      match sp_insert (icompare v) v t with
      | (t', None) => MOk t' (n + 1)                    (* inserted: ++elements *)
      | (t', Some old) =>
          if is_subset v old then MOk t' n              (* newItem ignored *)
          else if is_subset old v then
            match sp_remove (icompare old) t' with
            | (t'', true) => merge f t'' (n - 1) v      (* continue *)
            | (_, false) => MDangling
            end
          else
            let c := combined old v in                  (* newItem = combinedItem *)
            match sp_remove (icompare old) t' with
            | (t'', true) => merge f t'' (n - 1) c      (* continue *)
            | (_, false) => MDangling
            end
      end
  end.

(* every iteration but the last removes a node *)
Definition merge_fuel (t : tree ipval) : nat := S (tree_size t).

(* the string constants of ACLIP::parseGlobal() *)
Definition s_all : bytes := [97; 108; 108]%N.                                   (* "all" *)
Definition s_ipv4 : bytes := [105; 112; 118; 52]%N.                             (* "ipv4" *)
Definition s_ipv6 : bytes := [105; 112; 118; 54]%N.                             (* "ipv6" *)
Definition s_old1 : bytes := [48; 47; 48]%N.                                    (* "0/0" *)
Definition s_old2 : bytes := [48; 46; 48; 46; 48; 46; 48; 47; 48]%N.            (* "0.0.0.0/0" *)
Definition s_old3 : bytes :=
  [48; 46; 48; 46; 48; 46; 48; 47; 48; 46; 48; 46; 48; 46; 48]%N.               (* "0.0.0.0/0.0.0.0" *)
Definition s_old4 : bytes :=
  [48; 46; 48; 46; 48; 46; 48; 45; 50; 53; 53; 46; 50; 53; 53; 46; 50; 53; 53; 46; 50; 53; 53]%N.
                                                                                 (* "0.0.0.0-255.255.255.255" *)
Definition s_old5 : bytes :=
  [48; 46; 48; 46; 48; 46; 48; 45; 48; 46; 48; 46; 48; 46; 48; 47; 48]%N.       (* "0.0.0.0-0.0.0.0/0" *)

(* ACLIP::parseGlobal(token): Some (sets matchAnyIpv4, sets matchAnyIpv6) when the token is taken *)
Definition parse_global (tok : bytes) : option (bool * bool) :=
  if list_eqb tok s_all then Some (true, true)
  else if list_eqb tok s_ipv4 then Some (true, false)
  else if list_eqb tok s_ipv6 then Some (false, true)
  else if list_eqb tok s_old1 || list_eqb tok s_old2 || list_eqb tok s_old3
          || list_eqb tok s_old4 || list_eqb tok s_old5 then Some (true, true)
  else None.

(* What the real parser made of one token, as reported by the harness (text -> triple is not modelled):
   SG  ACLIP::parseGlobal() took it;  SX  FactoryParse() failed (self_destruct());
   SV  the list FactoryParse() returned *)
Inductive spec : Type := SG | SX | SV (vals : list ipval).

Inductive parse_out : Type :=
| POk (any4 any6 : bool) (t : tree ipval) (elements : Z)
| PExc         (* FactoryParse() called self_destruct() *)
| PDangling
| PFuel.

(* the inner loop of ACLIP::parse(): each FactoryParse() result is merged individually *)
Fixpoint merge_all (t : tree ipval) (n : Z) (vals : list ipval) : merge_out :=
  match vals with
  | [] => MOk t n
  | v :: rest =>
      match merge (merge_fuel t) t n v with
      | MOk t' n' => merge_all t' n' rest
      | bad => bad
      end
  end.

(* ACLIP::parse() *)
Fixpoint acl_parse_from (f4 f6 : bool) (t : tree ipval) (n : Z) (toks : list (bytes * spec)) : parse_out :=
  match toks with
  | [] => POk f4 f6 t n
  | (tok, sp) :: rest =>
      match parse_global tok with
      | Some (g4, g6) => acl_parse_from (f4 || g4) (f6 || g6) t n rest
      | None =>
          match sp with
          | SV vals =>
              match merge_all t n vals with
              | MOk t' n' => acl_parse_from f4 f6 t' n' rest
              | MDangling => PDangling
              | MFuel => PFuel
              end
          | _ => PExc
          end
      end
  end.

Definition acl_parse (toks : list (bytes * spec)) : parse_out := acl_parse_from false false Leaf 0 toks.

(* the harness re-checks each reported spec; the model's part of that check is parseGlobal() *)
Definition specs_ok (toks : list (bytes * spec)) : bool :=
  forallb (fun ts => match parse_global (fst ts), snd ts with
                     | Some _, SG => true
                     | None, SG => false
                     | Some _, _ => false
                     | None, _ => true
                     end) toks.

(* ACLIP::match(clientip): the lookup re-shapes the tree *)
Definition acl_lookup (t : tree ipval) (c : N) : tree ipval * bool :=
  let '(t', r) := sp_find (net_cmp c) t in
  (t', match r with Some _ => true | None => false end).

Definition acl_match (f4 f6 : bool) (t : tree ipval) (c : N) : tree ipval * bool :=
  if f4 then
    if f6 then (t, true)
    else if isIPv4 c then (t, true)
    else acl_lookup t c
  else if f6 then
    if isIPv6 c then (t, true)
    else acl_lookup t c
  else acl_lookup t c.

Fixpoint acl_match_seq (f4 f6 : bool) (t : tree ipval) (cs : list N) : tree ipval * list bool :=
  match cs with
  | [] => (t, [])
  | c :: rest =>
      let '(t1, b) := acl_match f4 f6 t c in
      let '(t2, bs) := acl_match_seq f4 f6 t1 rest in
      (t2, b :: bs)
  end.
