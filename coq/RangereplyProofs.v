(* RangereplyProofs.v — proofs for C15 (Range replies carry exactly the requested bytes). *)
Require Import SquidV.Bytes SquidV.TokModel SquidV.HopModel SquidV.HopProofs SquidV.RangeModel SquidV.RangeProofs.
Require Import SquidV.RangereplyModel.
Require Import SquidV.gen.Rangereply_gen.
Require Import ZifyBool ZifyN ZifyNat.
Local Open Scope Z_scope.

(* ================= byte-string slicing ================= *)
Lemma lenN_dropN {A} n (l : list A) : lenN (dropN n l) = (lenN l - n)%N.
Proof.
  revert n; induction l as [|x l IH]; intros n; cbn [dropN lenN]; [lia|].
  destruct (n =? 0)%N eqn:E; cbn [lenN]; [lia|]. rewrite IH. lia.
Qed.

Lemma dropN_0 {A} (l : list A) : dropN 0 l = l.
Proof. destruct l; reflexivity. Qed.

Lemma takeN_0 {A} (l : list A) : takeN 0 l = [].
Proof. destruct l; reflexivity. Qed.

Lemma dropN_dropN {A} a b (l : list A) : dropN a (dropN b l) = dropN (a + b) l.
Proof.
  revert a b; induction l as [|x l IH]; intros a b; cbn [dropN]; [reflexivity|].
  destruct (b =? 0)%N eqn:Eb.
  - assert (b = 0%N) by lia. subst b. rewrite N.add_0_r. reflexivity.
  - destruct (a + b =? 0)%N eqn:Eab; [lia|]. rewrite IH. f_equal. lia.
Qed.

Lemma takeN_all {A} n (l : list A) : (lenN l <= n)%N -> takeN n l = l.
Proof.
  revert n; induction l as [|x l IH]; intros n H; cbn [takeN]; [reflexivity|].
  cbn [lenN] in H. destruct (n =? 0)%N eqn:E; [lia|]. rewrite IH; [reflexivity|lia].
Qed.

Lemma dropN_all {A} n (l : list A) : (lenN l <= n)%N -> dropN n l = [].
Proof.
  revert n; induction l as [|x l IH]; intros n H; cbn [dropN]; [reflexivity|].
  cbn [lenN] in H. destruct (n =? 0)%N eqn:E; [lia|]. apply IH. lia.
Qed.

Lemma takeN_add {A} a b (l : list A) : takeN (a + b) l = takeN a l ++ takeN b (dropN a l).
Proof.
  revert a b; induction l as [|x l IH]; intros a b; cbn [takeN dropN]; [reflexivity|].
  destruct (a =? 0)%N eqn:Ea.
  - assert (a = 0%N) by lia. subst a. rewrite N.add_0_l. cbn [app takeN]. reflexivity.
  - destruct (a + b =? 0)%N eqn:Eab; [lia|]. cbn [app]. f_equal.
    replace (N.pred (a + b)) with (N.pred a + b)%N by lia. apply IH.
Qed.

Lemma takeN_takeN {A} a b (l : list A) : (a <= b)%N -> takeN a (takeN b l) = takeN a l.
Proof.
  revert a b; induction l as [|x l IH]; intros a b H; cbn [takeN]; [reflexivity|].
  destruct (b =? 0)%N eqn:Eb.
  - assert (a = 0%N) by lia. subst a. reflexivity.
  - cbn [takeN]. destruct (a =? 0)%N eqn:Ea; [reflexivity|]. f_equal. apply IH. lia.
Qed.

Lemma dropN_takeN {A} a b (l : list A) : dropN a (takeN (a + b) l) = takeN b (dropN a l).
Proof.
  revert a b; induction l as [|x l IH]; intros a b; cbn [takeN dropN]; [reflexivity|].
  destruct (a =? 0)%N eqn:Ea.
  - assert (a = 0%N) by lia. subst a. rewrite N.add_0_l. rewrite dropN_0. reflexivity.
  - destruct (a + b =? 0)%N eqn:Eab; [lia|]. cbn [dropN]. rewrite Ea.
    replace (N.pred (a + b)) with (N.pred a + b)%N by lia. apply IH.
Qed.

Lemma zlen_nonneg l : 0 <= zlen l.
Proof. unfold zlen. lia. Qed.

Lemma zlen_app a b : zlen (a ++ b) = zlen a + zlen b.
Proof. unfold zlen. rewrite lenN_app. lia. Qed.

Lemma zlen_nil : zlen [] = 0.
Proof. reflexivity. Qed.

Lemma zlen_zero l : zlen l = 0 -> l = [].
Proof. unfold zlen. destruct l as [|x l]; [reflexivity|]. cbn [lenN]. lia. Qed.

Lemma zlen_take n l : 0 <= n -> zlen (rr_take n l) = Z.min n (zlen l).
Proof. intros H. unfold zlen, rr_take. rewrite lenN_takeN. lia. Qed.

Lemma zlen_drop n l : 0 <= n -> zlen (rr_drop n l) = Z.max 0 (zlen l - n).
Proof. intros H. unfold zlen, rr_drop. rewrite lenN_dropN. lia. Qed.

Lemma zlen_slice obj off len : 0 <= off -> 0 <= len -> off + len <= zlen obj -> zlen (rr_slice obj off len) = len.
Proof. intros H1 H2 H3. unfold rr_slice. rewrite zlen_take by lia. rewrite zlen_drop by lia. lia. Qed.

Lemma take_slice obj off len c : 0 <= c <= len -> rr_take c (rr_slice obj off len) = rr_slice obj off c.
Proof. intros H. unfold rr_slice, rr_take. apply takeN_takeN. lia. Qed.

Lemma drop_slice obj off len c : 0 <= off -> 0 <= c <= len ->
  rr_drop c (rr_slice obj off len) = rr_slice obj (off + c) (len - c).
Proof.
  intros H0 H. unfold rr_slice, rr_take, rr_drop.
  replace (Z.to_N len) with (Z.to_N c + Z.to_N (len - c))%N by lia.
  rewrite dropN_takeN. rewrite dropN_dropN. f_equal. f_equal. lia.
Qed.

Lemma slice_split obj off a b : 0 <= off -> 0 <= a -> 0 <= b ->
  rr_slice obj off (a + b) = rr_slice obj off a ++ rr_slice obj (off + a) b.
Proof.
  intros H0 Ha Hb. unfold rr_slice, rr_take, rr_drop.
  replace (Z.to_N (a + b)) with (Z.to_N a + Z.to_N b)%N by lia.
  rewrite takeN_add. f_equal. rewrite dropN_dropN. f_equal. f_equal. lia.
Qed.

Lemma slice_zero obj off : rr_slice obj off 0 = [].
Proof. unfold rr_slice, rr_take. apply takeN_0. Qed.

Lemma slice_whole obj : rr_slice obj 0 (zlen obj) = obj.
Proof. unfold rr_slice, rr_take, rr_drop. cbn [Z.to_N]. rewrite dropN_0. apply takeN_all. unfold zlen. lia. Qed.

Lemma take_zero l : rr_take 0 l = [].
Proof. apply takeN_0. Qed.

(* ================= the iterator primitives on concrete states ================= *)
Lemma cpm_busy r d o : d <> 0 -> r <> [] -> can_pack_more (mkIt r d o false) = (mkIt r d o false, true).
Proof.
  intros Hd Hr. unfold can_pack_more. cbn [it_debt it_rest it_out it_bad].
  destruct (d =? 0) eqn:E; [lia|]. destruct r as [|c r]; [contradiction|].
  cbn [at_end it_rest rflag it_debt it_out it_bad]. rewrite E. reflexivity.
Qed.

Lemma cpm_next c n r o : snd n <> 0 ->
  can_pack_more (mkIt (c :: n :: r) 0 o false) = (mkIt (n :: r) (snd n) o false, true).
Proof.
  intros Hn. unfold can_pack_more, update_spec.
  cbn [it_debt it_rest it_out it_bad set_rest rflag set_debt at_end Z.eqb negb orb].
  destruct (snd n =? 0) eqn:E; [lia|]. reflexivity.
Qed.

Lemma cpm_last c o : can_pack_more (mkIt [c] 0 o false) = (mkIt [] 0 o false, false).
Proof. reflexivity. Qed.

Lemma cpm_ended o : can_pack_more (mkIt [] 0 o false) = (mkIt [] 0 o false, false).
Proof. reflexivity. Qed.

Lemma gnro_busy co cl r d o : d <> 0 -> o <= co + cl - d ->
  get_next_range_offset (mkIt ((co, cl) :: r) d o false) = (mkIt ((co, cl) :: r) d o false, co + cl - d).
Proof.
  intros Hd Ho. unfold get_next_range_offset. rewrite cpm_busy by (try discriminate; assumption).
  cbn [negb rflag it_rest it_debt it_out it_bad orb current_spec].
  destruct (co + cl - d <? o) eqn:E; [lia|]. rewrite andb_false_r. reflexivity.
Qed.

Lemma lts_busy co cl r d o astart asize : 0 < d ->
  length_to_send (mkIt ((co, cl) :: r) d o false) astart asize =
  (mkIt ((co, cl) :: r) d o false, if astart <? co then 0 else Z.min d asize).
Proof.
  intros Hd. unfold length_to_send. rewrite cpm_busy by (try discriminate; lia).
  cbn [negb rflag it_rest it_debt it_out it_bad orb current_spec].
  destruct (d =? -1) eqn:E1; [lia|]. destruct (0 <? d) eqn:E2; [|lia].
  cbn [negb orb]. destruct (astart <? co); reflexivity.
Qed.

Lemma note_sent_ok r d o n : 0 < d -> 0 <= n <= d ->
  note_sent (mkIt r d o false) n = mkIt r (d - n) (o + n) false.
Proof.
  intros Hd Hn. unfold note_sent. cbn [set_out it_rest it_debt it_out it_bad].
  destruct (d =? -1) eqn:E1; [lia|]. cbn [set_debt rflag it_rest it_debt it_out it_bad orb].
  destruct (d - n <? 0) eqn:E2; [lia|]. destruct (d - n <? -1) eqn:E3; [lia|]. reflexivity.
Qed.

(* ================= what a 206 body has to be ================= *)
(* ascending, disjoint, non-empty, inside the body: the canonical non-complex lists *)
Fixpoint chain (clen lo : Z) (l : list rspec2) : Prop :=
  match l with
  | [] => True
  | c :: r => lo <= fst c /\ 0 < snd c /\ fst c + snd c <= clen /\ chain clen (fst c + snd c) r
  end.

Definition hdr_mp (e : renv) (c : rspec2) : bytes := if e_multipart e then pack_range_hdr e c else [].
Definition term_mp (e : renv) : bytes := if e_multipart e then pack_term_bound e else [].

(* the parts, in order: (part header) ++ object[offset, offset+length) *)
Fixpoint parts_body (e : renv) (obj : bytes) (cs : list rspec2) : bytes :=
  match cs with
  | [] => []
  | c :: r => hdr_mp e c ++ rr_slice obj (fst c) (snd c) ++ parts_body e obj r
  end.
Definition expected_body (e : renv) (obj : bytes) (cs : list rspec2) : bytes := parts_body e obj cs ++ term_mp e.

(* what is still to be written when d bytes of the current spec c are owed *)
Definition hdr_if (e : renv) (c : rspec2) (d : Z) : bytes :=
  if e_multipart e && (d =? snd c) then pack_range_hdr e c else [].
Definition remaining (e : renv) (obj : bytes) (c : rspec2) (r : list rspec2) (d : Z) : bytes :=
  hdr_if e c d ++ rr_slice obj (fst c + snd c - d) d ++ parts_body e obj r ++ term_mp e.

Fixpoint sum_len (l : list rspec2) : Z := match l with [] => 0 | c :: r => snd c + sum_len r end.

Lemma remaining_start e obj c r : remaining e obj c r (snd c) = expected_body e obj (c :: r).
Proof.
  unfold remaining, expected_body, hdr_if, hdr_mp. cbn [parts_body]. rewrite Z.eqb_refl, andb_true_r.
  replace (fst c + snd c - snd c) with (fst c) by lia. unfold hdr_mp. now rewrite <- !app_assoc.
Qed.

Lemma chain_sum_nonneg clen lo l : chain clen lo l -> 0 <= sum_len l.
Proof. revert lo; induction l as [|c r IH]; intros lo H; cbn [sum_len]; [lia|]. destruct H as (_ & H2 & _ & H4). specialize (IH _ H4). lia. Qed.

(* ================= packRange on a buffer that starts at the next wanted byte ================= *)
Definition ready_after (e : renv) (obj : bytes) (c : rspec2) (r : list rspec2) (d : Z) (s' : riter) (out : bytes) : Prop :=
  (s' = mkIt [] 0 (it_out s') false /\ out = remaining e obj c r d) \/
  (exists co' cl' r' d',
      s' = mkIt ((co', cl') :: r') d' (co' + cl' - d') false /\
      0 <= co' /\ 0 < cl' /\ co' + cl' <= zlen obj /\ chain (zlen obj) (co' + cl') r' /\ 0 < d' <= cl' /\
      out ++ remaining e obj (co', cl') r' d' = remaining e obj c r d /\
      d' + sum_len r' < d + sum_len r).

Lemma rflag_f r d o : rflag (mkIt r d o false) false = mkIt r d o false.
Proof. reflexivity. Qed.
Lemma set_out_mk r d o b x : set_out (mkIt r d o b) x = mkIt r d x b.
Proof. reflexivity. Qed.

Ltac simp_it := cbn [it_rest it_out it_debt it_bad orb negb andb current_spec at_end]; rewrite ?rflag_f, ?set_out_mk; cbn [it_rest it_out it_debt it_bad].

Lemma pack_range_ready e obj : e_multipart e = true ->
  forall r co cl d k fuel,
    0 <= co -> 0 < cl -> co + cl <= zlen obj -> chain (zlen obj) (co + cl) r ->
    0 < d <= cl -> 1 <= k -> co + cl - d + k <= zlen obj -> (length r < fuel)%nat ->
    exists s' out,
      pack_range fuel e (mkIt ((co, cl) :: r) d (co + cl - d) false) (co + cl - d) (rr_slice obj (co + cl - d) k) = (s', out) /\
      ready_after e obj (co, cl) r d s' out.
Proof.
  intros Hmp. induction r as [|[no nl] r' IH]; intros co cl d k fuel Hco Hcl Hend Hch Hd Hk Hfit Hfuel.
  - (* last spec *)
    destruct fuel as [|f]; [cbn [length] in Hfuel; lia|].
    set (o := co + cl - d) in *.
    assert (Hz : zlen (rr_slice obj o k) = k) by (apply zlen_slice; lia).
    cbn [pack_range]. cbn [at_end it_rest orb]. rewrite Hz. destruct (k =? 0) eqn:Ek; [lia|].
    rewrite lts_busy by lia. destruct (o <? co) eqn:Eo; [lia|].
    destruct (0 <? Z.min d k) eqn:Ec; [|lia].
    cbn [current_spec it_rest it_out it_debt it_bad]. rewrite Hmp.
    destruct (o <? co + cl) eqn:E1; [|lia]. destruct (o + k >? co) eqn:E2; [|lia].
    simp_it. rewrite note_sent_ok by lia.
    destruct (Z.le_gt_cases d k) as [Hdk|Hkd].
    + (* the spec is completed by this buffer *)
      replace (Z.min d k) with d by lia. replace (d - d) with 0 by lia.
      rewrite cpm_last. cbn [negb it_debt Z.eqb].
      eexists _, _. split; [reflexivity|]. left. split; [reflexivity|].
      unfold remaining, hdr_if, term_mp. cbn [fst snd parts_body app]. rewrite Hmp. cbn [andb].
      rewrite take_slice by lia. fold o. now rewrite <- !app_assoc.
    + replace (Z.min d k) with k by lia.
      rewrite cpm_busy by (try discriminate; lia). cbn [negb].
      rewrite gnro_busy by lia.
      simp_it.
      replace (co + cl - (d - k)) with (o + k) by (unfold o; lia).
      destruct (o + k <? o + k) eqn:E3; [lia|]. simp_it.
      rewrite drop_slice by lia. replace (k - k) with 0 by lia. rewrite slice_zero.
      cbn [zlen lenN Z.of_N]. replace (o + k - (o + k)) with 0 by lia. cbn [Z.leb Z.compare].
      eexists _, _. split; [reflexivity|]. right. exists co, cl, [], (d - k).
      split; [f_equal; unfold o; lia|]. repeat split; try lia; try exact I; try (cbn [sum_len snd length]; lia).
      * unfold remaining, hdr_if. cbn [fst snd]. rewrite Hmp. cbn [andb].
        destruct (d - k =? cl) eqn:E4; [lia|]. cbn [app].
        rewrite take_slice by lia. rewrite <- !app_assoc. f_equal. rewrite app_assoc. f_equal.
        fold o. replace (co + cl - (d - k)) with (o + k) by (unfold o; lia).
        rewrite <- slice_split by lia. f_equal. lia.
  - (* another spec follows *)
    destruct fuel as [|f]; [cbn [length] in Hfuel; lia|].
    cbn [chain fst snd] in Hch. destruct Hch as (Hno & Hnl & Hnend & Hch').
    set (o := co + cl - d) in *.
    assert (Hz : zlen (rr_slice obj o k) = k) by (apply zlen_slice; lia).
    cbn [pack_range]. cbn [at_end it_rest orb]. rewrite Hz. destruct (k =? 0) eqn:Ek; [lia|].
    rewrite lts_busy by lia. destruct (o <? co) eqn:Eo; [lia|].
    destruct (0 <? Z.min d k) eqn:Ec; [|lia].
    cbn [current_spec it_rest it_out it_debt it_bad]. rewrite Hmp.
    destruct (o <? co + cl) eqn:E1; [|lia]. destruct (o + k >? co) eqn:E2; [|lia].
    simp_it. rewrite note_sent_ok by lia.
    destruct (Z.le_gt_cases d k) as [Hdk|Hkd].
    + replace (Z.min d k) with d by lia. replace (d - d) with 0 by lia.
      rewrite cpm_next by (cbn [snd]; lia). cbn [negb snd].
      rewrite gnro_busy by lia. replace (no + nl - nl) with no by lia.
      simp_it.
      replace (o + d) with (co + cl) by (unfold o; lia).
      destruct (no <? co + cl) eqn:E3; [lia|]. simp_it.
      rewrite drop_slice by lia. replace (o + d) with (co + cl) by (unfold o; lia).
      rewrite zlen_slice by lia.
      destruct (k - d <=? no - (co + cl)) eqn:E4.
      * eexists _, _. split; [reflexivity|]. right. exists no, nl, r', nl.
        split; [f_equal; lia|]. repeat split; try lia; try assumption; try (cbn [sum_len snd length]; lia).
        -- rewrite remaining_start. unfold remaining, expected_body. cbn [fst snd]. fold o.
           rewrite take_slice by lia. unfold hdr_if. cbn [snd]. rewrite Hmp. cbn [andb]. now rewrite <- !app_assoc.
      * destruct (d =? 0) eqn:E5; [lia|].
        rewrite drop_slice by lia.
        replace (co + cl + (no - (co + cl))) with no by lia.
        specialize (IH no nl nl (k - d - (no - (co + cl))) f).
        replace (no + nl - nl) with no in IH by lia.
        destruct IH as (s' & out' & Hrun & Hafter); try lia; try assumption.
        { cbn [length] in Hfuel. apply Nat.succ_lt_mono. exact Hfuel. }
        rewrite Hrun. eexists _, _. split; [reflexivity|].
        assert (Hrem : (hdr_if e (co, cl) d ++ rr_take d (rr_slice obj o k)) ++ remaining e obj (no, nl) r' nl
                       = remaining e obj (co, cl) ((no, nl) :: r') d).
        { rewrite remaining_start. unfold remaining, expected_body. cbn [fst snd]. fold o.
          rewrite take_slice by lia. now rewrite <- !app_assoc. }
        unfold hdr_if in Hrem. cbn [snd] in Hrem. rewrite Hmp in Hrem. cbn [andb] in Hrem.
        destruct Hafter as [(Hs' & Hout)|(co' & cl' & r'' & d' & Hs' & H1 & H2 & H3 & H4 & H5 & H6 & H7)].
        -- left. split; [exact Hs'|]. rewrite Hout. exact Hrem.
        -- right. exists co', cl', r'', d'. split; [exact Hs'|]. repeat split; try lia; try assumption; try (cbn [sum_len snd length]; lia).
           ++ rewrite <- app_assoc. rewrite H6. exact Hrem.
    + replace (Z.min d k) with k by lia.
      rewrite cpm_busy by (try discriminate; lia). cbn [negb].
      rewrite gnro_busy by lia.
      simp_it.
      replace (co + cl - (d - k)) with (o + k) by (unfold o; lia).
      destruct (o + k <? o + k) eqn:E3; [lia|]. simp_it.
      rewrite drop_slice by lia. replace (k - k) with 0 by lia. rewrite slice_zero.
      cbn [zlen lenN Z.of_N]. replace (o + k - (o + k)) with 0 by lia. cbn [Z.leb Z.compare].
      eexists _, _. split; [reflexivity|]. right. exists co, cl, ((no, nl) :: r'), (d - k).
      split; [f_equal; unfold o; lia|]. repeat split; try lia; try assumption; try (cbn [sum_len snd length]; lia).
      * unfold remaining, hdr_if. cbn [fst snd]. rewrite Hmp. cbn [andb].
        destruct (d - k =? cl) eqn:E4; [lia|]. cbn [app].
        rewrite take_slice by lia. rewrite <- !app_assoc. f_equal. rewrite app_assoc. f_equal.
        fold o. replace (co + cl - (d - k)) with (o + k) by (unfold o; lia).
        rewrite <- slice_split by lia. f_equal. lia.
Qed.

(* ================= one store buffer at the wanted offset: sendBody + socketState ================= *)
Definition single_ok (e : renv) (r : list rspec2) : Prop := e_multipart e = false -> r = [].

Lemma step_ready e obj : e_clen e = zlen obj ->
  forall r co cl d k,
    single_ok e r ->
    0 <= co -> 0 < cl -> co + cl <= zlen obj -> chain (zlen obj) (co + cl) r ->
    0 < d <= cl -> 1 <= k -> co + cl - d + k <= zlen obj ->
    exists s2 out s3 fin,
      send_buffer e (mkIt ((co, cl) :: r) d (co + cl - d) false) (co + cl - d) (rr_slice obj (co + cl - d) k) = (s2, out) /\
      socket_state e s2 = (s3, fin) /\ it_bad s3 = false /\
      (if fin then out = remaining e obj (co, cl) r d
       else exists co' cl' r' d',
           s3 = mkIt ((co', cl') :: r') d' (co' + cl' - d') false /\ single_ok e r' /\
           0 <= co' /\ 0 < cl' /\ co' + cl' <= zlen obj /\ chain (zlen obj) (co' + cl') r' /\ 0 < d' <= cl' /\
           out ++ remaining e obj (co', cl') r' d' = remaining e obj (co, cl) r d /\
           d' + sum_len r' < d + sum_len r).
Proof.
  intros Hclen r co cl d k Hsingle Hco Hcl Hend Hch Hd Hk Hfit.
  set (o := co + cl - d) in *.
  destruct (e_multipart e) eqn:Hmp.
  - (* multipart: packRange *)
    destruct (pack_range_ready e obj Hmp r co cl d k (S (length ((co, cl) :: r))) Hco Hcl Hend Hch Hd Hk Hfit)
      as (s2 & out & Hrun & Hafter).
    { cbn [length]. apply Nat.lt_succ_r. apply Nat.le_succ_diag_r. }
    assert (Hsb : send_buffer e (mkIt ((co, cl) :: r) d o false) o (rr_slice obj o k) = (s2, out)).
    { unfold send_buffer. rewrite Hmp. cbn [it_rest]. exact Hrun. }
    exists s2, out.
    destruct Hafter as [(Hs2 & Hout)|(co' & cl' & r' & d' & Hs2 & H1 & H2 & H3 & H4 & H5 & H6 & H7)].
    + (* finished *)
      assert (Hss : exists s3, socket_state e s2 = (s3, true) /\ it_bad s3 = false).
      { rewrite Hs2. unfold socket_state. cbn [it_out].
        destruct (e_clen e <=? it_out s2) eqn:E; [eexists; split; reflexivity|].
        rewrite cpm_ended. eexists; split; reflexivity. }
      destruct Hss as (s3 & Hss & Hb). exists s3, true. repeat split; assumption.
    + assert (Hss : socket_state e s2 = (s2, false)).
      { rewrite Hs2. unfold socket_state. cbn [it_out]. rewrite Hclen.
        destruct (zlen obj <=? co' + cl' - d') eqn:E; [lia|].
        rewrite cpm_busy by (try discriminate; lia). reflexivity. }
      exists s2, false. repeat split; try assumption; [rewrite Hs2; reflexivity|].
      exists co', cl', r', d'. repeat split; try lia; try assumption. intros Hm. rewrite Hmp in Hm. discriminate.
  - (* single part *)
    rewrite (Hsingle Hmp) in *. clear Hsingle.
    assert (Hz : zlen (rr_slice obj o k) = k) by (apply zlen_slice; lia).
    assert (Hsb : send_buffer e (mkIt [(co, cl)] d o false) o (rr_slice obj o k) =
                  (mkIt [(co, cl)] (d - Z.min d k) (o + Z.min d k) false, rr_take (Z.min d k) (rr_slice obj o k))).
    { unfold send_buffer. rewrite Hmp. rewrite lts_busy by lia. rewrite Hz.
      destruct (o <? co) eqn:Eo; [lia|]. rewrite note_sent_ok by lia. reflexivity. }
    destruct (Z.le_gt_cases d k) as [Hdk|Hkd].
    + replace (Z.min d k) with d in Hsb by lia. replace (d - d) with 0 in Hsb by lia.
      assert (Hout : rr_take d (rr_slice obj o k) = remaining e obj (co, cl) [] d).
      { unfold remaining, hdr_if, term_mp. rewrite Hmp. cbn [andb app parts_body fst snd]. fold o.
        rewrite take_slice by lia. now rewrite !app_nil_r. }
      assert (Hss : exists s3, socket_state e (mkIt [(co, cl)] 0 (o + d) false) = (s3, true) /\ it_bad s3 = false).
      { unfold socket_state. cbn [it_out].
        destruct (e_clen e <=? o + d) eqn:E; [eexists; split; reflexivity|].
        rewrite cpm_last. eexists; split; reflexivity. }
      destruct Hss as (s3 & Hss & Hb). eexists _, _, s3, true. split; [exact Hsb|]. repeat split; assumption.
    + replace (Z.min d k) with k in Hsb by lia.
      assert (Hss : socket_state e (mkIt [(co, cl)] (d - k) (o + k) false) = (mkIt [(co, cl)] (d - k) (o + k) false, false)).
      { unfold socket_state. cbn [it_out]. rewrite Hclen.
        destruct (zlen obj <=? o + k) eqn:E; [lia|].
        rewrite cpm_busy by (try discriminate; lia). reflexivity. }
      eexists _, _, _, false. split; [exact Hsb|]. split; [exact Hss|]. split; [reflexivity|].
      exists co, cl, [], (d - k). split; [f_equal; unfold o; lia|].
      repeat split; try lia; try exact I; try (cbn [sum_len]; lia).
      unfold remaining, hdr_if, term_mp. rewrite Hmp. cbn [andb app parts_body fst snd]. fold o.
      rewrite take_slice by lia. rewrite !app_nil_r.
      replace (co + cl - (d - k)) with (o + k) by (unfold o; lia).
      rewrite <- slice_split by lia. f_equal. lia.
Qed.

(* ================= the pull loop ================= *)
Fixpoint n_chunks (l : list N) : Z := match l with [] => 0 | _ :: r => 1 + n_chunks r end.

Lemma clip_chunk_bounds k avail : 1 <= avail -> 1 <= clip_chunk k avail <= avail.
Proof. intros H. unfold clip_chunk. lia. Qed.

Lemma pull_loop_exact e obj : e_clen e = zlen obj ->
  forall chunks r co cl d acc,
    single_ok e r ->
    0 <= co -> 0 < cl -> co + cl <= zlen obj -> chain (zlen obj) (co + cl) r -> 0 < d <= cl ->
    d + sum_len r <= n_chunks chunks ->
    pull_loop e obj chunks (mkIt ((co, cl) :: r) d (co + cl - d) false) acc
    = RDone (acc ++ remaining e obj (co, cl) r d) false.
Proof.
  intros Hclen. induction chunks as [|k ks IH]; intros r co cl d acc Hsingle Hco Hcl Hend Hch Hd Hn.
  - cbn [n_chunks] in Hn. pose proof (chain_sum_nonneg _ _ _ Hch). lia.
  - cbn [n_chunks] in Hn. cbn [pull_loop]. rewrite gnro_busy by lia. rewrite Hclen.
    destruct (zlen obj <=? co + cl - d) eqn:E; [lia|].
    pose proof (clip_chunk_bounds k (zlen obj - (co + cl - d)) ltac:(lia)) as Hk.
    destruct (step_ready e obj Hclen r co cl d (clip_chunk k (zlen obj - (co + cl - d))) Hsingle Hco Hcl Hend Hch Hd
                ltac:(lia) ltac:(lia)) as (s2 & out & s3 & fin & Hsb & Hss & Hbad & Hres).
    rewrite Hsb, Hss. destruct fin.
    + rewrite Hbad, Hres. reflexivity.
    + destruct Hres as (co' & cl' & r' & d' & Hs3 & Hsing' & H1 & H2 & H3 & H4 & H5 & H6 & H7).
      rewrite Hs3. rewrite IH by (try assumption; lia). rewrite <- app_assoc, H6. reflexivity.
Qed.

(* ================= the buffer that arrives with the headers ================= *)
Lemma first_dropped e r co cl data : 0 < co -> 0 < cl -> zlen data <> 0 ->
  send_buffer e (mkIt ((co, cl) :: r) cl co false) 0 data = (mkIt ((co, cl) :: r) cl co false, []).
Proof.
  intros Hco Hcl Hz. unfold send_buffer. destruct (e_multipart e) eqn:Hmp.
  - cbn [it_rest length pack_range at_end orb]. destruct (zlen data =? 0) eqn:E; [lia|].
    rewrite lts_busy by lia. destruct (0 <? co) eqn:E1; [|lia]. cbn [Z.ltb Z.compare].
    rewrite cpm_busy by (try discriminate; lia). cbn [negb]. rewrite gnro_busy by lia.
    simp_it. replace (co + cl - cl) with co by lia. destruct (co <? co) eqn:E2; [lia|]. simp_it.
    replace (co - co) with 0 by lia. destruct (zlen data <=? 0) eqn:E3; [pose proof (zlen_nonneg data); lia|].
    cbn [Z.eqb]. reflexivity.
  - rewrite lts_busy by lia. destruct (0 <? co) eqn:E1; [|lia]. rewrite note_sent_ok by lia.
    rewrite take_zero. f_equal. f_equal; lia.
Qed.

Definition first_ok (obj : bytes) (co : Z) (data0 : bytes) : Prop :=
  zlen data0 = 0 \/ 0 < co \/ (exists k, 1 <= k <= zlen obj /\ data0 = rr_slice obj 0 k).

Definition mp_consistent (e : renv) (cs : list rspec2) : Prop := e_multipart e = false -> exists c, cs = [c].

(* ================= Content-Length of the 206 ================= *)
Lemma parts_len e obj : forall cs lo a, 0 <= lo -> chain (zlen obj) lo cs ->
  mrange_clen_loop e cs a = a + zlen (parts_body (mkEnv true (e_clen e) (e_ctype e) (e_boundary e)) obj cs).
Proof.
  induction cs as [|[co cl] r IH]; intros lo a Hlo Hch; cbn [mrange_clen_loop parts_body]; [cbn [zlen lenN Z.of_N]; lia|].
  cbn [chain fst snd] in Hch. destruct Hch as (H1 & H2 & H3 & H4).
  rewrite (IH (co + cl)) by (try assumption; lia). rewrite !zlen_app. cbn [fst snd].
  rewrite zlen_slice by lia. unfold hdr_mp. cbn [e_multipart]. unfold pack_range_hdr. cbn [e_boundary e_ctype e_clen]. lia.
Qed.

Lemma env_eta e : e_multipart e = true -> mkEnv true (e_clen e) (e_ctype e) (e_boundary e) = e.
Proof. destruct e as [m c t b]. cbn. intros ->. reflexivity. Qed.

Lemma declared_length e obj co cl r : e_multipart e = (match r with [] => false | _ => true end) ->
  0 <= co -> chain (zlen obj) 0 ((co, cl) :: r) ->
  snd (prep_partial e ((co, cl) :: r)) = zlen (expected_body e obj ((co, cl) :: r)).
Proof.
  intros Hmp Hco Hch. unfold prep_partial. cbn [snd fst].
  destruct (e_multipart e) eqn:Em.
  - unfold mrange_clen. rewrite (parts_len e obj _ 0 0) by (try assumption; lia). rewrite (env_eta e Em).
    unfold expected_body, term_mp. rewrite Em. rewrite zlen_app. lia.
  - destruct r; [|discriminate]. unfold expected_body, term_mp, hdr_mp. cbn [parts_body]. unfold hdr_mp. rewrite Em.
    cbn [app fst snd]. rewrite !app_nil_r. cbn [chain fst snd] in Hch. rewrite zlen_slice by lia. reflexivity.
Qed.

Lemma prep_partial_cons e co cl r :
  prep_partial e ((co, cl) :: r) = (mkIt ((co, cl) :: r) cl co false, if e_multipart e then mrange_clen e ((co, cl) :: r) else cl).
Proof. reflexivity. Qed.

(* ================= pack_range_exact ================= *)
Theorem run_partial_exact e obj co cl r data0 chunks :
  e_clen e = zlen obj -> single_ok e r -> chain (zlen obj) 0 ((co, cl) :: r) -> first_ok obj co data0 ->
  cl + sum_len r <= n_chunks chunks ->
  snd (run_partial e obj ((co, cl) :: r) data0 chunks) = RDone (expected_body e obj ((co, cl) :: r)) false.
Proof.
  intros Hclen Hsingle Hch Hfirst Hn.
  cbn [chain fst snd] in Hch. destruct Hch as (Hco & Hcl & Hend & Hch).
  unfold run_partial. rewrite prep_partial_cons.
  assert (Hss : socket_state e (mkIt ((co, cl) :: r) cl co false) = (mkIt ((co, cl) :: r) cl co false, false)).
  { unfold socket_state. cbn [it_out]. rewrite Hclen. destruct (zlen obj <=? co) eqn:E; [lia|].
    rewrite cpm_busy by (try discriminate; lia). reflexivity. }
  assert (Hpull : pull_loop e obj chunks (mkIt ((co, cl) :: r) cl co false) [] = RDone (expected_body e obj ((co, cl) :: r)) false).
  { replace co with (co + cl - cl) at 2 by lia. rewrite (pull_loop_exact e obj Hclen) by (try assumption; lia).
    cbn [app]. f_equal. apply (remaining_start e obj (co, cl) r). }
  destruct (zlen data0 =? 0) eqn:Ez.
  - rewrite Hss. cbn [snd]. exact Hpull.
  - destruct (Z.lt_ge_cases 0 co) as [Hpos|Hzero].
    + rewrite first_dropped by lia. rewrite Hss. cbn [snd]. exact Hpull.
    + assert (co = 0) by lia. subst co.
      destruct Hfirst as [Hf|[Hf|(k & Hk & Hdata)]]; [lia|lia|]. subst data0.
      destruct (step_ready e obj Hclen r 0 cl cl k Hsingle ltac:(lia) Hcl Hend Hch ltac:(lia) ltac:(lia) ltac:(lia))
        as (s2 & out & s3 & fin & Hsb & Hss' & Hbad & Hres).
      replace (0 + cl - cl) with 0 in Hsb by lia. rewrite Hsb, Hss'. cbn [snd]. destruct fin.
      * rewrite Hbad, Hres. f_equal. apply (remaining_start e obj (0, cl) r).
      * destruct Hres as (co' & cl' & r' & d' & Hs3 & Hsing' & H1 & H2 & H3 & H4 & H5 & H6 & H7).
        rewrite Hs3. rewrite (pull_loop_exact e obj Hclen) by (try assumption; lia).
        rewrite H6. f_equal. apply (remaining_start e obj (0, cl) r).
Qed.

(* ================= canonical + not complex = chain ================= *)
Definition within (clen : Z) (c : rspec2) : Prop := 0 <= fst c /\ 0 < snd c /\ fst c + snd c <= clen.

Lemma chain_of_canon clen : forall cs lo,
  Forall (within clen) cs -> is_complex_from lo cs = false -> chain clen lo cs.
Proof.
  induction cs as [|[o l] r IH]; intros lo Hw Hc; cbn [chain]; [exact I|].
  inversion Hw as [|x y Hx Hy]; subst. destruct Hx as (H1 & H2 & H3). cbn [fst snd] in *.
  cbn [is_complex_from] in Hc. destruct (o <? lo) eqn:E; [discriminate|].
  repeat split; try lia. apply IH; assumption.
Qed.

Lemma canon_of_chain clen : forall cs lo, chain clen lo cs -> 0 <= lo ->
  Forall (within clen) cs /\ is_complex_from lo cs = false.
Proof.
  induction cs as [|[o l] r IH]; intros lo Hch Hlo; [split; [constructor|reflexivity]|].
  cbn [chain fst snd] in Hch. destruct Hch as (H1 & H2 & H3 & H4).
  destruct (IH _ H4 ltac:(lia)) as (Hw & Hc). split.
  - constructor; [unfold within; cbn [fst snd]; lia|exact Hw].
  - cbn [is_complex_from]. destruct (o <? lo) eqn:E; [lia|exact Hc].
Qed.

Lemma chain_sum_le clen : forall l lo, chain clen lo l -> lo + sum_len l <= clen \/ l = [].
Proof.
  induction l as [|[o n] r IH]; intros lo H; [now right|left].
  cbn [chain fst snd] in H. destruct H as (H1 & H2 & H3 & H4). cbn [sum_len snd].
  destruct (IH _ H4) as [Hs| ->]; [lia|cbn [sum_len]; lia].
Qed.

(* ================= replies sent without range processing ================= *)
Lemma plain_loop_exact obj : forall chunks out acc, 0 <= out <= zlen obj -> zlen obj - out <= n_chunks chunks ->
  plain_loop (zlen obj) obj chunks out acc = RDone (acc ++ rr_slice obj out (zlen obj - out)) false.
Proof.
  induction chunks as [|k ks IH]; intros out acc Ho Hn.
  - cbn [plain_loop n_chunks] in *. destruct (zlen obj <=? out) eqn:E; [|lia].
    replace (zlen obj - out) with 0 by lia. rewrite slice_zero, app_nil_r. reflexivity.
  - cbn [plain_loop]. destruct (zlen obj <=? out) eqn:E.
    + replace (zlen obj - out) with 0 by lia. rewrite slice_zero, app_nil_r. reflexivity.
    + cbn [n_chunks] in Hn.
      pose proof (clip_chunk_bounds k (zlen obj - out) ltac:(lia)) as Hk.
      set (kk := clip_chunk k (zlen obj - out)) in *.
      rewrite zlen_slice by lia. rewrite IH by lia. rewrite <- app_assoc. f_equal. f_equal.
      replace (zlen obj - out) with (kk + (zlen obj - (out + kk))) by lia. rewrite slice_split by lia. reflexivity.
Qed.

Theorem run_plain_shape obj data0 chunks : zlen data0 <= zlen obj -> zlen obj <= n_chunks chunks ->
  run_plain obj data0 chunks = RDone (data0 ++ rr_slice obj (zlen data0) (zlen obj - zlen data0)) false.
Proof. intros H Hn. unfold run_plain. pose proof (zlen_nonneg data0). apply plain_loop_exact; lia. Qed.

Lemma run_plain_prefix obj b chunks : 0 <= b <= zlen obj -> zlen obj <= n_chunks chunks ->
  run_plain obj (rr_slice obj 0 b) chunks = RDone obj false.
Proof.
  intros Hb Hn. rewrite run_plain_shape by (try rewrite zlen_slice; lia). rewrite zlen_slice by lia.
  f_equal. replace b with (0 + b) at 2 by lia. rewrite <- slice_split by lia.
  replace (b + (zlen obj - b)) with (zlen obj) by lia. apply slice_whole.
Qed.

Lemma first_read_size_bounds k0 clen : 0 <= clen -> 0 <= first_read_size k0 clen <= clen.
Proof. intros H. unfold first_read_size. lia. Qed.

(* a reply sent without range processing is the whole representation *)
Theorem plain_output_full i :
  zlen (i_obj i) <= n_chunks (i_chunks i) ->
  plain_output i = mkOut 200 (zlen (i_obj i)) None (i_ctype i) (RDone (i_obj i) false).
Proof.
  intros Hn. unfold plain_output, first_buffer. f_equal.
  pose proof (first_read_size_bounds (i_k0 i) (zlen (i_obj i)) (zlen_nonneg _)) as Hb.
  apply run_plain_prefix; lia.
Qed.

(* the first buffer squid hands over satisfies what pack_range_exact asks of it *)
Lemma first_buffer_ok obj co k0 : first_ok obj co (first_buffer obj (first_read_size k0 (zlen obj))).
Proof.
  pose proof (first_read_size_bounds k0 (zlen obj) (zlen_nonneg _)) as Hb.
  set (bs := first_read_size k0 (zlen obj)) in *. unfold first_ok, first_buffer.
  destruct (Z.eq_dec bs 0) as [Hz|Hnz].
  - left. rewrite Hz, slice_zero. reflexivity.
  - right. right. exists bs. split; [lia|reflexivity].
Qed.

(* ================= buildRangeHeader: when is it a 206 ================= *)
Theorem build_range_header_partial b raw cs :
  build_range_header b raw = VPartial cs <->
  ( b_have_rep b = true /\ b_status b = 200 /\ b_has_content_range b = false /\
    0 <= b_content_length b /\ b_content_length b = b_base_content_length b /\
    (b_is_hit b = true -> b_if_range b <> Some false) /\
    fst (range_canonize (b_content_length b) raw) = (true, cs) /\
    is_complex cs = false /\
    (b_is_hit b = false -> offset_limit_exceeded cs (b_limit b) = false) ).
Proof.
  unfold build_range_header.
  destruct (b_have_rep b) eqn:E1; cbn [negb]; [|split; [discriminate|intros (H & _); discriminate]].
  destruct (b_status b =? 200) eqn:E2; cbn [negb andb].
  2: { destruct (b_status b =? 206) eqn:E3; cbn [negb]; (split; [discriminate|intros (_ & H & _); lia]). }
  destruct (b_status b =? 206) eqn:E3; [lia|].
  destruct (b_has_content_range b) eqn:E4; [split; [discriminate|intros (_ & _ & H & _); discriminate]|].
  destruct (b_content_length b <? 0) eqn:E5; [split; [discriminate|intros (_ & _ & _ & H & _); lia]|].
  destruct (b_content_length b =? b_base_content_length b) eqn:E6; cbn [negb];
    [|split; [discriminate|intros (_ & _ & _ & _ & H & _); lia]].
  destruct (b_is_hit b && match b_if_range b with Some m => negb m | None => false end) eqn:E7.
  { split; [discriminate|]. intros (_ & _ & _ & _ & _ & H & _). apply andb_prop in E7 as [Eh Ei].
    destruct (b_if_range b) as [[|]|]; try discriminate. exfalso. now apply (H Eh). }
  destruct (range_canonize (b_content_length b) raw) as [[ok cs'] ub] eqn:Ec. cbn [fst].
  destruct ok; cbn [negb]; [|split; [discriminate|intros (_ & _ & _ & _ & _ & _ & H & _); discriminate]].
  destruct (is_complex cs') eqn:E8.
  { split; [discriminate|]. intros (_ & _ & _ & _ & _ & _ & H7 & H8 & _). inversion H7; subst. congruence. }
  destruct (negb (b_is_hit b) && offset_limit_exceeded cs' (b_limit b)) eqn:E9.
  { split; [discriminate|]. intros (_ & _ & _ & _ & _ & _ & H7 & _ & H9). inversion H7; subst.
    apply andb_prop in E9 as [A B]. destruct (b_is_hit b); [discriminate|]. rewrite (H9 eq_refl) in B. discriminate. }
  split.
  - intros H. inversion H; subst. repeat split; try lia; try assumption.
    all: try (intros Hh Hi; rewrite Hh, Hi in E7; discriminate).
    all: try (intros Hh; rewrite Hh in E9; exact E9).
  - intros (_ & _ & _ & _ & _ & _ & H7 & _). inversion H7; subst. reflexivity.
Qed.

(* ================= the whole transaction ================= *)
Lemma fst_run_partial e obj cs data0 chunks : fst (run_partial e obj cs data0 chunks) = snd (prep_partial e cs).
Proof.
  unfold run_partial. destruct (prep_partial e cs) as [s0 acl].
  destruct (if zlen data0 =? 0 then (s0, []) else send_buffer e s0 0 data0) as [s1 out0].
  destruct (socket_state e s1) as [s2 fin]. reflexivity.
Qed.

Definition reply_env (i : rinput) (cs : list rspec2) : renv :=
  mkEnv (1 <? Z.of_nat (length cs)) (zlen (i_obj i)) (i_ctype i) (boundary_str (i_key i)).

Theorem reply_run_spec i value specs :
  i_range i = Some value -> header_specs value = Some specs ->
  zlen (i_obj i) <= int64_max -> zlen (i_obj i) <= n_chunks (i_chunks i) ->
  (exists cs, canon_of (zlen (i_obj i)) specs cs /\ cs <> [] /\ chain (zlen (i_obj i)) 0 cs /\
      reply_run i = mkOut 206 (zlen (expected_body (reply_env i cs) (i_obj i) cs))
                          (match cs with [c] => Some (cont_range_value c (zlen (i_obj i))) | _ => None end)
                          (match cs with [c] => i_ctype i | _ => Some (multipart_ctype (boundary_str (i_key i))) end)
                          (RDone (expected_body (reply_env i cs) (i_obj i) cs) false))
  \/ reply_run i = plain_output i.
Proof.
  intros Hrange Hspecs Hmax Hn. set (clen := zlen (i_obj i)) in *.
  assert (Hclen : -1 <= clen <= int64_max) by (pose proof (zlen_nonneg (i_obj i)); unfold clen; lia).
  unfold reply_run. rewrite Hrange. rewrite range_parse_spec, Hspecs. cbn [fst]. set (raw := map repr specs).
  destruct (negb (i_hit i) && negb (negb (offset_limit_exceeded raw (i_limit i))) && (1 <? Z.of_nat (length raw))).
  { right. reflexivity. }
  match goal with |- context [build_range_header ?b raw] => set (bb := b) end.
  destruct (build_range_header bb raw) as [cs|why ub] eqn:Eb.
  2: { right. reflexivity. }
  left. apply build_range_header_partial in Eb.
  destruct Eb as (_ & _ & _ & _ & _ & _ & Hcanon & Hcomplex & _). cbn [b_content_length bb] in Hcanon.
  destruct (header_specs_valid value specs Hspecs) as (Hvalid & _).
  destruct (canon_specs_spec clen specs Hvalid Hclen) as (cs0 & Hcs0 & Hcanon_of).
  fold clen raw in Hcanon. unfold range_canonize in Hcanon. fold raw in Hcs0. rewrite Hcs0 in Hcanon. cbn [fst] in Hcanon.
  assert (cs0 = cs) by (inversion Hcanon; reflexivity). subst cs0.
  assert (Hne : cs <> []) by (destruct cs; [inversion Hcanon|discriminate]).
  assert (Hchain : chain clen 0 cs).
  { apply chain_of_canon; [|exact Hcomplex]. exact (canon_of_within clen specs cs Hcanon_of). }
  exists cs. split; [exact Hcanon_of|]. split; [exact Hne|]. split; [exact Hchain|].
  destruct cs as [|[co cl] r]; [contradiction|].
  fold (reply_env i ((co, cl) :: r)). set (e := reply_env i ((co, cl) :: r)).
  assert (Hmp : e_multipart e = match r with [] => false | _ => true end).
  { unfold e, reply_env. cbn [e_multipart length]. destruct r as [|c2 r2]; [reflexivity|].
    cbn [length]. rewrite !Nat2Z.inj_succ. pose proof (Nat2Z.is_nonneg (length r2)). lia. }
  assert (Hsingle : single_ok e r).
  { intros Hm. rewrite Hmp in Hm. destruct r; [reflexivity|discriminate]. }
  assert (Hco : 0 <= co) by (cbn [chain fst] in Hchain; lia).
  set (data0 := first_buffer (i_obj i) (first_read_size (i_k0 i) clen)).
  assert (Hfirst : first_ok (i_obj i) co data0).
  { unfold data0, clen. apply first_buffer_ok. }
  assert (Hsum : cl + sum_len r <= n_chunks (i_chunks i)).
  { destruct (chain_sum_le clen _ 0 Hchain) as [Hs|Hs]; [cbn [sum_len snd] in Hs; lia|discriminate]. }
  pose proof (run_partial_exact e (i_obj i) co cl r data0 (i_chunks i) eq_refl Hsingle Hchain Hfirst Hsum) as Hbody.
  pose proof (fst_run_partial e (i_obj i) ((co, cl) :: r) data0 (i_chunks i)) as Hacl.
  rewrite (declared_length e (i_obj i) co cl r Hmp Hco Hchain) in Hacl.
  assert (Hrun : run_partial e (i_obj i) ((co, cl) :: r) data0 (i_chunks i)
                 = (zlen (expected_body e (i_obj i) ((co, cl) :: r)), RDone (expected_body e (i_obj i) ((co, cl) :: r)) false)).
  { rewrite (surjective_pairing (run_partial e (i_obj i) ((co, cl) :: r) data0 (i_chunks i))). rewrite Hacl, Hbody. reflexivity. }
  change (mkEnv (1 <? Z.of_nat (length ((co, cl) :: r))) (zlen (i_obj i)) (i_ctype i) (boundary_str (i_key i))) with e.
  change (first_buffer (i_obj i) (first_read_size (i_k0 i) (zlen (i_obj i)))) with data0.
  unfold rspec2 in *. rewrite Hrun.
  change (1 <? Z.of_nat (length ((co, cl) :: r))) with (e_multipart e). rewrite Hmp.
  destruct r; reflexivity.
Qed.

(* ================= consequences ================= *)
Lemma reply_status i : o_status (reply_run i) = 200 \/ o_status (reply_run i) = 206.
Proof.
  unfold reply_run. destruct (i_range i) as [value|]; [|left; reflexivity].
  destruct (fst (range_parse value)) as [raw|]; [|left; reflexivity].
  destruct (negb (i_hit i) && negb (negb (offset_limit_exceeded raw (i_limit i))) && (1 <? Z.of_nat (length raw)));
    [left; reflexivity|].
  match goal with |- context [build_range_header ?b raw] => destruct (build_range_header b raw) end; [right|left; reflexivity].
  match goal with |- context [run_partial ?a ?b ?c ?d ?e] => destruct (run_partial a b c d e) end. reflexivity.
Qed.

Lemma reply_no_range i : i_range i = None -> reply_run i = plain_output i.
Proof. intros H. unfold reply_run. rewrite H. reflexivity. Qed.

Lemma reply_invalid_range i value : i_range i = Some value -> header_specs value = None -> reply_run i = plain_output i.
Proof. intros H Hs. unfold reply_run. rewrite H, range_parse_spec, Hs. reflexivity. Qed.

(* no Range, or a Range that has to be ignored: the whole representation, always *)
Theorem reply_without_usable_range i :
  (i_range i = None \/ exists value, i_range i = Some value /\ header_specs value = None) ->
  zlen (i_obj i) <= n_chunks (i_chunks i) ->
  reply_run i = mkOut 200 (zlen (i_obj i)) None (i_ctype i) (RDone (i_obj i) false).
Proof.
  intros [H|(value & H & Hs)] Hn; [rewrite (reply_no_range i H)|rewrite (reply_invalid_range i value H Hs)];
    apply plain_output_full; assumption.
Qed.

(* "otherwise the complete representation with 200": every 200 answer to a valid Range header *)
Theorem reply_200_full i value specs :
  i_range i = Some value -> header_specs value = Some specs ->
  zlen (i_obj i) <= int64_max -> zlen (i_obj i) <= n_chunks (i_chunks i) ->
  o_status (reply_run i) = 200 ->
  reply_run i = mkOut 200 (zlen (i_obj i)) None (i_ctype i) (RDone (i_obj i) false).
Proof.
  intros Hr Hs Hmax Hn Hst.
  destruct (reply_run_spec i value specs Hr Hs Hmax Hn) as [(cs & _ & _ & _ & Heq)|Heq].
  - rewrite Heq in Hst. discriminate.
  - rewrite Heq. apply plain_output_full. exact Hn.
Qed.

(* ... and every 200 answer at all *)
Theorem every_200_is_full i :
  zlen (i_obj i) <= int64_max -> zlen (i_obj i) <= n_chunks (i_chunks i) ->
  o_status (reply_run i) = 200 ->
  reply_run i = mkOut 200 (zlen (i_obj i)) None (i_ctype i) (RDone (i_obj i) false).
Proof.
  intros Hmax Hn Hst. destruct (i_range i) as [value|] eqn:Hr.
  - destruct (header_specs value) as [specs|] eqn:Hs.
    + exact (reply_200_full i value specs Hr Hs Hmax Hn Hst).
    + apply reply_without_usable_range; [right; exists value; split; assumption|exact Hn].
  - apply reply_without_usable_range; [now left|exact Hn].
Qed.

(* 416 is never sent; when no requested range is satisfiable the answer is 200 *)
Theorem reply_unsatisfiable_is_200 i value specs :
  i_range i = Some value -> header_specs value = Some specs ->
  zlen (i_obj i) <= int64_max -> zlen (i_obj i) <= n_chunks (i_chunks i) ->
  (forall s p, In s specs -> ~ wants (zlen (i_obj i)) s p) ->
  o_status (reply_run i) = 200.
Proof.
  intros Hr Hs Hmax Hn Hnone.
  destruct (reply_run_spec i value specs Hr Hs Hmax Hn) as [(cs & Hco & Hne & Hch & Heq)|Heq].
  - exfalso. destruct cs as [|c r]; [contradiction|].
    cbn [chain] in Hch. destruct Hch as (H1 & H2 & H3 & _).
    destruct (proj1 (canon_of_union _ _ _ Hco (fst c))) as (s & Hin & Hw).
    { exists c. split; [now left|unfold in_canon; lia]. }
    exact (Hnone s (fst c) Hin Hw).
  - rewrite Heq. reflexivity.
Qed.

(* ================= the former counterexample (disk hit whose Range is ignored late) ================= *)
(* a 10-byte representation 0..9 read from disk (the first read returns all of it), Range: bytes=5-6,2-3:
   before /repo 414e85a the 200 body was 2..9 8 9 *)
Definition late_ignore_input : rinput :=
  mkIn (Some [98;121;116;101;115;61;53;45;54;44;50;45;51]%N) [0;1;2;3;4;5;6;7;8;9]%N None [75]%N true 0 None None 4096
       [4096;4096;4096;4096;4096;4096;4096;4096;4096;4096]%N.

Lemma late_ignore_input_facts :
  header_specs [98;121;116;101;115;61;53;45;54;44;50;45;51]%N = Some [RRange 5 6; RRange 2 3] /\
  zlen (i_obj late_ignore_input) <= n_chunks (i_chunks late_ignore_input) /\
  reply_run late_ignore_input = mkOut 200 10 None None (RDone [0;1;2;3;4;5;6;7;8;9]%N false).
Proof. vm_compute. repeat split; intros H; discriminate H. Qed.

(* ================= the Content-Range text announces the slice it accompanies ================= *)
Lemma dec_value_snoc ds d : dec_value (ds ++ [d]) = dec_value ds * 10 + (Z.of_N d - 48).
Proof. unfold dec_value. rewrite fold_left_app. reflexivity. Qed.

Lemma dec_digits_rr_S k n :
  dec_digits_rr (S k) n = if (n <? 10)%N then [48 + n]%N else dec_digits_rr k (n / 10)%N ++ [48 + n mod 10]%N.
Proof. reflexivity. Qed.

Lemma forallb_app_rr {A} (p : A -> bool) a b : forallb p (a ++ b) = forallb p a && forallb p b.
Proof. induction a as [|x a IH]; cbn [app forallb]; [reflexivity|]. rewrite IH. now rewrite andb_assoc. Qed.

Lemma dec_digits_rr_spec : forall fuel n, (n < 10 ^ N.of_nat (S fuel))%N ->
  dec_value (dec_digits_rr (S fuel) n) = Z.of_N n /\ forallb is_digit (dec_digits_rr (S fuel) n) = true /\
  dec_digits_rr (S fuel) n <> [].
Proof.
  induction fuel as [|k IH]; intros n Hn; rewrite dec_digits_rr_S; destruct (n <? 10)%N eqn:E.
  - repeat split; [unfold dec_value; cbn [fold_left]; lia|cbn [forallb]; unfold is_digit; lia|discriminate].
  - change (10 ^ N.of_nat 1)%N with 10%N in Hn. lia.
  - repeat split; [unfold dec_value; cbn [fold_left]; lia|cbn [forallb]; unfold is_digit; lia|discriminate].
  - assert (Hk : (n / 10 < 10 ^ N.of_nat (S k))%N).
    { rewrite (Nat2N.inj_succ (S k)), N.pow_succ_r' in Hn. apply N.div_lt_upper_bound; lia. }
    destruct (IH _ Hk) as (Hv & Hd & Hne). repeat split.
    + rewrite dec_value_snoc, Hv. pose proof (N.div_mod n 10). lia.
    + rewrite forallb_app_rr, Hd. cbn [forallb]. unfold is_digit. pose proof (N.mod_lt n 10). lia.
    + intros H. apply app_eq_nil in H as [_ H]. discriminate.
Qed.

Lemma dec_print_pos v : 0 <= v <= int64_max -> pos_value (dec_print v) = Some v.
Proof.
  intros Hv. unfold dec_print. destruct (v <? 0) eqn:E; [lia|].
  assert (Hn : (Z.to_N v < 10 ^ N.of_nat 20)%N).
  { unfold int64_max, two63 in Hv. change (10 ^ N.of_nat 20)%N with 100000000000000000000%N. lia. }
  destruct (dec_digits_rr_spec 19 _ Hn) as (Hval & Hd & Hne).
  unfold pos_value. destruct (dec_digits_rr 20 (Z.to_N v)) as [|c r] eqn:Ed; [contradiction|].
  rewrite Hd, Hval. rewrite Z2N.id by lia. destruct (v <=? int64_max) eqn:E2; [reflexivity|lia].
Qed.

Definition bytes_sp : bytes := [98; 121; 116; 101; 115; 32]%N.

Theorem cont_range_value_announces c clen : 0 <= fst c -> 0 < snd c -> fst c + snd c <= clen -> clen <= int64_max ->
  exists a b l, cont_range_value c clen = bytes_sp ++ a ++ [45]%N ++ b ++ [47]%N ++ l /\
    pos_value a = Some (fst c) /\ pos_value b = Some (fst c + snd c - 1) /\ pos_value l = Some clen.
Proof.
  intros H1 H2 H3 H4. unfold cont_range_value.
  destruct (fst c =? -1) eqn:E1; [lia|]. destruct (snd c =? -1) eqn:E2; [lia|]. destruct (clen =? -1) eqn:E3; [lia|].
  cbn [orb]. exists (dec_print (fst c)), (dec_print (fst c + snd c - 1)), (dec_print clen).
  split; [unfold bytes_sp; now rewrite <- !app_assoc|].
  repeat split; apply dec_print_pos; lia.
Qed.
