// Harness: the overflow-safe arithmetic templates of src/SquidMath.h from /repo's
// working tree, instantiated for every combination of the ten standard integer
// types (signed/unsigned char, short, int, long, long long).
//
// stdin: one case per line; stdout: one canonical result line per case.
//   less   A B a b            -> 1 | 0                        Less(a, b)
//   inc    S T s t            -> some v | none                IncreaseSum(S s, T t)   (the two-argument overload)
//   sum1   S A a              -> some v | none                NaturalSum<S>(a)
//   sum2   S A B a b          -> some v | none                NaturalSum<S>(a, b)
//   sum3   S A B C a b c      -> some v | none                NaturalSum<S>(a, b, c)
//   setmax1 S A init a        -> ret var                      SetToNaturalSumOrMax(var, a)
//   setmax2 S A B init a b    -> ret var                      SetToNaturalSumOrMax(var, a, b)
//   setmax3 S A B C init a b c-> ret var
//   cast   R S s              -> v | EXC bad_optional_access  NaturalCast<R>(s)
//   pct    a b                -> v                            Math::intPercent (SquidMath.cc; smoke only)
// Types are named sc uc ss us si ui sl ul sll ull. Values are decimal and are
// converted to the named type with static_cast from __int128 (generators only
// produce in-range values; out-of-range ones wrap, the model does the same).
#include "squid.h"
#include "SquidMath.h"
#include "hcommon.h"

#include <array>
#include <optional>
#include <tuple>
#include <utility>

typedef __int128 W;

using TL = std::tuple<signed char, unsigned char, short, unsigned short, int, unsigned int,
      long, unsigned long, long long, unsigned long long>;
static const char *const TypeNames[] = {"sc", "uc", "ss", "us", "si", "ui", "sl", "ul", "sll", "ull"};
static constexpr size_t NT = std::tuple_size<TL>::value;
template <size_t I> using Ty = typename std::tuple_element<I, TL>::type;

static int typeIndex(const std::string &s)
{
    for (size_t i = 0; i < NT; ++i)
        if (s == TypeNames[i])
            return static_cast<int>(i);
    throw std::runtime_error("bad-type " + s);
}

static W parseW(const std::string &s)
{
    size_t i = 0;
    bool neg = false;
    if (i < s.size() && s[i] == '-') { neg = true; ++i; }
    if (i >= s.size()) throw std::runtime_error("bad-number");
    unsigned __int128 v = 0;
    for (; i < s.size(); ++i) {
        if (s[i] < '0' || s[i] > '9') throw std::runtime_error("bad-number");
        v = v * 10 + static_cast<unsigned>(s[i] - '0');
    }
    // two's complement negation in the unsigned domain: no signed overflow in the harness itself
    return static_cast<W>(neg ? (~v + 1) : v);
}

template <typename T>
static std::string show(const T v)
{
    if (std::is_signed<T>::value)
        return std::to_string(static_cast<long long>(v));
    return std::to_string(static_cast<unsigned long long>(v));
}

template <typename S>
static std::string showOpt(const std::optional<S> &r)
{
    return r ? ("some " + show<S>(r.value())) : std::string("none");
}

/* one function per instantiation; all have the same signature so that they fit into tables */
typedef std::string (*Fn)(const W *);

template <typename A, typename B>
static std::string fLess(const W *v) { return Less(static_cast<A>(v[0]), static_cast<B>(v[1])) ? "1" : "0"; }

template <typename S, typename T>
static std::string fInc(const W *v) { return showOpt<S>(IncreaseSum(static_cast<S>(v[0]), static_cast<T>(v[1]))); }

template <typename S, typename A>
static std::string fSum1(const W *v) { return showOpt<S>(NaturalSum<S>(static_cast<A>(v[0]))); }

template <typename S, typename A, typename B>
static std::string fSum2(const W *v) { return showOpt<S>(NaturalSum<S>(static_cast<A>(v[0]), static_cast<B>(v[1]))); }

template <typename S, typename A, typename B, typename C>
static std::string fSum3(const W *v)
{
    return showOpt<S>(NaturalSum<S>(static_cast<A>(v[0]), static_cast<B>(v[1]), static_cast<C>(v[2])));
}

template <typename S, typename A>
static std::string fSet1(const W *v)
{
    S var = static_cast<S>(v[0]);
    const S ret = SetToNaturalSumOrMax(var, static_cast<A>(v[1]));
    return show<S>(ret) + " " + show<S>(var);
}

template <typename S, typename A, typename B>
static std::string fSet2(const W *v)
{
    S var = static_cast<S>(v[0]);
    const S ret = SetToNaturalSumOrMax(var, static_cast<A>(v[1]), static_cast<B>(v[2]));
    return show<S>(ret) + " " + show<S>(var);
}

template <typename S, typename A, typename B, typename C>
static std::string fSet3(const W *v)
{
    S var = static_cast<S>(v[0]);
    const S ret = SetToNaturalSumOrMax(var, static_cast<A>(v[1]), static_cast<B>(v[2]), static_cast<C>(v[3]));
    return show<S>(ret) + " " + show<S>(var);
}

template <typename R, typename S>
static std::string fCast(const W *v)
{
    try {
        return show<R>(NaturalCast<R>(static_cast<S>(v[0])));
    } catch (const std::bad_optional_access &) {
        return "EXC bad_optional_access";
    }
}

/* dispatch tables: entry I of a table over k type parameters is the instantiation for the
   base-NT digits of I (most significant digit = first template parameter) */
#define D2(I) Ty<(I) / NT>, Ty<(I) % NT>
#define D3(I) Ty<(I) / (NT * NT)>, Ty<(I) / NT % NT>, Ty<(I) % NT>
#define D4(I) Ty<(I) / (NT * NT * NT)>, Ty<(I) / (NT * NT) % NT>, Ty<(I) / NT % NT>, Ty<(I) % NT>
#define TABLE(name, fn, DIG, COUNT) \
    template <size_t... I> static constexpr std::array<Fn, sizeof...(I)> name##Make(std::index_sequence<I...>) \
    { return {{ &fn<DIG(I)>... }}; } \
    static const auto name = name##Make(std::make_index_sequence<(COUNT)>());

TABLE(LessTable, fLess, D2, NT * NT)
TABLE(IncTable, fInc, D2, NT * NT)
TABLE(Sum1Table, fSum1, D2, NT * NT)
TABLE(Set1Table, fSet1, D2, NT * NT)
TABLE(CastTable, fCast, D2, NT * NT)
TABLE(Sum2Table, fSum2, D3, NT * NT * NT)
TABLE(Set2Table, fSet2, D3, NT * NT * NT)
#ifndef H_MATH_NO3
TABLE(Sum3Table, fSum3, D4, NT * NT * NT * NT)
TABLE(Set3Table, fSet3, D4, NT * NT * NT * NT)
#endif

int main()
{
    std::string line;
    while (std::getline(std::cin, line)) {
        auto a = splitws(line);
        if (a.empty()) { std::cout << "\n"; continue; }
        const std::string &op = a[0];
        std::ostringstream o;
        try {
            size_t nTypes = 0, nVals = 0;
            const Fn *table = nullptr;
            if (op == "less") { nTypes = 2; nVals = 2; table = LessTable.data(); }
            else if (op == "inc") { nTypes = 2; nVals = 2; table = IncTable.data(); }
            else if (op == "sum1") { nTypes = 2; nVals = 1; table = Sum1Table.data(); }
            else if (op == "sum2") { nTypes = 3; nVals = 2; table = Sum2Table.data(); }
            else if (op == "setmax1") { nTypes = 2; nVals = 2; table = Set1Table.data(); }
            else if (op == "setmax2") { nTypes = 3; nVals = 3; table = Set2Table.data(); }
            else if (op == "cast") { nTypes = 2; nVals = 1; table = CastTable.data(); }
#ifndef H_MATH_NO3
            else if (op == "sum3") { nTypes = 4; nVals = 3; table = Sum3Table.data(); }
            else if (op == "setmax3") { nTypes = 4; nVals = 4; table = Set3Table.data(); }
#endif
            else if (op == "pct") {
                if (a.size() != 3) throw std::runtime_error("bad-args");
                o << Math::intPercent(static_cast<int>(parseW(a[1])), static_cast<int>(parseW(a[2])));
            }
            else o << "ERR unknown-entry " << op;
            if (table) {
                if (a.size() != 1 + nTypes + nVals) throw std::runtime_error("bad-args");
                size_t idx = 0;
                for (size_t i = 0; i < nTypes; ++i)
                    idx = idx * NT + static_cast<size_t>(typeIndex(a[1 + i]));
                W vals[4] = {0, 0, 0, 0};
                for (size_t i = 0; i < nVals; ++i)
                    vals[i] = parseW(a[1 + nTypes + i]);
                o << table[idx](vals);
            }
        } catch (const std::exception &e) { o.str(""); o << "EXC " << e.what(); }
        std::cout << o.str() << "\n" << std::flush;
    }
    return 0;
}
