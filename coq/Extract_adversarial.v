(* Extract_adversarial.v -- extraction of the datagram-decoder models (C39 / C09) to OCaml. *)
Require Import ExtrOcamlBasic.
Require Import SquidV.Bytes SquidV.AdversarialModel.
Extraction "m_adversarial.ml"
  lenZ nthZ recv_buf buf_of_list rd
  snmp_udp snmp_exact icp_udp icp_unit icp_get_opcode
  htcp_udp htcp_spec_unit htcp_detail_unit.
