(* QuoteModel.v — executable models for the quoting / escaping code (C32, C31).

   Encoders.  html_quote (src/html/Quoting.cc), rfc1738_do_escape (lib/rfc1738.cc),
   AnyP::Uri::Encode (src/anyp/Uri.cc) and Format::QuoteMimeBlob are per-byte maps:
   the model is  concat (map table_entry s)  with the 256-entry tables regenerated
   from the real functions on every run (gen/gen_bytemaps.cc -> gen/ByteMaps_gen.v).
   That the real functions are context-free on longer strings is what the
   correspondence run checks.  AnyP::Uri::Encode additionally has a hand-written
   model for an arbitrary `ignore` set (uri_encode_set).

   Decoders (hand-modelled, line by line):
     uri_decode          AnyP::Uri::Decode            src/anyp/Uri.cc
     rfc1738_unescape    rfc1738_unescape             lib/rfc1738.cc  (in-place, explicit buffer)
   Reference decoders (specifications, not code in /repo):
     pct_decode          RFC 3986 percent-decoding, structural
     unesc_list          what rfc1738_unescape computes, as a function on the string
     html_dec            strict HTML character-reference decoder (squid has none)
*)
Require Import SquidV.Bytes SquidV.TokModel.
Require Import SquidV.gen.ByteMaps_gen.
Local Open Scope N_scope.

(* ------------------------------------------------------------------ *)
(* C strings: the bytes before the first NUL                           *)
Fixpoint cstr (l : bytes) : bytes :=
  match l with
  | [] => []
  | c :: r => if c =? 0 then [] else c :: cstr r
  end.

(* ------------------------------------------------------------------ *)
(* table-driven per-byte encoders                                       *)
Definition tbl_entry (t : list bytes) (c : N) : bytes := tbl_get [] t c.
Definition map_bytes (t : list bytes) (s : bytes) : bytes := concat (map (tbl_entry t) s).

(* html_quote: C string in, static buffer out *)
Definition html_quote (s : bytes) : bytes := map_bytes bm_html_quote (cstr s).

(* char *rfc1738_do_escape(const char *url, int flags), for the flag sets used in the tree *)
Fixpoint assoc_tbl (l : list (N * list bytes)) (k : N) : option (list bytes) :=
  match l with
  | [] => None
  | (k', t) :: r => if k =? k' then Some t else assoc_tbl r k
  end.
Definition rfc1738_tbl (flags : N) : option (list bytes) := assoc_tbl bm_rfc1738_all flags.
Definition rfc1738_escape_tbl (t : list bytes) (s : bytes) : bytes := map_bytes t (cstr s).
Definition rfc1738_do_escape (flags : N) (s : bytes) : option bytes :=
  match rfc1738_tbl flags with
  | Some t => Some (rfc1738_escape_tbl t s)
  | None => None
  end.

(* Format::QuoteMimeBlob (dumped for C13/C33/C34; only its context-freeness is checked here) *)
Definition mime_quote (s : bytes) : bytes := map_bytes bm_mimeblob (cstr s).

(* AnyP::Uri::Encode as applied by Uri::absolute() (userinfo), Uri::absolutePath() (path)
   and with CharacterSet::RFC3986_UNRESERVED() *)
Definition uri_encode_userinfo (s : bytes) : bytes := map_bytes bm_uri_userinfo s.
Definition uri_encode_path (s : bytes) : bytes := map_bytes bm_uri_path s.
Definition uri_encode_unreserved (s : bytes) : bytes := map_bytes bm_uri_unreserved s.

(* AnyP::Uri::Encode(buf, ignore) for an arbitrary set: appendf("%%%02X", ch) for bytes outside *)
Definition hex_upper (d : N) : N := if d <? 10 then 48 + d else 55 + d.
Definition pct_triplet (c : N) : bytes := [37; hex_upper (c / 16); hex_upper (c mod 16)].
Definition pct_entry (ignore : cset) (c : N) : bytes := if ignore c then [c] else pct_triplet c.
Definition uri_encode_set (ignore : cset) (s : bytes) : bytes := concat (map (pct_entry ignore) s).

(* ------------------------------------------------------------------ *)
(* AnyP::Uri::Decode                                                    *)
Inductive dres := DOk (out : bytes) | DBad | DFuel.

Definition not_percent (c : N) : bool := negb (c =? 37).

(* one turn of  while (!tok.atEnd()):
     tok.prefix(token, unencodedChars) -> append          (maximal run of non-'%')
     tok.skip('%') -> two tok.int64(hexN, 16, false, 1) -> append (hex1 << 4) | hex2, else nullopt
   SNext out next: `out` was appended, `next` is what the tokenizer still holds *)
Inductive dstep := SNext (out next : bytes) | SBad.

Definition uri_decode_turn (buf : bytes) : dstep :=
  let '(tok, rest) := span not_percent buf in
  match rest with
  | [] => SNext tok []
  | p :: r =>
    if p =? 37 then                                      (* tok.skip('%') *)
      match tok_int64 16 false 1 r with
      | Some (h1, n1) =>
        let r1 := dropN n1 r in
        match tok_int64 16 false 1 r1 with
        | Some (h2, n2) =>
          SNext (tok ++ [Z.to_N ((Z.lor (Z.shiftl h1 4) h2) mod 256)]) (dropN n2 r1)
        | None => SBad
        end
      | None => SBad
      end
    else SNext tok rest                                  (* unreachable: the run stops only at '%' *)
  end.

Fixpoint uri_decode_loop (fuel : nat) (buf : bytes) : dres :=
  match fuel with
  | O => DFuel
  | S f =>
    match buf with
    | [] => DOk []
    | _ =>
      match uri_decode_turn buf with
      | SBad => DBad
      | SNext out next =>
        match uri_decode_loop f next with
        | DOk o => DOk (out ++ o)
        | e => e
        end
      end
    end
  end.
Definition uri_decode (buf : bytes) : dres := uri_decode_loop (S (length buf)) buf.

(* reference: RFC 3986 percent-decoding *)
Definition hexval (c : N) : option N :=
  if (48 <=? c) && (c <=? 57) then Some (c - 48)
  else if (65 <=? c) && (c <=? 70) then Some (c - 55)
  else if (97 <=? c) && (c <=? 102) then Some (c - 87)
  else None.
Definition is_hex (c : N) : bool := match hexval c with Some _ => true | None => false end.

Fixpoint pct_decode (l : bytes) : option bytes :=
  match l with
  | [] => Some []
  | c :: r =>
    if c =? 37 then
      match r with
      | h1 :: h2 :: r' =>
        match hexval h1, hexval h2 with
        | Some a, Some b => option_map (cons (16 * a + b)) (pct_decode r')
        | _, _ => None
        end
      | _ => None
      end
    else option_map (cons c) (pct_decode r)
  end.

(* ------------------------------------------------------------------ *)
(* rfc1738_unescape(char *s): in place, i = write index, j = read index.
   The buffer is explicit; any access outside it gives UOob. *)
Fixpoint setN {A} (n : N) (v : A) (l : list A) : option (list A) :=
  match l with
  | [] => None
  | x :: r => if n =? 0 then Some (v :: r) else option_map (cons x) (setN (N.pred n) v r)
  end.

Inductive ures := UOk (buf : bytes) (i : N) | UOob | UFuel.

(* static int fromhex(char ch) ; None = -1 *)
Definition fromhex (c : N) : option N := hexval c.

Fixpoint unesc_loop (fuel : nat) (s : bytes) (i j : N) : ures :=
  match fuel with
  | O => UFuel
  | S f =>
    match nthN j s with                          (* s[j] *)
    | None => UOob
    | Some c =>
      if c =? 0 then                             (* loop ends: s[i] = '\0' *)
        match setN i 0 s with Some s' => UOk s' i | None => UOob end
      else
        match setN i c s with                    (* s[i] = s[j] *)
        | None => UOob
        | Some s1 =>
          if negb (c =? 37) then unesc_loop f s1 (i + 1) (j + 1)
          else
            match nthN (j + 1) s1 with
            | None => UOob
            | Some c1 =>
              if c1 =? 37 then unesc_loop f s1 (i + 1) (j + 2)          (* %% case *)
              else
                match fromhex c1 with
                | None => unesc_loop f s1 (i + 1) (j + 1)               (* continue *)
                | Some v1 =>
                  match nthN (j + 2) s1 with
                  | None => UOob
                  | Some c2 =>
                    match fromhex c2 with
                    | None => unesc_loop f s1 (i + 1) (j + 1)           (* continue *)
                    | Some v2 =>
                      let x := v1 * 16 + v2 in
                      if (0 <? x) && (x <=? 255) then
                        match setN i x s1 with                          (* s[i] = x; j += 2 *)
                        | None => UOob
                        | Some s2 => unesc_loop f s2 (i + 1) (j + 3)
                        end
                      else unesc_loop f s1 (i + 1) (j + 1)
                    end
                  end
                end
            end
        end
    end
  end.

(* the call on a buffer (the C string plus its terminator plus whatever follows) *)
Definition rfc1738_unescape (buf : bytes) : ures := unesc_loop (S (length buf)) buf 0 0.

(* what the call computes, as a function on the NUL-free string *)
Fixpoint unesc_list (l : bytes) : bytes :=
  match l with
  | [] => []
  | c :: r =>
    if negb (c =? 37) then c :: unesc_list r
    else
      match r with
      | [] => [37]
      | c1 :: r1 =>
        if c1 =? 37 then 37 :: unesc_list r1
        else
          match fromhex c1 with
          | None => 37 :: unesc_list r
          | Some v1 =>
            match r1 with
            | [] => 37 :: unesc_list r
            | c2 :: r2 =>
              match fromhex c2 with
              | None => 37 :: unesc_list r
              | Some v2 =>
                let x := v1 * 16 + v2 in
                if (0 <? x) && (x <=? 255) then x :: unesc_list r2 else 37 :: unesc_list r
              end
            end
          end
      end
  end.

(* escape then unescape, as the harness does it: the result C string *)
Definition rfc1738_roundtrip (flags : N) (s : bytes) : option (bytes * ures) :=
  match rfc1738_do_escape flags s with
  | Some e => Some (e, rfc1738_unescape (e ++ [0]))
  | None => None
  end.

(* ------------------------------------------------------------------ *)
(* Reference HTML character-reference decoder (strict).
   Text is any byte except the five markup metacharacters; '&' starts a reference
   that runs up to the next ';' and must be one of  lt gt amp quot apos  or a
   decimal / hexadecimal numeric reference below 256.  Anything else: None. *)
Definition is_html_meta (c : N) : bool :=
  (c =? 60) || (c =? 62) || (c =? 34) || (c =? 39) || (c =? 38).

Fixpoint dec_value (l : bytes) (acc : N) : option N :=
  match l with
  | [] => Some acc
  | c :: r => if (48 <=? c) && (c <=? 57) then dec_value r (10 * acc + (c - 48)) else None
  end.
Fixpoint hex_value (l : bytes) (acc : N) : option N :=
  match l with
  | [] => Some acc
  | c :: r => match hexval c with Some d => hex_value r (16 * acc + d) | None => None end
  end.
Definition small (v : option N) : option N :=
  match v with Some x => if x <? 256 then Some x else None | None => None end.

(* value of the text between '&' and ';' *)
Definition ref_value (name : bytes) : option N :=
  if list_eqb name [108; 116] then Some 60                       (* lt *)
  else if list_eqb name [103; 116] then Some 62                  (* gt *)
  else if list_eqb name [97; 109; 112] then Some 38              (* amp *)
  else if list_eqb name [113; 117; 111; 116] then Some 34        (* quot *)
  else if list_eqb name [97; 112; 111; 115] then Some 39         (* apos *)
  else
    match name with
    | 35 :: x :: ds =>
      if ((x =? 120) || (x =? 88)) && negb (lenN ds =? 0)
      then (if lenN ds <=? 8 then small (hex_value ds 0) else None)          (* #x.. *)
      else (if lenN ds <=? 7 then small (dec_value (x :: ds) 0) else None)   (* #.. *)
    | _ => None
    end.

(* pending = Some acc: inside a reference, acc = its characters so far, reversed *)
Fixpoint html_dec (l : bytes) (pending : option bytes) : option bytes :=
  match l with
  | [] => match pending with None => Some [] | Some _ => None end
  | c :: r =>
    match pending with
    | None =>
      if c =? 38 then html_dec r (Some [])
      else if is_html_meta c then None
      else option_map (cons c) (html_dec r None)
    | Some acc =>
      if c =? 59 then
        match ref_value (rev acc) with
        | Some v => option_map (cons v) (html_dec r None)
        | None => None
        end
      else if is_html_meta c then None
      else html_dec r (Some (c :: acc))
    end
  end.
Definition html_unquote (l : bytes) : option bytes := html_dec l None.

(* quote then decode with the reference decoder *)
Definition html_roundtrip (s : bytes) : bytes * option bytes :=
  let q := html_quote s in (q, html_unquote q).
