(* handlers for the diskcrash area (C16, C17).
   dc.run <N> <P> <n|-> <torn|-> <op>... / <k0>:<k1> ...
     op = S:<k0>:<k1>:<obj>:<ver>:<len>:<mlen>:<ssz>  (store)  |  P:<k0>:<k1>  (purge)
     n  = number of complete slot writes before the crash ("-" = all of them: clean shutdown)
     torn = bytes of the next write that still reach the disk ("-" = none)
   prints  W <slot>:<len>,... | <result> ...   with result = M (miss) or H:<obj>:<off>:<cnt>+... (hit content) *)
let rec nat_of_int (i : int) : nat = if i <= 0 then O else S (nat_of_int (i - 1))
let op_of (s : string) : op =
  match String.split_on_char ':' s with
  | ["S"; k0; k1; o; ver; len; mlen; ssz] ->
    OStore ((z_of_string k0, z_of_string k1), z_of_string o, z_of_string ver, z_of_string len,
            z_of_string mlen, z_of_string ssz)
  | ["P"; k0; k1] -> OPurge (z_of_string k0, z_of_string k1)
  | _ -> failwith "op"
let key_of (s : string) : z * z =
  match String.split_on_char ':' s with
  | [k0; k1] -> (z_of_string k0, z_of_string k1)
  | _ -> failwith "key"
let () =
  reg "dc.run" (fun (n :: p :: cn :: torn :: rest) ->
      (* rmain.ml prints the result lines without flushing; the correspondence driver treats 30 s without a new line
         as a hang, so push out the previous answers before starting a (possibly slow) case *)
      flush stdout;
      let rec split acc = function
        | "/" :: r -> (List.rev acc, r)
        | x :: r -> split (x :: acc) r
        | [] -> (List.rev acc, []) in
      let (ops, qs) = split [] rest in
      let ops = List.map op_of ops in
      let nn = z_of_string n and pp = z_of_string p in
      let total = List.length (all_writes pp (sessions_of nn pp ops)) in
      let cnat = if cn = "-" then nat_of_int total else nat_of_int (int_of_string cn) in
      let t = if torn = "-" then None else Some (z_of_string torn) in
      let ((ws, nofuel), hits) = run_case nn pp ops cnat t (List.map key_of qs) in
      let rec take k l = if k <= 0 then [] else (match l with [] -> [] | x :: r -> x :: take (k - 1) r) in
      (* the crashing process issues (and the shim logs) the write it dies in *)
      let ws = if cn = "-" then ws else take (int_of_string cn + 1) ws in
      let wtxt = String.concat "," (List.map (fun (s, l) -> string_of_z s ^ ":" ^ string_of_z l) ws) in
      let htxt = String.concat " " (List.map (function
          | None -> "M"
          | Some segs -> "H:" ^ String.concat "+" (List.map (fun ((o, i), c) ->
              string_of_z o ^ ":" ^ string_of_z i ^ ":" ^ string_of_z c) segs)) hits) in
      (if nofuel then "NOFUEL " else "") ^ "W " ^ (if wtxt = "" then "-" else wtxt) ^ " | " ^ htxt)
