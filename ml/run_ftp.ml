(* handlers for the ftp area (C40): Ftp::ParseIpPort, Ftp::ParseProtoIpPort, Ftp::UnescapeDoubleQuoted,
   ftpListParseParts.  The numeric-host lookup behind Ip::Address::operator=(const char * ) is external to the
   model; the case line carries its answers for every text the parser can hand to it as a table
   "texthex:addrhex,..." ("-" = empty table; texts that are missing do not resolve). *)
let ipf_of_table (t : string) : n list -> n list option =
  if t = "-" then (fun _ -> None) else
  let entries = List.map (fun e ->
      match String.split_on_char ':' e with
      | [k; v] -> (bytes_of_hex k, bytes_of_hex v)
      | _ -> failwith "table") (String.split_on_char ',' t) in
  fun text -> List.assoc_opt text entries

(* the code sees the C string: the bytes before the first NUL *)
let cs h = c_string (bytes_of_hex h)

let addr_res = function
  | None -> "fail"
  | Some (a, p) -> "ok " ^ hex_of_bytes a ^ " " ^ string_of_z p

let opt_hex = function None -> "~" | Some b -> hex_of_bytes b

let () =
  reg "port" (fun [sanity; buf] ->
      addr_res (parse_ip_port (fun _ -> None) (sanity = "1") None (cs buf)));
  reg "portf" (fun [sanity; force; buf; table] ->
      addr_res (parse_ip_port (ipf_of_table table) (sanity = "1") (Some (cs force)) (cs buf)));
  reg "eprt" (fun [sanity; buf; table] ->
      match parse_proto_ip_port (ipf_of_table table) (sanity = "1") (cs buf) with
      | EPrecondition -> "precondition"
      | EFail -> "fail"
      | EOk (a, p) -> "ok " ^ hex_of_bytes a ^ " " ^ string_of_z p);
  reg "unq" (fun [buf] -> hex_of_bytes (unescape_dq (cs buf)));
  reg "list" (fun [nlst; skipws; buf] ->
      match list_parse (nlst = "1") (skipws = "1") (cs buf) with
      | OOB -> "OOB"
      | Val LNull -> "null"
      | Val (LParts p) ->
        "parts " ^ string_of_n p.p_type ^ " " ^ string_of_z p.p_size ^ " " ^ opt_hex p.p_date ^ " "
        ^ hex_of_bytes p.p_name ^ " " ^ opt_hex p.p_link)
