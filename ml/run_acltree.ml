(* handlers for the acltree area (C44): ACLChecklist over Acl::Tree with scripted leaves.
   case syntax: see harness/h_acltree.cc *)

let split_list sep s = if s = "-" then [] else String.split_on_char sep s

(* recursive-descent parser for T<id>(<node>,...) *)
let parse_tree (s : string) : n * node list =
  let p = ref 0 in
  let len = String.length s in
  let peek () = if !p < len then s.[!p] else '\000' in
  let get () = if !p >= len then failwith "tree syntax" else (let c = s.[!p] in incr p; c) in
  let expect c = if get () <> c then failwith "tree syntax" in
  let num () =
    let b = !p in
    while peek () >= '0' && peek () <= '9' do incr p done;
    if !p = b then failwith "tree syntax: id";
    n_of_string (String.sub s b (!p - b)) in
  let rec kids () =
    expect '(';
    if peek () = ')' then (incr p; [])
    else begin
      let acc = ref [] in
      let fin = ref false in
      while not !fin do
        acc := node () :: !acc;
        (match get () with
         | ')' -> fin := true
         | ',' -> ()
         | _ -> failwith "tree syntax")
      done;
      List.rev !acc
    end
  and node () =
    let k = get () in
    let id = num () in
    match k with
    | 'L' -> Leaf id
    | '!' -> Inner (id, KNot, kids ())
    | '&' -> Inner (id, KAnd, kids ())
    | '|' -> Inner (id, KOr, kids ())
    | 'A' -> Inner (id, KAllOf, kids ())
    | 'Y' -> Inner (id, KAnyOf, kids ())
    | _ -> failwith "tree syntax: kind" in
  expect 'T';
  let id = num () in
  let rs = kids () in
  if !p <> len then failwith "tree syntax: trailing";
  (id, rs)

let action_of (t : string) : answer =
  let c = match t.[0] with
    | 'a' -> Allowed | 'd' -> Denied | 'u' -> Dunno | 'r' -> AuthRequired
    | _ -> failwith "action syntax" in
  let k = if String.length t > 1 then n_of_string (String.sub t 1 (String.length t - 1)) else N0 in
  action c k

let script_of (t : string) : n * lscript =
  match String.split_on_char ':' t with
  | [id; tr; re; at] ->
    let atts = if at = "." then [] else
        List.init (String.length at) (fun i -> match at.[i] with 'R' -> Real | 'F' -> Fake | _ -> failwith "attempt syntax") in
    (n_of_string id, { truth = (tr = "1"); retry = (re = "1"); attempts = atts })
  | _ -> failwith "leaf syntax"

let code_name = function Denied -> "DENIED" | Allowed -> "ALLOWED" | Dunno -> "DUNNO" | AuthRequired -> "AUTH_REQUIRED"

let () =
  reg "acl.check" (fun [m; tr; acts; bans; leaves] ->
      let mode = match m with "nb" -> MNonBlocking | "fast" -> MFast | "fastlist" -> MFastList | _ -> failwith "mode" in
      let (id, rs) = parse_tree tr in
      let t = { tid = id; rules = rs; actions = List.map action_of (split_list ',' acts) } in
      let tbl = List.map script_of (split_list ',' leaves) in
      match run_check mode t (List.map action_of (split_list ',' bans)) tbl with
      | None -> "OUT-OF-FUEL"
      | Some c ->
        if c.err then "CRASH" else
          let a = final_answer mode c in
          Printf.sprintf "%s %s %s last=%s susp=%s starts=%s trace=%s"
            (code_name a.acode) (string_of_n a.akind) (b2s a.aimplicit)
            (match a.alast with None -> "-" | Some i -> string_of_n i)
            (string_of_n c.susp) (string_of_n c.starts)
            (match c.trace with [] -> "-" | l -> String.concat "." (List.rev_map string_of_n l)))
