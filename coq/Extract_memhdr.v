(* Extract_memhdr.v — extraction of the mem_hdr model (C49) to OCaml.
   Only ExtrOcamlBasic is used; N, Z, positive, nat stay extracted datatypes. *)
Require Import ExtrOcamlBasic.
Require Import SquidV.Bytes SquidV.SplayModel SquidV.MemhdrModel SquidV.gen.Memhdr_gen.
Extraction "m_memhdr.ml"
  sm_page_size mem_node_data_capacity lenN inorder
  mh_empty abnormal mh_step mh_run mh_write mh_copy mh_free mh_hasContig mh_endOffset mh_lowestOffset.
