(* handlers for the uri area (AnyP::Uri parse / canonical forms) *)
let cfg_of_string (s : string) : cfg =
  { c_check = (s.[0] = '1'); c_underscore = (s.[1] = '1');
    c_ws = (match s.[2] with 'a' -> WsAllow | 'c' -> WsChop | 'd' -> WsDeny | _ -> WsStrip) }

(* the IP oracle's answers, as obtained from the harness (ip.q): "q=N|A<hex>|I<hex>,..." *)
let table_of_string (s : string) : (string * ipres) list =
  if s = "-" || s = "" then [] else
  List.map (fun kv ->
      match String.index_opt kv '=' with
      | None -> failwith "table"
      | Some i ->
        let k = String.sub kv 0 i and v = String.sub kv (i + 1) (String.length kv - i - 1) in
        let r = if v = "N" then IpNo
          else if v.[0] = 'A' then IpAny (bytes_of_hex (String.sub v 1 (String.length v - 1)))
          else if v.[0] = 'I' then IpAddr (bytes_of_hex (String.sub v 1 (String.length v - 1)))
          else failwith "table value" in
        (k, r))
    (String.split_on_char ',' s)

(* oracle = table lookup; strings that were asked for but are not in the table are recorded *)
let missing : string list ref = ref []
let oracle tbl (q : n list) : ipres =
  let k = hex_of_bytes q in
  match List.assoc_opt k tbl with
  | Some r -> r
  | None -> (if not (List.mem k !missing) then missing := k :: !missing); IpNo

let fields (u : uri) : string =
  "sch=" ^ string_of_n u.u_scheme.s_id ^ ":" ^ hex_of_bytes u.u_scheme.s_img
  ^ " ui=" ^ hex_of_bytes u.u_login
  ^ " host=" ^ hex_of_bytes u.u_host
  ^ " num=" ^ b2s u.u_num
  ^ " port=" ^ (match u.u_port with Some p -> string_of_n p | None -> "none")
  ^ " path=" ^ hex_of_bytes u.u_path
  ^ " auth=" ^ hex_of_bytes (authority u false)
  ^ " authp=" ^ hex_of_bytes (authority u true)
  ^ " abspath=" ^ hex_of_bytes (absolute_path u)

let rt cfg m url tbl =
  match roundtrip (cfg_of_string cfg) (oracle (table_of_string tbl)) (n_of_string m) (bytes_of_hex url) with
  | None -> "rej"
  | Some ((u, cn), v) ->
    "ok " ^ fields u ^ " canon=" ^ hex_of_bytes cn ^ " | "
    ^ (match v with None -> "rej" | Some v -> "ok " ^ fields v)

let () =
  reg "uri.rt" (fun [cfg; m; url; tbl] -> missing := []; rt cfg m url tbl);
  (* which strings does the model pass to the IP oracle that the table does not answer yet? *)
  reg "uri.q" (fun [cfg; m; url; tbl] ->
      missing := [];
      ignore (rt cfg m url tbl);
      match List.rev !missing with [] -> "none" | l -> String.concat "," l);
  (* cases only the implementation answers (oracle contract checks) *)
  reg "ip.q" (fun [_] -> "blind");
  reg "ip.fix" (fun [_; _] -> "blind");
  reg "uri.info" (fun [] -> "blind")
