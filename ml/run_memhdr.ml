(* handlers for the memhdr area (C49: mem_hdr of src/stmem.cc): one case = one operation history
   on a fresh mem_hdr.
     seq <op> <op> ...
       w:<off>:<hex>          write(StoreIOBuffer(len, off, data))
       W:<off>:<len>:<seed>   same with data byte i = (seed + i) mod 251
       f:<target>             freeDataUpto(target)
       c:<off>:<len>          copy(StoreIOBuffer(len, off, buf))
       h:<start>:<end>        hasContigousContentRange(Range(start, end))
       e                      endOffset()
       l                      lowestOffset()
   output: one token per operation (the history ends at the first failed assert / fatal_dump),
   then " | " ("dead" after such an end, else) the stored nodes in order as off+len, inmem_hi, elements, and the shape of the splay tree. *)
let pattern len seed = List.init len (fun i -> n_of_int ((seed + i) mod 251))

let parse_op (s : string) =
  match String.split_on_char ':' s with
  | ["w"; off; data] -> OWrite (z_of_string off, bytes_of_hex data)
  | ["W"; off; len; seed] -> OWrite (z_of_string off, pattern (int_of_string len) (int_of_string seed))
  | ["f"; t] -> OFree (z_of_string t)
  | ["c"; off; len] -> OCopy (z_of_string off, n_of_string len)
  | ["h"; a; b] -> OHas (z_of_string a, z_of_string b)
  | ["e"] -> OEnd
  | ["l"] -> OLow
  | _ -> failwith "bad-op"

let show_out = function
  | RWrite -> "w"
  | RFree lo -> "f=" ^ string_of_z lo
  | RCopy got -> "c=" ^ string_of_int (List.length got) ^ ":" ^ hex_of_bytes got
  | RHas b -> "h=" ^ b2s b
  | REnd e -> "e=" ^ string_of_z e
  | RLow l -> "l=" ^ string_of_z l
  | RAssert -> "ASSERT"
  | RFatal -> "FATAL"
  | RStuck -> "MODEL-STUCK"

let show_node nd = string_of_z nd.n_off ^ "+" ^ string_of_n nd.n_length ^ (if lenN nd.n_data = nd.n_length then "" else "MODEL-LENGTH-MISMATCH")
let rec show_tree = function
  | Leaf -> "."
  | Node (l, x, r) -> "(" ^ show_tree l ^ " " ^ string_of_z x.n_off ^ " " ^ show_tree r ^ ")"

let () =
  reg "seq" (fun opss ->
    let ops = List.map parse_op opss in
    let (outs, hf) = mh_run mh_empty ops in
    let b = Buffer.create 256 in
    List.iteri (fun i o -> if i > 0 then Buffer.add_char b ' '; Buffer.add_string b (show_out o)) outs;
    if List.exists abnormal outs then Buffer.add_string b " | dead" else begin
    Buffer.add_string b " | ";
    Buffer.add_string b (String.concat "," (List.map show_node (inorder hf.h_nodes)));
    Buffer.add_string b (" hi=" ^ string_of_z hf.h_hi ^ " n=" ^ string_of_n hf.h_count ^ " ");
    Buffer.add_string b (show_tree hf.h_nodes) end;
    Buffer.contents b);
  reg "const" (fun [] -> "page=" ^ string_of_n sm_page_size ^ " data=" ^ string_of_n mem_node_data_capacity)
