(* handlers for the cond area (C14).
   arguments are classified by prefix:  r:<hexname>:<hexvalue> request field, e:<..>:<..> stored (old) reply field,
   f:<..>:<..> field of the origin's revalidation reply, d:<hexdate>:<int> value of Time::ParseRfc1123 on that string,
   t:<hexname> tracked field name, P <gh> <ranged> starts a new probe *)
let split3 (s : string) = String.split_on_char ':' s
let hdr_of2 n v : hdr = { h_name = bytes_of_hex n; h_value = bytes_of_hex v }
let pick (c : string) (args : string list) : hdr list =
  List.filter_map (fun a -> match split3 a with [k; n; v] when k = c -> Some (hdr_of2 n v) | _ -> None) args
let dates (args : string list) : (n list * z) list =
  List.filter_map (fun a -> match split3 a with ["d"; h; v] -> Some (bytes_of_hex h, z_of_string v) | _ -> None) args
let names (args : string list) : n list list =
  List.filter_map (fun a -> match split3 a with ["t"; h] -> Some (bytes_of_hex h) | _ -> None) args
let minus1 = z_of_string "-1"
let pd_of (tbl : (n list * z) list) : n list -> z = fun b -> (match List.assoc_opt b tbl with Some v -> v | None -> minus1)
let show_hdrs (hs : hdr list) : string =
  if hs = [] then "-" else String.concat "," (List.map (fun h -> hex_of_bytes h.h_name ^ "=" ^ hex_of_bytes h.h_value) hs)
(* a plain hit shows the stored status; a satisfiable Range turns a stored 200 into a 206 *)
let verdict_s (st : string) (ranged : bool) = function
  | V304 -> "304" | V412 -> "412" | VMiss -> "miss"
  | VHit -> if st <> "200" then "hit" ^ st else if ranged then "hit206" else "hit200"

(* split the argument list at "P" markers *)
let rec probes (args : string list) : string list list =
  match args with
  | [] -> []
  | "P" :: rest ->
    let rec take acc = function
      | [] -> (List.rev acc, [])
      | "P" :: _ as l -> (List.rev acc, l)
      | x :: r -> take (x :: acc) r in
    let (p, rest') = take [] rest in p :: probes rest'
  | _ :: rest -> probes rest

let () =
  reg "cond.parse" (fun [s] -> match etag_parse (bytes_of_hex s) with
    | None -> "none" | Some t -> "ok " ^ b2s t.et_weak ^ " " ^ hex_of_bytes t.et_str);
  reg "cond.eq" (fun [a; b] -> match etag_parse (bytes_of_hex a), etag_parse (bytes_of_hex b) with
    | Some x, Some y -> "strong=" ^ b2s (etag_strong_eq x y) ^ " weak=" ^ b2s (etag_weak_eq x y)
    | _ -> "none");
  reg "cond.items" (fun [l] -> String.concat "|" (List.map hex_of_bytes (list_items (n_of_int 44) (bytes_of_hex l))));
  (* cond.oneof <weak> <rep etag value | -> <list>: hasOneOfEtags as composed from the real pieces by the harness *)
  reg "cond.oneof" (fun [w; rep; l] ->
    let r = if rep = "none" then None else etag_parse (bytes_of_hex rep) in
    b2s (has_one_of_etags r (bytes_of_hex l) (w = "1")));
  (* cond.hits <status> <ts> e:.. d:.. P <gh> <ranged> r:.. P ... *)
  reg "cond.hits" (fun (st :: ts :: args) ->
    let pd = pd_of (dates args) in
    let e = { en_status = n_of_string st; en_hdrs = pick "e" args; en_timestamp = z_of_string ts } in
    String.concat " " (List.map (fun (gh :: rg :: pa) ->
      let r = { rq_get_or_head = (gh = "1"); rq_ranged = (rg = "1"); rq_hdrs = pick "r" pa } in
      verdict_s st (rg = "1") (hit_verdict pd r e)) (probes args)));
  (* cond.reval <ts_after> <origin status> e:.. f:.. r:.. d:.. t:.. *)
  reg "cond.reval" (fun (ts :: st :: args) ->
    let pd = pd_of (dates args) in
    let old = { en_status = n_of_int 200; en_hdrs = pick "e" args; en_timestamp = z_of_string ts } in
    let r = { rq_get_or_head = true; rq_ranged = false; rq_hdrs = pick "r" args } in
    let (what, after) = handle_ims_reply pd r old (n_of_string st) (pick "f" args) (z_of_string ts) false in
    let w = (match what with RForward304 -> "fwd304" | ROld -> "old" | RNew -> "new") in
    let body3 = (match what with RNew -> "new" | _ -> "old") in
    w ^ " " ^ body3 ^ " " ^ show_hdrs (tracked (names args) after));
  (* cond.merge e:.. f:..: need_update and the stored header after an origin 304 *)
  reg "cond.merge" (fun args ->
    let o = pick "e" args and f = pick "f" args in
    b2s (need_update o f) ^ " " ^ show_hdrs (update_on_not_modified o f))
