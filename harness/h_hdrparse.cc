// Harness for C25: HttpHeader::parse, HttpHeaderEntry::parse, HttpHeader::packInto and the
// registered-header lookup, all compiled from /repo's working tree.
// stdin: one case per line; stdout: one canonical result line per case.
//   tbl                                         the registered header table: <id>:<namehex> ...
//   ep <owner q|p> <hex field>                  HttpHeaderEntry::parse(field) -> fail | ok <id>:<name>:<value>
//   hp <mode> <owner q|p> <proh 0|1|2> <hex>    HttpHeader::parse(block) with a fresh ContentLengthInterpreter,
//                                               then packInto() and a second parse of the packed bytes:
//       fail | ok conf=<0|1> teu=<0|1> n=<k> <id>:<name>:<value>... P <packed hex> R (fail | conf=.. teu=.. n=.. entries)
// mode: Config.onoff.relaxed_header_parser (1 on, 0 off, -1 warn)
#include "squid.h"
#include "hcommon.h"
// system / library headers first, so that only squid's own classes are opened up
#include <algorithm>
#include <cstring>
#include <iomanip>
#include <list>
#include <map>
#include <memory>
#include <ostream>
#include <set>
#include <unordered_map>
#include <vector>
#include "sbuf/SBuf.h"
#include "base/EnumIterator.h"
#include "base/LookupTable.h"
#include "mem/PoolingAllocator.h"
#include "MemBuf.h"
#include "SquidString.h"
#define private public
#define protected public
#include "http/ContentLengthInterpreter.h"
#include "HttpHeader.h"
#undef private
#undef protected
#include "http/RegisteredHeaders.h"
#include "HttpHeaderTools.h"
#include "SquidConfig.h"
#include "mem/forward.h"

class SquidConfig Config;

static std::string entStr(const HttpHeaderEntry *e)
{
    std::ostringstream o;
    o << static_cast<int>(e->id) << ":" << tohex(e->name.rawContent(), e->name.length())
      << ":" << tohex(e->value.rawBuf(), e->value.size());
    return o.str();
}

static std::string resStr(const HttpHeader &hdr)
{
    std::ostringstream o;
    int n = 0;
    for (auto e : hdr.entries) if (e) ++n;
    o << "conf=" << (hdr.conflictingContentLength() ? 1 : 0) << " teu=" << (hdr.unsupportedTe() ? 1 : 0)
      << " n=" << n;
    for (auto e : hdr.entries) if (e) o << " " << entStr(e);
    // the presence mask must agree with the entries
    for (auto e : hdr.entries) if (e && Http::any_registered_header(e->id) && !hdr.has(e->id)) o << " BAD-MASK";
    return o.str();
}

static void rules(Http::ContentLengthInterpreter &clen, const std::string &proh)
{
    if (proh == "1") clen.applyStatusCodeRules(Http::scNoContent);
    else if (proh == "2") clen.applyTrailerRules();
}

int main()
{
    Mem::Init();
    httpHeaderInitModule();
    std::string line;
    while (std::getline(std::cin, line)) {
        auto a = splitws(line);
        if (a.empty()) { std::cout << "\n"; continue; }
        const std::string &op = a[0];
        std::ostringstream o;
        try {
            if (op == "tbl" && a.size() == 1) {
                bool first = true;
                for (auto id : WholeEnum<Http::HdrType>()) {
                    if (!Http::any_registered_header(id)) continue;
                    const auto &r = Http::HeaderLookupTable.lookup(id);
                    o << (first ? "" : " ") << static_cast<int>(id) << ":" << tohex(r.name, strlen(r.name));
                    first = false;
                }
            } else if (op == "ep" && a.size() == 3) {
                Config.onoff.relaxed_header_parser = 1;
                const http_hdr_owner_type owner = (a[1] == "q") ? hoRequest : hoReply;
                std::string f = unhex(a[2]);
                std::vector<char> buf(f.begin(), f.end());
                buf.push_back('\n'); // what follows a field in a block; never read by the entry parser
                HttpHeaderEntry *e = HttpHeaderEntry::parse(buf.data(), buf.data() + f.size(), owner);
                if (!e) o << "fail";
                else { o << "ok " << entStr(e); delete e; }
            } else if (op == "hp" && a.size() == 5) {
                Config.onoff.relaxed_header_parser = std::stoi(a[1]);
                const http_hdr_owner_type owner = (a[2] == "q") ? hoRequest : hoReply;
                std::string blk = unhex(a[4]);
                std::vector<char> buf(blk.begin(), blk.end()); // parse() may overwrite bare CRs
                buf.push_back('\0');
                Http::ContentLengthInterpreter clen;
                rules(clen, a[3]);
                HttpHeader hdr(owner);
                const int rc = hdr.parse(buf.data(), blk.size(), clen);
                if (!rc) {
                    o << "fail";
                    int n = 0;
                    for (auto e : hdr.entries) if (e) ++n;
                    if (n) o << " BAD-NOT-CLEAN";
                } else {
                    o << "ok " << resStr(hdr);
                    MemBuf mb;
                    mb.init();
                    hdr.packInto(&mb);
                    o << " P " << tohex(mb.content(), mb.contentSize());
                    std::vector<char> buf2(mb.content(), mb.content() + mb.contentSize());
                    buf2.push_back('\0');
                    Http::ContentLengthInterpreter clen2;
                    rules(clen2, a[3]);
                    HttpHeader hdr2(owner);
                    const int rc2 = hdr2.parse(buf2.data(), mb.contentSize(), clen2);
                    o << " R ";
                    if (!rc2) o << "fail"; else o << resStr(hdr2);
                }
            } else o << "ERR unknown-entry " << op;
        } catch (const std::exception &e) { o.str(""); o << "EXC " << e.what(); }
        catch (...) { o.str(""); o << "EXC unknown"; }
        std::cout << o.str() << "\n" << std::flush;
    }
    return 0;
}
