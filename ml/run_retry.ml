(* handlers for the retry area (C07).
   retry.drive <method image hex> <body 0/1> <forward_max_tries> <pconn_for_nonretriable 0/1> <retry_on_error 0/1> <path>...
     path = <listens 0/1>:<idle pconn 0/1>:<beh>,<beh>,...   ("-" for an empty script)
     beh  = AC | HR | FF | FR | PH | R<status> | R<status>f | R<status>r
   prints "A <attempts> C <client>": attempts = <path index><R|F> in dispatch order (R = on a reused persistent
   connection), client = what FwdState::completed() leaves for the client.
   retry.attrs <method image hex>  prints "<id> <safe> <idempotent>" *)
let beh_of (s : string) : beh =
  match s with
  | "AC" -> BAcceptClose | "HR" -> BHeadRst | "FF" -> BFullFin | "FR" -> BFullRst | "PH" -> BPartialHead
  | _ ->
    if String.length s >= 2 && s.[0] = 'R' then begin
      let last = s.[String.length s - 1] in
      if last = 'f' then BReply (n_of_string (String.sub s 1 (String.length s - 2)), Some false)
      else if last = 'r' then BReply (n_of_string (String.sub s 1 (String.length s - 2)), Some true)
      else BReply (n_of_string (String.sub s 1 (String.length s - 1)), None)
    end else failwith "beh"

let err_name = function
  | ErrZero | ErrRead | ErrWrite -> "CONN"
  | ErrTimeout -> "ERR_READ_TIMEOUT" | ErrInvalid -> "ERR_INVALID_RESP" | ErrTooBig -> "ERR_TOO_BIG"
  | ErrConnectFail -> "ERR_CONNECT_FAIL" | ErrCannotForward -> "ERR_CANNOT_FORWARD"
  | ErrGateway -> "ERR_GATEWAY_FAILURE" | ErrPinned -> "ERR_PINNED"

let () =
  reg "retry.attrs" (fun [m] ->
      let id = method_of_image rm_methods (bytes_of_hex m) in
      string_of_n id ^ " " ^ b2s (method_safe id) ^ " " ^ b2s (method_idem id));
  reg "retry.drive" (fun (m :: body :: maxt :: pnr :: onerr :: paths) ->
      let r = { r_method = method_of_image rm_methods (bytes_of_hex m); r_body = (body = "1") } in
      let c = { c_max_tries = n_of_string maxt; c_pconn_nonretriable = (pnr = "1"); c_retry_onerror = (onerr = "1") } in
      let parsed = List.map (fun p ->
          match String.split_on_char ':' p with
          | [l; pc; bs] -> (l = "1", pc = "1", if bs = "-" then [] else List.map beh_of (String.split_on_char ',' bs))
          | _ -> failwith "path") paths in
      let en = { e_announce = n_of_int (List.length parsed); e_ended = false;
                 e_listen = List.map (fun (l, _, _) -> l) parsed;
                 e_pconn = List.map (fun (_, p, _) -> p) parsed;
                 e_scripts = List.map (fun (_, _, b) -> b) parsed; e_queue = [] } in
      let rec nat_of_int i = if i = 0 then O else S (nat_of_int (i - 1)) in
      let (((s, tr), _), okf) = drive (nat_of_int 400) c r en init in
      if not okf then "FUEL" else
      let att = List.filter_map (function OSend (d, re) -> Some (string_of_n d ^ (if re then "R" else "F")) | _ -> None) tr in
      let closed = List.filter_map (function OClosePconn d -> Some (string_of_n d) | _ -> None) tr in
      let client =
        match s.s_phase with
        | PhDone ->
          (match result_of s with
           | RReply (st, false) -> string_of_n st
           | RReply (st, true) -> "T" ^ string_of_n st
           | RError e -> "E:" ^ err_name e)
        | _ -> "PENDING" in
      (* H / B: request heads / complete non-empty bodies the scripted origin reads: the k-th send on a path meets the
         k-th behaviour of its script *)
      let scripts = Array.of_list (List.map (fun (_, _, b) -> b) parsed) in
      let seen = Array.make (Array.length scripts) 0 in
      let heads = ref 0 and bodies = ref 0 in
      List.iter (function
          | OSend (d, _) ->
            let i = int_of_n d in
            if i < Array.length scripts then begin
              let k = seen.(i) in
              seen.(i) <- k + 1;
              let b = (match List.nth_opt scripts.(i) k with Some b -> b | None -> BReply (n_of_int 200, None)) in
              (match b with BAcceptClose -> () | _ -> incr heads);
              (match b with BAcceptClose | BHeadRst -> () | _ -> if r.r_body then incr bodies)
            end
          | _ -> ()) tr;
      "A " ^ (if att = [] then "-" else String.concat "," att) ^
      " K " ^ (if closed = [] then "-" else String.concat "," closed) ^ " C " ^ client ^
      " H " ^ string_of_int !heads ^ " B " ^ string_of_int !bodies)
