let () =
  try
    while true do
      let line = input_line stdin in
      let ws = List.filter (fun s -> s <> "") (String.split_on_char ' ' (String.trim line)) in
      (match ws with
       | [] -> print_string "\n"
       | e :: args ->
         let out =
           (try (match Hashtbl.find_opt handlers e with
                | Some f -> f args
                | None -> "ERR unknown-entry " ^ e)
            with Match_failure _ -> "ERR bad-args" | Failure m -> "ERR " ^ m | Stack_overflow -> "ERR stack") in
         print_string out; print_char '\n')
    done
  with End_of_file -> ()
