(* RelayProofs.v — proofs about RelayModel.v (C01, C02). *)
Require Import SquidV.Bytes SquidV.RelayModel.
Require Import SquidV.gen.Relay_gen.
Require Import ZifyBool ZifyN ZifyNat.
Local Open Scope N_scope.
Ltac Zify.zify_post_hook ::= Z.div_mod_to_equations.

(* ====================================================================================================== *)
(* 0. the framing decision functions agree with HttpReply.cc on the regenerated table                      *)
(* ====================================================================================================== *)
Definition enc_size (o : option N) : N := match o with None => 0 | Some n => n + 1 end.
Definition row_ok (r : (N * bool * bool * bool) * (bool * N * N)) : bool :=
  let '((st, hd, cl, ch), (eb, sz, bs)) := r in
  let h := {| h_status := st; h_head := hd; h_clen := if cl then Some 5 else None; h_chunked := ch |} in
  Bool.eqb (expecting_body h) eb &&
  (if eb then enc_size (expected_size h) =? sz else true) &&
  (enc_size (body_size h) =? bs).

Lemma framing_table_ok : forallb row_ok framing_table = true.
Proof. vm_compute. reflexivity. Qed.

(* ====================================================================================================== *)
(* 1. list helpers                                                                                         *)
(* ====================================================================================================== *)
Definition nonempty (l : bytes) : Prop := l <> [].

Lemma takeN_0 {A} (l : list A) : takeN 0 l = [].
Proof. destruct l; reflexivity. Qed.

Lemma dropN_0 {A} (l : list A) : dropN 0 l = l.
Proof. destruct l; reflexivity. Qed.

Lemma takeN_app {A} k (a b : list A) : takeN k (a ++ b) = takeN k a ++ takeN (k - lenN a) b.
Proof.
  revert k; induction a as [|x a IH]; intros k.
  - cbn [app takeN lenN]. now rewrite N.sub_0_r.
  - cbn [app takeN lenN]. destruct (k =? 0) eqn:E.
    + apply N.eqb_eq in E. subst k. cbn [app]. now rewrite takeN_0.
    + apply N.eqb_neq in E. cbn [app]. rewrite IH. do 2 f_equal. lia.
Qed.

Lemma dropN_app {A} k (a b : list A) : dropN k (a ++ b) = dropN k a ++ dropN (k - lenN a) b.
Proof.
  revert k; induction a as [|x a IH]; intros k.
  - cbn [app dropN lenN]. now rewrite N.sub_0_r.
  - cbn [app dropN lenN]. destruct (k =? 0) eqn:E.
    + apply N.eqb_eq in E. subst k. now rewrite dropN_0.
    + apply N.eqb_neq in E. rewrite IH. do 2 f_equal. lia.
Qed.

Lemma takeN_all {A} k (l : list A) : lenN l <= k -> takeN k l = l.
Proof.
  revert k; induction l as [|x l IH]; intros k H; cbn [takeN lenN] in *; [reflexivity|].
  destruct (k =? 0) eqn:E; [apply N.eqb_eq in E; lia|]. f_equal. apply IH. lia.
Qed.

Lemma dropN_all {A} k (l : list A) : lenN l <= k -> dropN k l = [].
Proof.
  revert k; induction l as [|x l IH]; intros k H; cbn [dropN lenN] in *; [reflexivity|].
  destruct (k =? 0) eqn:E; [apply N.eqb_eq in E; lia|]. apply IH. lia.
Qed.

Lemma lenN_dropN {A} k (l : list A) : lenN (dropN k l) = lenN l - k.
Proof.
  revert k; induction l as [|x l IH]; intros k; cbn [dropN lenN]; [lia|].
  destruct (k =? 0) eqn:E; [apply N.eqb_eq in E; subst; cbn [lenN]; lia|].
  apply N.eqb_neq in E. rewrite IH. lia.
Qed.

Lemma lenN_nil_iff {A} (l : list A) : lenN l = 0 <-> l = [].
Proof. destruct l; cbn [lenN]; split; intros H; try reflexivity; try discriminate; lia. Qed.

Lemma lenN_pos {A} (l : list A) : l <> [] -> 1 <= lenN l.
Proof. destruct l; cbn [lenN]; [congruence|lia]. Qed.

(* ====================================================================================================== *)
(* 2. the reference chunked reader                                                                         *)
(* ====================================================================================================== *)
Lemma crun_final s l : cst_final s = true -> crun s l = (s, [], l).
Proof. intros H. destruct l; cbn [crun]; [reflexivity| now rewrite H]. Qed.

Lemma crun_cons s c r : cst_final s = false ->
  crun s (c :: r) = let '(s1, o1) := cstep s c in let '(s2, o2, rest) := crun s1 r in (s2, o1 ++ o2, rest).
Proof. intros H. cbn [crun]. now rewrite H. Qed.

(* reading is independent of how the input is cut *)
Lemma crun_app s a b :
  crun s (a ++ b) =
  let '(s1, o1, r1) := crun s a in
  let '(s2, o2, r2) := crun s1 (r1 ++ b) in (s2, o1 ++ o2, r2).
Proof.
  revert s; induction a as [|c a IH]; intros s.
  - cbn [app crun]. destruct (crun s b) as [[s2 o2] r2]. reflexivity.
  - destruct (cst_final s) eqn:F.
    + rewrite (crun_final s (c :: a) F). rewrite (crun_final s ((c :: a) ++ b) F).
      rewrite (crun_final s ((c :: a) ++ b) F). reflexivity.
    + change ((c :: a) ++ b) with (c :: (a ++ b)). rewrite !crun_cons by exact F.
      destruct (cstep s c) as [s1 o1]. rewrite IH.
      destruct (crun s1 a) as [[sa oa] ra]. destruct (crun sa (ra ++ b)) as [[s2 o2] r2].
      now rewrite app_assoc.
Qed.

(* the reader stops early only in a final state *)
Lemma crun_rest s l st o r : crun s l = (st, o, r) -> cst_final st = false -> r = [].
Proof.
  revert s st o r; induction l as [|c l IH]; intros s st o r H F.
  - cbn [crun] in H. now inversion H.
  - destruct (cst_final s) eqn:Fs.
    + rewrite crun_final in H by exact Fs. inversion H; subst. congruence.
    + rewrite crun_cons in H by exact Fs. destruct (cstep s c) as [s1 o1].
      destruct (crun s1 l) as [[s2 o2] r2] eqn:E. inversion H; subst. eapply IH; eauto.
Qed.

Lemma crun_final_stays s l st o r : crun s l = (st, o, r) -> cst_final s = true -> st = s /\ o = [] /\ r = l.
Proof. intros H F. rewrite crun_final in H by exact F. inversion H; auto. Qed.

(* continuation form of one step *)
Lemma crun_step s c r s1 : cst_final s = false -> cstep s c = (s1, []) -> crun s (c :: r) = crun s1 r.
Proof.
  intros F H. rewrite crun_cons by exact F. rewrite H. destruct (crun s1 r) as [[s2 o2] r2]. reflexivity.
Qed.

(* ---------- hexadecimal chunk sizes ---------- *)
Lemma hexdig_ok u n : n < 16 -> is_hex (hexdig u n) = true /\ hexval (hexdig u n) = n.
Proof.
  intros H.
  assert (C : n = 0 \/ n = 1 \/ n = 2 \/ n = 3 \/ n = 4 \/ n = 5 \/ n = 6 \/ n = 7 \/ n = 8 \/ n = 9 \/
              n = 10 \/ n = 11 \/ n = 12 \/ n = 13 \/ n = 14 \/ n = 15) by lia.
  destruct u; repeat (destruct C as [C|C]; [subst n; vm_compute; split; reflexivity|]); subst n; vm_compute; split; reflexivity.
Qed.

Lemma pow16_succ (k : nat) : 16 ^ N.of_nat (S k) = 16 * 16 ^ N.of_nat k.
Proof. rewrite Nat2N.inj_succ. now rewrite N.pow_succ_r'. Qed.

Lemma hex_run u : forall (fuel : nat) n rest,
  n < 16 ^ N.of_nat fuel ->
  (crun CSize0 (hex_digits fuel u n ++ rest) = crun (CSize n) rest) /\
  (forall a, crun (CSize a) (hex_digits fuel u n ++ rest) =
             crun (CSize (a * 16 ^ N.of_nat (length (hex_digits fuel u n)) + n)) rest).
Proof.
  induction fuel as [|k IH]; intros n rest Hn.
  - cbn in Hn. lia.
  - cbn [hex_digits]. destruct (n <? 16) eqn:E.
    + apply N.ltb_lt in E. destruct (hexdig_ok u n E) as [Hh Hv]. split.
      * cbn [app]. rewrite (crun_step CSize0 _ _ (CSize n)); [reflexivity|reflexivity|].
        cbn [cstep]. now rewrite Hh, Hv.
      * intros a. cbn [app length]. rewrite (crun_step (CSize a) _ _ (CSize (a * 16 + n))); [|reflexivity|].
        -- do 2 f_equal. cbn. lia.
        -- cbn [cstep]. now rewrite Hh, Hv.
    + apply N.ltb_ge in E. rewrite pow16_succ in Hn.
      assert (Hq : n / 16 < 16 ^ N.of_nat k) by (apply N.div_lt_upper_bound; lia).
      assert (Hm : n mod 16 < 16) by (apply N.mod_lt; lia).
      destruct (hexdig_ok u (n mod 16) Hm) as [Hh Hv].
      destruct (IH (n / 16) ([hexdig u (n mod 16)] ++ rest) Hq) as [I1 I2].
      assert (Hd : n = 16 * (n / 16) + n mod 16) by (apply N.div_mod; lia).
      split.
      * rewrite <- app_assoc. rewrite I1. cbn [app].
        rewrite (crun_step (CSize (n / 16)) _ _ (CSize n)); [reflexivity|reflexivity|].
        cbn [cstep]. rewrite Hh, Hv. do 2 f_equal. lia.
      * intros a. rewrite <- app_assoc. rewrite I2. cbn [app].
        rewrite (crun_step _ _ _ (CSize ((a * 16 ^ N.of_nat (length (hex_digits k u (n / 16))) + n / 16) * 16 + n mod 16)));
          [|reflexivity|cbn [cstep]; now rewrite Hh, Hv].
        do 2 f_equal. rewrite app_length. cbn [length]. rewrite Nat.add_1_r, pow16_succ. lia.
Qed.

Lemma lt_pow16 (k : nat) : N.of_nat k < 16 ^ N.of_nat (S k).
Proof.
  induction k as [|k IH]; [cbn; lia|].
  rewrite pow16_succ. rewrite Nat2N.inj_succ in *. lia.
Qed.

Lemma hex_len_run u (d : bytes) rest :
  crun CSize0 (hex_digits (S (length d)) u (lenN d) ++ rest) = crun (CSize (lenN d)) rest.
Proof. apply hex_run. rewrite lenN_length. apply lt_pow16. Qed.

(* ---------- chunk extensions ---------- *)
Lemma ext_body_run n e rest : forallb no_crlf e = true ->
  crun (CExt n) (e ++ 13 :: rest) = crun (CSizeLF n) rest.
Proof.
  induction e as [|c e IH]; intros H.
  - cbn [app]. apply crun_step; reflexivity.
  - cbn [forallb] in H. apply andb_prop in H. destruct H as [Hc He].
    cbn [app]. rewrite (crun_step (CExt n) c _ (CExt n)); [now apply IH|reflexivity|].
    unfold no_crlf in Hc. cbn [cstep].
    destruct (c =? 13) eqn:E1; [discriminate|]. destruct (c =? 10) eqn:E2; [discriminate|]. reflexivity.
Qed.

Lemma ext_run n e rest : ext_ok e = true ->
  crun (CSize n) (e ++ 13 :: rest) = crun (CSizeLF n) rest.
Proof.
  destruct e as [|c e]; intros H.
  - cbn [app]. apply crun_step; reflexivity.
  - cbn [ext_ok] in H. apply andb_prop in H. destruct H as [Hc He].
    cbn [forallb] in He. apply andb_prop in He. destruct He as [Hn He].
    cbn [app]. rewrite (crun_step (CSize n) c _ (CExt n)); [now apply ext_body_run|reflexivity|].
    cbn [cstep]. unfold no_crlf in Hn.
    assert (Hx : is_hex c = false).
    { unfold is_hex, is_digit, is_uhex, is_lhex.
      destruct (c =? 59) eqn:A; [apply N.eqb_eq in A; subst; reflexivity|].
      destruct (c =? 32) eqn:B; [apply N.eqb_eq in B; subst; reflexivity|].
      destruct (c =? 9) eqn:C; [apply N.eqb_eq in C; subst; reflexivity|]. discriminate. }
    rewrite Hx. destruct (c =? 13) eqn:E1; [discriminate|]. now rewrite Hc.
Qed.

(* ---------- chunk data ---------- *)
Lemma data_run : forall (d : bytes) n rest s o r,
  lenN d = n -> 1 <= n -> crun CDataCR rest = (s, o, r) ->
  crun (CData n) (d ++ rest) = (s, d ++ o, r).
Proof.
  induction d as [|c d IH]; intros n rest s o r Hl Hn Hc.
  - cbn [lenN] in Hl. lia.
  - cbn [lenN] in Hl. cbn [app]. rewrite crun_cons by reflexivity. cbn [cstep].
    destruct (n =? 1) eqn:E.
    + apply N.eqb_eq in E. assert (d = []) by (apply lenN_nil_iff; lia). subst d. cbn [app].
      rewrite Hc. reflexivity.
    + apply N.eqb_neq in E. rewrite (IH (n - 1) rest s o r); [reflexivity|lia|lia|exact Hc].
Qed.

(* ---------- one chunk, the last chunk, a whole body ---------- *)
Lemma chunk_run u ext d rest s o r :
  ext_ok ext = true -> d <> [] -> crun CSize0 rest = (s, o, r) ->
  crun CSize0 (enc_chunk u ext d ++ rest) = (s, d ++ o, r).
Proof.
  intros He Hd Hc. unfold enc_chunk. rewrite <- !app_assoc. rewrite hex_len_run.
  unfold crlf. cbn [app]. rewrite ext_run by exact He.
  assert (Hl : 1 <= lenN d) by now apply lenN_pos.
  rewrite (crun_step (CSizeLF (lenN d)) 10 _ (CData (lenN d))); [|reflexivity|].
  2:{ cbn [cstep]. destruct (lenN d =? 0) eqn:E; [apply N.eqb_eq in E; lia|reflexivity]. }
  apply data_run; [reflexivity|exact Hl|].
  rewrite (crun_step CDataCR 13 _ CDataLF) by reflexivity.
  rewrite (crun_step CDataLF 10 _ CSize0) by reflexivity. exact Hc.
Qed.

Lemma trailer_line_run l rest : line_ok l = true ->
  crun CTr0 (l ++ crlf ++ rest) = crun CTr0 rest.
Proof.
  unfold line_ok. intros H. apply andb_prop in H. destruct H as [Hne Hall].
  destruct l as [|c l]; [discriminate|]. cbn [forallb] in Hall. apply andb_prop in Hall. destruct Hall as [Hc Hl].
  cbn [app]. rewrite (crun_step CTr0 c _ CTr); [|reflexivity|].
  2:{ unfold no_crlf in Hc. cbn [cstep]. destruct (c =? 13); [discriminate|]. destruct (c =? 10); [discriminate|reflexivity]. }
  clear Hc Hne. induction l as [|x l IH].
  - unfold crlf. cbn [app]. rewrite (crun_step CTr 13 _ CTrLF) by reflexivity.
    now rewrite (crun_step CTrLF 10 _ CTr0) by reflexivity.
  - cbn [forallb] in Hl. apply andb_prop in Hl. destruct Hl as [Hx Hl]. cbn [app].
    rewrite (crun_step CTr x _ CTr); [now apply IH|reflexivity|].
    unfold no_crlf in Hx. cbn [cstep]. destruct (x =? 13); [discriminate|]. destruct (x =? 10); [discriminate|reflexivity].
Qed.

Lemma trailer_run ls rest : forallb line_ok ls = true ->
  crun CTr0 (enc_trailer ls ++ rest) = crun CTr0 rest.
Proof.
  induction ls as [|l ls IH]; intros H; [reflexivity|].
  cbn [forallb] in H. apply andb_prop in H. destruct H as [Hl Hls].
  unfold enc_trailer. cbn [map concat]. rewrite <- !app_assoc. rewrite trailer_line_run by exact Hl.
  now apply IH.
Qed.

Lemma last_run ext ls rest :
  ext_ok ext = true -> forallb line_ok ls = true ->
  crun CSize0 (enc_last ext (enc_trailer ls) ++ rest) = (CDone, [], rest).
Proof.
  intros He Hl. unfold enc_last, crlf. rewrite <- !app_assoc. cbn [app].
  rewrite (crun_step CSize0 48 _ (CSize 0)) by reflexivity.
  rewrite ext_run by exact He.
  rewrite (crun_step (CSizeLF 0) 10 _ CTr0) by reflexivity.
  rewrite trailer_run by exact Hl. cbn [app].
  rewrite (crun_step CTr0 13 _ CEndLF) by reflexivity.
  rewrite (crun_step CEndLF 10 _ CDone) by reflexivity.
  apply crun_final. reflexivity.
Qed.

Lemma chunks_run u ext ds rest s o r :
  ext_ok ext = true -> Forall nonempty ds -> crun CSize0 rest = (s, o, r) ->
  crun CSize0 (concat (map (enc_chunk u ext) ds) ++ rest) = (s, concat ds ++ o, r).
Proof.
  intros He Hd Hc. induction Hd as [|d ds Hne Hds IH]; [exact Hc|].
  cbn [map concat]. rewrite <- !app_assoc. now apply chunk_run.
Qed.

Theorem chunked_roundtrip u ext ds tr rest :
  ext_ok ext = true -> Forall nonempty ds -> forallb line_ok tr = true ->
  crun CSize0 (enc_chunked u ext ds tr ++ rest) = (CDone, concat ds, rest).
Proof.
  intros He Hd Ht. unfold enc_chunked. rewrite <- app_assoc.
  rewrite (chunks_run u ext ds _ CDone [] rest He Hd); [now rewrite app_nil_r|].
  now apply last_run.
Qed.

Theorem chunks_without_last u ext ds :
  ext_ok ext = true -> Forall nonempty ds ->
  crun CSize0 (concat (map (enc_chunk u ext) ds)) = (CSize0, concat ds, []).
Proof.
  intros He Hd. rewrite <- (app_nil_r (concat (map (enc_chunk u ext) ds))).
  rewrite (chunks_run u ext ds [] CSize0 [] [] He Hd); [now rewrite app_nil_r|reflexivity].
Qed.

Lemma pack_chunk_nil : pack_chunk [] = last_chunk.
Proof. reflexivity. Qed.
Lemma last_chunk_enc : last_chunk = enc_last [] (enc_trailer []).
Proof. reflexivity. Qed.
