"""C28: Range canonicalisation preserves the requested byte set."""
import re
from vlib import std, hbuild

PID = "C28"
META = {
    "text": "Theorems (Properties_C28.v) state for ALL Range header values and all representation lengths clen >= -1 that "
            "(a) Squid's parser accepts the header exactly when the text (read as a C string) is 'bytes=' followed by a comma "
            "list whose non-empty elements are all well-formed byte-range-specs (1*DIGIT '-' [1*DIGIT] or '-' 1*DIGIT, values "
            "<= INT64_MAX, last >= first) and returns them in order, so a header with any invalid spec yields no ranges; "
            "(b) the canonical specs are, in order, exactly the non-empty intersections of each requested spec's byte set with "
            "[0,clen): each is non-empty, inside the representation, and the union equals the union of the requested satisfiable "
            "sets; (c) no 64-bit signed operation overflows, no uint64->int64 conversion changes a value and no assert() of "
            "canonize fails. The model is tied to src/HttpHdrRange.cc, httpHeaderParseOffset, strListGetItem and base/Range.h "
            "by differential runs of the extracted model against those sources compiled from the working tree under UBSan.",
    "note": "Full proof; Print Assumptions: closed under the global context. List whitespace is Squid's: elements are trimmed of "
            "SP, HT, LF, VT, FF, CR (all xisspace characters), not only SP/HT, and the value is read up to its first NUL byte. "
            "Trusted: Coq kernel, extraction, harness/h_range.cc, TokModel.strtoll10 as the model of glibc strtoll and "
            "HopModel.list_items as the model of strListGetItem (both validated against the code on the generated cases only); "
            "the model gives strtoll an empty tail after an item because the byte following an item is a delimiter, white space "
            "or NUL. gen hdrtable is regenerated only because HopModel imports it.",
    "technique": "Coq proof (induction over the item loop, interval arithmetic with explicit wrap/overflow flags, lia) + "
                 "extracted-model differential correspondence under UBSan",
}
LINK = ("HttpHdrContRange.o tests/stub_HttpHeader.o tests/stub_HttpReply.o tests/stub_MemBuf.o String.o "
        "tests/stub_cbdata.o tests/stub_debug.o tests/stub_libhttp.o tests/stub_libmem.o sbuf/libsbuf.la "
        "base/libbase.la ../compat/libcompatsquid.la").split()
FRESH = ["src/HttpHdrRange.cc", "src/HttpHeaderTools.cc", "src/StrList.cc"]
I64MAX = 2 ** 63 - 1
WS = b" \t\r\n\v\f"


def impl():
    return hbuild.build("h_range", "h_range.cc", fresh=FRESH, link=LINK, sanitize="ubsan")


def prebuild():
    impl()


def hx(b):
    return bytes(b).hex() if len(b) else "-"


def unhx(h):
    return b"" if h == "-" else bytes.fromhex(h)


# ---------------------------------------------------------------- generator
def rand_num(rng, clen):
    k = rng.random()
    if k < 0.35:
        return rng.choice([0, 1, 2, 3, 5, 9, 10, 99, 100, 499, 500, 999, 1000, 1001])
    if k < 0.6:
        c = max(clen, 0)
        return max(0, c + rng.choice([-3, -2, -1, 0, 1, 2]))
    if k < 0.8:
        return rng.choice([I64MAX, I64MAX - 1, I64MAX - 2, I64MAX - 1000, 2 ** 62, 2 ** 32, 2 ** 31 - 1, 2 ** 32 - 1])
    if k < 0.87:
        return rng.choice([I64MAX + 1, I64MAX + 2, 2 ** 64 - 1, 2 ** 64, 2 ** 64 + 5, 10 ** 19, 10 ** 25])
    return rng.randrange(0, 2000)


def num_text(rng, n):
    s = str(n)
    if rng.random() < 0.08:
        s = "0" * rng.choice([1, 2, 20]) + s
    return s


def rand_spec(rng, clen):
    k = rng.random()
    a = rand_num(rng, clen)
    if k < 0.45:
        b = rand_num(rng, clen) if rng.random() < 0.4 else a + rng.choice([0, 0, 1, 2, 10, 100, 5000])
        if b < a and rng.random() < 0.85:
            a, b = b, a
        return num_text(rng, a) + "-" + num_text(rng, b)
    if k < 0.7:
        return num_text(rng, a) + "-"
    return "-" + num_text(rng, a)


BAD = ["1x-5", "1-5x", "1 - 5", "-+5", "+1-5", "1-+5", "--5", "1--5", "5", "-", "a-b", "1-2-3", "0x10-0x20", "1.5-2", "\"1-2\"",
       "1-\"2\"", "-5 5", "1- 2", "1 -2", "5-1", "100-99", "9223372036854775808-", "-9223372036854775808",
       "0-9223372036854775808", "0-18446744073709551616", "1-2;3-4", "bytes=1-2", "=1-2", "1\\-2", "1-2\"", "\"", "-\t5", "\u00001-2"]


def breaking(rng, spec):
    k = rng.random()
    if k < 0.5:
        return rng.choice(BAD)
    b = bytearray(spec.encode("latin-1"))
    if not b:
        return "x"
    j = rng.randrange(len(b))
    m = rng.random()
    if m < 0.4:
        b[j] = rng.choice(b"-+ x\"\t0123456789,;=\\\x0b\x00\x80\xff")
    elif m < 0.7:
        b.insert(j, rng.choice(b"-+ x\"\t,\x0b"))
    else:
        del b[j]
    return b.decode("latin-1")


def rand_sep(rng):
    k = rng.random()
    if k < 0.5:
        return ","
    if k < 0.8:
        return rng.choice([", ", " ,", " , ", ",\t", ",,", ", ,", ",  ,  "])
    return rng.choice([",\r\n ", ",\x0b", "\x0c,", ",\n", " \t,\t "])


def rand_case(rng):
    clen = rng.choice([0, 1, 2, 10, 100, 500, 1000, 1000, 1000, 1001, 4096, 2 ** 31, 2 ** 32 + 7, I64MAX, I64MAX - 1,
                       -1, rng.randrange(0, 3000)])
    n = rng.choice([1, 1, 1, 2, 2, 3, 4, 6])
    specs = [rand_spec(rng, clen) for _ in range(n)]
    if rng.random() < 0.3:
        j = rng.randrange(n)
        specs[j] = breaking(rng, specs[j])
    body = ""
    if rng.random() < 0.12:
        body += rng.choice([" ", ",", " , ", "\t"])
    for i, s in enumerate(specs):
        if i:
            body += rand_sep(rng)
        body += s
    if rng.random() < 0.12:
        body += rng.choice([" ", ",", " , ", "\t", ", ,"])
    k = rng.random()
    if k < 0.8:
        pre = "bytes="
    elif k < 0.9:
        pre = rng.choice(["Bytes=", "BYTES=", "bYtEs="])
    else:
        pre = rng.choice(["bytes =", "byte=", "bytes", "", "bytes:", " bytes=", "octets=", "bytes= "])
    return "range %s %d" % (hx((pre + body).encode("latin-1")), clen)


def gen_cases(rng, n):
    return [rand_case(rng) for _ in range(n)]


# ---------------------------------------------------------------- oracle (independent statement of the property)
SPEC_RE = re.compile(rb"(?:([0-9]+)-([0-9]*)|-([0-9]+))\Z")


def requested(value):
    """The byte-range-specs a Range header value asks for, per RFC 9110 section 14.1.2 read with Squid's list
    white space; None when the header must be ignored. Each spec is ('range', a, b) / ('from', a) / ('suffix', n)."""
    value = value.split(b"\0")[0]
    if value[:6].lower() != b"bytes=":
        return None
    out = []
    for el in value[6:].split(b","):
        el = el.strip(WS)
        if not el:
            continue
        m = SPEC_RE.match(el)
        if not m:
            return None
        if m.group(3) is not None:
            n = int(m.group(3))
            if n > I64MAX:
                return None
            out.append(("suffix", n))
        else:
            a = int(m.group(1))
            if a > I64MAX:
                return None
            if m.group(2):
                b = int(m.group(2))
                if b > I64MAX or b < a:
                    return None
                out.append(("range", a, b))
            else:
                out.append(("from", a))
    return out or None


def wanted(spec, clen):
    """half-open interval of representation bytes (of a clen-byte representation) a spec selects, or None if empty"""
    if spec[0] == "suffix":
        lo, hi = max(0, clen - spec[1]), clen
    elif spec[0] == "from":
        lo, hi = spec[1], clen
    else:
        lo, hi = spec[1], min(spec[2] + 1, clen)
    lo = max(lo, 0)
    return (lo, hi) if lo < hi else None


def oracle(case, out):
    a = case.split()
    value = unhx(a[1]); clen = int(a[2])
    if out.startswith(("CRASH", "EXC", "ERR", "UB")):
        return ("oracle:range-crash", "implementation crashed / UBSan abort / threw: " + out[:200])
    req = requested(value)
    if out == "none":
        if req is None:
            return None
        return ("oracle:range-valid-ignored", "a header made only of valid byte-range-specs was ignored")
    if req is None:
        return ("oracle:range-invalid-accepted", "a header that is not 'bytes=' + valid specs only was not ignored")
    try:
        left, right = out[3:].split(" | ")
        rw = right.split()
        ret = int(rw[0]); canon = [tuple(int(x) for x in w.split(":")) for w in rw[2:]]
        if len(canon) != int(rw[1]):
            raise ValueError("count")
    except Exception as ex:
        return ("oracle:range-unparsable", "unparsable implementation output %r (%s)" % (out[:100], ex))
    if len(left.split()) - 1 != len(req):
        return ("oracle:range-spec-count", "parsed %s specs, the header has %d" % (left.split()[0], len(req)))
    exp = [w for w in (wanted(s, clen) for s in req) if w]
    for (o, l) in canon:
        if l <= 0:
            return ("oracle:range-empty-canonical", "canonical spec %d:%d is empty" % (o, l))
        if o < 0 or o + l > clen:
            return ("oracle:range-outside", "canonical spec %d:%d is outside [0,%d)" % (o, l, clen))
    got = [(o, o + l) for (o, l) in canon]
    if got != exp:
        return ("oracle:range-byteset", "canonical ranges %s differ from the requested satisfiable byte sets %s" % (got[:6], exp[:6]))
    if ret != (1 if canon else 0):
        return ("oracle:range-retval", "canonize() returned %d with %d canonical specs" % (ret, len(canon)))
    return None


def mutate(rng, case):
    a = case.split()
    b = bytearray(unhx(a[1]))
    k = rng.random()
    if b and k < 0.6:
        j = rng.randrange(len(b))
        b[j] = rng.choice(b"-+ x\"\t0123456789,")
    elif k < 0.8:
        b.insert(rng.randrange(len(b) + 1), rng.choice(b"-+ 0123456789,"))
    else:
        a[2] = str(rng.choice([0, 1, 10, 1000, I64MAX, -1]))
    a[1] = hx(b)
    return " ".join(a)


def kind(c, o):
    if o == "none":
        return "ignored"
    if o.startswith("ok"):
        return "canon-some" if " | 1 " in o else "canon-none"
    return "other"


def run(res, tier):
    res.rule = ("Range values = ('bytes=' | case variants | wrong units) + 1..6 specs (first-last, first-, -suffix; numbers small, "
                "around clen, 63/64-bit extremes, leading zeros) joined by commas with optional white space / empty elements, "
                "30% with one spec broken (signs, blanks, letters, quotes, reversed, >INT64_MAX, byte flips); clen in "
                "{-1,0,1,..,2^63-1}; a case is non-trivial when the header was accepted")
    std.run_standard(res, PID, tier, area="range", build_impl=impl, gen_cases=gen_cases, oracle=oracle,
                     corr_name="RangeModel vs src/HttpHdrRange.cc, src/HttpHeaderTools.cc, src/StrList.cc, src/base/Range.h",
                     gens=["hdrtable"], n_quick=30000, n_thorough=600000, seed_salt=28, mutate=mutate,
                     kind_fn=kind, nontrivial_fn=lambda c, o: o.startswith("ok"))
