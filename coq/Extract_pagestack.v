(* Extract_pagestack.v — extraction of the PageStack/IdSet model (C53) to OCaml.
   Only ExtrOcamlBasic is used; N, positive and nat stay the extracted Coq datatypes. *)
Require Import ExtrOcamlBasic.
Require Import SquidV.Bytes SquidV.PagestackModel.
Extraction "m_pagestack.ml" run_case node_count measure.
