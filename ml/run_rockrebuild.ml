(* handlers for the rockrebuild area (C57): run the extracted Rock::Rebuild model over a db image *)
let z_of_int (i : int) : z = if i = 0 then Z0 else if i > 0 then Zpos (pos_of_int i) else Zneg (pos_of_int (- i))
let int_of_z = function Z0 -> 0 | Zpos p -> int_of_pos p | Zneg p -> - (int_of_pos p)

let parse_meta (m : string) : meta =
  if m = "Z" then MZero
  else if m = "B" then MBad
  else if String.length m > 0 && m.[0] = 'K' then
    (match String.split_on_char ',' (String.sub m 1 (String.length m - 1)) with
     | [hk; mk0; mk1; ssz; priv; _pad; hdrlen] ->
       MOk (hk = "1", z_of_string mk0, z_of_string mk1, z_of_string ssz, priv = "1", z_of_string hdrlen)
     | _ -> failwith "bad-meta-token")
  else failwith "bad-meta-kind"

let zero_hdr = { h_k0 = Z0; h_k1 = Z0; h_esz = Z0; h_psz = Z0; h_ver = Z0; h_first = Z0; h_next = Z0 }

let parse_slot (t : string) : dslot =
  if t = "E" then DHdr (zero_hdr, MZero)
  else if String.length t > 0 && t.[0] = 'T' then DTrunc
  else match String.split_on_char ':' t with
    | ["H"; k0; k1; esz; psz; ver; first; next; m] ->
      DHdr ({ h_k0 = z_of_string k0; h_k1 = z_of_string k1; h_esz = z_of_string esz; h_psz = z_of_string psz;
              h_ver = z_of_string ver; h_first = z_of_string first; h_next = z_of_string next }, parse_meta m)
    | _ -> failwith "bad-slot-token"

let b01 b = if b then "1" else "0"

let show (n : int) (s : st) : string =
  let b = Buffer.create 1024 in
  Buffer.add_string b (Printf.sprintf "ok c=%s,%s,%s,%s,%s,%s,%s n=%s | e"
    (string_of_z s.c_scan) (string_of_z s.c_obj) (string_of_z s.c_invalid) (string_of_z s.c_clash)
    (string_of_z s.c_dup) (string_of_z s.c_badflags) (string_of_z s.c_valid) (string_of_z s.acount));
  for f = 0 to n - 1 do
    let e = s.ents (z_of_int f) in
    if entry_touched e then
      Buffer.add_string b (Printf.sprintf " %d=%s,%s,%s,%s,%s,0,%s,%s.%s,%s,%s,%s" f
        (string_of_z (lestate_code e.e_state)) (b01 e.e_anch) (string_of_z e.e_size) (string_of_z e.e_ver)
        (b01 e.a_writing) (b01 e.a_wtbf) (string_of_z e.a_k0) (string_of_z e.a_k1) (string_of_z e.a_start)
        (string_of_z e.a_swapsz) (b01 e.a_valid))
  done;
  Buffer.add_string b " | s";
  for i = 0 to n - 1 do
    let x = s.sls (z_of_int i) in
    if sl_touched x then
      Buffer.add_string b (Printf.sprintf " %d=%s,%s%s%s,%s,%s" i (string_of_z x.s_more)
        (b01 x.s_mapped) (b01 x.s_final) (b01 x.s_freed) (string_of_z x.s_size) (string_of_z x.s_next))
  done;
  Buffer.add_string b " | f";
  List.iter (fun i -> Buffer.add_string b (Printf.sprintf " %d" i)) (List.sort compare (List.map int_of_z s.free));
  Buffer.contents b

let () =
  reg "rr.run" (fun (n :: ssz :: dbl :: slots) ->
    let n = int_of_string n in
    if List.length slots <> n then "ERR slot-count" else
    let img = List.map parse_slot slots in
    match rebuild (z_of_string ssz) (dbl = "1") img with
    | Ok s -> show n s
    | Thrown _ -> "CRASH exc"
    | Abort -> "CRASH assert"
    | NoFuel -> "ERR model-out-of-fuel")
