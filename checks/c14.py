"""C14: conditional requests are answered according to their validators (end to end through the real squid,
plus a unit harness on src/ETag.cc / src/StrList.cc compiled from the working tree)."""
import calendar, collections, concurrent.futures, json, os, random, re, time
from vlib import std, lab, common, hbuild, recipes, coq, corr

PID = "C14"
META = {
    "text": "Theorems (Properties_C14.v, closed under the global context, for EVERY date parser): etagParseInit accepts exactly [W/]DQUOTE..DQUOTE; strong/weak comparison are what RFC 7232 2.3.2 says (weak = opaque-tags equal, an equivalence; strong = weak and neither tag weak); for every list of well-formed entity-tags / `*` rendered with arbitrary OWS, commas and empty elements, Squid's list walk (strListGetItem + hasOneOfEtags) answers exactly `some listed tag matches` (proved when no opaque-tag contains a backslash: _partial; REFUTED at full RFC strength: `If-Match: \"a\\\", \"v1\"` against entity \"v1\" is answered 412 - known finding C14-backslash-etag-list); processConditional answers 304 iff the cached reply is a 200 and If-Match (if any) holds and (If-None-Match present, matches, GET/HEAD) or (If-None-Match absent, IMS > 0 parsed, 0 <= last-modified-or-timestamp <= IMS); 412 iff If-Match fails (or If-None-Match matches on a non-GET/HEAD); If-None-Match makes If-Modified-Since irrelevant; weak matching only for GET/HEAD without Range; every other outcome is a full response (hit or miss). After an origin 304 the stored header is old (+) new by field name (update() as repaired by /repo 5d5369d): every field of the 304 that is not Vary, not hop-by-hop in the registered-header table and not nominated by the 304's own Connection field replaces all stored fields of that name, no other 304 field is stored or deletes anything, every other stored field is kept in order, the body is untouched, and needUpdate=false means the stored values already equal the 304's. Tie: registered-header table regenerated; extracted model diffed against the real squid (fresh-hit conditionals: status 200/206/304/412/miss; forced revalidation answered 304/200/500 by the origin: what the client gets and the headers+body of the following hit) and against src/ETag.cc + src/StrList.cc compiled from the working tree.",
    "note": "partial: the theorems are about the transcribed functions (CondModel.v); that cacheHit/handleIMSReply apply exactly these decisions on every path rests on the end-to-end correspondence (forward-proxy GET/HEAD on memory-cached objects, -N mode). Time::ParseRfc1123, Range parsing and the entry timestamp are inputs of the model (Section variable / fields), not modelled. Squid's 200 answer to a matching If-None-Match after revalidation, and strong comparison for ranged If-None-Match, are allowed by the property ('304 only when') and are modelled as they are. Trusted: Coq kernel, extraction, gen/gen_hdrtable.cc, vlib/lab.py stubs, harness/h_cond.cc.",
    "technique": "Coq proof (induction over rendered tag lists through the quoted-string scanner; case analysis of the decision function; filter/fold reasoning for HttpHeader::update with caseless-name equivalence) + end-to-end differential correspondence of the extracted model against the running squid + unit correspondence against ETag.cc/StrList.cc + independent RFC 7232 oracle",
}

T0 = int(time.time())


def http_date(t):
    return time.strftime("%a, %d %b %Y %H:%M:%S GMT", time.gmtime(t))


def resolve(v):
    """header values starting with '@' are dates relative to T0 ('@-86400') or absolute ('@=0')"""
    if isinstance(v, str) and v.startswith("@="):
        return http_date(int(v[2:]))
    if isinstance(v, str) and v.startswith("@"):
        return http_date(T0 + int(v[1:]))
    return v


def date_value(v):
    """independent reading of the dates this check generates (RFC 1123 form only)"""
    m = re.match(r"^[A-Z][a-z]{2}, (\d\d) ([A-Z][a-z]{2}) (\d{4}) (\d\d):(\d\d):(\d\d) GMT$", v)
    if not m:
        return None
    mon = ["Jan", "Feb", "Mar", "Apr", "May", "Jun", "Jul", "Aug", "Sep", "Oct", "Nov", "Dec"].index(m.group(2)) + 1
    return calendar.timegm((int(m.group(3)), mon, int(m.group(1)), int(m.group(4)), int(m.group(5)), int(m.group(6)), 0, 0, 0))


def rh(hs):
    return [[n, resolve(v)] for n, v in hs]


def hexs(s):
    b = s.encode("latin1")
    return b.hex() if b else "-"


# ------------------------------------------------------------------ generators
SEPS = [",", ", ", " ,", ",,", ", ,", "\t,", " , ", ",\t"]
OTHER_TAGS = ['"v2"', 'W/"v2"', '"a,b"', '""', '"V1"', '"v1 "', 'W/""', '"x y"']
BAD_ITEMS = ['v1', '"v1', 'w/"v1"', '"v1"x', 'W/v1', 'W/', '"', "**", "W/*"]
ENT_TAGS = [None, None, '"v1"', '"v1"', '"v1"', 'W/"v1"', 'W/"v1"', '"a,b"', '""', 'v1', '"q\\"', 'W/"a,b"']


def opaque(tag):
    return tag[2:] if tag.startswith("W/") else tag


def gen_list(rng, ent_tag, want_backslash=False):
    """an If-Match / If-None-Match value list (1-2 field values) aimed at the entity's tag"""
    items = []
    k = rng.choice([1, 1, 2, 2, 3])
    for _ in range(k):
        x = rng.random()
        if ent_tag and ent_tag.startswith(('"', 'W/"')) and x < 0.35:
            o = opaque(ent_tag)
            items.append(o if rng.random() < 0.6 else "W/" + o)
        elif x < 0.45:
            items.append("*")
        elif x < 0.85:
            items.append(rng.choice(OTHER_TAGS))
        else:
            items.append(rng.choice(BAD_ITEMS))
    if want_backslash:
        items.insert(0, '"a\\"')
    val = ""
    if rng.random() < 0.15:
        val += rng.choice([",", " ,", ", "])
    for i, it in enumerate(items):
        val += it
        if i + 1 < len(items):
            val += rng.choice(SEPS)
    if rng.random() < 0.15:
        val += rng.choice([",", " ,", ", ,"])
    val = val.strip(" \t")
    if len(items) >= 2 and rng.random() < 0.2 and not want_backslash:
        # split into two header fields at the first top-level separator
        first = items[0]
        rest = val[val.index(first) + len(first):].lstrip(" \t,")
        if rest:
            return [first, rest]
    return [val]


def gen_hit(rng, k):
    ent_tag = rng.choice(ENT_TAGS)
    lm = rng.choice([None, None, -86400, -86400, -2 * 86400, -10 * 86400, -3600 * 5])
    status = rng.choice([200] * 10 + [203, 301, 410])
    hs = []
    if ent_tag is not None:
        hs.append(["ETag", ent_tag])
    if lm is not None:
        hs.append(["Last-Modified", "@%d" % lm])
    hs.append(["Cache-Control", "max-age=3600"])
    if status == 301:
        hs.append(["Location", "http://example.invalid/x"])
    rng.shuffle(hs)
    probes = []
    for _ in range(rng.choice([3, 4, 5, 6])):
        ph = []
        # (a HEAD that is forwarded as a miss makes squid drop the cached GET object; keep non-200 entities GET-only)
        method = "HEAD" if (status == 200 and rng.random() < 0.15) else "GET"
        ranged = rng.random() < 0.15
        which = rng.choice(["inm", "inm", "inm", "im", "im", "ims", "ims", "inm+ims", "inm+ims", "im+inm", "im+ims", "all", "none"])
        if "im" in which.split("+") or which == "all":
            for v in gen_list(rng, ent_tag, want_backslash=rng.random() < 0.06):
                ph.append(["If-Match", v])
        if "inm" in which.split("+") or which == "all":
            for v in gen_list(rng, ent_tag, want_backslash=rng.random() < 0.04):
                ph.append(["If-None-Match", v])
        if "ims" in which.split("+") or which == "all":
            base = lm if lm is not None else 0
            off = rng.choice([base, base, base - 1, base + 1, base - 86400, base + 7200, 86400, -40 * 86400] if lm is not None
                             else [86400, 7200, -7200, -86400, -40 * 86400])
            v = "@%d" % off
            x = rng.random()
            if x < 0.08:
                v = rng.choice(["garbage", "", "0", "yesterday"])
            elif x < 0.12:
                v = "@=0"
            ph.append(["If-Modified-Since", v])
        if ranged:
            ph.append(["Range", "bytes=0-1"])
        rng.shuffle(ph)
        probes.append({"method": method, "hdrs": ph})
    return {"kind": "hit", "status": status, "ent": hs, "probes": probes}


TRACKED = ["etag", "last-modified", "cache-control", "content-type", "x-foo", "x-bar", "x-new", "content-language",
           "expires", "date"]


def randcase(rng, s):
    x = rng.random()
    if x < 0.6: return s
    if x < 0.75: return s.lower()
    if x < 0.9: return s.upper()
    return "".join(c.upper() if rng.random() < 0.5 else c.lower() for c in s)


def gen_reval(rng, k):
    old = []
    etag = rng.choice(['"v1"', '"v1"', '"v1"', 'W/"v1"', None])
    lm = rng.choice([-86400, -86400, -2 * 86400, None])
    if etag: old.append(["ETag", etag])
    if lm is not None: old.append(["Last-Modified", "@%d" % lm])
    old.append(["Cache-Control", "max-age=3600"])
    old.append(["Date", "@-100"])
    if rng.random() < 0.5: old.append(["Content-Type", "text/x-a"])
    if rng.random() < 0.6:
        old.append([randcase(rng, "X-Foo"), "a1"])
        if rng.random() < 0.3: old.append([randcase(rng, "X-Foo"), "a2"])
    if rng.random() < 0.4: old.append([randcase(rng, "X-Bar"), "b1"])
    if rng.random() < 0.3: old.append(["Content-Language", "en"])
    if rng.random() < 0.2: old.append(["Expires", "@3600"])
    rng.shuffle(old)
    ost = rng.choice([304] * 7 + [200, 200, 500])
    fresh = []
    if ost == 304:
        same = rng.random() < 0.2    # a 304 that repeats stored values only
        if rng.random() < 0.6 and etag: fresh.append(["ETag", etag if (same or rng.random() < 0.6) else '"v2"'])
        if rng.random() < 0.5 and (lm is not None or not same):
            fresh.append(["Last-Modified", "@%d" % (lm if (lm is not None and (same or rng.random() < 0.5)) else -3600)])
        if rng.random() < 0.5: fresh.append(["Cache-Control", "max-age=3600" if (same or rng.random() < 0.5) else "max-age=7200"])
        fresh.append(["Date", "@-100" if (same or rng.random() < 0.3) else "@-50"])
        if not same:
            if rng.random() < 0.3: fresh.append(["Content-Type", "text/x-b"])
            if rng.random() < 0.5:
                fresh.append([randcase(rng, "X-Foo"), "f1"])
                if rng.random() < 0.3: fresh.append([randcase(rng, "X-Foo"), "f2"])
            if rng.random() < 0.3: fresh.append([randcase(rng, "X-New"), "n1"])
            if rng.random() < 0.25:
                # the 304's own Connection field nominates extension fields (of the 304 and/or of the stored reply):
                # hop-by-hop for the 304's connection only - not merged, and stored fields of that name stay
                names = rng.sample(["x-foo", "x-new", "x-bar"], rng.choice([1, 1, 2]))
                fresh.append(["Connection", rng.choice([", ", " , ", ","]).join([randcase(rng, n) for n in names] + ["x-unrelated"])])
            if rng.random() < 0.1: fresh.append(["Keep-Alive", "timeout=5"])
            if rng.random() < 0.2: fresh.append(["Content-Language", "de"])
            if rng.random() < 0.2: fresh.append(["Expires", "@7200"])
        else:
            for n, v in old:
                if n.lower() in ("x-bar", "content-language", "content-type") and rng.random() < 0.5:
                    fresh.append([n, v])
    elif ost == 200:
        fresh = [["ETag", '"v2"'], ["Last-Modified", "@-3600"], ["Cache-Control", "max-age=3600"],
                 ["Date", "@-50" if rng.random() < 0.75 else "@-300"], ["X-New", "n2"]]
        if rng.random() < 0.5: fresh.append(["X-Foo", "g1"])
    else:
        fresh = [["Date", "@-50"], ["Content-Type", "text/x-err"], ["X-New", "err"]]
    rng.shuffle(fresh)
    req = [["Cache-Control", "max-age=0"]]
    x = rng.random()
    if x < 0.45:
        base = lm if lm is not None else 0
        req.append(["If-Modified-Since", "@%d" % rng.choice([base, base - 86400, -3600, -1800, 86400, -20 * 86400] if lm is not None
                                                             else [86400, -86400, 7200])])
    elif x < 0.65:
        req.append(["If-None-Match", rng.choice(['"v1"', '"v2"', '*', 'W/"v1"'])])
    return {"kind": "reval", "old": old, "fresh": fresh, "origin_status": ost, "req": req}


def gen_scenarios(rng, n):
    out = []
    for k in range(n):
        out.append(gen_hit(rng, k) if k % 5 < 3 else gen_reval(rng, k))
    return out


# ------------------------------------------------------------------ model side
def hdr_args(prefix, hs):
    return " ".join("%s:%s:%s" % (prefix, hexs(n), hexs(v)) for n, v in hs)


def date_args(all_hs):
    seen = {}
    for n, v in all_hs:
        dv = date_value(v)
        if dv is not None:
            seen[v] = dv
    return " ".join("d:%s:%d" % (hexs(v), dv) for v, dv in sorted(seen.items()))


def to_case(s):
    if s["kind"] == "hit":
        ent = rh(s["ent"])
        allh = list(ent)
        parts = []
        for p in s["probes"]:
            ph = rh(p["hdrs"])
            allh += ph
            ranged = any(n.lower() == "range" for n, _ in ph)
            parts.append("P 1 %d %s" % (1 if ranged else 0, hdr_args("r", ph)))
        return "cond.hits %d %d %s %s %s" % (s["status"], T0, hdr_args("e", ent), date_args(allh), " ".join(parts))
    old, fresh, req = rh(s["old"]), rh(s["fresh"]), rh(s["req"])
    return "cond.reval %d %d %s %s %s %s %s" % (T0, s["origin_status"], hdr_args("e", old), hdr_args("f", fresh),
                                                hdr_args("r", req), date_args(old + fresh + req),
                                                " ".join("t:" + hexs(n) for n in TRACKED))


# ------------------------------------------------------------------ implementation side (the real squid)
_state = {}


def body_of(tag, rid):
    return "%s-%s-%s" % (tag, rid, "x" * 40)


def _hit(sq, org, s, rid):
    full = body_of("OLD", rid)
    spec = {"status": s["status"], "headers": rh(s["ent"]), "body": full}
    url = org.url(spec, rid)
    r, raw = lab.get(sq.port, url)
    if r is None or r.status != s["status"]:
        return "noprime %s" % (r.status if r else "none")
    out = []
    for p in s["probes"]:
        before = len(org.arrivals(rid))
        ph = rh(p["hdrs"])
        r, raw = lab.get(sq.port, url, headers=[(n, v) for n, v in ph], method=p["method"])
        after = len(org.arrivals(rid))
        body = r.body.decode("latin1") if r is not None else ""
        head = p["method"] == "HEAD"
        if r is None:
            out.append("none")
        elif after != before:
            out.append("miss")
        elif r.status == 304:
            out.append("304" if not body else "304body")
        elif r.status == 412:
            out.append("412")
        elif r.status == 200:
            out.append("hit200" if (head and not body) or (not head and body == full) else "badbody200")
        elif r.status == 206:
            out.append("hit206" if (head and not body) or (not head and body == full[0:2]) else "badbody206")
        elif r.status == s["status"]:
            out.append("hit%d" % r.status if (head and not body) or (not head and body == full) else "badbody%d" % r.status)
        else:
            out.append("st%d" % r.status)
    return " ".join(out)


def fields_of(hs, names):
    return [(n.lower(), v) for n, v in hs if n.lower() in names]


def _reval(sq, org, s, rid):
    old_body, new_body = body_of("OLD", rid), body_of("NEW", rid)
    ost = s["origin_status"]
    over = {"status": ost, "headers": rh(s["fresh"]), "body": new_body if ost == 200 else "ERR", "reason": "X"}
    spec = {"headers": rh(s["old"]), "body": old_body, "nth": {"2": over}}
    url = org.url(spec, rid)
    r1, _ = lab.get(sq.port, url)
    if r1 is None or r1.status != 200:
        return "noprime %s" % (r1.status if r1 else "none")
    r2, _ = lab.get(sq.port, url, headers=[(n, v) for n, v in rh(s["req"])])
    n2 = len(org.arrivals(rid))
    if r2 is None:
        return "none2"
    b2 = r2.body.decode("latin1")
    if n2 != 2:
        w = "norevalidation(arrivals=%d,status=%s)" % (n2, r2.status)
    elif r2.status == 304:
        w = "fwd304" if not b2 else "304body"
    elif r2.status == 200:
        w = "old" if b2 == old_body else ("new" if b2 == new_body else "badbody")
    else:
        w = "st%d" % r2.status
    r3, _ = lab.get(sq.port, url)
    n3 = len(org.arrivals(rid))
    if r3 is None:
        return w + " none3"
    b3 = r3.body.decode("latin1")
    if n3 != n2:
        return w + " refetched(arrivals=%d)" % n3
    bid = "old" if b3 == old_body else ("new" if b3 == new_body else "badbody")
    if r3.status != 200:
        bid = "st%d" % r3.status
    th = [(n, v) for n, v in r3.headers if n.lower() in TRACKED]
    return "%s %s %s" % (w, bid, ",".join("%s=%s" % (hexs(n), hexs(v)) for n, v in th) if th else "-")


def _one(args):
    sq, org, s, rid = args
    try:
        return _hit(sq, org, s, rid) if s["kind"] == "hit" else _reval(sq, org, s, rid)
    except Exception as ex:   # a lab hiccup is a suspect, re-run by run_lab
        return "labexc %s" % type(ex).__name__


def run_impl(L, scenarios):
    if "sq" not in _state or not _state["sq"].alive():
        _state["org"] = L.origin()
        _state["sq"] = L.squid(cache_mem="64 MB")
        _state["n"] = 0
    sq, org = _state["sq"], _state["org"]
    jobs = []
    for s in scenarios:
        _state["n"] += 1
        jobs.append((sq, org, s, "k%d" % _state["n"]))
    with concurrent.futures.ThreadPoolExecutor(max_workers=8) as ex:
        return list(ex.map(_one, jobs))


# ------------------------------------------------------------------ oracle: RFC 7232 on what squid did
ETAG_RE = re.compile(r'^(W/)?"([\x21\x23-\x7e\x80-\xff]*)"$')


def rfc_list(values):
    """RFC 7232 reading of If-Match / If-None-Match field values: comma-separated outside DQUOTEs (an opaque-tag has
    no escapes), OWS trimmed, empty elements ignored. Returns (items, wellformed)."""
    text = ", ".join(values)
    items, cur, inq = [], "", False
    for ch in text:
        if ch == '"':
            inq = not inq
            cur += ch
        elif ch == "," and not inq:
            items.append(cur)
            cur = ""
        else:
            cur += ch
    items.append(cur)
    items = [i.strip(" \t") for i in items]
    items = [i for i in items if i]
    ok = (not inq) and all(i == "*" or ETAG_RE.match(i) for i in items)
    return items, ok


def rfc_match(items, ent_tag, weak_cmp):
    """does the condition 'one of the listed tags matches the selected representation' hold"""
    em = ETAG_RE.match(ent_tag) if ent_tag is not None else None
    for i in items:
        if i == "*":
            return True
        m = ETAG_RE.match(i)
        if not m or not em:
            continue
        if m.group(2) == em.group(2) and (weak_cmp or (not m.group(1) and not em.group(1))):
            return True
    return False


def oracle_hit(s, obs):
    toks = obs.split()
    if obs.startswith("noprime") or len(toks) != len(s["probes"]):
        return ("oracle:no-transaction", "the transaction did not complete: " + obs)
    ent = rh(s["ent"])
    ent_tag = next((v for n, v in ent if n.lower() == "etag"), None)
    lmv = next((date_value(v) for n, v in ent if n.lower() == "last-modified"), None)
    for p, t in zip(s["probes"], toks):
        ph = rh(p["hdrs"])
        desc = "%s %s against entity %s" % (p["method"], json.dumps(ph), json.dumps(ent))
        if t in ("none", "304body") or t.startswith(("st", "labexc", "badbody")):
            return ("oracle:bad-response:" + t, "unexpected response `%s` to %s" % (t, desc))
        if s["status"] != 200:
            if t in ("304", "412"):
                return ("oracle:conditional-on-non-200", "a cached %d was used to answer `%s` to %s" % (s["status"], t, desc))
            continue
        im = [v for n, v in ph if n.lower() == "if-match"]
        inm = [v for n, v in ph if n.lower() == "if-none-match"]
        ims = next((date_value(v) for n, v in ph if n.lower() == "if-modified-since"), None)
        im_items, im_ok = rfc_list(im)
        inm_items, inm_ok = rfc_list(inm)
        bs = any("\\" in v for v in im + inm)
        if (im and not im_ok) or (inm and not inm_ok):
            continue   # malformed client lists: outside the property
        im_holds = (not im) or rfc_match(im_items, ent_tag, False)
        if t == "412":
            if im_holds:
                return ("oracle:412-although-if-match-holds" + (":backslash-in-opaque-tag" if bs else ""),
                        "412 although a listed If-Match tag strongly matches the cached entity (or no If-Match): " + desc)
            continue
        if not im_holds:
            return ("oracle:if-match-failure-not-412", "If-Match fails but squid answered `%s`: %s" % (t, desc))
        if t == "304":
            if inm:
                if not rfc_match(inm_items, ent_tag, True):
                    return ("oracle:304-without-matching-validator:inm",
                            "304 although no If-None-Match tag matches the cached entity: " + desc)
            else:
                ref = lmv if lmv is not None else T0
                far = lmv is not None or ims is None or abs(ims - T0) > 600
                if ims is None or ims <= 0 or (far and ref > ims):
                    return ("oracle:304-without-matching-validator:ims",
                            "304 although the entity was modified after If-Modified-Since (or no usable validator): " + desc)
    return None


def oracle_reval(s, obs):
    toks = obs.split()
    if len(toks) != 3 or toks[0].startswith(("noprime", "none", "norevalidation", "st", "labexc", "304body", "badbody")) \
       or toks[1] not in ("old", "new"):
        return ("oracle:no-transaction", "the revalidation scenario did not complete as scripted: " + obs)
    w, bid, hx = toks
    got = []
    if hx != "-":
        for pair in hx.split(","):
            n, v = pair.split("=")
            got.append((bytes.fromhex(n).decode("latin1").lower(), "" if v == "-" else bytes.fromhex(v).decode("latin1")))
    old, fresh, req = rh(s["old"]), rh(s["fresh"]), rh(s["req"])
    ost = s["origin_status"]

    def vals(hs, name):
        return [v for n, v in hs if n.lower() == name]

    def expect_headers(src_desc, exp):
        for name in TRACKED:
            g = [v for n, v in got if n == name]
            if g != exp(name):
                return ("oracle:reval-headers:" + name,
                        "after the origin answered %d the next hit carries %s: %r, expected %r (%s); old=%s new=%s"
                        % (ost, name, g, exp(name), src_desc, json.dumps(old), json.dumps(fresh)))
        return None

    if ost == 304:
        if bid != "old":
            return ("oracle:reval-body-changed", "body changed by a 304 revalidation: " + obs)
        nominated = set()
        for n, cv in fresh:
            if n.lower() == "connection":
                nominated |= set(t.strip(" \t").lower() for t in cv.split(",") if t.strip(" \t"))
        v = expect_headers("end-to-end 304 fields replace stored fields of the same name",
                           lambda name: vals(fresh, name) if (vals(fresh, name) and name not in nominated) else vals(old, name))
        if v:
            return v
        if w == "fwd304":
            ims = next((date_value(v) for n, v in req if n.lower() == "if-modified-since"), None)
            lm = next((date_value(v) for n, v in fresh if n.lower() == "last-modified"), None)
            if lm is None:
                lm = next((date_value(v) for n, v in old if n.lower() == "last-modified"), None)
            if ims is None or (lm is not None and lm > ims) or (lm is None and ims < T0 - 600):
                return ("oracle:304-without-matching-validator:reval",
                        "the client got 304 after revalidation although its If-Modified-Since does not cover the entity: "
                        + json.dumps(s))
        elif w != "old":
            return ("oracle:reval-wrong-body", "client got `%s` after an origin 304" % w)
    elif ost == 200:
        if w == "new" and bid == "new":
            return expect_headers("the new 200 replaces the stored response", lambda name: vals(fresh, name))
        if w == "old" and bid == "old":   # squid may prefer the stored response (older Date)
            return expect_headers("stored response kept", lambda name: vals(old, name))
        return ("oracle:reval-mixed", "client got `%s` but the next hit serves `%s`" % (w, bid))
    else:
        if w != "old" or bid != "old":
            return ("oracle:reval-error-not-masked", "origin 5xx on revalidation: client got `%s`, next hit `%s`" % (w, bid))
        return expect_headers("stored response kept", lambda name: vals(old, name))
    return None


def oracle(s, obs):
    return oracle_hit(s, obs) if s["kind"] == "hit" else oracle_reval(s, obs)


# ------------------------------------------------------------------ unit correspondence: ETag.cc + StrList.cc
FRESH_UNIT = ["src/ETag.cc", "src/StrList.cc"]


def impl_unit():
    return hbuild.build("h_cond", "h_cond.cc", fresh=FRESH_UNIT, link=recipes.HTTP1, sanitize="ubsan")


def prebuild():
    impl_unit()


def hx(b):
    return bytes(b).hex() if len(b) else "-"


def unit_tag(rng):
    x = rng.random()
    body = bytes(rng.choice(b'ab,"\\ W/*\t') for _ in range(rng.choice([0, 1, 2, 3, 5])))
    if x < 0.35: return b'"' + body.replace(b'"', b"") + b'"'
    if x < 0.55: return b'W/"' + body.replace(b'"', b"") + b'"'
    if x < 0.65: return b"*"
    if x < 0.8: return body
    return rng.choice([b'"', b'""', b'W/', b'W/"', b'w/"a"', b'"a"b', b'W/"a" ', b'"a\\"', b'"a\\\\"'])


def unit_cases(rng, n):
    out = []
    for _ in range(n):
        k = rng.random()
        if k < 0.25:
            out.append("cond.parse " + hx(unit_tag(rng)))
        elif k < 0.4:
            a = unit_tag(rng)
            b = a if rng.random() < 0.3 else (b"W/" + a if rng.random() < 0.3 else unit_tag(rng))
            out.append("cond.eq %s %s" % (hx(a), hx(b)))
        else:
            items = [unit_tag(rng) for _ in range(rng.choice([0, 1, 2, 3, 4]))]
            val = b""
            for i, it in enumerate(items):
                val += it + rng.choice([b",", b", ", b" ,", b",,", b" , ", b"\t,", b"", b" "]) if i + 1 < len(items) or rng.random() < 0.2 else it
            val = val.replace(b"\0", b"")
            if k < 0.6:
                out.append("cond.items " + hx(val))
            else:
                rep = rng.choice([b'"a"', b'W/"a"', b'"ab"', b'""', b'"a,b"', None, b"a"])
                out.append("cond.oneof %d %s %s" % (rng.randrange(2), "none" if rep is None else hx(rep), hx(val)))
    return out


def unit_oracle(case, out):
    """RFC statement on the implementation's unit answers (parse and comparison only; lists are judged end to end)"""
    a = case.split()
    if out.startswith(("CRASH", "EXC", "ERR")):
        return ("oracle:unit-crash", "unit harness crashed: " + out[:200])
    if a[0] == "cond.parse":
        b = b"" if a[1] == "-" else bytes.fromhex(a[1])
        t = b[2:] if b.startswith(b"W/") else b
        ok = len(t) >= 2 and t[:1] == b'"' and t[-1:] == b'"'
        exp = "ok %d %s" % (1 if b.startswith(b"W/") else 0, hx(t)) if ok else "none"
        if out != exp:
            return ("oracle:unit-parse", "etagParseInit(%r) answered `%s`, expected `%s`" % (b, out, exp))
    if a[0] == "cond.eq" and out != "none":
        x = bytes.fromhex(a[1]); y = bytes.fromhex(a[2])
        wx, wy = x.startswith(b"W/"), y.startswith(b"W/")
        ox, oy = (x[2:] if wx else x), (y[2:] if wy else y)
        exp = "strong=%d weak=%d" % (1 if (ox == oy and not wx and not wy) else 0, 1 if ox == oy else 0)
        if out != exp:
            return ("oracle:unit-compare", "comparison of %r and %r answered `%s`, expected `%s`" % (x, y, out, exp))
    return None


def run_unit(res, tier):
    """differential run of the extracted model against src/ETag.cc and src/StrList.cc (compiled fresh)"""
    try:
        exe = impl_unit()
    except hbuild.BuildError as ex:
        res.fail("build", "C14: unit harness no longer builds against /repo's working tree: %s" % str(ex)[-1200:],
                 {"no_failing_input_found": True, "broken": "harness build h_cond", "detail": str(ex)[-3000:]})
        return
    runner = coq.build_runner("cond")
    rng = random.Random(common.seed() * 1000003 + 1414)
    cases = std.load_corpus(PID) + unit_cases(rng, 12000 if tier == "quick" else 200000)
    impl = corr.run_lines(exe, cases)
    model = corr.run_lines(runner, cases)
    dis = corr.diff(cases, impl, model)
    found = 0
    for c, o in zip(cases, impl):
        kd = ("n%d" % (o.count("|") + 1 if o else 0)) if c.startswith("cond.items") else (o.split()[0] if o else "empty")[:8]
        res.count_case(c, nontrivial=(o not in ("none", "0", "")), kind="unit:" + c.split()[0] + ":" + kd)
        v = unit_oracle(c, o)
        if v and res.fail(v[0], "C14 on input `%s`: implementation answered `%s`: %s" % (c[:300], o[:200], v[1]),
                          {"case": c, "impl": o, "signature": v[0]}):
            found += 1
    if dis and not found:
        k, c, a, b = dis[0]
        res.fail("corr:unit", "model and ETag.cc/StrList.cc disagree on %d unit cases (first: `%s` impl=`%s` model=`%s`)"
                 % (len(dis), c[:300], a[:150], b[:150]),
                 {"no_failing_input_found": True, "broken": "correspondence CondModel vs src/ETag.cc, src/StrList.cc",
                  "case": c, "impl": a, "model": b, "disagreements": len(dis)})
    res.extra["unit_cases"] = len(cases)
    res.extra["unit_disagreements"] = len(dis)


_mix = collections.Counter()


def kind_fn(s, o):
    if s["kind"] == "hit":
        for t in o.split():
            _mix["probe:" + t] += 1
        return "hit:%d" % s["status"]
    _mix["reval:%d:%s" % (s["origin_status"], o.split()[0])] += 1
    return "reval:%d" % s["origin_status"]


def nontrivial(s, o):
    if s["kind"] == "hit":
        return any(t in ("304", "412") for t in o.split())
    return s["origin_status"] == 304 and len(s["fresh"]) > 1


def run(res, tier):
    res.rule = ("(a) fresh-hit scenarios: an entity (status 200/203/301/410; ETag strong/weak/comma-inside/empty/unquoted/backslash/none; "
                "Last-Modified or none) is cached, then 3-6 GET/HEAD probes with If-Match / If-None-Match lists (entity tag strong or weak, "
                "other tags, `*`, malformed items, OWS/empty elements, split over two fields), If-Modified-Since at/around Last-Modified, "
                "future, garbage, epoch, optional Range; observable per probe: 304 / 412 / hit200 / hit206 / miss (origin arrival). "
                "(b) revalidation scenarios: cached entity, then a max-age=0 request (optionally with If-Modified-Since / If-None-Match) "
                "answered by the origin with 304 (random subset of fields, same or new values, mixed-case extension names, duplicates), "
                "200 (newer or older Date) or 500; observables: what the client gets and status/body/tracked headers of the next hit. "
                "(c) unit: etagParseInit / comparisons / strListGetItem walk on generated byte strings. "
                "non-trivial = a probe answered 304 or 412, or an origin 304 carrying at least one field besides Date")
    run_unit(res, tier)
    std.run_lab(res, PID, tier, area="cond", gens=["hdrtable"], gen_scenarios=gen_scenarios, run_impl=run_impl,
                to_case=to_case, oracle=oracle, corr_name="CondModel (hit_verdict / handle_ims_reply) vs the running squid",
                n_quick=260, n_thorough=6000, seed_salt=14, kind_fn=kind_fn, nontrivial_fn=nontrivial)
    res.extra["observation_mix"] = dict(sorted(_mix.items()))
    _state.clear()
