(* QuoteProofs.v — lemmas and proofs for C32 (HTML quoting) and C31 (percent-encoding). *)
Require Import SquidV.Bytes SquidV.TokModel SquidV.QuoteModel.
Require Import SquidV.gen.ByteMaps_gen.
Require Import ZifyBool ZifyN ZifyNat.
Ltac Zify.zify_post_hook ::= Z.div_mod_to_equations.
Local Open Scope N_scope.

(* ---------- generic: sweeping a predicate with a universally quantified tail over all bytes ---------- *)
Lemma all_bytes_Forall (P : N -> Prop) : Forall P all_bytes -> forall c, c < 256 -> P c.
Proof. intros H c Hc. rewrite Forall_forall in H. apply H, all_bytes_complete, Hc. Qed.

Definition bytes_ok (s : bytes) : Prop := Forall (fun c => c < 256) s.
Definition nul_free (s : bytes) : Prop := Forall (fun c => c <> 0) s.

Lemma cstr_nul_free s : nul_free s -> cstr s = s.
Proof.
  induction 1 as [|c s Hc Hs IH]; cbn [cstr]; [reflexivity|].
  destruct (c =? 0) eqn:E; [apply N.eqb_eq in E; contradiction|]. now rewrite IH.
Qed.

Lemma cstr_is_nul_free s : nul_free (cstr s).
Proof.
  induction s as [|c s IH]; cbn [cstr]; [constructor|].
  destruct (c =? 0) eqn:E; [constructor|]. constructor; [apply N.eqb_neq in E; exact E|exact IH].
Qed.

Lemma cstr_bytes_ok s : bytes_ok s -> bytes_ok (cstr s).
Proof.
  induction 1 as [|c s Hc Hs IH]; cbn [cstr]; [constructor|].
  destruct (c =? 0); constructor; assumption.
Qed.

Lemma map_bytes_cons t c s : map_bytes t (c :: s) = tbl_entry t c ++ map_bytes t s.
Proof. reflexivity. Qed.

(* ====================================================================== *)
(* C32: html_quote                                                         *)

(* the reference decoder is a left-to-right machine: a successfully decoded prefix can be cut off *)
Lemma html_dec_app e : forall p out r, html_dec e p = Some out ->
  html_dec (e ++ r) p = option_map (app out) (html_dec r None).
Proof.
  induction e as [|c e IH]; intros p out r H.
  - cbn [html_dec] in H. destruct p; [discriminate|]. injection H as <-. cbn [app].
    destruct (html_dec r None); reflexivity.
  - cbn [app html_dec] in *. destruct p as [acc|].
    + destruct (c =? 59).
      * destruct (ref_value (rev acc)) as [v|]; [|discriminate].
        destruct (html_dec e None) as [o|] eqn:E; [|discriminate]. cbn [option_map] in H. injection H as <-.
        rewrite (IH None o r E). destruct (html_dec r None); reflexivity.
      * destruct (is_html_meta c); [discriminate|]. apply IH, H.
    + destruct (c =? 38); [apply IH, H|].
      destruct (is_html_meta c); [discriminate|].
      destruct (html_dec e None) as [o|] eqn:E; [|discriminate]. cbn [option_map] in H. injection H as <-.
      rewrite (IH None o r E). destruct (html_dec r None); reflexivity.
Qed.

(* per byte (sweep over the regenerated table): the entry decodes to exactly that byte *)
Definition html_entry_ok (c : N) : bool :=
  (c =? 0) || match html_dec (tbl_entry bm_html_quote c) None with Some [x] => x =? c | _ => false end.

Lemma html_entries_ok c : c < 256 -> html_entry_ok c = true.
Proof. apply forallb_bytes. vm_compute. reflexivity. Qed.

Lemma html_entry_decodes c : c < 256 -> c <> 0 -> html_dec (tbl_entry bm_html_quote c) None = Some [c].
Proof.
  intros Hc H0. pose proof (html_entries_ok c Hc) as H. unfold html_entry_ok in H.
  destruct (c =? 0) eqn:E; [apply N.eqb_eq in E; contradiction|]. cbn [orb] in H.
  destruct (html_dec _ None) as [[|x [|y l]]|]; try discriminate. apply N.eqb_eq in H. now subst.
Qed.

Lemma html_dec_map s r : bytes_ok s -> nul_free s ->
  html_dec (map_bytes bm_html_quote s ++ r) None = option_map (app s) (html_dec r None).
Proof.
  intros Hb Hn. induction s as [|c s IH].
  - cbn. destruct (html_dec r None); reflexivity.
  - inversion Hb as [|? ? Hc Hb']; inversion Hn as [|? ? Hc0 Hn']; subst.
    rewrite map_bytes_cons, <- app_assoc.
    rewrite (html_dec_app _ None [c] _ (html_entry_decodes c Hc Hc0)), (IH Hb' Hn').
    destruct (html_dec r None); reflexivity.
Qed.

Theorem html_unquote_quote s : bytes_ok s -> html_unquote (html_quote s) = Some (cstr s).
Proof.
  intros Hb. unfold html_unquote, html_quote.
  rewrite <- (app_nil_r (map_bytes _ _)).
  rewrite html_dec_map; [cbn; now rewrite app_nil_r | apply cstr_bytes_ok, Hb | apply cstr_is_nul_free].
Qed.

Corollary html_unquote_quote_nul_free s : bytes_ok s -> nul_free s -> html_unquote (html_quote s) = Some s.
Proof. intros Hb Hn. rewrite html_unquote_quote by exact Hb. now rewrite cstr_nul_free. Qed.

(* ---------- C32: the quoted form is made of non-markup bytes and entity references ---------- *)
Definition ref_char (c : N) : bool := negb (is_html_meta c) && negb (c =? 59).

(* an item of the quoted form: one byte that is not a markup metacharacter, or
   '&' name ';' where name is a known reference and contains neither ';' nor a metacharacter *)
Definition html_item (it : bytes) : Prop :=
  (exists c, it = [c] /\ is_html_meta c = false) \/
  (exists name v, it = 38 :: name ++ [59] /\ ref_value name = Some v /\ forallb ref_char name = true).

Definition html_item_b (it : bytes) : bool :=
  match it with
  | [] => false
  | c :: rest =>
    match rest with
    | [] => negb (is_html_meta c)
    | _ => (c =? 38) &&
           match rev rest with
           | [] => false
           | z :: rname => (z =? 59) && forallb ref_char (rev rname) &&
                           match ref_value (rev rname) with Some _ => true | None => false end
           end
    end
  end.

Lemma html_item_b_sound it : html_item_b it = true -> html_item it.
Proof.
  unfold html_item_b. destruct it as [|c rest]; [discriminate|].
  destruct rest as [|d rest'].
  - intros H. left. exists c. split; [reflexivity|]. now destruct (is_html_meta c).
  - intros H. apply andb_prop in H. destruct H as [Hc H]. apply N.eqb_eq in Hc. subst c.
    destruct (rev (d :: rest')) as [|z rname] eqn:E; [discriminate|].
    apply andb_prop in H. destruct H as [H Hv]. apply andb_prop in H. destruct H as [Hz Hn].
    apply N.eqb_eq in Hz. subst z.
    destruct (ref_value (rev rname)) as [v|] eqn:Ev; [|discriminate].
    right. exists (rev rname), v. repeat split; try assumption.
    f_equal. rewrite <- (rev_involutive (d :: rest')), E. reflexivity.
Qed.

Definition html_entry_item_ok (c : N) : bool := (c =? 0) || html_item_b (tbl_entry bm_html_quote c).
Lemma html_entries_items c : c < 256 -> html_entry_item_ok c = true.
Proof. apply forallb_bytes. vm_compute. reflexivity. Qed.

Theorem html_quote_items s : bytes_ok s ->
  exists items, html_quote s = concat items /\ Forall html_item items.
Proof.
  intros Hb. exists (map (tbl_entry bm_html_quote) (cstr s)). split; [reflexivity|].
  pose proof (cstr_bytes_ok s Hb) as Hb'. pose proof (cstr_is_nul_free s) as Hn.
  induction (cstr s) as [|c l IH]; cbn [map]; [constructor|].
  inversion Hb' as [|? ? Hc Hl]; inversion Hn as [|? ? Hc0 Hl0]; subst.
  constructor; [|apply IH; assumption].
  apply html_item_b_sound. pose proof (html_entries_items c Hc) as H. unfold html_entry_item_ok in H.
  destruct (c =? 0) eqn:E; [apply N.eqb_eq in E; contradiction|exact H].
Qed.

(* direct form: no less-than, greater-than or quote character occurs at all *)
Definition is_quote_meta (c : N) : bool := (c =? 60) || (c =? 62) || (c =? 34) || (c =? 39).

Lemma forallb_map_bytes (p : N -> bool) t s : bytes_ok s ->
  (forall c, c < 256 -> forallb p (tbl_entry t c) = true) -> forallb p (map_bytes t s) = true.
Proof.
  intros Hb H. induction Hb as [|c s Hc Hs IH]; [reflexivity|].
  rewrite map_bytes_cons, forallb_app, (H c Hc), IH. reflexivity.
Qed.

Theorem html_quote_no_angle_or_quote s : bytes_ok s ->
  forallb (fun c => negb (is_quote_meta c)) (html_quote s) = true.
Proof.
  intros Hb. apply forallb_map_bytes; [apply cstr_bytes_ok, Hb|].
  apply (forallb_bytes (fun c => forallb (fun x => negb (is_quote_meta x)) (tbl_entry bm_html_quote c))).
  vm_compute. reflexivity.
Qed.

(* ====================================================================== *)
(* C31: percent-encoding                                                   *)

Definition res_of (o : option bytes) : dres := match o with Some x => DOk x | None => DBad end.

Lemma takeN_1 {A} (h : A) r : takeN 1 (h :: r) = [h].
Proof. destruct r; reflexivity. Qed.
Lemma dropN_1 {A} (h : A) r : dropN 1 (h :: r) = r.
Proof. destruct r; reflexivity. Qed.

(* Tokenizer::int64(v, 16, false, 1) reads exactly one hex digit *)
Definition int64_hex1_spec (h : N) : option (Z * N) :=
  match hexval h with Some v => Some (Z.of_N v, 1) | None => None end.
Definition opt_zn_eqb (a b : option (Z * N)) : bool :=
  match a, b with
  | Some (x, n), Some (y, m) => Z.eqb x y && (n =? m)
  | None, None => true
  | _, _ => false
  end.
Lemma opt_zn_eqb_eq a b : opt_zn_eqb a b = true -> a = b.
Proof.
  destruct a as [[x n]|], b as [[y m]|]; cbn; try discriminate; [|reflexivity].
  intros H. apply andb_prop in H. destruct H as [H1 H2].
  apply Z.eqb_eq in H1. apply N.eqb_eq in H2. now subst.
Qed.

Lemma tok_int64_hex1_single h : h < 256 -> tok_int64 16 false 1 [h] = int64_hex1_spec h.
Proof.
  intros Hh. apply opt_zn_eqb_eq.
  apply (forallb_bytes (fun h => opt_zn_eqb (tok_int64 16 false 1 [h]) (int64_hex1_spec h))); [|exact Hh].
  vm_compute. reflexivity.
Qed.

Lemma tok_int64_hex1 h r : h < 256 -> tok_int64 16 false 1 (h :: r) = int64_hex1_spec h.
Proof.
  intros Hh. rewrite <- (tok_int64_hex1_single h Hh).
  unfold tok_int64, int64_front. rewrite takeN_1. reflexivity.
Qed.

Lemma tok_int64_nil : tok_int64 16 false 1 [] = None.
Proof. reflexivity. Qed.

Lemma hexval_lt16 h v : hexval h = Some v -> v < 16.
Proof.
  unfold hexval. intros H.
  destruct ((48 <=? h) && (h <=? 57)) eqn:E1; [injection H as <-; lia|].
  destruct ((65 <=? h) && (h <=? 70)) eqn:E2; [injection H as <-; lia|].
  destruct ((97 <=? h) && (h <=? 102)) eqn:E3; [injection H as <-; lia|discriminate].
Qed.

Lemma shift_or_byte a b : a < 16 -> b < 16 ->
  Z.to_N ((Z.lor (Z.shiftl (Z.of_N a) 4) (Z.of_N b)) mod 256) = 16 * a + b.
Proof.
  intros Ha Hb.
  assert (Hc : 16 * a + b < 256) by lia.
  pose proof (forallb_bytes (fun c => Z.to_N ((Z.lor (Z.shiftl (Z.of_N (c / 16)) 4) (Z.of_N (c mod 16))) mod 256) =? c)
                ltac:(vm_compute; reflexivity) (16 * a + b) Hc) as H.
  apply N.eqb_eq in H.
  assert (E1 : (16 * a + b) / 16 = a) by lia.
  assert (E2 : (16 * a + b) mod 16 = b) by lia.
  rewrite E1, E2 in H. exact H.
Qed.

Lemma pct_decode_plain tok rest : forallb not_percent tok = true ->
  pct_decode (tok ++ rest) = option_map (app tok) (pct_decode rest).
Proof.
  induction tok as [|c tok IH]; intros H.
  - cbn. destruct (pct_decode rest); reflexivity.
  - cbn [forallb] in H. apply andb_prop in H. destruct H as [Hc Ht].
    cbn [app pct_decode]. unfold not_percent in Hc. destruct (c =? 37); [discriminate|].
    rewrite (IH Ht). destruct (pct_decode rest); reflexivity.
Qed.

Lemma span_length {A} (p : A -> bool) l : (length (snd (span p l)) <= length l)%nat.
Proof.
  induction l as [|x l IH]; cbn [span]; [cbn; lia|].
  destruct (p x); [|cbn; lia]. destruct (span p l) as [a b]. cbn in *. lia.
Qed.

Lemma bytes_ok_app a b : bytes_ok (a ++ b) -> bytes_ok a /\ bytes_ok b.
Proof. unfold bytes_ok. rewrite Forall_app. tauto. Qed.

(* AnyP::Uri::Decode computes RFC 3986 percent-decoding (and never runs out of fuel) *)
Lemma uri_decode_loop_spec : forall fuel buf, bytes_ok buf -> (length buf < fuel)%nat ->
  uri_decode_loop fuel buf = res_of (pct_decode buf).
Proof.
  induction fuel as [|f IH]; intros buf Hb Hlen; [lia|].
  cbn [uri_decode_loop]. destruct buf as [|c0 buf0]; [reflexivity|].
  remember (c0 :: buf0) as buf eqn:Ebuf.
  unfold uri_decode_turn.
  pose proof (span_app not_percent buf) as Happ.
  pose proof (span_all not_percent buf) as Hall.
  pose proof (span_stop not_percent buf) as Hstop.
  destruct (span not_percent buf) as [tok rest]. cbn [fst snd] in *.
  assert (Hlb : (length buf = length tok + length rest)%nat) by (rewrite <- Happ, app_length; reflexivity).
  assert (Hne : (length buf > 0)%nat) by (subst buf; cbn; lia).
  rewrite <- Happ in Hb. apply bytes_ok_app in Hb. destruct Hb as [Hbt Hbr].
  rewrite <- Happ. rewrite (pct_decode_plain tok rest Hall).
  destruct rest as [|p r].
  - (* the run reached the end *)
    rewrite IH; [|apply Forall_nil|cbn [length]; lia]. reflexivity.
  - unfold not_percent in Hstop. destruct (p =? 37) eqn:Ep; [|discriminate].
    apply N.eqb_eq in Ep. subst p.
    cbn [pct_decode]. change (37 =? 37) with true. cbv iota.
    pose proof (Forall_inv_tail Hbr) as Hr.
    destruct r as [|h1 r1]; [reflexivity|].
    pose proof (Forall_inv Hr) as Hh1. pose proof (Forall_inv_tail Hr) as Hr1. cbv beta in Hh1.
    rewrite (tok_int64_hex1 h1 r1 Hh1). unfold int64_hex1_spec.
    destruct (hexval h1) as [a|] eqn:Ea; [|destruct r1 as [|? ?]; reflexivity].
    rewrite dropN_1.
    destruct r1 as [|h2 r2]; [reflexivity|].
    pose proof (Forall_inv Hr1) as Hh2. pose proof (Forall_inv_tail Hr1) as Hr2. cbv beta in Hh2.
    rewrite (tok_int64_hex1 h2 r2 Hh2). unfold int64_hex1_spec.
    destruct (hexval h2) as [b|] eqn:Eb; [|reflexivity].
    rewrite dropN_1.
    rewrite (shift_or_byte a b (hexval_lt16 _ _ Ea) (hexval_lt16 _ _ Eb)).
    rewrite IH; [|exact Hr2|cbn [length] in *; lia].
    destruct (pct_decode r2); [|reflexivity]. cbn [res_of option_map]. rewrite <- app_assoc. reflexivity.
Qed.

Theorem uri_decode_spec buf : bytes_ok buf -> uri_decode buf = res_of (pct_decode buf).
Proof. intros Hb. apply uri_decode_loop_spec; [exact Hb|lia]. Qed.

(* ---------- shapes of the entries of a percent-encoding table ---------- *)
(* alphabet: a byte of the ignore set left alone, or '%' followed by two hex digits *)
Definition pct_item_alpha (ignore : cset) (e : bytes) : bool :=
  match e with
  | [x] => ignore x
  | [p; h; l] => (p =? 37) && is_hex h && is_hex l
  | _ => false
  end.
(* round trip: the byte itself (not '%'), or the triplet whose value is the byte *)
Definition pct_item_rt (c : N) (e : bytes) : bool :=
  match e with
  | [x] => (x =? c) && negb (x =? 37)
  | [p; h; l] => (p =? 37) &&
                 match hexval h, hexval l with Some a, Some b => 16 * a + b =? c | _, _ => false end
  | _ => false
  end.

Definition pct_item (ignore : cset) (it : bytes) : Prop :=
  (exists x, it = [x] /\ ignore x = true) \/
  (exists h l, it = [37; h; l] /\ is_hex h = true /\ is_hex l = true).

Lemma pct_item_alpha_sound ignore e : pct_item_alpha ignore e = true -> pct_item ignore e.
Proof.
  unfold pct_item_alpha. destruct e as [|x [|h [|l [|? ?]]]]; try discriminate.
  - intros H. left. now exists x.
  - intros H. apply andb_prop in H. destruct H as [H Hl]. apply andb_prop in H. destruct H as [Hp Hh].
    apply N.eqb_eq in Hp. subst x. right. now exists h, l.
Qed.

Lemma pct_decode_item c e r : pct_item_rt c e = true ->
  pct_decode (e ++ r) = option_map (cons c) (pct_decode r).
Proof.
  unfold pct_item_rt. destruct e as [|x [|h [|l [|? ?]]]]; try discriminate.
  - intros H. apply andb_prop in H. destruct H as [Hx Hp]. apply N.eqb_eq in Hx. subst x.
    cbn [app pct_decode]. destruct (c =? 37); [discriminate|reflexivity].
  - intros H. apply andb_prop in H. destruct H as [Hp H]. apply N.eqb_eq in Hp. subst x.
    cbn [app pct_decode]. change (37 =? 37) with true. cbv iota.
    destruct (hexval h) as [a|]; [|discriminate]. destruct (hexval l) as [b|]; [|discriminate].
    apply N.eqb_eq in H. now rewrite H.
Qed.

(* any table whose 256 entries pass the round-trip shape check decodes back *)
Lemma pct_decode_map_bytes t : (forall c, c < 256 -> pct_item_rt c (tbl_entry t c) = true) ->
  forall s, bytes_ok s -> pct_decode (map_bytes t s) = Some s.
Proof.
  intros Ht s Hb. induction Hb as [|c s Hc Hs IH]; [reflexivity|].
  rewrite map_bytes_cons, (pct_decode_item c _ _ (Ht c Hc)), IH. reflexivity.
Qed.

Lemma map_bytes_ok t : (forall c, c < 256 -> forallb (fun x => x <? 256) (tbl_entry t c) = true) ->
  forall s, bytes_ok s -> bytes_ok (map_bytes t s).
Proof.
  intros Ht s Hb. apply Forall_forall. intros x Hx.
  pose proof (forallb_map_bytes (fun x => x <? 256) t s Hb Ht) as H.
  rewrite forallb_forall in H. specialize (H x Hx). lia.
Qed.

Lemma uri_roundtrip_tbl t :
  (forall c, c < 256 -> pct_item_rt c (tbl_entry t c) = true) ->
  (forall c, c < 256 -> forallb (fun x => x <? 256) (tbl_entry t c) = true) ->
  forall s, bytes_ok s -> uri_decode (map_bytes t s) = DOk s.
Proof.
  intros Hrt Hok s Hb. rewrite uri_decode_spec by (apply map_bytes_ok; assumption).
  now rewrite (pct_decode_map_bytes t Hrt s Hb).
Qed.

Lemma items_tbl ignore t :
  (forall c, c < 256 -> pct_item_alpha ignore (tbl_entry t c) = true) ->
  forall s, bytes_ok s -> exists items, map_bytes t s = concat items /\ Forall (pct_item ignore) items.
Proof.
  intros Ht s Hb. exists (map (tbl_entry t) s). split; [reflexivity|].
  induction Hb as [|c s Hc Hs IH]; cbn [map]; constructor; [|exact IH].
  apply pct_item_alpha_sound, Ht, Hc.
Qed.

(* --- the three encoders used in the tree, against today's tables --- *)
Lemma userinfo_rt c : c < 256 -> pct_item_rt c (tbl_entry bm_uri_userinfo c) = true.
Proof. apply (forallb_bytes (fun c => pct_item_rt c (tbl_entry bm_uri_userinfo c))). vm_compute. reflexivity. Qed.
Lemma unreserved_rt c : c < 256 -> pct_item_rt c (tbl_entry bm_uri_unreserved c) = true.
Proof. apply (forallb_bytes (fun c => pct_item_rt c (tbl_entry bm_uri_unreserved c))). vm_compute. reflexivity. Qed.
Lemma userinfo_bytes c : c < 256 -> forallb (fun x => x <? 256) (tbl_entry bm_uri_userinfo c) = true.
Proof. apply (forallb_bytes (fun c => forallb (fun x => x <? 256) (tbl_entry bm_uri_userinfo c))). vm_compute. reflexivity. Qed.
Lemma unreserved_bytes c : c < 256 -> forallb (fun x => x <? 256) (tbl_entry bm_uri_unreserved c) = true.
Proof. apply (forallb_bytes (fun c => forallb (fun x => x <? 256) (tbl_entry bm_uri_unreserved c))). vm_compute. reflexivity. Qed.
Lemma path_bytes c : c < 256 -> forallb (fun x => x <? 256) (tbl_entry bm_uri_path c) = true.
Proof. apply (forallb_bytes (fun c => forallb (fun x => x <? 256) (tbl_entry bm_uri_path c))). vm_compute. reflexivity. Qed.

Theorem uri_decode_encode_userinfo s : bytes_ok s -> uri_decode (uri_encode_userinfo s) = DOk s.
Proof. apply uri_roundtrip_tbl; [exact userinfo_rt|exact userinfo_bytes]. Qed.
Theorem uri_decode_encode_unreserved s : bytes_ok s -> uri_decode (uri_encode_unreserved s) = DOk s.
Proof. apply uri_roundtrip_tbl; [exact unreserved_rt|exact unreserved_bytes]. Qed.

(* the path encoder leaves '%' alone (it is in PathChars): the round trip fails exactly there *)
Definition path_rt_except_percent (c : N) : bool := (c =? 37) || pct_item_rt c (tbl_entry bm_uri_path c).
Lemma path_rt c : c < 256 -> c <> 37 -> pct_item_rt c (tbl_entry bm_uri_path c) = true.
Proof.
  intros Hc H37. pose proof (forallb_bytes path_rt_except_percent ltac:(vm_compute; reflexivity) c Hc) as H.
  unfold path_rt_except_percent in H. destruct (c =? 37) eqn:E; [apply N.eqb_eq in E; contradiction|exact H].
Qed.

Definition percent_free (s : bytes) : Prop := Forall (fun c => c <> 37) s.

Theorem uri_decode_encode_path_partial s : bytes_ok s -> percent_free s ->
  uri_decode (uri_encode_path s) = DOk s.
Proof.
  intros Hb Hp. unfold uri_encode_path.
  rewrite uri_decode_spec by (apply map_bytes_ok; [exact path_bytes|exact Hb]).
  assert (H : pct_decode (map_bytes bm_uri_path s) = Some s).
  { induction Hb as [|c s Hc Hs IH]; [reflexivity|]. inversion Hp as [|? ? Hc37 Hp']; subst.
    rewrite map_bytes_cons, (pct_decode_item c _ _ (path_rt c Hc Hc37)), (IH Hp'). reflexivity. }
  now rewrite H.
Qed.

Theorem uri_decode_encode_path_refuted :
  exists s, bytes_ok s /\ uri_decode (uri_encode_path s) <> DOk s.
Proof. exists [37; 52; 49]. split; [repeat constructor|]. vm_compute. discriminate. Qed.

Theorem uri_decode_encode_path_refuted_undecodable :
  exists s, bytes_ok s /\ uri_decode (uri_encode_path s) = DBad.
Proof. exists [37]. split; [repeat constructor|]. vm_compute. reflexivity. Qed.

Theorem uri_encode_alphabet_userinfo s : bytes_ok s ->
  exists items, uri_encode_userinfo s = concat items /\ Forall (pct_item (mem_tbl bm_uri_userinfo_set)) items.
Proof.
  apply items_tbl.
  apply (forallb_bytes (fun c => pct_item_alpha (mem_tbl bm_uri_userinfo_set) (tbl_entry bm_uri_userinfo c))).
  vm_compute. reflexivity.
Qed.
Theorem uri_encode_alphabet_path s : bytes_ok s ->
  exists items, uri_encode_path s = concat items /\ Forall (pct_item (mem_tbl bm_uri_path_set)) items.
Proof.
  apply items_tbl.
  apply (forallb_bytes (fun c => pct_item_alpha (mem_tbl bm_uri_path_set) (tbl_entry bm_uri_path c))).
  vm_compute. reflexivity.
Qed.
Theorem uri_encode_alphabet_unreserved s : bytes_ok s ->
  exists items, uri_encode_unreserved s = concat items /\ Forall (pct_item (mem_tbl bm_uri_unreserved_set)) items.
Proof.
  apply items_tbl.
  apply (forallb_bytes (fun c => pct_item_alpha (mem_tbl bm_uri_unreserved_set) (tbl_entry bm_uri_unreserved c))).
  vm_compute. reflexivity.
Qed.

(* the sets read off the encoders are the ones RFC 3986 / the source name:
   unreserved = ALPHA DIGIT - . _ ~ ; userinfo adds sub-delims and ':' ; path adds '/' '@' '%' and,
   because path_ holds path+query, the query delimiter '?' (PathChars + '?' in Uri::absolutePath()) *)
Definition in_range (lo hi c : N) : bool := (lo <=? c) && (c <=? hi).
Definition rfc3986_unreserved (c : N) : bool :=
  in_range 65 90 c || in_range 97 122 c || in_range 48 57 c || existsb (N.eqb c) [45; 46; 95; 126].
Definition rfc3986_sub_delims (c : N) : bool := existsb (N.eqb c) [33; 36; 38; 39; 40; 41; 42; 43; 44; 59; 61].
Definition sets_check (c : N) : bool :=
  Bool.eqb (mem_tbl bm_uri_unreserved_set c) (rfc3986_unreserved c) &&
  Bool.eqb (mem_tbl bm_uri_userinfo_set c) (rfc3986_unreserved c || rfc3986_sub_delims c || (c =? 58)) &&
  Bool.eqb (mem_tbl bm_uri_path_set c)
           (rfc3986_unreserved c || rfc3986_sub_delims c || (c =? 58) || (c =? 64) || (c =? 47) || (c =? 37) || (c =? 63)).
Theorem uri_ignore_sets c : c < 256 ->
  mem_tbl bm_uri_unreserved_set c = rfc3986_unreserved c /\
  mem_tbl bm_uri_userinfo_set c = (rfc3986_unreserved c || rfc3986_sub_delims c || (c =? 58)) /\
  mem_tbl bm_uri_path_set c =
    (rfc3986_unreserved c || rfc3986_sub_delims c || (c =? 58) || (c =? 64) || (c =? 47) || (c =? 37) || (c =? 63)).
Proof.
  intros Hc. pose proof (forallb_bytes sets_check ltac:(vm_compute; reflexivity) c Hc) as H.
  unfold sets_check in H. apply andb_prop in H. destruct H as [H H3]. apply andb_prop in H. destruct H as [H1 H2].
  apply Bool.eqb_prop in H1, H2, H3. repeat split; assumption.
Qed.

(* --- AnyP::Uri::Encode with an arbitrary ignore set (hand-written model) --- *)
Definition triplet_check (c : N) : bool :=
  pct_item_rt c (pct_triplet c) && is_hex (hex_upper (c / 16)) && is_hex (hex_upper (c mod 16)) &&
  forallb (fun x => x <? 256) (pct_triplet c).
Lemma triplet_ok c : c < 256 -> triplet_check c = true.
Proof. apply forallb_bytes. vm_compute. reflexivity. Qed.

Lemma triplet_parts c : c < 256 ->
  pct_item_rt c (pct_triplet c) = true /\ is_hex (hex_upper (c / 16)) = true /\
  is_hex (hex_upper (c mod 16)) = true /\ forallb (fun x => x <? 256) (pct_triplet c) = true.
Proof.
  intros Hc. pose proof (triplet_ok c Hc) as H. unfold triplet_check in H.
  apply andb_prop in H. destruct H as [H H4]. apply andb_prop in H. destruct H as [H H3].
  apply andb_prop in H. destruct H as [H1 H2]. repeat split; assumption.
Qed.

Lemma pct_entry_rt ignore c : c < 256 -> ignore 37 = false -> pct_item_rt c (pct_entry ignore c) = true.
Proof.
  intros Hc H37. unfold pct_entry. destruct (ignore c) eqn:E.
  - cbn [pct_item_rt]. rewrite N.eqb_refl. destruct (c =? 37) eqn:E37; [|reflexivity].
    apply N.eqb_eq in E37. subst c. congruence.
  - apply (triplet_parts c Hc).
Qed.

Lemma pct_entry_bytes ignore c : c < 256 -> forallb (fun x => x <? 256) (pct_entry ignore c) = true.
Proof.
  intros Hc. unfold pct_entry. destruct (ignore c).
  - cbn. destruct (c <? 256) eqn:E; [reflexivity|lia].
  - apply (triplet_parts c Hc).
Qed.

Theorem uri_decode_encode_set ignore s : ignore 37 = false -> bytes_ok s ->
  uri_decode (uri_encode_set ignore s) = DOk s.
Proof.
  intros H37 Hb. unfold uri_encode_set.
  assert (Hok : bytes_ok (concat (map (pct_entry ignore) s))).
  { induction Hb as [|c s Hc Hs IH]; [constructor|]. cbn [map concat]. apply Forall_app. split; [|exact IH].
    pose proof (pct_entry_bytes ignore c Hc) as H. rewrite forallb_forall in H.
    apply Forall_forall. intros x Hx. specialize (H x Hx). lia. }
  rewrite uri_decode_spec by exact Hok.
  assert (H : pct_decode (concat (map (pct_entry ignore) s)) = Some s).
  { clear Hok. induction Hb as [|c s Hc Hs IH]; [reflexivity|]. cbn [map concat].
    rewrite (pct_decode_item c _ _ (pct_entry_rt ignore c Hc H37)), IH. reflexivity. }
  now rewrite H.
Qed.

Theorem uri_encode_set_alphabet ignore s : bytes_ok s ->
  exists items, uri_encode_set ignore s = concat items /\ Forall (pct_item ignore) items.
Proof.
  intros Hb. exists (map (pct_entry ignore) s). split; [reflexivity|].
  induction Hb as [|c s Hc Hs IH]; cbn [map]; constructor; [|exact IH].
  unfold pct_entry. destruct (ignore c) eqn:E.
  - left. now exists c.
  - right. exists (hex_upper (c / 16)), (hex_upper (c mod 16)). split; [reflexivity|].
    destruct (triplet_parts c Hc) as (_ & H2 & H3 & _). split; assumption.
Qed.

(* the regenerated tables are exactly that encoder applied with the regenerated sets *)
Lemma list_eqb_eq a : forall b, list_eqb a b = true -> a = b.
Proof.
  induction a as [|x a IH]; intros [|y b] H; cbn in H; try discriminate; [reflexivity|].
  apply andb_prop in H. destruct H as [H1 H2]. apply N.eqb_eq in H1. subst. f_equal. apply IH, H2.
Qed.
Definition tables_check (c : N) : bool :=
  list_eqb (tbl_entry bm_uri_userinfo c) (pct_entry (mem_tbl bm_uri_userinfo_set) c) &&
  list_eqb (tbl_entry bm_uri_path c) (pct_entry (mem_tbl bm_uri_path_set) c) &&
  list_eqb (tbl_entry bm_uri_unreserved c) (pct_entry (mem_tbl bm_uri_unreserved_set) c).
Theorem uri_tables_are_pct_entry c : c < 256 ->
  tbl_entry bm_uri_userinfo c = pct_entry (mem_tbl bm_uri_userinfo_set) c /\
  tbl_entry bm_uri_path c = pct_entry (mem_tbl bm_uri_path_set) c /\
  tbl_entry bm_uri_unreserved c = pct_entry (mem_tbl bm_uri_unreserved_set) c.
Proof.
  intros Hc. pose proof (forallb_bytes tables_check ltac:(vm_compute; reflexivity) c Hc) as H.
  unfold tables_check in H. apply andb_prop in H. destruct H as [H H3]. apply andb_prop in H. destruct H as [H1 H2].
  repeat split; apply list_eqb_eq; assumption.
Qed.

(* ====================================================================== *)
(* C31: rfc1738_do_escape / rfc1738_unescape                               *)

(* entry shape for the round trip: the byte itself (not '%'), or %HL with value = the byte, 1..255 *)
Definition esc_item_rt (c : N) (e : bytes) : bool :=
  match e with
  | [x] => (x =? c) && negb (x =? 37)
  | [p; h; l] => (p =? 37) &&
                 match hexval h, hexval l with
                 | Some a, Some b => (a * 16 + b =? c) && (0 <? c) && (c <=? 255)
                 | _, _ => false
                 end
  | _ => false
  end.

Lemma hexval_not_percent h a : hexval h = Some a -> (h =? 37) = false.
Proof. intros H. destruct (h =? 37) eqn:E; [|reflexivity]. apply N.eqb_eq in E. subst h. discriminate. Qed.

Lemma unesc_list_item c e r : esc_item_rt c e = true -> unesc_list (e ++ r) = c :: unesc_list r.
Proof.
  unfold esc_item_rt. destruct e as [|x [|h [|l [|? ?]]]]; try discriminate.
  - intros H. apply andb_prop in H. destruct H as [Hx Hp]. apply N.eqb_eq in Hx. subst x.
    cbn [app unesc_list]. rewrite Hp. reflexivity.
  - intros H. apply andb_prop in H. destruct H as [Hp H]. apply N.eqb_eq in Hp. subst x.
    destruct (hexval h) as [a|] eqn:Ea; [|discriminate]. destruct (hexval l) as [b|] eqn:Eb; [|discriminate].
    apply andb_prop in H. destruct H as [H H255]. apply andb_prop in H. destruct H as [Hv H0].
    apply N.eqb_eq in Hv.
    cbn [app unesc_list]. change (negb (37 =? 37)) with false. cbv iota.
    rewrite (hexval_not_percent h a Ea). unfold fromhex. rewrite Ea, Eb. cbv zeta.
    rewrite Hv, H0, H255. reflexivity.
Qed.

Lemma unesc_list_map_bytes t s : bytes_ok s -> nul_free s ->
  (forall c, c < 256 -> c <> 0 -> In c s -> esc_item_rt c (tbl_entry t c) = true) ->
  unesc_list (map_bytes t s) = s.
Proof.
  intros Hb Hn Ht. induction s as [|c s IH]; [reflexivity|].
  inversion Hb as [|? ? Hc Hb']; inversion Hn as [|? ? Hc0 Hn']; subst.
  rewrite map_bytes_cons, (unesc_list_item c _ _ (Ht c Hc Hc0 (or_introl eq_refl))).
  rewrite IH; [reflexivity|assumption|assumption|]. intros c' ? ? Hin. apply Ht; [assumption|assumption|now right].
Qed.

(* does this flag set make rfc1738_do_escape escape '%' itself?  UNSAFE without NOPERCENT *)
Definition escapes_percent (flags : N) : bool :=
  negb (N.land flags bm_RFC1738_ESCAPE_UNSAFE =? 0) && (N.land flags bm_RFC1738_ESCAPE_NOPERCENT =? 0).

Definition esc_tbl_rt (t : list bytes) : bool :=
  forallb (fun c => (c =? 0) || esc_item_rt c (tbl_entry t c)) all_bytes.
Definition esc_tbl_rt_nopct (t : list bytes) : bool :=
  forallb (fun c => (c =? 0) || (c =? 37) || esc_item_rt c (tbl_entry t c)) all_bytes.

Definition all_flag_tables_check : bool :=
  forallb (fun ft => (if escapes_percent (fst ft) then esc_tbl_rt (snd ft) else true) && esc_tbl_rt_nopct (snd ft))
          bm_rfc1738_all.
Lemma all_flag_tables_ok : all_flag_tables_check = true.
Proof. vm_compute. reflexivity. Qed.

Lemma assoc_tbl_in l k t : assoc_tbl l k = Some t -> In (k, t) l.
Proof.
  induction l as [|[k' t'] l IH]; cbn [assoc_tbl]; [discriminate|].
  destruct (k =? k') eqn:E; [|intros H; right; apply IH, H].
  apply N.eqb_eq in E. subst k'. intros H. injection H as <-. now left.
Qed.

Lemma flag_table_rt flags t : rfc1738_tbl flags = Some t -> escapes_percent flags = true ->
  forall c, c < 256 -> c <> 0 -> esc_item_rt c (tbl_entry t c) = true.
Proof.
  intros Ht He c Hc H0. apply assoc_tbl_in in Ht.
  pose proof all_flag_tables_ok as H. unfold all_flag_tables_check in H. rewrite forallb_forall in H.
  specialize (H _ Ht). cbn [fst snd] in H. rewrite He in H. apply andb_prop in H. destruct H as [H _].
  pose proof (forallb_bytes _ H c Hc) as Hx. cbv beta in Hx.
  destruct (c =? 0) eqn:E; [apply N.eqb_eq in E; contradiction|exact Hx].
Qed.

Lemma flag_table_rt_nopct flags t : rfc1738_tbl flags = Some t ->
  forall c, c < 256 -> c <> 0 -> c <> 37 -> esc_item_rt c (tbl_entry t c) = true.
Proof.
  intros Ht c Hc H0 H37. apply assoc_tbl_in in Ht.
  pose proof all_flag_tables_ok as H. unfold all_flag_tables_check in H. rewrite forallb_forall in H.
  specialize (H _ Ht). cbn [fst snd] in H. apply andb_prop in H. destruct H as [_ H].
  pose proof (forallb_bytes _ H c Hc) as Hx. cbv beta in Hx.
  destruct (c =? 0) eqn:E; [apply N.eqb_eq in E; contradiction|].
  destruct (c =? 37) eqn:E2; [apply N.eqb_eq in E2; contradiction|exact Hx].
Qed.

(* ---------- the in-place loop computes unesc_list and stays inside the C string ---------- *)
Lemma nthN_app_skip {A} (a b : list A) k : nthN (lenN a + k) (a ++ b) = nthN k b.
Proof.
  induction a as [|x a IH]; cbn [lenN app nthN]; [now rewrite N.add_0_l|].
  destruct (N.succ (lenN a) + k =? 0) eqn:E; [lia|].
  replace (N.pred (N.succ (lenN a) + k)) with (lenN a + k) by lia. exact IH.
Qed.

Lemma setN_app_at {A} (a : list A) x v Y : setN (lenN a) v (a ++ x :: Y) = Some (a ++ v :: Y).
Proof.
  induction a as [|y a IH]; cbn [lenN app setN]; [reflexivity|].
  destruct (N.succ (lenN a) =? 0) eqn:E; [lia|].
  replace (N.pred (N.succ (lenN a))) with (lenN a) by lia. rewrite IH. reflexivity.
Qed.

(* s[i] = c where c was just read at j >= i: the written prefix grows by c, the gap keeps its length *)
Lemma write_step (w g : bytes) (c : N) (X : bytes) : exists G : bytes,
  setN (lenN w) c (w ++ g ++ c :: X) = Some ((w ++ [c]) ++ G ++ X) /\ lenN G = lenN g.
Proof.
  destruct g as [|x g'].
  - exists []. cbn [app]. rewrite setN_app_at, <- app_assoc. split; reflexivity.
  - exists (g' ++ [c]). cbn [app]. rewrite setN_app_at. split.
    + f_equal. rewrite <- !app_assoc. reflexivity.
    + rewrite lenN_app. cbn [lenN]. lia.
Qed.

Lemma read_at (w g X : bytes) k i : i = lenN w + lenN g + k -> nthN i (w ++ g ++ X) = nthN k X.
Proof. intros ->. rewrite <- N.add_assoc, nthN_app_skip, nthN_app_skip. reflexivity. Qed.

Lemma hexval_zero : hexval 0 = None. Proof. reflexivity. Qed.

Ltac simp0 := repeat (progress (change (0 =? 0) with true; change (0 =? 37) with false;
                                change (1 =? 0) with false; change (N.pred 1) with 0; cbv iota)).

Lemma unesc_loop_spec : forall fuel r, nul_free r -> (length r < fuel)%nat ->
  forall w g rest i j, i = lenN w -> j = lenN w + lenN g ->
  exists junk,
    unesc_loop fuel (w ++ g ++ r ++ 0 :: rest) i j =
      UOk (w ++ unesc_list r ++ 0 :: junk ++ rest) (lenN w + lenN (unesc_list r)) /\
    lenN (unesc_list r) + lenN junk = lenN g + lenN r.
Proof.
  induction fuel as [|f IH]; intros r Hn Hlen w g rest i j Hi Hj; [lia|].
  cbn [unesc_loop].
  rewrite (read_at w g (r ++ 0 :: rest) 0 j) by lia.
  destruct r as [|c r'].
  - (* terminator reached: s[i] = 0 *)
    cbn [app nthN]. simp0. subst i.
    destruct g as [|x g'].
    + exists []. cbn [app]. rewrite setN_app_at. cbn [unesc_list lenN app]. split; [f_equal; lia|lia].
    + exists (g' ++ [0]). cbn [app]. rewrite setN_app_at. cbn [unesc_list lenN app]. split.
      * f_equal; [|lia]. f_equal. f_equal. rewrite <- app_assoc. reflexivity.
      * rewrite lenN_app. cbn [lenN]. lia.
  - pose proof (Forall_inv Hn) as Hc0. pose proof (Forall_inv_tail Hn) as Hn'. cbv beta in Hc0.
    cbn [app nthN]. simp0.
    destruct (c =? 0) eqn:Ec0; [apply N.eqb_eq in Ec0; contradiction|].
    destruct (write_step w g c (r' ++ 0 :: rest)) as [G [HG HlG]].
    subst i. rewrite HG.
    assert (Hw1 : lenN (w ++ [c]) = lenN w + 1) by (rewrite lenN_app; cbn [lenN]; lia).
    cbn [length] in Hlen.
    (* common continuation: `continue` with the whole rest r' *)
    assert (Hcont : exists junk,
              unesc_loop f ((w ++ [c]) ++ G ++ r' ++ 0 :: rest) (lenN w + 1) (j + 1) =
                UOk (w ++ c :: unesc_list r' ++ 0 :: junk ++ rest) (lenN w + lenN (c :: unesc_list r')) /\
              lenN (c :: unesc_list r') + lenN junk = lenN g + lenN (c :: r')).
    { destruct (IH r' Hn' ltac:(lia) (w ++ [c]) G rest (lenN w + 1) (j + 1) ltac:(lia) ltac:(lia)) as [junk [H1 H2]].
      exists junk. rewrite H1. split; [|cbn [lenN]; lia].
      f_equal; [rewrite <- app_assoc; reflexivity|cbn [lenN]; lia]. }
    destruct (negb (c =? 37)) eqn:E37.
    + (* ordinary byte *)
      cbn [unesc_list]. rewrite E37. exact Hcont.
    + apply Bool.negb_false_iff, N.eqb_eq in E37. subst c.
      rewrite (read_at (w ++ [37]) G (r' ++ 0 :: rest) 0 (j + 1)) by lia.
      destruct r' as [|c1 r1].
      * (* '%' then NUL *)
        cbn [app nthN]. simp0.
        unfold fromhex at 1. rewrite hexval_zero.
        cbn [unesc_list] in *. change (negb (37 =? 37)) with false in *. cbv iota in *. exact Hcont.
      * pose proof (Forall_inv_tail Hn') as Hn1.
        cbn [app nthN]. simp0.
        cbn [unesc_list]. change (negb (37 =? 37)) with false. cbv iota.
        cbn [unesc_list] in Hcont. change (negb (37 =? 37)) with false in Hcont. cbv iota in Hcont.
        destruct (c1 =? 37) eqn:Ec1.
        -- (* %% *)
           apply N.eqb_eq in Ec1. subst c1. cbn [length] in Hlen.
           destruct (IH r1 Hn1 ltac:(lia) (w ++ [37]) (G ++ [37]) rest (lenN w + 1) (j + 2)
                        ltac:(lia) ltac:(rewrite !lenN_app; cbn [lenN]; lia)) as [junk [H1 H2]].
           exists junk. rewrite <- !app_assoc in H1. cbn [app] in H1. rewrite <- !app_assoc. cbn [app].
           rewrite H1. split; [f_equal; cbn [lenN]; lia|].
           rewrite lenN_app in H2. cbn [lenN] in *. lia.
        -- destruct (fromhex c1) as [v1|] eqn:Ev1; [|exact Hcont].
           rewrite (read_at (w ++ [37]) G (c1 :: r1 ++ 0 :: rest) 1 (j + 2)) by lia.
           cbn [nthN]. simp0.
           destruct r1 as [|c2 r2].
           ++ cbn [app nthN]. simp0.
              unfold fromhex at 1. rewrite hexval_zero. exact Hcont.
           ++ pose proof (Forall_inv_tail Hn1) as Hn2.
              cbn [app nthN]. simp0.
              destruct (fromhex c2) as [v2|] eqn:Ev2; [|exact Hcont].
              cbv zeta.
              destruct ((0 <? v1 * 16 + v2) && (v1 * 16 + v2 <=? 255)) eqn:Ex; [|exact Hcont].
              (* decoded: s[i] = x, j += 2 *)
              rewrite <- (app_assoc w [37]). cbn [app]. rewrite setN_app_at.
              cbn [length] in Hlen.
              destruct (IH r2 Hn2 ltac:(lia) (w ++ [v1 * 16 + v2]) (G ++ [c1; c2]) rest (lenN w + 1) (j + 3)
                           ltac:(rewrite lenN_app; cbn [lenN]; lia)
                           ltac:(rewrite !lenN_app; cbn [lenN]; lia)) as [junk [H1 H2]].
              exists junk. rewrite <- !app_assoc in H1. cbn [app] in H1. rewrite H1.
              split; [f_equal; try reflexivity; try (rewrite <- app_assoc; reflexivity); rewrite ?lenN_app; cbn [lenN]; lia|].
              rewrite lenN_app in H2. cbn [lenN] in *. lia.
Qed.

(* the call on a buffer holding the NUL-free string r, its terminator, and anything after it *)
Theorem rfc1738_unescape_spec r rest : nul_free r ->
  exists junk,
    rfc1738_unescape (r ++ 0 :: rest) = UOk (unesc_list r ++ 0 :: junk ++ rest) (lenN (unesc_list r)) /\
    lenN (unesc_list r) + lenN junk = lenN r.
Proof.
  intros Hn. unfold rfc1738_unescape.
  destruct (unesc_loop_spec (S (length (r ++ 0 :: rest))) r Hn
              ltac:(rewrite app_length; cbn [length]; lia) [] [] rest 0 0 eq_refl eq_refl) as [junk [H1 H2]].
  exists junk. cbn [app lenN] in *. rewrite H1. split; [f_equal|]; lia.
Qed.

(* no table entry contains a NUL: the escaped form is again a C string *)
Definition all_flag_tables_nul_check : bool :=
  forallb (fun ft => forallb (fun c => forallb (fun x => negb (x =? 0)) (tbl_entry (snd ft) c)) all_bytes)
          bm_rfc1738_all.
Lemma all_flag_tables_nul_ok : all_flag_tables_nul_check = true.
Proof. vm_compute. reflexivity. Qed.

Lemma escaped_nul_free flags t s : rfc1738_tbl flags = Some t -> bytes_ok s -> nul_free (map_bytes t s).
Proof.
  intros Ht Hb. apply assoc_tbl_in in Ht.
  pose proof all_flag_tables_nul_ok as H. unfold all_flag_tables_nul_check in H. rewrite forallb_forall in H.
  specialize (H _ Ht). cbn [snd] in H.
  pose proof (forallb_map_bytes (fun x => negb (x =? 0)) t s Hb (forallb_bytes _ H)) as Hx.
  rewrite forallb_forall in Hx. apply Forall_forall. intros x Hin. specialize (Hx x Hin).
  apply Bool.negb_true_iff, N.eqb_neq in Hx. exact Hx.
Qed.

(* the C string left in the buffer by unescape(escape(s)) is s; stated on the explicit buffer *)
Definition unescaped_to (res : ures) (orig : bytes) (buflen : N) : Prop :=
  exists junk, res = UOk (orig ++ 0 :: junk) (lenN orig) /\ lenN orig + lenN junk = buflen.

Theorem rfc1738_unescape_escape flags s e : bytes_ok s -> escapes_percent flags = true ->
  rfc1738_do_escape flags s = Some e ->
  unescaped_to (rfc1738_unescape (e ++ [0])) (cstr s) (lenN e).
Proof.
  intros Hb He Hesc. unfold rfc1738_do_escape in Hesc.
  destruct (rfc1738_tbl flags) as [t|] eqn:Et; [|discriminate]. injection Hesc as <-.
  unfold rfc1738_escape_tbl.
  pose proof (cstr_bytes_ok s Hb) as Hb'. pose proof (cstr_is_nul_free s) as Hn.
  destruct (rfc1738_unescape_spec (map_bytes t (cstr s)) [] (escaped_nul_free flags t _ Et Hb')) as [junk [H1 H2]].
  rewrite (unesc_list_map_bytes t (cstr s) Hb' Hn) in H1, H2
    by (intros c Hc Hc0 _; exact (flag_table_rt flags t Et He c Hc Hc0)).
  exists junk. rewrite app_nil_r in H1. split; assumption.
Qed.

Theorem rfc1738_unescape_escape_partial flags s e : bytes_ok s -> percent_free (cstr s) ->
  rfc1738_do_escape flags s = Some e ->
  unescaped_to (rfc1738_unescape (e ++ [0])) (cstr s) (lenN e).
Proof.
  intros Hb Hp Hesc. unfold rfc1738_do_escape in Hesc.
  destruct (rfc1738_tbl flags) as [t|] eqn:Et; [|discriminate]. injection Hesc as <-.
  unfold rfc1738_escape_tbl.
  pose proof (cstr_bytes_ok s Hb) as Hb'. pose proof (cstr_is_nul_free s) as Hn.
  destruct (rfc1738_unescape_spec (map_bytes t (cstr s)) [] (escaped_nul_free flags t _ Et Hb')) as [junk [H1 H2]].
  rewrite (unesc_list_map_bytes t (cstr s) Hb' Hn) in H1, H2
    by (intros c Hc Hc0 Hin; apply (flag_table_rt_nopct flags t Et c Hc Hc0);
        unfold percent_free in Hp; rewrite Forall_forall in Hp; exact (Hp c Hin)).
  exists junk. rewrite app_nil_r in H1. split; assumption.
Qed.

(* the flag sets that escape '%' / that do not, among those used in the tree *)
Theorem flag_sets_classified :
  map (fun ft => (fst ft, escapes_percent (fst ft))) bm_rfc1738_all =
  [(0, false); (2, true); (3, true); (4, false); (7, true); (259, false); (387, false)].
Proof. vm_compute. reflexivity. Qed.

Definition cstring_of (res : ures) : option bytes :=
  match res with UOk buf i => Some (takeN i buf) | _ => None end.

Theorem rfc1738_unescape_escape_refuted :
  forall flags, In flags [0; 4; 259; 387] ->
  exists s e, bytes_ok s /\ nul_free s /\ rfc1738_do_escape flags s = Some e /\
              cstring_of (rfc1738_unescape (e ++ [0])) = Some [65] /\ s <> [65].
Proof.
  intros flags Hin. exists [37; 52; 49], [37; 52; 49].
  split; [repeat constructor|]. split; [repeat constructor; discriminate|].
  cbn [In] in Hin. destruct Hin as [<-|[<-|[<-|[<-|[]]]]]; (split; [vm_compute; reflexivity|]);
    (split; [vm_compute; reflexivity|discriminate]).
Qed.
