(* Properties_C21.v — C21: HTTP request parsing does not depend on how input is segmented.
   Statements only; proofs live in Incremental.v / ReqparseProofs.v.

   Vocabulary (ReqparseModel.v): [step relaxed limit s b] is one RequestParser::parse(b) call in
   parser state s, classified as the caller (ConnStateData::parseHttpRequest) sees it:
     More s' keep  = needsMoreData(), keep = remaining() is what the caller retains,
     Done f rest   = accepted: f = method id+image, target, version, header block; rest = unconsumed bytes,
     Bad (c, f)    = rejected with parseStatusCode c (f = the fields the error path reads).
   [parse_whole] parses the whole input once with a fresh parser; [parse_segments] is the caller's read
   loop over a list of segments (Incremental.drive): retained bytes ++ next segment, parse again while More;
   segments after a definitive outcome are left unconsumed behind the rest.
   [relaxed] = relaxed_header_parser, [limit] = request_header_max_size. *)
Require Import SquidV.Bytes SquidV.TokModel SquidV.Incremental SquidV.ReqparseModel SquidV.ReqparseProofs.
Require Import SquidV.gen.CharSets_gen SquidV.gen.ReqTabs_gen.
Local Open Scope N_scope.

(* --- the generic theorem: stability under extension + commuting checkpoints => segmentation independence --- *)
Theorem C21_incremental_generic :
  forall (St R E : Type) (P : St -> bytes -> res St R E) (Inv : St -> Prop) (Good : bytes -> Prop),
  stable_done St R E P Inv Good -> stable_bad St R E P Inv Good -> checkpoint_commutes St R E P Inv Good ->
  forall segs s keep, segs <> [] -> Inv s -> Good (keep ++ concat segs) ->
  Incremental.drive St R E P s keep segs = P s (keep ++ concat segs).
Proof. exact drive_oneshot. Qed.

(* --- the two facts about ONE parse() call, for every parser state, buffer and extension --- *)
(* the blame rule for an over-long line reads maxMethodLength + 2 bytes, hence the bound on the limit;
   [fits] = the buffer is one an SBuf can hold (length <= SBuf::npos) *)
Theorem C21_definitive_outcomes_stable : forall relaxed limit, req_max_method + 2 <= limit ->
  (forall s b f rest x, inv s -> fits (b ++ x) ->
     step relaxed limit s b = Done f rest -> step relaxed limit s (b ++ x) = Done f (rest ++ x)) /\
  (forall s b e x, inv s -> fits (b ++ x) ->
     step relaxed limit s b = Bad e -> step relaxed limit s (b ++ x) = Bad e).
Proof. exact step_stable_both. Qed.

Theorem C21_checkpoints_commute : forall relaxed limit, req_max_method + 2 <= limit ->
  forall s b s' keep x, inv s -> fits (b ++ x) ->
    step relaxed limit s b = More s' keep ->
    step relaxed limit s (b ++ x) = step relaxed limit s' (keep ++ x) /\ inv s' /\ fits (keep ++ x).
Proof. exact step_checkpoint_commutes. Qed.

(* --- C21 itself --- *)
(* for every input, every way of delivering it (>= 1 segment, empty segments allowed), both modes, every
   limit >= maxMethodLength + 2: the read loop ends in the outcome of the one-shot parse — same kind,
   same status, same method/target/version/header block, same unconsumed rest (hence consumed length) *)
Theorem C21_segmentation_independent : forall relaxed limit, req_max_method + 2 <= limit ->
  forall segs, segs <> [] -> lenN (concat segs) <= npos ->
  parse_segments relaxed limit segs = parse_whole relaxed limit (concat segs).
Proof. exact req_parse_segmentation_independent. Qed.

Theorem C21_any_two_segmentations_agree : forall relaxed limit segs1 segs2,
  req_max_method + 2 <= limit -> segs1 <> [] -> segs2 <> [] -> concat segs1 = concat segs2 ->
  lenN (concat segs1) <= npos ->
  parse_segments relaxed limit segs1 = parse_segments relaxed limit segs2.
Proof. exact req_parse_two_segmentations. Qed.

(* the same from any checkpoint reached earlier on the connection *)
Theorem C21_segmentation_independent_from_checkpoint : forall relaxed limit, req_max_method + 2 <= limit ->
  forall segs s keep, segs <> [] -> inv s -> lenN (keep ++ concat segs) <= npos ->
  drive relaxed limit s keep segs = step relaxed limit s (keep ++ concat segs).
Proof. exact req_parse_segmentation_independent_from. Qed.

(* the parser state invariant used above holds initially (and is re-established by every More, see
   C21_checkpoints_commute): parseStatusCode is never the internal scHeaderTooLarge between calls *)
Theorem C21_invariant_initially : inv rst0.
Proof. exact inv_rst0. Qed.

(* --- the bound on the limit is needed: with request_header_max_size below maxMethodLength + 2 the
       blame rule sees a different window when the line arrives in pieces --- *)
Theorem C21_small_limit_refuted : exists relaxed limit segs,
  limit < req_max_method + 2 /\ segs <> [] /\
  parse_segments relaxed limit segs <> parse_whole relaxed limit (concat segs).
Proof. exact req_parse_small_limit_refuted. Qed.

(* non-vacuity: the hypotheses hold for the default configuration and concrete segmentations *)
Example C21_default_limit_ok : req_max_method + 2 <= 65536.
Proof. vm_compute. discriminate. Qed.
(* "\r" | "\nGET / HTTP/1.1\r\n\r\n", relaxed: accepted both ways (F2, repaired in 9e13bb5) *)
Example C21_example_lone_cr :
  parse_segments true 65536 [[13]; [10;71;69;84;32;47;32;72;84;84;80;47;49;46;49;13;10;13;10]] =
  parse_whole true 65536 [13;10;71;69;84;32;47;32;72;84;84;80;47;49;46;49;13;10;13;10] /\
  exists f, parse_whole true 65536 [13;10;71;69;84;32;47;32;72;84;84;80;47;49;46;49;13;10;13;10] = Done f [].
Proof. split; [vm_compute; reflexivity| eexists; vm_compute; reflexivity]. Qed.
(* a need-more checkpoint in stage MIME, then completion: "GET / HTTP/1.1\r\nA" | ": b\r\n\r\nX" *)
Example C21_example_checkpoint :
  exists s keep f,
    step true 65536 rst0 [71;69;84;32;47;32;72;84;84;80;47;49;46;49;13;10;65] = More s keep /\ keep = [65] /\
    step true 65536 s (keep ++ [58;32;98;13;10;13;10;88]) = Done f [88].
Proof. do 3 eexists. split; [vm_compute; reflexivity|]. split; [reflexivity|vm_compute; reflexivity]. Qed.

Print Assumptions C21_incremental_generic.
Print Assumptions C21_definitive_outcomes_stable.
Print Assumptions C21_checkpoints_commute.
Print Assumptions C21_segmentation_independent.
Print Assumptions C21_any_two_segmentations_agree.
Print Assumptions C21_segmentation_independent_from_checkpoint.
Print Assumptions C21_invariant_initially.
Print Assumptions C21_small_limit_refuted.
