(* Properties_C36.v — C36: base64 coding round-trips and decodes Basic credentials safely.
   Statements only; proofs live in B64Proofs.v.  Model: B64Model.v (a transcription of
   lib/base64.cc and of decodeCleartext / the user:password split of src/auth/basic/Config.cc);
   tables: gen/Base64_gen.v (regenerated from the code on every run).
   Vocabulary: enc_spec = RFC 4648 section 4 encoding written from the RFC over the literal
   alphabet; strip_ws = input without the six white space bytes the decoder skips by design;
   all_bytes_ok = every element < 256; dvalid / evalid = reachable decoder / encoder contexts.
   Two decoders are modelled, selected by the first (boolean) argument of decode_update /
   b64_decode / decode_chunks / basic_decode: false = the bundled lib/base64.cc of /repo HEAD,
   true = the libnettle 3.8 decoder this build links (same code, older padding test).
   Statements quantified over k hold for both. *)
Require Import SquidV.Bytes SquidV.B64Model SquidV.B64Proofs.
Require Import SquidV.gen.Base64_gen.
Local Open Scope N_scope.

(* ---- "Decoding the base64 encoding of any byte string returns it exactly" ---- *)
Theorem C36_decode_encode_roundtrip : forall k x, all_bytes_ok x ->
  b64_decode k (b64_encode x) = Some x.
Proof. exact decode_encode_roundtrip. Qed.

Theorem C36_decode_encode_raw_roundtrip : forall k x, all_bytes_ok x ->
  b64_decode k (encode_raw x) = Some x.
Proof. exact decode_encode_raw_roundtrip. Qed.

(* init; update on every chunk; final  ==  the RFC encoding of the concatenation, for every cutting *)
Theorem C36_encode_is_rfc4648_any_segmentation : forall chunks, all_bytes_ok (concat chunks) ->
  encode_chunks ectx_init chunks = enc_spec (concat chunks).
Proof. exact encode_chunks_spec. Qed.

Theorem C36_encode_raw_is_rfc4648 : forall x, all_bytes_ok x -> encode_raw x = enc_spec x.
Proof. exact encode_raw_spec. Qed.

(* any cutting into update() calls of any white-space-interleaved encoding of x decodes to x *)
Theorem C36_wellformed_decodes_any_segmentation_and_whitespace : forall k chunks x,
  all_bytes_ok x -> all_bytes_ok (concat chunks) -> strip_ws (concat chunks) = enc_spec x ->
  decode_chunks k dctx_init chunks [] = DOk x.
Proof. exact decode_wellformed_any_segmentation. Qed.

(* the decoder's verdict and output (also the bytes stored before a rejection) depend only on
   the concatenation of the chunks *)
Theorem C36_decode_outcome_independent_of_segmentation : forall k chunks ctx acc, dvalid ctx ->
  decode_chunks k ctx chunks acc = dres_of acc (decode_update k ctx (concat chunks)).
Proof. exact decode_chunks_concat. Qed.

(* ---- "... without writing beyond the output size the API promises" ---- *)
(* for EVERY input, accepted or rejected, from every reachable context: the bytes stored are at
   most BASE64_DECODE_LENGTH(src_length), the context stays valid, the abort() arm is unreachable *)
Theorem C36_decode_update_write_bound : forall k ctx src, dvalid ctx ->
  let '(ctx', u) := decode_update k ctx src in
  dvalid ctx' /\ (forall w, u <> UAbort w) /\ lenN (uwritten u) <= BASE64_DECODE_LENGTH (lenN src).
Proof. exact decode_update_bounded. Qed.

Theorem C36_encode_update_within_promised_length : forall ctx src, evalid ctx -> all_bytes_ok src ->
  lenN (fst (encode_update ctx src)) <= BASE64_ENCODE_LENGTH (lenN src).
Proof. exact encode_update_length. Qed.

(* ---- "Malformed base64 is rejected" ---- *)
(* bundled lib/base64.cc, full strength: whatever is accepted is (white space aside) the RFC 4648
   encoding of the output; equivalently everything that is not such an encoding is refused *)
Theorem C36_malformed_rejected : forall src out, all_bytes_ok src -> b64_decode false src = Some out ->
  strip_ws src = enc_spec out.
Proof. exact bundled_malformed_rejected. Qed.

Theorem C36_noncanonical_input_refused : forall src, all_bytes_ok src ->
  (forall out, strip_ws src <> enc_spec out) -> b64_decode false src = None.
Proof. exact bundled_rejects_noncanonical. Qed.

Theorem C36_invalid_character_rejected : forall k c src, In c src -> dec_lookup c = (-1)%Z ->
  b64_decode k src = None.
Proof. exact invalid_character_rejected. Qed.

(* the libnettle 3.8 decoder (the one linked here): exact accepted language with its one quirk ... *)
Theorem C36_nettle_accepted_language_exact : forall src out, all_bytes_ok src -> b64_decode true src = Some out ->
  strip_ws src = enc_spec out \/ (strip_ws src = enc_spec out ++ A3 /\ lenN out mod 3 = 0).
Proof. exact nettle_accepted_language. Qed.

(* ... for which "accepted => canonical" is FALSE: witness "A===" (the remaining known finding) ... *)
Theorem C36_nettle_strict_rejection_refuted :
  exists src out, all_bytes_ok src /\ b64_decode true src = Some out /\ strip_ws src <> enc_spec out.
Proof. exact nettle_strict_rejection_refuted. Qed.

(* ... and holds for every input that does not end in exactly that quirk *)
Theorem C36_nettle_malformed_rejected_partial : forall src out, all_bytes_ok src -> b64_decode true src = Some out ->
  (forall o, strip_ws src <> enc_spec o ++ A3) -> strip_ws src = enc_spec out.
Proof. exact nettle_malformed_rejected_partial. Qed.

(* ---- "Basic credentials decode to the user name before the first colon and the password after it" ---- *)
Theorem C36_basic_split_first_colon : forall cs u p, ~ In 58 u ->
  basic_split cs (u ++ 58 :: p) =
  (if cs then u else map xtolower u, match p with [] => None | _ => Some p end).
Proof. exact basic_split_first_colon. Qed.

Theorem C36_basic_split_no_colon : forall cs ct, ~ In 58 ct ->
  basic_split cs ct = (if cs then ct else map xtolower ct, None).
Proof. exact basic_split_no_colon. Qed.

(* whole path through decodeCleartext + split for "<scheme> <space> base64(user:password) [LF ...]",
   for ALL user names and passwords: refused when they contain NUL, CR or LF, otherwise exactly
   (bytes before the first colon [lower-cased unless casesensitive], bytes after it
   [an empty password is dropped by decode()]); for either linked decoder *)
Theorem C36_basic_credentials : forall k cs scheme ws u p tail,
  forallb xisgraph scheme = true -> ws <> [] -> forallb xisspace ws = true ->
  all_bytes_ok (u ++ 58 :: p) -> ~ In 58 u ->
  (tail = [] \/ exists t, tail = 10 :: t) ->
  basic_decode k cs (scheme ++ ws ++ enc_spec (u ++ 58 :: p) ++ tail) =
  if existsb cred_refused (u ++ 58 :: p) then None
  else Some (if cs then u else map xtolower u, match p with [] => None | _ => Some p end).
Proof. exact basic_credentials. Qed.

Theorem C36_basic_nul_refused : forall k cs scheme ws clear tail,
  forallb xisgraph scheme = true -> ws <> [] -> forallb xisspace ws = true ->
  all_bytes_ok clear -> In 0 clear ->
  (tail = [] \/ exists t, tail = 10 :: t) ->
  basic_decode k cs (scheme ++ ws ++ enc_spec clear ++ tail) = None.
Proof. exact basic_nul_refused. Qed.

(* ---- the regenerated tables are what the model and the specification assume ---- *)
Theorem C36_nettle_tables_equal_bundled :
  nettle_enc_tbl = b64_enc_tbl /\ nettle_dec_tbl = b64_dec_tbl /\
  nettle_decode_length_samples = b64_decode_length_samples /\
  nettle_encode_length_samples = b64_encode_length_samples.
Proof. exact nettle_tables_equal_bundled. Qed.

Theorem C36_header_constants_match_model :
  b64_enc_tbl = rfc4648_alphabet /\ b64_enc_tbl_static = rfc4648_alphabet /\
  map BASE64_DECODE_LENGTH upto64 = b64_decode_length_samples /\
  map BASE64_ENCODE_LENGTH upto64 = b64_encode_length_samples /\
  map BASE64_ENCODE_RAW_LENGTH upto64 = b64_encode_raw_length_samples /\
  map base64_encode_len upto64 = b64_squid_encode_len_samples /\
  BASE64_ENCODE_FINAL_LENGTH = b64_encode_final_length /\
  b64_enc_word_bytes = 2 /\ b64_dec_word_bytes = 2 /\ b64_dec_bits_bytes = 1.
Proof. exact header_constants_match_model. Qed.

(* ---- non-vacuity: the hypotheses are met by concrete non-trivial values ---- *)
Example C36_ex_bytes_ok : all_bytes_ok [65; 108; 97; 100; 0; 255; 58].
Proof. vm_compute. reflexivity. Qed.
Example C36_ex_roundtrip : b64_decode false (b64_encode [65; 108; 97; 100; 0; 255; 58]) = Some [65; 108; 97; 100; 0; 255; 58].
Proof. vm_compute. reflexivity. Qed.
Example C36_ex_dvalid_init : dvalid dctx_init.
Proof. exact dvalid_init. Qed.
Example C36_ex_evalid_init : evalid ectx_init.
Proof. left. reflexivity. Qed.
Example C36_ex_ws_segmented :   (* "QU" | " JD\n" | "RA==" *)
  strip_ws (concat [[81; 85]; [32; 74; 68; 10]; [82; 65; 61; 61]]) = enc_spec [65; 66; 67; 68] /\
  decode_chunks false dctx_init [[81; 85]; [32; 74; 68; 10]; [82; 65; 61; 61]] [] = DOk [65; 66; 67; 68].
Proof. vm_compute. split; reflexivity. Qed.
Example C36_ex_accepted : b64_decode false [81; 85; 74; 68] = Some [65; 66; 67] /\ b64_decode true [81; 85; 74; 68] = Some [65; 66; 67].
Proof. vm_compute. split; reflexivity. Qed.
Example C36_ex_not_quirk : forall o, [81; 85; 74; 68] <> enc_spec o ++ A3.
Proof. exact example_no_A3_suffix. Qed.
Example C36_ex_bundled_refuses_quirk : b64_decode false A3 = None /\ b64_decode false ([81; 85; 74; 68] ++ A3) = None.
Proof. exact bundled_refuses_A3. Qed.
Example C36_ex_nettle_basic_quirk :   (* "Basic A===" through decodeCleartext: nettle linked -> empty credentials; bundled -> refused *)
  basic_decode true true ([66; 97; 115; 105; 99; 32] ++ A3) = Some ([], None) /\
  basic_decode false true ([66; 97; 115; 105; 99; 32] ++ A3) = None.
Proof. exact nettle_basic_accepts_A3. Qed.
Example C36_ex_rejected_leftover_bits : b64_decode false [81; 86; 61; 61] = None.  (* "QV==" *)
Proof. vm_compute. reflexivity. Qed.
Example C36_ex_rejected_data_after_pad : b64_decode false [81; 81; 61; 61; 81; 85; 74; 68] = None.
Proof. vm_compute. reflexivity. Qed.
Example C36_ex_invalid_char : dec_lookup 33 = (-1)%Z /\ b64_decode false [81; 85; 33; 68] = None.
Proof. vm_compute. split; reflexivity. Qed.
Example C36_ex_basic_hyps :
  all_bytes_ok ([65; 108; 97; 100; 100; 105; 110] ++ 58 :: [111; 112; 101; 110]) /\
  ~ In 58 [65; 108; 97; 100; 100; 105; 110] /\
  existsb cred_refused ([65; 108; 97; 100; 100; 105; 110] ++ 58 :: [111; 112; 101; 110]) = false.
Proof. exact example_cred_hyps. Qed.
Example C36_ex_basic :  (* "Basic QWxhZGRpbjpvcGVuIHNlc2FtZQ==" -> ("Aladdin", "open sesame"); case-insensitive: "aladdin" *)
  basic_decode true true [66;97;115;105;99;32;81;87;120;104;90;71;82;112;98;106;112;118;99;71;86;117;73;72;78;108;99;50;70;116;90;81;61;61]
    = Some ([65;108;97;100;100;105;110], Some [111;112;101;110;32;115;101;115;97;109;101]) /\
  basic_decode true false [66;97;115;105;99;32;81;87;120;104;90;71;82;112;98;106;112;118;99;71;86;117;73;72;78;108;99;50;70;116;90;81;61;61]
    = Some ([97;108;97;100;100;105;110], Some [111;112;101;110;32;115;101;115;97;109;101]).
Proof. vm_compute. split; reflexivity. Qed.
Example C36_ex_basic_nul :  (* "Basic dXNlcgB4OnBhc3M=" = "user\0x:pass" is refused now *)
  basic_decode true true [66;97;115;105;99;32;100;88;78;108;99;103;66;52;79;110;66;104;99;51;77;61] = None.
Proof. vm_compute. reflexivity. Qed.

Print Assumptions C36_decode_encode_roundtrip.
Print Assumptions C36_decode_encode_raw_roundtrip.
Print Assumptions C36_encode_is_rfc4648_any_segmentation.
Print Assumptions C36_encode_raw_is_rfc4648.
Print Assumptions C36_wellformed_decodes_any_segmentation_and_whitespace.
Print Assumptions C36_decode_outcome_independent_of_segmentation.
Print Assumptions C36_decode_update_write_bound.
Print Assumptions C36_encode_update_within_promised_length.
Print Assumptions C36_malformed_rejected.
Print Assumptions C36_noncanonical_input_refused.
Print Assumptions C36_invalid_character_rejected.
Print Assumptions C36_nettle_accepted_language_exact.
Print Assumptions C36_nettle_strict_rejection_refuted.
Print Assumptions C36_nettle_malformed_rejected_partial.
Print Assumptions C36_basic_split_first_colon.
Print Assumptions C36_basic_split_no_colon.
Print Assumptions C36_basic_credentials.
Print Assumptions C36_basic_nul_refused.
Print Assumptions C36_nettle_tables_equal_bundled.
Print Assumptions C36_header_constants_match_model.
