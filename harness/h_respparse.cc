// Harness for C23: the real Http::One::ResponseParser (src/http/one/ResponseParser.cc,
// src/http/one/Parser.cc, src/mime_header.cc) from /repo's working tree.
// stdin: one case per line (same syntax as ml/run_respparse.ml); stdout: one result line.
#include "squid.h"
#include <string>
#include <vector>
#include <sstream>
#include <iostream>
#include "base/CharacterSet.h"
#include "sbuf/SBuf.h"
#include "anyp/ProtocolVersion.h"
#include "http/StatusCode.h"
#include "parser/Tokenizer.h"
#include "mime_header.h"
#define private public
#define protected public
#include "http/one/Parser.h"
#include "http/one/ResponseParser.h"
#undef private
#undef protected
#include "SquidConfig.h"
#include "hcommon.h"

static SBuf sb(const std::string &hex) { std::string r = unhex(hex); return SBuf(r.data(), r.size()); }
static std::string hx(const SBuf &b) { return tohex(b.rawContent(), b.length()); }

static const char *stageName(const Http1::ParseState s) {
    switch (s) {
    case Http1::HTTP_PARSE_NONE: return "N";
    case Http1::HTTP_PARSE_FIRST: return "F";
    case Http1::HTTP_PARSE_MIME: return "M";
    case Http1::HTTP_PARSE_DONE: return "D";
    default: return "?";
    }
}
static const char *protoName(const AnyP::ProtocolType p) {
    switch (p) {
    case AnyP::PROTO_NONE: return "none";
    case AnyP::PROTO_HTTP: return "http";
    case AnyP::PROTO_ICY: return "icy";
    default: return "other";
    }
}
// return value and every member of the parser after a parse() call
static std::string obs(const bool ok, const Http1::ResponseParser &p) {
    std::ostringstream o;
    o << (ok ? 1 : 0) << "," << stageName(p.parsingStage_) << "," << protoName(p.messageProtocol().protocol) << ","
      << p.messageProtocol().major << "," << p.messageProtocol().minor << "," << (p.completedStatus_ ? 1 : 0) << ","
      << static_cast<int>(p.messageStatus()) << "," << hx(p.reasonPhrase()) << "," << hx(p.mimeHeader()) << ","
      << static_cast<int>(p.parseStatusCode) << "," << p.firstLineSize() << "," << hx(p.remaining());
    if (p.needsMoreData() != (p.parsingStage_ != Http1::HTTP_PARSE_DONE)) o << ",BAD-NEEDSMORE";
    return o.str();
}

int main() {
    std::string line;
    while (std::getline(std::cin, line)) {
        auto a = splitws(line);
        if (a.empty()) { std::cout << "\n"; continue; }
        const std::string &op = a[0];
        std::ostringstream o;
        try {
            if (op == "resp.parse" && a.size() >= 4) {
                Config.onoff.relaxed_header_parser = (a[1] == "1") ? 1 : 0;
                Config.maxReplyHeaderSize = static_cast<size_t>(std::stoull(a[2]));
                std::vector<SBuf> segs;
                SBuf whole;
                for (size_t i = 3; i < a.size(); ++i) { segs.push_back(sb(a[i])); whole.append(segs.back()); }
                {
                    Http1::ResponseParser p;
                    const bool ok = p.parse(whole);
                    o << "W=" << obs(ok, p);
                }
                // the callers' loop (HttpStateData::processReplyHeader, Http::Tunneler::handleResponse)
                Http1::ResponseParserPointer hp = new Http1::ResponseParser;
                SBuf inBuf;
                size_t used = 0;
                o << " I=";
                for (size_t i = 0; i < segs.size(); ++i) {
                    inBuf.append(segs[i]);
                    const bool ok = hp->parse(inBuf);
                    inBuf = hp->remaining();
                    o << (i ? ";" : "") << obs(ok, *hp);
                    used = i + 1;
                    if (!hp->needsMoreData())
                        break;
                }
                SBuf rest = inBuf;
                if (!hp->needsMoreData())
                    for (size_t i = used; i < segs.size(); ++i) rest.append(segs[i]);
                o << " R=" << hx(rest);
            }
            else if (op == "resp.status" && a.size() == 3) {
                Config.onoff.relaxed_header_parser = (a[1] == "1") ? 1 : 0;
                Parser::Tokenizer tok(sb(a[2]));
                Http::StatusCode code = Http::scNone;
                try {
                    Http1::ResponseParser::ParseResponseStatus(tok, code);
                    o << "ok " << static_cast<int>(code) << " " << hx(tok.remaining());
                } catch (const Parser::InsufficientInput &) {
                    o << "more " << static_cast<int>(code);
                } catch (const std::exception &) {
                    o << "bad " << static_cast<int>(code);
                }
            }
            else if (op == "resp.hend" && a.size() == 2) {
                bool fold = false;
                const SBuf b = sb(a[1]);
                const size_t e = headersEnd(b, fold);
                o << e << " " << (fold ? 1 : 0);
            }
            else if ((op == "resp.clean" || op == "resp.unfold") && a.size() == 2) {
                Http1::ResponseParser p;
                p.mimeHeaderBlock_ = sb(a[1]);
                if (op == "resp.clean") p.cleanMimePrefix(); else p.unfoldMime();
                o << hx(p.mimeHeaderBlock_);
            }
            else o << "ERR unknown-entry " << op;
        } catch (const std::exception &e) { o.str(""); o << "EXC " << e.what(); }
        catch (...) { o.str(""); o << "EXC"; }
        std::cout << o.str() << "\n" << std::flush;
    }
    return 0;
}
