(* DiskcrashProofs.v — proofs about DiskcrashModel.v (C16, C17). *)
Require Import SquidV.Bytes.
Require Import SquidV.gen.DiskCrash_gen.
Require Import SquidV.DiskcrashModel.
Require Import ZifyBool ZifyNat.
Local Open Scope Z_scope.

(* ------------------------------------------------------------------------------------------------------------
   Part 1. What the properties ask for, stated on the model.
   ------------------------------------------------------------------------------------------------------------ *)

(* the session's last slot write is among the first n writes of the workload *)
Fixpoint writes_before (P : Z) (ss : list session) (s : session) : option nat :=
  match ss with
  | [] => None
  | x :: r => if s_obj x =? s_obj s then Some O
              else match writes_before P r s with Some k => Some (nwrites P x + k)%nat | None => None end
  end.

Definition completed (P : Z) (ss : list session) (n : nat) (s : session) : Prop :=
  In s ss /\ exists b, writes_before P ss s = Some b /\ (b + nwrites P s <= n)%nat.

(* C16 on the model: whatever is served as a hit after the crash is the complete stream of one session with that
   key whose last write completed before the crash *)
Definition crash_consistent (N P : Z) (ss : list session) (n : nat) (torn : option Z) : Prop :=
  forall k c, hit_after N P ss n torn k = Some c ->
    exists s, completed P ss n s /\ s_key s = k /\ c = full_stream s.

(* C17 on the model: after ALL writes (clean shutdown), the entry last stored under a key and not purged is a hit
   with its complete stream *)
Definition survives (N P : Z) (ss : list session) (s : session) : Prop :=
  hit_after N P ss (length (all_writes P ss)) None (s_key s) = Some (full_stream s).

(* ------------------------------------------------------------------------------------------------------------
   Part 2. Refutations (witnesses found by running the extracted model over small workloads; each is replayed
   against the real binary by the checks: corpus/C16/known.jsonl, corpus/C17/known.jsonl).
   8 slots, 4 payload bytes per slot, 10-byte objects = 3 slots.
   ------------------------------------------------------------------------------------------------------------ *)
Definition w_ops : list op := [OStore (1, 0) 1 5 10 2 0; OStore (1, 0) 2 6 10 2 0].

Lemma w_ops_slots : map s_slots (sessions_of 8 4 w_ops) = [[1; 0; 2]; [1; 0; 2]].
Proof. vm_compute. reflexivity. Qed.

(* F12: version 2 of the same key goes into the recycled slots of version 1 in the same order; killed after 5 of
   the 6 slot writes, the rebuild accepts the chain new, new, OLD (versions are never compared) *)
Lemma overwrite_crash_mixes :
  hit_after 8 4 (sessions_of 8 4 w_ops) 5 None (1, 0)
  = Some [(2,0);(2,1);(2,2);(2,3);(2,4);(2,5);(2,6);(2,7);(1,8);(1,9)].
Proof. vm_compute. reflexivity. Qed.

Lemma crash_consistent_refuted :
  exists N P ops n, ~ crash_consistent N P (sessions_of N P ops) n None.
Proof.
  exists 8, 4, w_ops, 5%nat. intros H.
  destruct (H (1, 0) _ overwrite_crash_mixes) as (s & (Hin & _) & _ & Hc).
  vm_compute in Hin. destruct Hin as [<- | [<- | []]]; vm_compute in Hc; discriminate Hc.
Qed.

(* a torn write: a one-slot object whose only write is cut after the header and 2 of its 3 payload bytes: the
   header (entrySize, payloadSize) is complete, so the entry is accepted and the never-written byte is served *)
Definition t_ops : list op := [OStore (1, 0) 1 5 3 2 0].

Lemma torn_write_serves_unwritten_bytes :
  hit_after 8 4 (sessions_of 8 4 t_ops) 0 (Some 42) (1, 0) = Some [(1,0);(1,1);(0,0)].
Proof. vm_compute. reflexivity. Qed.

Lemma torn_crash_consistent_refuted :
  exists N P ops n t, ~ crash_consistent N P (sessions_of N P ops) n (Some t).
Proof.
  exists 8, 4, t_ops, 0%nat, 42. intros H.
  destruct (H (1, 0) _ torn_write_serves_unwritten_bytes) as (s & (Hin & _) & _ & Hc).
  vm_compute in Hin. destruct Hin as [<- | []]; vm_compute in Hc; discriminate Hc.
Qed.

(* C17: a completed overwrite by an object that needs FEWER slots leaves the old chain's extra slot on disk with the
   same key; after a clean restart the rebuild counts it into the entry (le.size), the chain walk comes up short,
   and the complete new entry is dropped *)
Definition l_ops : list op := [OStore (1, 0) 1 5 10 2 0; OStore (1, 0) 2 6 7 2 0].

Lemma overwrite_by_smaller_lost :
  hit_after 8 4 (sessions_of 8 4 l_ops) (length (all_writes 4 (sessions_of 8 4 l_ops))) None (1, 0) = None.
Proof. vm_compute. reflexivity. Qed.

Lemma survives_refuted :
  exists N P ops s, last (sessions_of N P ops) s = s /\ In s (sessions_of N P ops) /\
                    ~ survives N P (sessions_of N P ops) s.
Proof.
  exists 8, 4, l_ops, (mkSess (1, 0) 2 6 7 2 0 [1; 0]).
  split; [vm_compute; reflexivity|]. split; [vm_compute; auto|].
  unfold survives. cbn [s_key]. rewrite overwrite_by_smaller_lost. discriminate.
Qed.
