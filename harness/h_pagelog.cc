// Harness for C34/C33 (unit level): the access-log quoting functions and the two error-page quoting
// functions, all compiled from /repo's working tree:
//   log_quoted_string            file-static in src/format/Format.cc (reached by textual inclusion; the rest of
//                                that file is discarded by the linker: -ffunction-sections + --gc-sections)
//   Format::QuoteMimeBlob, Format::QuoteUrlEncodeUsername    src/format/Quoting.cc
//   rfc1738_escape, rfc1738_escape_unescaped, rfc1738_escape_part   lib/rfc1738.cc
//   strwordquote                 src/tools.cc: the text of that one function is cut out of the working tree's
//                                tools.cc by checks/c34.py (strwordquote.inc) because tools.cc as a whole needs
//                                most of squid to link
//   html_quote                   src/html/Quoting.cc
// stdin: one case per line (same syntax as ml/run_pagelog.ml); stdout: one result line.
#include "squid.h"
#include "format/Quoting.h"
#include "html/Quoting.h"
#include "MemBuf.h"
#include "rfc1738.h"
#include "tools.h"
#include "hcommon.h"

#include <cstdlib>
#include <cstring>
#include <memory>

#include "format/Format.cc"

#include "strwordquote.inc"

static std::string hx(const char *s) { return s ? tohex(s, strlen(s)) : std::string("null"); }

static std::string doAll(const std::string &raw)
{
    // the functions take C strings: an exact-size heap copy (so that sanitizers see overreads)
    std::unique_ptr<char[]> in(new char[raw.size() + 1]);
    memcpy(in.get(), raw.data(), raw.size());
    in[raw.size()] = '\0';
    const char *s = in.get();
    std::string out;

    {
        // Format::assemble sizes the buffer as strlen * 2 + 1
        const size_t n = strlen(s) * 2 + 1;
        std::unique_ptr<char[]> q(new char[n]);
        memset(q.get(), 'Z', n);
        log_quoted_string(s, q.get());
        out += "qs=" + hx(q.get());
    }
    {
        char *m = Format::QuoteMimeBlob(s);
        out += " mime=" + hx(m);
        xfree(m);
    }
    {
        char *u = Format::QuoteUrlEncodeUsername(s);
        out += " user=" + hx(u);
        xfree(u);
    }
    out += " url=" + hx(rfc1738_escape(s));
    out += " def=" + hx(rfc1738_escape_unescaped(s));
    {
        MemBuf mb;
        mb.init();
        strwordquote(&mb, s);
        out += " shell=" + tohex(mb.content(), mb.contentSize());
        mb.clean();
    }
    out += " html=" + hx(html_quote(s));
    out += " part=" + hx(rfc1738_escape_part(s));
    return out;
}

int main()
{
    std::string line;
    while (std::getline(std::cin, line)) {
        const auto a = splitws(line);
        std::string out;
        try {
            if (a.empty())
                out = "";
            else if (a[0] == "lq.all" && a.size() == 2)
                out = doAll(unhex(a[1]));
            else
                out = "ERR unknown-entry " + a[0];
        } catch (const std::exception &e) {
            out = std::string("EXC ") + e.what();
        } catch (...) {
            out = "EXC unknown";
        }
        std::cout << out << "\n" << std::flush;
    }
    return 0;
}
