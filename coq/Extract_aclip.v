(* Extract_aclip.v — extraction of the aclip area (C42) to OCaml.
   Only ExtrOcamlBasic is used; N, Z, positive and nat stay extracted datatypes. *)
Require Import ExtrOcamlBasic.
Require Import SquidV.Bytes SquidV.SplayModel SquidV.AclipModel.
Extraction "m_aclip.ml"
  isAnyAddr isNoAddr isIPv4 matchIPAddr addr_lt addr_le addr_gt addr_ge applyMask mask_changes
  turnMaskedBitsOn mask_of_cidr first_addr last_addr icompare is_subset combined net_cmp
  merge parse_global acl_parse specs_ok acl_match acl_match_seq.
