(* Properties_C06.v — C06: CONNECT tunnels relay both directions unchanged.
   Statements only; the model is PipetunnelModel.v (part 2), proofs live in PipetunnelProofs.v.
   trun evs (tun_start early) = state of the tunnel after Squid's 200 response, `early` being the client bytes that
   followed the CONNECT head, and the events evs (peers sending / FIN, read and write completions or failures,
   close handlers, timeouts, in ANY order). For side x: s_sentby = bytes its peer has sent, s_deliv = bytes Squid
   has written to it. *)
Require Import SquidV.Bytes SquidV.PipetunnelModel SquidV.PipetunnelProofs.
Local Open Scope N_scope.

(* what has been delivered to one side is always a prefix of what the other side sent (both directions, every
   event order, errors included): nothing inserted, altered, reordered or duplicated *)
Theorem C06_tunnel_prefix_invariant : forall early evs x,
  let t := trun evs (tun_start early) in
  exists rest, s_sentby (gs x t) = s_deliv (gs (other x) t) ++ rest.
Proof. exact tunnel_prefix_invariant. Qed.
Print Assumptions C06_tunnel_prefix_invariant.

(* exact accounting while the destination is open: delivered ++ in the buffer ++ still pre-read ++ not yet read
   = sent *)
Theorem C06_tunnel_accounting : forall early evs x,
  let t := trun evs (tun_start early) in
  let A := gs x t in let B := gs (other x) t in
  s_recvd A ++ s_wire A = s_sentby A /\
  (exists rest, s_recvd A = s_deliv B ++ rest) /\
  (s_open B = true -> s_deliv B ++ s_buf A ++ s_pre A ++ s_wire A = s_sentby A).
Proof. exact tunnel_accounting. Qed.
Print Assumptions C06_tunnel_accounting.

Theorem C06_no_assertion_failure : forall early evs, t_crashed (trun evs (tun_start early)) = false.
Proof. exact tunnel_no_assertion_failure. Qed.
Print Assumptions C06_no_assertion_failure.

(* When no I/O error or timeout occurs and the peer of B (= other a) has not closed, Squid closes B only after it
   has read A's FIN, and by then every byte A ever sent (early bytes included) has been delivered to B *)
Theorem C06_tunnel_drain_on_close : forall early evs a,
  (forall e, In e evs -> is_err e = false /\ is_fin_of (other a) e = false) ->
  let t := trun evs (tun_start early) in
  s_open (gs (other a) t) = false ->
  s_fin (gs a t) = true /\ s_deliv (gs (other a) t) = s_sentby (gs a t) /\ s_open (gs a t) = false.
Proof. exact tunnel_drain_on_close. Qed.
Print Assumptions C06_tunnel_drain_on_close.

(* every step: nothing reopens a connection, nothing more is delivered to a closed connection, a peer that sent
   FIN sends nothing more *)
Theorem C06_closed_is_final : forall e t y,
  (s_open (gs y (tstep e t)) = true -> s_open (gs y t) = true) /\
  (s_open (gs y t) = false -> s_deliv (gs y (tstep e t)) = s_deliv (gs y t)) /\
  (s_fin (gs y t) = true -> s_sentby (gs y (tstep e t)) = s_sentby (gs y t) /\ s_fin (gs y (tstep e t)) = true).
Proof. exact tstep_frame. Qed.
Print Assumptions C06_closed_is_final.

(* the hypotheses of the drain theorem are satisfiable: early bytes + more data + half-close by the client *)
Example C06_example_drain :
  let t := trun ex_tevs (tun_start [1;2;3]) in
  s_open (gs Sv t) = false /\ s_deliv (gs Sv t) = [1;2;3;7;8] /\ s_deliv (gs Cl t) = [5] /\
  forall e, In e ex_tevs -> is_err e = false /\ is_fin_of (other Cl) e = false.
Proof. exact ex_drain. Qed.

(* NOT promised by the property and not true of the code: the direction opposite to a half-close is cut. Squid
   closes both connections as soon as it reads one side's FIN; bytes the other side sent meanwhile are dropped
   (they stay a prefix, C06_tunnel_prefix_invariant) *)
Theorem C06_reverse_direction_cut_refuted :
  exists evs, (forall e, In e evs -> is_err e = false) /\
    let t := trun evs (tun_start []) in
    s_open (gs Cl t) = false /\ s_sentby (gs Sv t) = [1;2;3] /\ s_deliv (gs Cl t) = [].
Proof. exact reverse_direction_cut. Qed.
Print Assumptions C06_reverse_direction_cut_refuted.
