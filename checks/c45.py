"""C45: http_access decisions are enforced end to end (random squid.conf access sections through the real squid)."""
import base64, concurrent.futures, ipaddress, json, os, random, socket, threading, time
from vlib import std, lab, common

PID = "C45"
META = {
    "text": "Theorems (Properties_C45.v, closed under the global context) about AccessModel.v, a transcription of squid.conf "
            "acl/http_access parsing (ParseNamedAcl, aclParseAccessLine, lineParse, the predefined 'all', the default "
            "'deny all'), of the rule walk (Tree/AndNode/NotNode::doMatch, winningAction, calcImplicitAnswer) over the "
            "shared, self-reorganising ACL objects of C41 (dstdomain splay), C42 (src/dst splay), C43 (port ranges) and the "
            "method list (move-to-front), and of clientAccessCheckDone: for EVERY well-formed access section (any number of "
            "acl lines per name, any overlaps, any order, negations), every environment of static host entries and every "
            "SEQUENCE of requests, the n-th request is forwarded iff the reference first-match evaluation over set-semantics "
            "ACLs allows it (explicit allow of the first rule whose literals all hold; otherwise the reverse of the last "
            "rule; 'deny all' when there is no rule), and otherwise it is answered 403 and not forwarded; the decision of "
            "the C44 checklist machine on the same tree, with every leaf free to suspend for any number of asynchronous "
            "lookups, is the same. Method values of acl lines are read exactly as request methods are (theorem; the former "
            "defect 'acl m method GE' = GET, HttpRequestMethodXXX comparing only strlen(value) bytes, was repaired by /repo "
            "ae7c270 and its witnesses GE/get/g/p are regression scenarios replayed against the binary on every run). Tie: method "
            "table regenerated; extracted model diffed against the real squid binary started once per generated "
            "configuration (hosts_file, three origins, clients bound to different 127/8 source addresses, named and "
            "numeric URL hosts incl. one without reverse DNS, which makes dstdomain go asynchronous).",
    "note": "partial: the theorems are about the transcribed decision path (AccessModel.v); that the event-driven proxy runs "
            "exactly this path for every request (and forwards what clientAccessCheckDone lets pass) rests on the end-to-end "
            "correspondence. Hypotheses of the main theorem (line_ok / req_ok): IP values are IPv4 without bits below the "
            "mask and with prefix length 1..32 (C42's side conditions; Squid itself warns about the others; they are still "
            "exercised by the correspondence run), tokens non-empty and free of NUL/white space, addresses 32-bit, ports 0..65535. Inputs of the model that are not modelled: the "
            "text->address conversion of IP values (sscanf/getaddrinfo in FactoryParse), hosts_file parsing (static "
            "ipcache/fqdncache entries), URL parsing; a failed reverse lookup is its result 'none'. In the C44 composition "
            "theorem every literal occurrence is its own scripted leaf (so it may suspend independently). Trusted: Coq "
            "kernel, extraction, gen/gen_accessmeth.cc, vlib/lab.py, the client/origin stubs in this file.",
    "technique": "Coq proof (state invariant over configuration parsing and request sequences, composition of the C41-C44 "
                 "theorems, refinement to a first-match reference) + end-to-end differential correspondence of the extracted "
                 "model against the running squid + independent oracle",
}

# ------------------------------------------------------------------ universe
HOSTS = [("127.0.0.1", ["a.verif.test"]),
         ("127.0.0.6", ["www.b.verif.test", "b.verif.test"]),
         ("127.0.1.6", ["c.example.test"]),
         ("127.2.0.1", ["deep.sub.c.example.test"])]
FWD = {n: ip for ip, names in HOSTS for n in names}
REV = {ip: names[0] for ip, names in HOSTS}
CLIENTS = ["127.0.0.1", "127.0.0.2", "127.0.0.3", "127.0.0.9", "127.0.1.5", "127.3.2.1"]
NUMERIC_HOSTS = ["127.0.0.1", "127.0.0.6", "127.0.1.6", "127.2.0.1", "127.0.0.77"]
NAMED_HOSTS = sorted(FWD)
REQ_METHODS = ["GET", "GET", "GET", "GET", "HEAD", "HEAD", "POST", "POST", "PUT", "DELETE", "OPTIONS", "VERIFY", "Verify",
               "PATCH", "get", "GE", "PROP"]
BODY_METHODS = ("POST", "PUT")

IP_VALUES = [["single", "127.0.0.1"], ["single", "127.0.0.2"], ["single", "127.0.0.3"], ["single", "127.0.0.6"],
             ["single", "127.0.0.9"], ["single", "127.0.0.77"], ["single", "127.0.1.5"], ["single", "127.0.1.6"],
             ["single", "127.2.0.1"], ["single", "127.3.2.1"], ["single", "10.1.2.3"],
             ["cidr", "127.0.0.0", 8], ["cidr", "127.0.0.0", 16], ["cidr", "127.0.0.0", 24], ["cidr", "127.0.0.0", 30],
             ["cidr", "127.0.0.8", 30], ["cidr", "127.0.0.4", 30], ["cidr", "127.0.1.0", 24], ["cidr", "127.2.0.0", 16],
             ["cidr", "127.0.0.6", 32], ["cidr", "127.0.0.64", 28], ["cidr", "127.3.0.0", 16], ["cidr", "126.0.0.0", 7],
             ["range", "127.0.0.2", "127.0.0.9"], ["range", "127.0.0.1", "127.0.1.255"], ["range", "127.0.0.5", "127.0.0.6"],
             ["range", "127.0.0.3", "127.0.0.3"], ["range", "127.0.1.0", "127.3.255.255"],
             ["rcidr", "127.0.1.0", "127.0.2.0", 24], ["rcidr", "127.0.0.0", "127.0.0.8", 30],
             ["word", "all"], ["word", "ipv4"], ["word", "ipv6"]]
# outside the property's quantifier (Squid warns "Netmask masks away part of the specified IP"; /0 is a host mask):
IP_QUIRKS = [["cidr", "127.0.0.5", 24], ["rcidr", "127.0.0.1", "127.0.0.255", 24], ["cidr", "127.0.0.2", 0], ["cidr", "127.0.0.9", 31]]
DOM_VALUES = [".verif.test", "a.verif.test", ".b.verif.test", "b.verif.test", "www.b.verif.test", ".example.test",
              "c.example.test", ".c.example.test", ".test", "none", "127.0.0.6", "127.0.0.77", "A.Verif.TEST", "..verif.test",
              "other.test", ".sub.c.example.test", "verif.test"]
PORT_VALUES = ["{p0}", "{p1}", "{p2}", "{p0}-{p1}", "{p1}-{p2}", "1-{p0-1}", "{p2+1}-65535", "{p0+1}-{p1-1}", "1-65535", "80",
               "{p0}-{p0}", "0-{p1}"]
METH_VALUES = ["GET", "get", "Get", "HEAD", "POST", "post", "PUT", "DELETE", "OPTIONS", "options", "VERIFY", "Verify", "PATCH",
               "CONNECT", "PROPFIND", "GET", "HEAD", "POST", "GE", "g", "p", "PROP", "MK"]     # the last five: prefixes of method names
TYPES = ["src", "dst", "dom", "port", "meth"]

def gen_config(rng, quirk=False):
    names = ["a%d" % i for i in range(rng.randrange(2, 7))]
    types = {n: rng.choice(TYPES) for n in names}
    lines = []

    def acl_line(n):
        t = types[n]
        k = rng.choice([1, 1, 2, 2, 3, 4])
        if t in ("src", "dst"):
            pool = IP_VALUES + (IP_QUIRKS * 3 if quirk else [])
            toks = [rng.choice(pool) for _ in range(k)]
        elif t == "dom":
            toks = [rng.choice(DOM_VALUES) for _ in range(k)]
        elif t == "port":
            toks = [rng.choice(PORT_VALUES) for _ in range(k)]
        else:
            toks = [rng.choice(METH_VALUES) for _ in range(k)]
        return {"k": "acl", "name": n, "type": t, "toks": toks}

    for n in names:
        lines.append(acl_line(n))
    nrules = rng.choice([0, 1, 2, 2, 3, 3, 4, 5])
    for i in range(nrules):
        if rng.random() < 0.35 and names:                       # a later acl line appends to an existing name
            lines.append(acl_line(rng.choice(names)))
        nt = rng.choice([1, 1, 2, 2, 3])
        terms = [[rng.random() < 0.3, rng.choice(names + (["all"] if rng.random() < 0.15 else []))] for _ in range(nt)]
        if rng.random() < 0.04:
            terms = []                                          # "http_access allow" without ACLs: skipped by squid
        lines.append({"k": "access", "allow": rng.random() < 0.5, "terms": terms})
    if nrules and rng.random() < 0.4:
        lines.append({"k": "access", "allow": rng.random() < 0.3, "terms": [[False, "all"]]})
    return lines


def gen_request(rng):
    m = rng.choice(REQ_METHODS)
    h = rng.choice(NAMED_HOSTS) if rng.random() < 0.55 else rng.choice(NUMERIC_HOSTS)
    if h.count(".") != 3 and rng.random() < 0.1:
        h = "".join(c.upper() if rng.random() < 0.5 else c for c in h)      # the URL parser lower-cases the host
    return {"c": rng.choice(CLIENTS), "m": m, "h": h, "p": rng.randrange(3)}


def gen_scenarios(rng, n):
    out = []
    for k in range(n):
        kind = rng.random()
        if kind < 0.05:
            # fatal configurations: unknown ACL name / same name with another type
            lines = gen_config(rng)
            if rng.random() < 0.5:
                lines.append({"k": "access", "allow": True, "terms": [[False, "nosuchacl"]]})
            else:
                first = lines[0]
                lines.append({"k": "acl", "name": first["name"], "type": "port" if first["type"] != "port" else "meth",
                              "toks": ["80"] if first["type"] != "port" else ["GET"]})
            out.append({"lines": lines, "reqs": [gen_request(rng) for _ in range(3)], "fatal": True})
            continue
        quirk = 0.05 <= kind < 0.15
        # prefer configurations that both forward and deny (judged by the reference on placeholder ports); one in
        # four is taken as it comes
        as_it_comes = rng.random() < 0.25
        for attempt in range(12):
            lines = gen_config(rng, quirk)
            s = {"lines": lines, "reqs": [gen_request(rng) for _ in range(25)]}
            f = sum(1 for r in s["reqs"] if reference(s, r, [8001, 8005, 8009])) / 25.0
            if as_it_comes or 0.15 <= f <= 0.85:
                break
        if quirk and any(t in IP_QUIRKS for l in lines if l["k"] == "acl" and l["type"] in ("src", "dst") for t in l["toks"]):
            s["lenient"] = True
        out.append(s)
    return out


# ------------------------------------------------------------------ rendering
def ports_env(ports):
    p0, p1, p2 = ports
    return {"p0": p0, "p1": p1, "p2": p2, "p0-1": p0 - 1, "p0+1": p0 + 1, "p1-1": p1 - 1, "p2+1": p2 + 1}


def subst(tok, ports):
    for k, v in ports_env(ports).items():
        tok = tok.replace("{%s}" % k, str(v))
    return tok


def ip_text(t):
    if t[0] == "word" or t[0] == "single":
        return t[1]
    if t[0] == "cidr":
        return "%s/%d" % (t[1], t[2])
    if t[0] == "range":
        return "%s-%s" % (t[1], t[2])
    return "%s-%s/%d" % (t[1], t[2], t[3])


def conf_text(lines, ports):
    out = []
    for l in lines:
        if l["k"] == "acl":
            ty = {"dom": "dstdomain", "meth": "method"}.get(l["type"], l["type"])
            toks = [ip_text(t) for t in l["toks"]] if l["type"] in ("src", "dst") else [subst(t, ports) for t in l["toks"]]
            out.append("acl %s %s %s" % (l["name"], ty, " ".join(toks)))
        else:
            out.append("http_access %s %s" % ("allow" if l["allow"] else "deny",
                                              " ".join(("!" if neg else "") + nm for neg, nm in l["terms"])))
    return "\n".join(out) + "\n"


def ipn(s):
    return int(ipaddress.IPv4Address(s))


def hx(s):
    b = s.encode("latin1")
    return b.hex() if b else "-"


def is_numeric(h):
    try:
        ipaddress.IPv4Address(h)
        return True
    except ValueError:
        return False


def to_case(s):
    ports = _state.get("ports") or [8001, 8005, 8009]
    items = []
    for l in s["lines"]:
        if l["k"] == "acl":
            if l["type"] in ("src", "dst"):
                toks = []
                for t in l["toks"]:
                    if t[0] == "word":
                        toks.append("w" + hx(t[1]))
                    elif t[0] == "single":
                        toks.append("s%d" % ipn(t[1]))
                    elif t[0] == "cidr":
                        toks.append("c%d_%d" % (ipn(t[1]), t[2]))
                    elif t[0] == "range":
                        toks.append("r%d_%d" % (ipn(t[1]), ipn(t[2])))
                    else:
                        toks.append("m%d_%d_%d" % (ipn(t[1]), ipn(t[2]), t[3]))
            else:
                toks = [hx(subst(t, ports)) for t in l["toks"]]
            items.append("A:%s:%s:%s" % (hx(l["name"]), l["type"], ",".join(toks)))
        else:
            items.append("H:%s:%s" % ("a" if l["allow"] else "d", ",".join(("-" if neg else "+") + hx(nm) for neg, nm in l["terms"])))
    for n, ip in sorted(FWD.items()):
        items.append("F:%s=%d" % (hx(n), ipn(ip)))
    for ip, n in sorted(REV.items()):
        items.append("R:%d=%s" % (ipn(ip), hx(n)))
    for r in s["reqs"]:
        h = r["h"].lower()
        items.append("Q:%d:%s:%s:%s:%d" % (ipn(r["c"]), hx(r["m"]), hx(h), str(ipn(h)) if is_numeric(h) else "-", ports[r["p"]]))
    return "access.run " + " ".join(items)


# ------------------------------------------------------------------ implementation side
class AnyAddrOrigin(lab.Origin):
    """the lab's scripted origin, reachable on every 127/8 address"""
    def __init__(self):
        self.log = []
        self.lock = threading.Lock()
        self.hook = None
        self.io_timeout = 30
        self.clock = None
        self.srv = lab._Server(("0.0.0.0", 0), lab._Handler)
        self.srv.org = self
        self.port = self.srv.server_address[1]
        self.th = threading.Thread(target=self.srv.serve_forever, kwargs={"poll_interval": 0.05}, daemon=True)
        self.th.start()


def client_request(port, src, method, url, body=None, timeout=12.0):
    """one request on a fresh connection whose source address is `src`; returns (status, x-squid-error, raw)"""
    s = socket.socket(socket.AF_INET, socket.SOCK_STREAM)
    raw = b""
    try:
        s.bind((src, 0))
        s.settimeout(timeout)
        s.connect(("127.0.0.1", port))
        host = url.split("://", 1)[1].split("/", 1)[0]
        h = "%s %s HTTP/1.1\r\nHost: %s\r\nConnection: close\r\n" % (method, url, host)
        if body is not None:
            h += "Content-Length: %d\r\n" % len(body)
        s.sendall((h + "\r\n").encode("latin1") + (body or b""))
        while True:
            try:
                d = s.recv(65536)
            except socket.timeout:
                break
            if not d:
                break
            raw += d
    except OSError as ex:
        return None, "", ("oserror %s" % ex).encode()
    finally:
        s.close()
    try:
        status = int(raw.split(b"\r\n", 1)[0].split(b" ")[1])
    except Exception:
        status = None
    err = ""
    for l in raw.split(b"\r\n\r\n", 1)[0].split(b"\r\n")[1:]:
        if l.lower().startswith(b"x-squid-error:"):
            err = l.split(b":", 1)[1].strip().decode("latin1").split(" ")[0]
    return status, err, raw


_state = {}
_stats = {}
_lock = threading.Lock()
SPEC = {"body": "ok", "headers": [["Cache-Control", "no-store"]]}


def _setup(L):
    if "origins" in _state:
        return
    for _ in range(50):
        orgs = sorted((AnyAddrOrigin() for _ in range(3)), key=lambda o: o.port)
        if orgs[0].port > 1100 and orgs[1].port - orgs[0].port >= 3 and orgs[2].port < 65000:
            break
        for o in orgs:
            o.close()
    L.origins += orgs
    hosts = os.path.join(L.dir, "hosts.c45")
    with open(hosts, "w") as f:
        for ip, names in HOSTS:
            f.write("%s %s\n" % (ip, " ".join(names)))
    os.chmod(hosts, 0o644)
    _state.update(origins=orgs, ports=[o.port for o in orgs], hosts=hosts, n=0)


def _run_one(args):
    L, s = args
    orgs, ports = _state["origins"], _state["ports"]
    with _lock:
        _state["n"] += 1
        k = _state["n"]
        sq = lab.Squid(L, "hosts_file %s\ndns_timeout 1 second\ndns_retransmit_interval 1 second\n" % _state["hosts"], 0, None,
                       "vc45n%dp%d" % (k, os.getpid()), "8 MB", "", conf_text(s["lines"], ports))
        L.procs.append(sq)
    try:
        try:
            sq.start(20)
        except lab.LabError as ex:
            msg = str(ex)
            if "exited at startup" in msg:
                return "fatal"
            return "nostart " + msg[-120:].replace("\n", " ")
        toks, rids = [], []
        for i, r in enumerate(s["reqs"]):
            rid = "q%dx%d" % (k, i)
            org = orgs[r["p"]]
            url = "http://%s:%d%s" % (r["h"], org.port, lab.spec_path(SPEC, rid))
            st, err, raw = client_request(sq.port, r["c"], r["m"], url, b"hi" if r["m"].upper() in BODY_METHODS else None)
            arr = len(org.arrivals(rid))
            rids.append((org, rid, arr))
            if st == 200 and arr == 1:
                toks.append("F")
            elif st == 403 and arr == 0 and err.startswith("ERR_ACCESS_DENIED"):
                toks.append("D")
            else:
                toks.append("?(%s/%d/%s)" % (st, arr, err or "-"))
        # nothing may arrive late for a request that was answered with an error
        for i, (org, rid, arr) in enumerate(rids):
            if len(org.arrivals(rid)) != arr:
                toks[i] = "?(late-arrival)"
        if not sq.alive():
            return "died " + "".join(toks)
        return "res " + "".join(toks)
    finally:
        try:
            sq.stop()
        except Exception:
            pass


def run_impl(L, scenarios):
    _setup(L)
    with concurrent.futures.ThreadPoolExecutor(max_workers=6) as ex:
        return list(ex.map(_run_one, [(L, s) for s in scenarios]))


# ------------------------------------------------------------------ the oracle: reference first-match evaluation
def _ip_in(x, t):
    """x (int) belongs to the address set the value t stands for"""
    if t[0] == "word":
        return t[1] in ("all", "ipv4")                       # every address of this lab is IPv4
    if t[0] == "single":
        return x == ipn(t[1])
    if t[0] == "cidr":
        return ipaddress.IPv4Address(x) in ipaddress.IPv4Network("%s/%d" % (t[1], t[2]), strict=False)
    if t[0] == "range":
        return ipn(t[1]) <= x <= ipn(t[2])
    size = 1 << (32 - t[3])
    return ipn(t[1]) <= x <= ipn(t[2]) + size - 1


def _dom_in(host, tok):
    host, tok = host.lower(), tok.lower()
    while tok.startswith(".."):
        tok = tok[1:]
    if tok.startswith("."):
        return host == tok[1:] or host.endswith(tok)
    return host == tok


def _port_in(p, tok):
    lo, _, hi = tok.partition("-")
    return int(lo) <= p <= int(hi or lo)


STD = ("GET", "HEAD", "POST", "PUT", "DELETE", "OPTIONS", "CONNECT", "PROPFIND")


def _meth_same(tok, m):
    if tok.upper() in STD or m.upper() in STD:
        return tok.upper() == m.upper()                      # standard method names: case is corrected by the proxy
    return tok == m                                          # extension methods are case-sensitive tokens


def reference(s, r, ports):
    """True = the reference first-match evaluation allows request r under the access section of s"""
    defs = {"all": ("src", [["word", "all"]])}
    for l in s["lines"]:
        if l["k"] == "acl":
            ty, toks = defs.setdefault(l["name"], (l["type"], []))
            toks.extend(l["toks"])
    host = r["h"].lower()
    addr = ipn(host) if is_numeric(host) else ipn(FWD[host])

    def holds(name):
        ty, toks = defs[name]
        if ty == "src":
            return any(_ip_in(ipn(r["c"]), t) for t in toks)
        if ty == "dst":
            return any(_ip_in(addr, t) for t in toks)
        if ty == "dom":
            names = [host] + ([REV.get(host, "none")] if is_numeric(host) else [])
            return any(_dom_in(n, t) for n in names for t in toks)
        if ty == "port":
            return any(_port_in(ports[r["p"]], subst(t, ports)) for t in toks)
        return any(_meth_same(t, r["m"]) for t in toks)

    rules = [(l["allow"], l["terms"]) for l in s["lines"] if l["k"] == "access" and l["terms"]]
    if not rules:
        rules = [(False, [[False, "all"]])]
    for allow, terms in rules:
        if all(holds(nm) != neg for neg, nm in terms):
            return allow
    return not rules[-1][0]


def split_obs(obs):
    body = obs.split(" ", 1)[1] if " " in obs else ""
    out, i = [], 0
    while i < len(body):
        if body[i] == "?":
            j = body.index(")", i)
            out.append(body[i:j + 1]); i = j + 1
        else:
            out.append(body[i]); i += 1
    return out


def oracle(s, obs):
    if s.get("fatal") or s.get("lenient"):
        return None                       # outside the property's quantifier (correspondence still applies)
    if not obs.startswith("res "):
        return ("oracle:no-service", "squid did not serve the scenario: " + obs[:200])
    ports = _state.get("ports") or [8001, 8005, 8009]
    toks = split_obs(obs)
    if len(toks) != len(s["reqs"]):
        return ("oracle:no-service", "observation does not cover every request: " + obs[:200])
    for i, (r, o) in enumerate(zip(s["reqs"], toks)):
        want = reference(s, r, ports)
        if (o == "F") == want and o in ("F", "D"):
            continue
        if o == "F":
            return ("oracle:denied-but-forwarded", "request #%d %s is denied by the reference first-match evaluation but reached the origin" % (i, json.dumps(r)))
        if o == "D":
            return ("oracle:allowed-but-denied", "request #%d %s is allowed by the reference first-match evaluation but got 403" % (i, json.dumps(r)))
        if want:
            return ("oracle:allowed-not-served", "request #%d %s is allowed but the transaction was %s" % (i, json.dumps(r), o))
        return ("oracle:bad-denial", "request #%d %s is denied by the reference but the transaction was %s (expected 403 "
                "ERR_ACCESS_DENIED and no origin arrival)" % (i, json.dumps(r), o))
    return None


def kind_of(s, o):
    if s.get("fatal"):
        return "fatal-config:" + o.split(" ")[0]
    t = split_obs(o) if o.startswith("res ") else []
    f = sum(1 for x in t if x == "F")
    _stats["forwarded"] = _stats.get("forwarded", 0) + f
    _stats["denied"] = _stats.get("denied", 0) + sum(1 for x in t if x == "D")
    _stats["other"] = _stats.get("other", 0) + sum(1 for x in t if x not in ("F", "D"))
    q = (100 * f // max(1, len(t))) // 25 * 25
    return "%s forwarded %s" % ("quirk-values" if s.get("lenient") else "served",
                                "100%" if q == 100 else "%d-%d%%" % (q, q + 24))


def run(res, tier):
    res.rule = ("random access sections: 2-6 named ACLs of types src/dst (IPv4 single, CIDR, range, range/CIDR, all/ipv4/ipv6), "
                "dstdomain (exact, .sub-domain, overlapping, 'none', IP literals, mixed case), port (single, ranges around the "
                "three origin ports) and method (standard names in any case, extension methods), ACLs extended by later lines, "
                "0-5 http_access allow/deny lines of 1-3 possibly negated names (+ 'all'), term-less lines, no lines at all; "
                "5% fatal configurations, 10% configurations with values Squid itself warns about (correspondence only); each "
                "configuration = one squid start + 25 sequential requests (6 client addresses x 12 methods x 9 hosts "
                "(named/numeric/no reverse DNS) x 3 origin ports); non-trivial = both forwarded and denied requests occurred")
    std.run_lab(res, PID, tier, area="access", gens=["accessmeth"], gen_scenarios=gen_scenarios, run_impl=run_impl,
                to_case=to_case, oracle=oracle, corr_name="AccessModel (access_run) vs the running squid",
                n_quick=24, n_thorough=600, seed_salt=45, kind_fn=kind_of,
                nontrivial_fn=lambda s, o: o.startswith("res ") and "F" in o and "D" in o)
    res.extra["requests_per_configuration"] = 25
    res.extra["requests_first_pass"] = dict(_stats)
    _state.clear()
    _stats.clear()
