(* Extract_hits.v — extraction of the cache-hit data path model (ExtrOcamlBasic only). *)
Require Import ExtrOcamlBasic.
Require Import SquidV.Bytes SquidV.HitsModel.
Extraction "m_hits.ml" seq_init seq_run layout_of cap_of has_meta mk_stream parse_stored adler32 chain_read step run init.
