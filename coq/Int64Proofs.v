(* Int64Proofs.v — the machine loop of Parser::Tokenizer::int64 (cutoff/cutlim test,
   accumulation in uint64_t) computes the arbitrary-precision value of the maximal digit
   run, never wraps, and fails exactly when that value does not fit. *)
Require Import SquidV.Bytes SquidV.TokModel.
Require Import ZifyBool.
Local Open Scope Z_scope.

Lemma digits_value_cons base d ds acc :
  digits_value base (d :: ds) acc = digits_value base ds (acc * base + d).
Proof. reflexivity. Qed.

Lemma digits_value_mono base ds acc :
  1 <= base -> 0 <= acc -> Forall (fun d => 0 <= d) ds -> acc <= digits_value base ds acc.
Proof.
  intros Hb. revert acc. induction ds as [|d ds IH]; intros acc Ha Hd; [cbn; lia|].
  rewrite digits_value_cons. inversion Hd as [|? ? Hd0 Hds]; subst.
  assert (acc <= acc * base + d) by nia.
  specialize (IH (acc * base + d) ltac:(lia) Hds). lia.
Qed.

Lemma digit_of_range base c d : digit_of base c = Some d -> 0 <= d < base.
Proof.
  unfold digit_of, digit_raw, is_digit, is_upper, is_lower.
  destruct ((48 <=? c)%N && (c <=? 57)%N) eqn:E1.
  { destruct (Z.of_N c - 48 >=? base) eqn:E; intros H; inversion H; subst; lia. }
  destruct ((65 <=? c)%N && (c <=? 90)%N) eqn:E2.
  { destruct (Z.of_N c - 55 >=? base) eqn:E; intros H; inversion H; subst; lia. }
  destruct ((97 <=? c)%N && (c <=? 122)%N) eqn:E3.
  { destruct (Z.of_N c - 87 >=? base) eqn:E; intros H; inversion H; subst; lia. }
  discriminate.
Qed.

Lemma digit_run_nonneg base l : Forall (fun d => 0 <= d) (digit_run base l).
Proof.
  induction l as [|c r IH]; cbn [digit_run]; [constructor|].
  destruct (digit_of base c) eqn:E; [|constructor].
  constructor; [apply digit_of_range in E; lia | exact IH].
Qed.

(* the cutoff/cutlim test is exactly "the next value would exceed cutfull" *)
Lemma cutoff_test base cutfull acc d :
  2 <= base -> 0 <= acc -> 0 <= d < base -> 0 <= cutfull ->
  ((acc >? cutfull / base) || ((acc =? cutfull / base) && (d >? cutfull mod base))) = (acc * base + d >? cutfull).
Proof.
  intros Hb Ha Hd Hc.
  pose proof (Z.div_mod cutfull base ltac:(lia)) as Hdm.
  pose proof (Z.mod_pos_bound cutfull base ltac:(lia)) as Hm.
  set (q := cutfull / base) in *. set (r := cutfull mod base) in *.
  destruct (acc >? q) eqn:E1; destruct (acc =? q) eqn:E2; destruct (d >? r) eqn:E3;
    destruct (acc * base + d >? cutfull) eqn:E4; cbn; try reflexivity; exfalso; nia.
Qed.

Section Loop.
  Variables (base cutfull : Z).
  Hypothesis Hbase : 2 <= base.
  Hypothesis Hcut0 : 0 <= cutfull.
  Hypothesis Hcut64 : cutfull < two64.

  Let cutoff := cutfull / base.
  Let cutlim := cutfull mod base.

  (* state st faithfully represents the exact value V of the digits eaten so far *)
  Definition rep (st : i64st) (V : Z) : Prop :=
    0 <= V /\
    ((0 <= st_any st /\ st_acc st = V /\ V <= cutfull) \/ (st_any st = -1 /\ V > cutfull)).

  Lemma loop_exact l : forall st V, rep st V ->
    let st' := int64_loop base cutoff cutlim l st in
    let ds := digit_run base l in
    rep st' (digits_value base ds V) /\
    st_n st' = (st_n st + lenN ds)%N /\
    (ds = [] -> st' = st) /\
    (ds <> [] -> st_any st' <> 0).
  Proof.
    induction l as [|c r IH]; intros st V Hrep; cbn [int64_loop digit_run].
    { cbn. repeat split; try tauto; try lia; destruct Hrep; tauto. }
    destruct (digit_of base c) as [d|] eqn:Ed.
    2:{ cbn. repeat split; try tauto; try lia; destruct Hrep; tauto. }
    pose proof (digit_of_range _ _ _ Ed) as Hd.
    destruct Hrep as [HV Hrep].
    set (st1 := if (st_any st <? 0) || (st_acc st >? cutoff) || ((st_acc st =? cutoff) && (d >? cutlim))
                then {| st_any := -1; st_acc := st_acc st; st_n := N.succ (st_n st) |}
                else {| st_any := 1; st_acc := (st_acc st * base + d) mod two64; st_n := N.succ (st_n st) |}).
    assert (Hrep1 : rep st1 (V * base + d) /\ st_n st1 = N.succ (st_n st) /\ st_any st1 <> 0).
    { unfold st1, rep. destruct Hrep as [(Hany & Hacc & Hle) | (Hany & Hgt)].
      - replace (st_any st <? 0) with false by lia. cbn [orb].
        subst cutoff cutlim. rewrite cutoff_test by lia. rewrite Hacc.
        assert (0 <= V * base + d) by nia.
        destruct (V * base + d >? cutfull) eqn:E; cbn [st_any st_acc st_n].
        + split; [|split; [reflexivity|lia]]. split; [lia|]. right. split; [reflexivity|lia].
        + split; [|split; [reflexivity|lia]]. split; [lia|]. left. split; [lia|]. split; [|lia].
          apply Z.mod_small. lia.
      - replace (st_any st <? 0) with true by lia. cbn [orb st_any st_acc st_n].
        assert (V <= V * base + d) by nia.
        split; [|split; [reflexivity|lia]]. split; [lia|]. right. split; [reflexivity|lia]. }
    destruct Hrep1 as (Hr1 & Hn1 & Ha1).
    specialize (IH st1 (V * base + d) Hr1). cbn zeta in IH.
    destruct IH as (IHrep & IHn & IHnil & IHne).
    rewrite digits_value_cons. cbn [lenN].
    split; [exact IHrep|]. split; [rewrite IHn, Hn1; lia|]. split; [discriminate|].
    intros _. destruct (digit_run base r) eqn:Edr.
    + rewrite (IHnil eq_refl). exact Ha1.
    + apply IHne. discriminate.
  Qed.
End Loop.

(* Tokenizer::int64 after sign/prefix handling = arbitrary-precision reference *)
Theorem int64_core_exact base neg r2 n2 :
  2 <= base -> int64_core base neg r2 n2 = ref_core base neg r2 n2.
Proof.
  intros Hb. unfold int64_core, ref_core.
  destruct r2 as [|c r]; [reflexivity|].
  set (cutfull := if neg then two63 else two63 - 1).
  assert (Hc0 : 0 <= cutfull) by (unfold cutfull, two63; destruct neg; lia).
  assert (Hc64 : cutfull < two64) by (unfold cutfull, two63, two64; destruct neg; lia).
  pose proof (loop_exact base cutfull Hb Hc0 Hc64 (c :: r) {| st_any := 0; st_acc := 0; st_n := n2 |} 0) as H.
  cbn zeta in H. specialize (H ltac:(unfold rep; cbn; lia)).
  destruct H as (Hrep & Hn & Hnil & Hne).
  set (st' := int64_loop base (cutfull / base) (cutfull mod base) (c :: r) _) in *.
  set (ds := digit_run base (c :: r)) in *.
  destruct ds as [|d ds'] eqn:Eds.
  { rewrite (Hnil eq_refl). reflexivity. }
  specialize (Hne ltac:(discriminate)).
  destruct Hrep as (HV & [(Hany & Hacc & Hle) | (Hany & Hgt)]).
  - replace (st_any st' =? 0) with false by lia. replace (st_any st' <? 0) with false by lia.
    replace (digits_value base (d :: ds') 0 >? cutfull) with false by lia.
    rewrite Hacc, Hn. reflexivity.
  - replace (st_any st' =? 0) with false by lia. replace (st_any st' <? 0) with true by lia.
    replace (digits_value base (d :: ds') 0 >? cutfull) with true by lia. reflexivity.
Qed.

Definition base_ok (base0 : Z) : Prop := base0 = 0 \/ 2 <= base0 <= 36.

Theorem tok_int64_exact base0 allowSign limit buf :
  base_ok base0 -> tok_int64 base0 allowSign limit buf = ref_int64 base0 allowSign limit buf.
Proof.
  intros Hb. unfold tok_int64, ref_int64, int64_front.
  destruct buf as [|b0 buf']; [reflexivity|].
  destruct (limit =? 0)%N; [reflexivity|].
  destruct (if allowSign then _ else _) as [[[neg r1] n1] stop1].
  destruct stop1; [reflexivity|].
  destruct (match r1 with z :: x :: r => _ | _ => _ end) as [[base1 r2] n2] eqn:E.
  assert (Hb1 : base1 = base0 \/ base1 = 16).
  { destruct r1 as [|a [|x r]]; try (inversion E; subst; tauto).
    destruct ((a =? 48)%N && ((base0 =? 0) || (base0 =? 16)) && tolower_is_x x); inversion E; subst; tauto. }
  apply int64_core_exact.
  destruct (base1 =? 0) eqn:E0.
  - destruct r2 as [|z ?]; [lia|]. destruct (z =? 48)%N; lia.
  - unfold base_ok in Hb. lia.
Qed.

(* what the reference delivers: the value of exactly the consumed digits, in range *)
Theorem ref_core_sound base neg r2 n2 v n :
  2 <= base -> ref_core base neg r2 n2 = Some (v, n) ->
  let ds := digit_run base r2 in
  ds <> [] /\ n = (n2 + lenN ds)%N /\
  v = (if neg then - digits_value base ds 0 else digits_value base ds 0) /\
  - two63 <= v < two63.
Proof.
  intros Hb. unfold ref_core. cbn zeta.
  pose proof (digit_run_nonneg base r2) as Hnn.
  destruct (digit_run base r2) as [|d ds] eqn:E; [discriminate|].
  pose proof (digits_value_mono base (d :: ds) 0 ltac:(lia) ltac:(lia) Hnn) as Hm.
  set (V := digits_value base (d :: ds) 0) in *. clearbody V.
  destruct (V >? (if neg then two63 else two63 - 1)) eqn:Ec; [discriminate|].
  intros H; injection H as Hv Hn; subst v n. split; [discriminate|]. split; [reflexivity|]. split; [reflexivity|].
  unfold two63 in *. destruct neg; lia.
Qed.

Theorem ref_core_none base neg r2 n2 :
  ref_core base neg r2 n2 = None ->
  digit_run base r2 = [] \/ digits_value base (digit_run base r2) 0 > (if neg then two63 else two63 - 1).
Proof.
  unfold ref_core. destruct (digit_run base r2) as [|d ds]; [tauto|].
  destruct (_ >? _) eqn:E; [intros _; right; lia|discriminate].
Qed.


Theorem int64_core_sound base neg r2 n2 v n :
  2 <= base -> int64_core base neg r2 n2 = Some (v, n) ->
  let ds := digit_run base r2 in
  ds <> [] /\ n = (n2 + lenN ds)%N /\
  v = (if neg then - digits_value base ds 0 else digits_value base ds 0) /\
  - two63 <= v < two63.
Proof. intros Hb. rewrite int64_core_exact by exact Hb. apply ref_core_sound. exact Hb. Qed.

Theorem int64_core_none base neg r2 n2 :
  2 <= base -> int64_core base neg r2 n2 = None ->
  digit_run base r2 = [] \/ digits_value base (digit_run base r2) 0 > (if neg then two63 else two63 - 1).
Proof. intros Hb. rewrite int64_core_exact by exact Hb. apply ref_core_none. Qed.

(* the common case used by the HTTP parsers: base 10, no sign *)
Theorem tok_int64_dec_unsigned limit buf :
  tok_int64 10 false limit buf =
  match digit_run 10 (takeN limit buf) with
  | [] => None
  | ds => let v := digits_value 10 ds 0 in
          if v >? two63 - 1 then None else Some (v, lenN ds)
  end.
Proof.
  rewrite tok_int64_exact by (right; lia).
  unfold ref_int64, int64_front.
  destruct buf as [|b0 buf']; [reflexivity|].
  destruct (limit =? 0)%N eqn:El.
  { apply N.eqb_eq in El. subst limit. reflexivity. }
  set (range := takeN limit (b0 :: buf')).
  cbn beta iota.
  assert (Hfront : forall r1 : bytes,
    (let '(base1, r2, n2) :=
       match r1 with
       | z :: x :: r => if (z =? 48)%N && ((10 =? 0) || (10 =? 16)) && tolower_is_x x
                        then (16, r, (0 + 2)%N) else (10, r1, 0%N)
       | _ => (10, r1, 0%N)
       end in
     ref_core (if base1 =? 0 then match r2 with z :: _ => if (z =? 48)%N then 8 else 10 | [] => 10 end else base1)
              false r2 n2) = ref_core 10 false r1 0%N).
  { intros r1. destruct r1 as [|z [|x r]]; try reflexivity.
    replace ((z =? 48)%N && ((10 =? 0) || (10 =? 16)) && tolower_is_x x) with false; [reflexivity|].
    cbn. now rewrite andb_false_r. }
  rewrite Hfront. unfold ref_core.
  destruct (digit_run 10 range) as [|d ds]; [reflexivity|].
  cbn zeta. destruct (_ >? _); [reflexivity|]. now rewrite N.add_0_l.
Qed.

(* httpHeaderParseOffset / httpHeaderParseInt (strtoll/strtol semantics) *)
Theorem parse_offset_sound s v n :
  parse_offset s = Some (v, n) -> - two63 <= v < two63 /\ (0 < n)%N.
Proof.
  unfold parse_offset, strtoll10.
  destruct (skip_space (c_string s) 0%N) as [l1 n1].
  destruct (match l1 with 45%N :: r => _ | 43%N :: r => _ | _ => _ end) as [[neg l2] n2].
  pose proof (digit_run_nonneg 10 l2) as Hnn.
  destruct (digit_run 10 l2) as [|d ds] eqn:E; [discriminate|].
  pose proof (digits_value_mono 10 (d :: ds) 0 ltac:(lia) ltac:(lia) Hnn) as Hm.
  set (V := digits_value 10 (d :: ds) 0) in *. clearbody V.
  destruct neg.
  - destruct (V >? two63) eqn:Ec; [discriminate|].
    destruct ((n2 + lenN (d :: ds)) =? 0)%N eqn:En; [discriminate|].
    intros H; injection H as Hv Hn; subst. unfold two63 in *. lia.
  - destruct (V >? two63 - 1) eqn:Ec; [discriminate|].
    destruct ((n2 + lenN (d :: ds)) =? 0)%N eqn:En; [discriminate|].
    intros H; injection H as Hv Hn; subst. unfold two63 in *. lia.
Qed.

Theorem parse_int_in_int_range s v : parse_int s = Some v -> - two31 <= v < two31.
Proof.
  unfold parse_int. destruct (strtoll10 s) as [[v0 n0] er].
  destruct (er || (v0 <? - two31) || (v0 >? two31 - 1)) eqn:E; [discriminate|].
  destruct ((v0 =? 0) && _); [discriminate|].
  intros H; injection H as Hv; subst. unfold two31 in *. lia.
Qed.
