(* RespparseProofs.v — proofs about RespparseModel.v (C23).
   1. a generic lemma: stability under extension + checkpoint commutation
      => the read loop is independent of segmentation;
   2. stability / commutation lemmas for every stage of the response parser;
   3. the status-line grammar characterisation and the HTTP/0.9 rule. *)
Require Import SquidV.Bytes SquidV.TokModel SquidV.TokProofs SquidV.Int64Proofs SquidV.RespparseModel.
Require Import SquidV.gen.CharSets_gen SquidV.gen.RespTabs_gen.
Require Import ZifyBool ZifyN ZifyNat.
Local Open Scope N_scope.

(* ================= 1. generic incremental-parsing lemma ================= *)
Section Incremental.
  Variable P : pst -> bytes -> outcome.
  Variable Inv : pst -> Prop.
  Hypothesis done_stable : forall s b f rest, Inv s -> P s b = Done f rest ->
    forall x, P s (b ++ x) = Done f (rest ++ x).
  Hypothesis bad_stable : forall s b c st, Inv s -> P s b = Bad c st ->
    forall x, P s (b ++ x) = Bad c st.
  Hypothesis more_commutes : forall s b s1 keep, Inv s -> P s b = More s1 keep ->
    Inv s1 /\ forall x, P s (b ++ x) = P s1 (keep ++ x).

  Fixpoint gdrive (s : pst) (buf : bytes) (segs : list bytes) : outcome :=
    match segs with
    | [] => More s buf
    | x :: more =>
        match P s (buf ++ x) with
        | More s1 keep => gdrive s1 keep more
        | Done f rest => Done f (rest ++ concat more)
        | Bad c st => Bad c st
        end
    end.

  Lemma gdrive_whole : forall segs s buf, Inv s -> segs <> [] ->
    gdrive s buf segs = P s (buf ++ concat segs).
  Proof.
    induction segs as [|x more IH]; intros s buf Hinv Hne; [congruence|].
    cbn [gdrive concat]. destruct (P s (buf ++ x)) as [s1 keep|f rest|c st] eqn:E.
    - destruct (more_commutes _ _ _ _ Hinv E) as [Hinv1 Hc].
      destruct more as [|y more'].
      + cbn [gdrive concat]. rewrite app_nil_r. symmetry. exact E.
      + rewrite IH by (auto; discriminate). rewrite app_assoc. symmetry. apply Hc.
    - rewrite app_assoc. symmetry. apply done_stable; assumption.
    - rewrite app_assoc. symmetry. apply bad_stable; assumption.
  Qed.
End Incremental.

(* ================= 2. list / tokenizer stability lemmas ================= *)
Lemma takeN_app_le {A} n (a b : list A) : n <= lenN a -> takeN n (a ++ b) = takeN n a.
Proof.
  revert n; induction a as [|x a IH]; intros n H; cbn [lenN] in H.
  - assert (n = 0) by lia. subst. cbn [app]. rewrite takeN_0. reflexivity.
  - cbn [app takeN]. destruct (n =? 0) eqn:E; [reflexivity|]. apply N.eqb_neq in E.
    rewrite IH by lia. reflexivity.
Qed.

Lemma dropN_app_le {A} n (a b : list A) : n <= lenN a -> dropN n (a ++ b) = dropN n a ++ b.
Proof.
  revert n; induction a as [|x a IH]; intros n H; cbn [lenN] in H.
  - assert (n = 0) by lia. subst. cbn [app]. rewrite dropN_0. reflexivity.
  - cbn [app dropN]. destruct (n =? 0) eqn:E; [reflexivity|]. apply N.eqb_neq in E.
    rewrite IH by lia. reflexivity.
Qed.

Lemma dropN_nonnil_lt {A} n (l : list A) : dropN n l <> [] -> n < lenN l.
Proof.
  intros H. destruct (N.lt_ge_cases n (lenN l)) as [|Hge]; [assumption|].
  rewrite dropN_all in H by lia. congruence.
Qed.

Lemma starts_with_app l p x : starts_with l p = true -> starts_with (l ++ x) p = true.
Proof.
  revert l; induction p as [|y p IH]; intros l H; [destruct (l ++ x); reflexivity|].
  destruct l as [|c l]; cbn [starts_with app] in *; [discriminate|].
  apply andb_true_iff in H as [H1 H2]. rewrite H1, IH by assumption. reflexivity.
Qed.

Lemma starts_with_len l p : starts_with l p = true -> lenN p <= lenN l.
Proof.
  revert l; induction p as [|y p IH]; intros l H; cbn [lenN]; [lia|].
  destruct l as [|c l]; cbn [starts_with lenN] in *; [discriminate|].
  apply andb_true_iff in H as [_ H2]. apply IH in H2. lia.
Qed.

(* two strings neither of which is a prefix of the other stay so under extension *)
Lemma incomparable_app l p x :
  starts_with l p = false -> starts_with p l = false ->
  starts_with (l ++ x) p = false /\ starts_with p (l ++ x) = false.
Proof.
  revert p; induction l as [|c l IH]; intros p H1 H2.
  - destruct p; cbn in H2; discriminate.
  - destruct p as [|y p]; [cbn in H1; discriminate|].
    cbn [starts_with app] in *. rewrite (N.eqb_sym y c) in *.
    destruct (c =? y) eqn:E; cbn [andb] in *; [|split; reflexivity].
    apply IH; assumption.
Qed.

(* a prefix at least as long as the whole is the whole *)
Lemma starts_with_long l p : starts_with p l = true -> lenN p <= lenN l -> starts_with l p = true.
Proof.
  revert p; induction l as [|c l IH]; intros p H Hl.
  - destruct p; [reflexivity| cbn [lenN] in Hl; lia].
  - destruct p as [|y p]; [reflexivity|]. cbn [starts_with lenN] in *.
    apply andb_true_iff in H as [H1 H2]. rewrite (N.eqb_sym c y), H1. cbn [andb]. apply IH; [assumption|lia].
Qed.

Lemma tok_skip_true_stable t b r x :
  tok_skip t b = (true, r) -> tok_skip t (b ++ x) = (true, r ++ x).
Proof.
  unfold tok_skip. destruct (starts_with b t) eqn:E; [|discriminate].
  intros H. inversion H as [[H1 H2]]. rewrite (starts_with_app _ _ x E), H1.
  rewrite dropN_app_le by (apply starts_with_len; exact E). reflexivity.
Qed.

Lemma tok_skip_nonempty t b : t <> [] -> tok_skip t b = (starts_with b t, if starts_with b t then dropN (lenN t) b else b).
Proof.
  intros Ht. unfold tok_skip. destruct (starts_with b t); [|reflexivity].
  destruct t; [congruence|]. cbn [lenN]. destruct (N.succ (lenN t) =? 0) eqn:E; [apply N.eqb_eq in E; lia|reflexivity].
Qed.

Lemma tok_skipOne_true_stable set b r x :
  tok_skipOne set b = (true, r) -> tok_skipOne set (b ++ x) = (true, r ++ x).
Proof.
  destruct b as [|c b]; cbn [tok_skipOne app]; [discriminate|].
  destruct (set c); [|discriminate]. intros H; inversion H; reflexivity.
Qed.

Lemma tok_skipOne_false_stable set b r x :
  tok_skipOne set b = (false, r) -> b <> [] -> tok_skipOne set (b ++ x) = (false, b ++ x).
Proof.
  destruct b as [|c b]; cbn [tok_skipOne app]; [congruence|].
  destruct (set c); [discriminate|]. reflexivity.
Qed.

Lemma tok_skipOne_true_nonnil set b r : tok_skipOne set b = (true, r) -> b <> [].
Proof. destruct b; cbn; [discriminate|discriminate]. Qed.

(* ---- span / prefix ---- *)
Lemma span_app_stop {A} (p : A -> bool) u v a y b :
  span p u = (a, y :: b) -> span p (u ++ v) = (a, (y :: b) ++ v).
Proof.
  revert a; induction u as [|c u IH]; intros a H; cbn [span app] in *; [discriminate|].
  destruct (p c) eqn:E.
  - destruct (span p u) as [a' b'] eqn:S. inversion H; subst.
    rewrite (IH a' eq_refl). reflexivity.
  - inversion H; subst. reflexivity.
Qed.

Lemma takeN_app {A} n (a b : list A) : takeN n (a ++ b) = takeN n a ++ takeN (n - lenN a) b.
Proof.
  revert n; induction a as [|x a IH]; intros n; cbn [app takeN lenN].
  - rewrite N.sub_0_r. reflexivity.
  - destruct (n =? 0) eqn:E.
    + apply N.eqb_eq in E; subst. cbn [app]. rewrite takeN_0. reflexivity.
    + apply N.eqb_neq in E. rewrite IH. cbn [app].
      replace (n - N.succ (lenN a)) with (N.pred n - lenN a) by lia. reflexivity.
Qed.

Lemma tok_prefix_stable set L t tk r x :
  tok_prefix set L t = Some (tk, r) -> r <> [] -> tok_prefix set L (t ++ x) = Some (tk, r ++ x).
Proof.
  rewrite !tok_prefix_eq_spec. unfold prefix_spec. intros H Hr.
  pose proof (span_app set (takeN L t)) as Happ.
  pose proof (lenN_takeN L t) as Hlen.
  destruct (span set (takeN L t)) as [a b] eqn:S; cbn [fst snd] in *.
  destruct a as [|a0 a]; [discriminate|]. inversion H; subst tk r; clear H.
  assert (Hal : lenN (a0 :: a) < lenN t) by (apply dropN_nonnil_lt; exact Hr).
  destruct b as [|y b].
  - (* the whole window matched, so the window is shorter than t *)
    rewrite app_nil_r in Happ. rewrite <- Happ in Hlen.
    assert (HL : L <= lenN t) by lia.
    rewrite takeN_app_le by exact HL. rewrite S. cbn [fst].
    rewrite dropN_app_le by lia. reflexivity.
  - rewrite takeN_app. rewrite (span_app_stop _ _ _ _ _ _ S). cbn [fst].
    rewrite dropN_app_le by lia. reflexivity.
Qed.

Lemma tok_prefix_none_stable set L t x :
  tok_prefix set L t = None -> t <> [] -> tok_prefix set L (t ++ x) = None.
Proof.
  intros H Ht. destruct (tok_prefix_none _ _ _ H) as [H0|[H0|H0]]; [congruence| |].
  - subst L. rewrite tok_prefix_eq_spec. unfold prefix_spec. rewrite takeN_0. reflexivity.
  - destruct t as [|c t]; [congruence|]. rewrite tok_prefix_eq_spec. unfold prefix_spec.
    cbn [app takeN]. destruct (L =? 0); [reflexivity|]. cbn [span]. rewrite H0. reflexivity.
Qed.

(* ---- Tokenizer::int64(base 10, no sign, small limit) ---- *)
Lemma digit_of_10 c : digit_of 10 c = if is_digit c then Some (Z.of_N c - 48)%Z else None.
Proof.
  unfold digit_of, digit_raw, is_digit, is_upper, is_lower.
  destruct ((48 <=? c) && (c <=? 57)) eqn:E1.
  - destruct (Z.of_N c - 48 >=? 10)%Z eqn:E2; [lia|reflexivity].
  - destruct ((65 <=? c) && (c <=? 90)) eqn:E2.
    + destruct (Z.of_N c - 55 >=? 10)%Z eqn:E3; [reflexivity|lia].
    + destruct ((97 <=? c) && (c <=? 122)) eqn:E3; [|reflexivity].
      destruct (Z.of_N c - 87 >=? 10)%Z eqn:E4; [reflexivity|lia].
Qed.

Definition int_of_run (L : N) (ds : list Z) : option (Z * N) :=
  if L =? 0 then None
  else match ds with
       | [] => None
       | _ :: _ => if (digits_value 10 ds 0 >? two63 - 1)%Z then None
                   else Some (digits_value 10 ds 0, lenN ds)
       end.

Lemma int64_10_run L buf : tok_int64 10 false L buf = int_of_run L (digit_run 10 (takeN L buf)).
Proof.
  rewrite tok_int64_exact by (right; lia).
  unfold ref_int64, int64_front, int_of_run.
  destruct buf as [|c buf].
  - cbn [takeN digit_run]. destruct (L =? 0); reflexivity.
  - destruct (L =? 0) eqn:EL; [reflexivity|].
    remember (takeN L (c :: buf)) as range eqn:Hr.
    assert (Hm : match range with
                 | z :: x :: r => if (z =? 48) && (((10 =? 0)%Z) || ((10 =? 16)%Z)) && tolower_is_x x
                                  then (16%Z, r, (0 + 2)%N) else (10%Z, range, 0%N)
                 | _ => (10%Z, range, 0%N)
                 end = (10%Z, range, 0%N)).
    { destruct range as [|z [|x r]]; try reflexivity.
      replace ((10 =? 0)%Z || (10 =? 16)%Z) with false by reflexivity.
      rewrite andb_false_r. reflexivity. }
    rewrite Hm. cbn [Z.eqb]. unfold ref_core.
    destruct (digit_run 10 range) as [|d ds]; [reflexivity|].
    cbn [negb]. destruct (digits_value 10 (d :: ds) 0 >? two63 - 1)%Z; [reflexivity|].
    rewrite N.add_0_l. reflexivity.
Qed.

Lemma digit_run_take_app L b x :
  dropN (lenN (digit_run 10 (takeN L b))) b <> [] ->
  digit_run 10 (takeN L (b ++ x)) = digit_run 10 (takeN L b).
Proof.
  revert L; induction b as [|c r IH]; intros L H.
  - cbn [takeN digit_run lenN dropN] in H. congruence.
  - cbn [app takeN] in *. destruct (L =? 0) eqn:EL; [reflexivity|].
    cbn [digit_run] in *. destruct (digit_of 10 c) eqn:Ed; [|reflexivity].
    f_equal. apply IH. cbn [lenN dropN] in H.
    destruct (N.succ (lenN (digit_run 10 (takeN (N.pred L) r))) =? 0) eqn:E0; [apply N.eqb_eq in E0; lia|].
    rewrite N.pred_succ in H. exact H.
Qed.

Lemma digit_run_take_len L b : lenN (digit_run 10 (takeN L b)) <= N.min L (lenN b).
Proof.
  revert L; induction b as [|c r IH]; intros L; cbn [takeN digit_run lenN]; [lia|].
  destruct (L =? 0) eqn:EL; [cbn [digit_run lenN]; lia|]. apply N.eqb_neq in EL.
  cbn [digit_run]. destruct (digit_of 10 c); cbn [lenN]; [|lia].
  specialize (IH (N.pred L)). lia.
Qed.

Lemma int64_10_some_len L buf v k : tok_int64 10 false L buf = Some (v, k) -> k <= lenN buf.
Proof.
  rewrite int64_10_run. unfold int_of_run. destruct (L =? 0); [discriminate|].
  pose proof (digit_run_take_len L buf) as Hl.
  destruct (digit_run 10 (takeN L buf)) as [|d ds]; [discriminate|].
  destruct (digits_value 10 (d :: ds) 0 >? two63 - 1)%Z; [discriminate|].
  intros H; inversion H; subst. cbn [lenN] in *. lia.
Qed.

(* the result does not change when bytes are appended behind a byte that already ended the digit run *)
Lemma int64_10_some_stable L buf v k x :
  tok_int64 10 false L buf = Some (v, k) -> dropN k buf <> [] ->
  tok_int64 10 false L (buf ++ x) = Some (v, k).
Proof.
  intros H Hd. rewrite int64_10_run in *.
  assert (Hk : k = lenN (digit_run 10 (takeN L buf))).
  { unfold int_of_run in H. destruct (L =? 0); [discriminate|].
    destruct (digit_run 10 (takeN L buf)) as [|d ds]; [discriminate|].
    destruct (digits_value 10 (d :: ds) 0 >? two63 - 1)%Z; [discriminate|]. inversion H; reflexivity. }
  rewrite digit_run_take_app by (rewrite <- Hk; exact Hd). exact H.
Qed.

(* at most three decimal digits never overflow *)
Lemma digits3_bound ds : lenN ds <= 3 -> Forall (fun d => 0 <= d < 10)%Z ds ->
  (0 <= digits_value 10 ds 0 <= 999)%Z.
Proof.
  intros Hl Hf.
  destruct ds as [|d1 [|d2 [|d3 [|d4 ds]]]]; cbn [lenN] in Hl; try lia;
    repeat match goal with H : Forall _ (_ :: _) |- _ => inversion H; clear H; subst end;
    unfold digits_value; cbn [fold_left]; lia.
Qed.

Lemma digit_run_range l : Forall (fun d => 0 <= d < 10)%Z (digit_run 10 l).
Proof.
  induction l as [|c r IH]; cbn [digit_run]; [constructor|].
  destruct (digit_of 10 c) eqn:E; [|constructor].
  constructor; [apply (digit_of_range 10 c z E)|exact IH].
Qed.

Lemma int_of_run_small L buf : L <= 3 ->
  int_of_run L (digit_run 10 (takeN L buf)) =
  if L =? 0 then None else
  match digit_run 10 (takeN L buf) with
  | [] => None
  | ds => Some (digits_value 10 ds 0, lenN ds)
  end.
Proof.
  intros HL. unfold int_of_run. destruct (L =? 0); [reflexivity|].
  pose proof (digit_run_take_len L buf) as Hlen.
  pose proof (digit_run_range (takeN L buf)) as Hr.
  destruct (digit_run 10 (takeN L buf)) as [|d ds]; [reflexivity|].
  pose proof (digits3_bound (d :: ds) ltac:(lia) Hr) as Hb.
  destruct (digits_value 10 (d :: ds) 0 >? two63 - 1)%Z eqn:E; [unfold two63 in E; lia|reflexivity].
Qed.

Lemma int64_10_none_stable L buf x : L <= 3 ->
  tok_int64 10 false L buf = None -> buf <> [] -> tok_int64 10 false L (buf ++ x) = None.
Proof.
  intros HL H Hb. rewrite int64_10_run in *. rewrite int_of_run_small in * by exact HL.
  destruct (L =? 0); [reflexivity|].
  destruct (digit_run 10 (takeN L buf)) as [|d ds] eqn:Er; [|discriminate].
  rewrite digit_run_take_app by (rewrite Er; cbn [lenN]; rewrite dropN_0; exact Hb).
  rewrite Er. reflexivity.
Qed.

(* ---- skipRequired / skipLineTerminator ---- *)
Lemma skip_required_spec t b : t <> [] ->
  skip_required t b = if starts_with b t then SkOk (dropN (lenN t) b)
                      else if starts_with t b then SkMore else SkBad.
Proof.
  intros Ht. unfold skip_required. rewrite tok_skip_nonempty by exact Ht.
  assert (E0 : (lenN t =? 0) = false) by (destruct t; [congruence|cbn [lenN]; apply N.eqb_neq; lia]).
  rewrite E0. destruct (starts_with b t); cbn [orb]; reflexivity.
Qed.

Lemma skip_required_ok_stable t b r x : t <> [] ->
  skip_required t b = SkOk r -> skip_required t (b ++ x) = SkOk (r ++ x).
Proof.
  intros Ht. rewrite !skip_required_spec by exact Ht.
  destruct (starts_with b t) eqn:E.
  - intros H; inversion H; subst. rewrite (starts_with_app _ _ x E).
    rewrite dropN_app_le by (apply starts_with_len; exact E). reflexivity.
  - destruct (starts_with t b); discriminate.
Qed.

Lemma skip_required_bad_stable t b x : t <> [] ->
  skip_required t b = SkBad -> skip_required t (b ++ x) = SkBad.
Proof.
  intros Ht. rewrite !skip_required_spec by exact Ht.
  destruct (starts_with b t) eqn:E1; [discriminate|].
  destruct (starts_with t b) eqn:E2; [discriminate|]. intros _.
  destruct (incomparable_app _ _ x E1 E2) as [H1 H2]. rewrite H1, H2. reflexivity.
Qed.

Lemma resp_crlf_nonnil : resp_crlf <> [].
Proof. discriminate. Qed.

Lemma skip_line_terminator_nil relaxed : skip_line_terminator relaxed [] = SkMore.
Proof. destruct relaxed; reflexivity. Qed.

Lemma skip_line_terminator_ok_stable relaxed b r x :
  skip_line_terminator relaxed b = SkOk r -> skip_line_terminator relaxed (b ++ x) = SkOk (r ++ x).
Proof.
  destruct b as [|c b]; [rewrite skip_line_terminator_nil; discriminate|].
  unfold skip_line_terminator. cbn [tok_skipOne app].
  destruct (cs_LF c); destruct relaxed; cbn [andb];
    try (intros H; inversion H; reflexivity);
    intros H; apply (skip_required_ok_stable _ (c :: b) _ x resp_crlf_nonnil H).
Qed.

Lemma skip_line_terminator_bad_stable relaxed b x :
  skip_line_terminator relaxed b = SkBad -> skip_line_terminator relaxed (b ++ x) = SkBad.
Proof.
  destruct b as [|c b]; [rewrite skip_line_terminator_nil; discriminate|].
  unfold skip_line_terminator. cbn [tok_skipOne app].
  destruct (cs_LF c); destruct relaxed; cbn [andb];
    try discriminate;
    intros H; apply (skip_required_bad_stable _ (c :: b) x resp_crlf_nonnil H).
Qed.

(* ---- ParseResponseStatus ---- *)
Lemma parse_status_ok_stable relaxed b v r x :
  parse_status relaxed b = PSok v r -> parse_status relaxed (b ++ x) = PSok v (r ++ x).
Proof.
  unfold parse_status. destruct (tok_int64 10 false 3 b) as [[v0 k]|] eqn:E.
  - destruct (tok_skipOne (delim relaxed) (dropN k b)) as [ok b2] eqn:Es. destruct ok.
    + intros H. assert (Hn : dropN k b <> []) by (eapply tok_skipOne_true_nonnil; eassumption).
      rewrite (int64_10_some_stable _ _ _ _ x E Hn).
      rewrite dropN_app_le by (eapply int64_10_some_len; eassumption).
      rewrite (tok_skipOne_true_stable _ _ _ x Es).
      destruct (Z.to_N v0 <=? 99); [discriminate|]. destruct (600 <=? Z.to_N v0); [discriminate|].
      inversion H; reflexivity.
    + destruct (dropN k b); discriminate.
  - destruct b; discriminate.
Qed.

Lemma parse_status_bad_stable relaxed b o x :
  parse_status relaxed b = PSbad o -> parse_status relaxed (b ++ x) = PSbad o.
Proof.
  unfold parse_status. destruct (tok_int64 10 false 3 b) as [[v0 k]|] eqn:E.
  - destruct (tok_skipOne (delim relaxed) (dropN k b)) as [ok b2] eqn:Es. destruct ok.
    + intros H. assert (Hn : dropN k b <> []) by (eapply tok_skipOne_true_nonnil; eassumption).
      rewrite (int64_10_some_stable _ _ _ _ x E Hn).
      rewrite dropN_app_le by (eapply int64_10_some_len; eassumption).
      rewrite (tok_skipOne_true_stable _ _ _ x Es).
      destruct (Z.to_N v0 <=? 99); [exact H|]. destruct (600 <=? Z.to_N v0); [exact H|discriminate].
    + destruct (dropN k b) as [|y r] eqn:Ed; [discriminate|]. intros H.
      assert (Hn : dropN k b <> []) by (rewrite Ed; discriminate).
      rewrite (int64_10_some_stable _ _ _ _ x E Hn).
      rewrite dropN_app_le by (eapply int64_10_some_len; eassumption).
      rewrite Ed. rewrite (tok_skipOne_false_stable _ _ _ x Es ltac:(discriminate)). cbn [app]. exact H.
  - destruct b as [|c b]; [discriminate|]. intros H.
    rewrite (int64_10_none_stable 3 (c :: b) x ltac:(lia) E ltac:(discriminate)). exact H.
Qed.

(* ---- reason phrase + line terminator ---- *)
Lemma set_reason_id s : p_reason s = [] -> set_reason s [] = s.
Proof. destruct s; cbn; intros ->; reflexivity. Qed.

Lemma reason_and_eol_ok_stable relaxed s t buf s' k x buf' :
  reason_and_eol relaxed s t buf = (1%Z, s', k) ->
  reason_and_eol relaxed s (t ++ x) buf' = (1%Z, s', k ++ x).
Proof.
  unfold reason_and_eol.
  destruct (tok_prefix resp_phraseChars npos t) as [[tk r]|] eqn:Ep.
  - destruct (skip_line_terminator relaxed r) as [t2| |] eqn:Et; try discriminate.
    intros H; inversion H; subst.
    assert (Hr : r <> []) by (intros ->; rewrite skip_line_terminator_nil in Et; discriminate).
    rewrite (tok_prefix_stable _ _ _ _ _ x Ep Hr).
    rewrite (skip_line_terminator_ok_stable _ _ _ x Et). reflexivity.
  - destruct (skip_line_terminator relaxed t) as [t2| |] eqn:Et; try discriminate.
    intros H; inversion H; subst.
    assert (Hr : t <> []) by (intros ->; rewrite skip_line_terminator_nil in Et; discriminate).
    rewrite (tok_prefix_none_stable _ _ _ x Ep Hr).
    rewrite (skip_line_terminator_ok_stable _ _ _ x Et). reflexivity.
Qed.

Lemma reason_and_eol_bad_stable relaxed s t buf s' k x buf' :
  reason_and_eol relaxed s t buf = ((-1)%Z, s', k) ->
  reason_and_eol relaxed s (t ++ x) buf' = ((-1)%Z, s', buf').
Proof.
  unfold reason_and_eol.
  destruct (tok_prefix resp_phraseChars npos t) as [[tk r]|] eqn:Ep.
  - destruct (skip_line_terminator relaxed r) as [t2| |] eqn:Et; try discriminate.
    intros H; inversion H; subst.
    assert (Hr : r <> []) by (intros ->; rewrite skip_line_terminator_nil in Et; discriminate).
    rewrite (tok_prefix_stable _ _ _ _ _ x Ep Hr).
    rewrite (skip_line_terminator_bad_stable _ _ x Et). reflexivity.
  - destruct (skip_line_terminator relaxed t) as [t2| |] eqn:Et; try discriminate.
    intros H; inversion H; subst.
    assert (Hr : t <> []) by (intros ->; rewrite skip_line_terminator_nil in Et; discriminate).
    rewrite (tok_prefix_none_stable _ _ _ x Ep Hr).
    rewrite (skip_line_terminator_bad_stable _ _ x Et). reflexivity.
Qed.

Lemma reason_and_eol_more relaxed s t buf s' k :
  reason_and_eol relaxed s t buf = (0%Z, s', k) -> s' = set_reason s [] /\ k = buf.
Proof.
  unfold reason_and_eol.
  destruct (tok_prefix resp_phraseChars npos t) as [[tk r]|] eqn:Ep.
  - destruct (skip_line_terminator relaxed r); try discriminate.
    intros H; inversion H; subst. split; reflexivity.
  - destruct (skip_line_terminator relaxed t); try discriminate.
    intros H; inversion H; subst. split; reflexivity.
Qed.

Lemma reason_and_eol_ret relaxed s t buf :
  let r := fst (fst (reason_and_eol relaxed s t buf)) in r = 1%Z \/ r = 0%Z \/ r = (-1)%Z.
Proof.
  unfold reason_and_eol.
  destruct (tok_prefix resp_phraseChars npos t) as [[tk r]|];
    [destruct (skip_line_terminator relaxed r)|destruct (skip_line_terminator relaxed t)]; cbn; auto.
Qed.

(* fields untouched by the status-line routines *)
Lemma reason_and_eol_frame relaxed s t buf r s' k :
  reason_and_eol relaxed s t buf = (r, s', k) ->
  p_stage s' = p_stage s /\ p_proto s' = p_proto s /\ p_major s' = p_major s /\ p_minor s' = p_minor s /\
  p_completed s' = p_completed s /\ p_status s' = p_status s /\ p_mime s' = p_mime s /\ p_code s' = p_code s.
Proof.
  unfold reason_and_eol.
  destruct (tok_prefix resp_phraseChars npos t) as [[tk r0]|];
    [destruct (skip_line_terminator relaxed r0)|destruct (skip_line_terminator relaxed t)];
    intros H; inversion H; subst; cbn; repeat split.
Qed.

(* ---- parseResponseStatusAndReason ---- *)
Lemma status_and_reason_ok_stable relaxed s t buf s' k x buf' :
  status_and_reason relaxed s t buf = (1%Z, s', k) ->
  status_and_reason relaxed s (t ++ x) buf' = (1%Z, s', k ++ x).
Proof.
  unfold status_and_reason. destruct (p_completed s).
  - apply reason_and_eol_ok_stable.
  - destruct (parse_status relaxed t) as [v t1| |[v|]] eqn:Ep; try discriminate.
    rewrite (parse_status_ok_stable _ _ _ _ x Ep). apply reason_and_eol_ok_stable.
Qed.

Lemma status_and_reason_bad_stable relaxed s t buf s' k x buf' :
  status_and_reason relaxed s t buf = ((-1)%Z, s', k) ->
  exists k', status_and_reason relaxed s (t ++ x) buf' = ((-1)%Z, s', k').
Proof.
  unfold status_and_reason. destruct (p_completed s).
  - intros H. eexists. eapply reason_and_eol_bad_stable; eassumption.
  - destruct (parse_status relaxed t) as [v t1| |[v|]] eqn:Ep; try discriminate.
    + rewrite (parse_status_ok_stable _ _ _ _ x Ep). intros H. eexists.
      eapply reason_and_eol_bad_stable; eassumption.
    + rewrite (parse_status_bad_stable _ _ _ x Ep). intros H; inversion H; subst. eexists; reflexivity.
    + rewrite (parse_status_bad_stable _ _ _ x Ep). intros H; inversion H; subst. eexists; reflexivity.
Qed.

Lemma status_and_reason_ret relaxed s t buf :
  let r := fst (fst (status_and_reason relaxed s t buf)) in r = 1%Z \/ r = 0%Z \/ r = (-1)%Z.
Proof.
  unfold status_and_reason. destruct (p_completed s); [apply reason_and_eol_ret|].
  destruct (parse_status relaxed t) as [v t1| |[v|]]; [apply reason_and_eol_ret| | |]; cbn; auto.
Qed.

Lemma status_and_reason_frame relaxed s t buf r s' k :
  status_and_reason relaxed s t buf = (r, s', k) ->
  p_stage s' = p_stage s /\ p_proto s' = p_proto s /\ p_major s' = p_major s /\ p_minor s' = p_minor s /\
  p_mime s' = p_mime s /\ p_code s' = p_code s.
Proof.
  unfold status_and_reason. destruct (p_completed s).
  - intros H. apply reason_and_eol_frame in H. tauto.
  - destruct (parse_status relaxed t) as [v t1| |[v|]].
    + intros H. apply reason_and_eol_frame in H. cbn in H. tauto.
    + intros H; inversion H; subst; cbn; repeat split.
    + intros H; inversion H; subst; cbn; repeat split.
    + intros H; inversion H; subst; cbn; repeat split.
Qed.

(* the resume checkpoint: re-running from the retained bytes with the saved state continues the same parse *)
Lemma status_and_reason_more relaxed s t s' k :
  status_and_reason relaxed s t t = (0%Z, s', k) -> p_reason s = [] ->
  p_reason s' = [] /\
  forall x, status_and_reason relaxed s (t ++ x) (t ++ x) = status_and_reason relaxed s' (k ++ x) (k ++ x).
Proof.
  intros H Hr. pose proof (set_reason_id s Hr) as Hs.
  unfold status_and_reason in H. destruct (p_completed s) eqn:Ec.
  - apply reason_and_eol_more in H as [-> ->]. rewrite Hs.
    split; [exact Hr|]. intros x. reflexivity.
  - destruct (parse_status relaxed t) as [v t1| |[v|]] eqn:Ep; try discriminate.
    + apply reason_and_eol_more in H as [-> ->].
      rewrite set_reason_id by (cbn; exact Hr).
      split; [cbn; exact Hr|]. intros x. unfold status_and_reason. rewrite Ec.
      cbn [p_completed set_completed].
      rewrite (parse_status_ok_stable _ _ _ _ x Ep). reflexivity.
    + inversion H; subst. rewrite Hs.
      split; [exact Hr|]. intros x. reflexivity.
Qed.

(* ---- parseResponseFirstLine ---- *)
Lemma http1magic_nonnil : resp_http1magic <> [].
Proof. discriminate. Qed.
Lemma icymagic_nonnil : resp_icymagic <> [].
Proof. discriminate. Qed.

(* an input starting with the ICY magic never starts with the HTTP magic *)
Lemma icy_not_http b x : starts_with b resp_icymagic = true -> starts_with (b ++ x) resp_http1magic = false.
Proof.
  destruct b as [|c b]; [discriminate|]. unfold resp_icymagic, resp_http1magic. cbn [starts_with app].
  destruct (c =? 73) eqn:E; [|discriminate]. apply N.eqb_eq in E; subst. reflexivity.
Qed.

Lemma magic_decided m b :
  starts_with b m = false -> ((lenN b <? lenN m) && starts_with m b) = false ->
  starts_with m b = false.
Proof.
  intros H1 H2. destruct (starts_with m b) eqn:E; [|reflexivity].
  rewrite andb_true_r in H2. apply N.ltb_ge in H2.
  rewrite (starts_with_long _ _ E H2) in H1. discriminate.
Qed.

Ltac fl_magic_split b Eh Ei :=
  rewrite (tok_skip_nonempty _ b http1magic_nonnil);
  destruct (starts_with b resp_http1magic) eqn:Eh;
  [|rewrite (tok_skip_nonempty _ b icymagic_nonnil); destruct (starts_with b resp_icymagic) eqn:Ei].

Lemma first_line_ret relaxed s b :
  let r := fst (fst (first_line relaxed s b)) in r = 1%Z \/ r = 0%Z \/ r = (-1)%Z.
Proof.
  unfold first_line. destruct (negb (proto_eqb (p_proto s) PNone)); [apply status_and_reason_ret|].
  fl_magic_split b Eh Ei.
  - destruct (tok_int64 10 false 1 (dropN (lenN resp_http1magic) b)) as [[v k0]|].
    + destruct (tok_skipOne (delim relaxed) (dropN k0 (dropN (lenN resp_http1magic) b))) as [[] t3];
        [apply status_and_reason_ret|].
      destruct (dropN k0 (dropN (lenN resp_http1magic) b)); cbn; auto.
    + destruct (dropN (lenN resp_http1magic) b); cbn; auto.
  - apply status_and_reason_ret.
  - destruct ((lenN b <? lenN resp_http1magic) && starts_with resp_http1magic b); [cbn; auto|].
    destruct ((lenN b <? lenN resp_icymagic) && starts_with resp_icymagic b); cbn; auto.
Qed.

(* the shared head of the three stability proofs: what first_line does on b ++ x when the
   HTTP magic, minor digit and delimiter were found in b *)
Lemma first_line_http_head relaxed s b x v k0 t3 :
  proto_eqb (p_proto s) PNone = true ->
  starts_with b resp_http1magic = true ->
  tok_int64 10 false 1 (dropN (lenN resp_http1magic) b) = Some (v, k0) ->
  tok_skipOne (delim relaxed) (dropN k0 (dropN (lenN resp_http1magic) b)) = (true, t3) ->
  first_line relaxed s (b ++ x) =
  status_and_reason relaxed (set_proto s PHttp 1 (Z.to_N v)) (t3 ++ x) (t3 ++ x).
Proof.
  intros Ep Eh Ei Ed. unfold first_line. rewrite Ep. cbn [negb].
  rewrite (tok_skip_nonempty _ (b ++ x) http1magic_nonnil).
  rewrite (starts_with_app _ _ x Eh).
  rewrite dropN_app_le by (apply starts_with_len; exact Eh).
  assert (Hn : dropN k0 (dropN (lenN resp_http1magic) b) <> []) by (eapply tok_skipOne_true_nonnil; eassumption).
  rewrite (int64_10_some_stable _ _ _ _ x Ei Hn).
  rewrite dropN_app_le by (eapply int64_10_some_len; eassumption).
  rewrite (tok_skipOne_true_stable _ _ _ x Ed). reflexivity.
Qed.

Lemma first_line_icy_head relaxed s b x :
  proto_eqb (p_proto s) PNone = true ->
  starts_with b resp_icymagic = true ->
  first_line relaxed s (b ++ x) =
  status_and_reason relaxed (set_proto s PIcy (p_major s) (p_minor s))
    (dropN (lenN resp_icymagic) b ++ x) (dropN (lenN resp_icymagic) b ++ x).
Proof.
  intros Ep Ei. unfold first_line. rewrite Ep. cbn [negb].
  rewrite (tok_skip_nonempty _ (b ++ x) http1magic_nonnil).
  rewrite (icy_not_http _ x Ei).
  rewrite (tok_skip_nonempty _ (b ++ x) icymagic_nonnil).
  rewrite (starts_with_app _ _ x Ei).
  rewrite dropN_app_le by (apply starts_with_len; exact Ei). reflexivity.
Qed.

Lemma first_line_ok_stable relaxed s b s' k x :
  first_line relaxed s b = (1%Z, s', k) -> first_line relaxed s (b ++ x) = (1%Z, s', k ++ x).
Proof.
  unfold first_line at 1. destruct (proto_eqb (p_proto s) PNone) eqn:Ep; cbn [negb].
  2:{ intros H. unfold first_line. rewrite Ep. cbn [negb]. eapply status_and_reason_ok_stable; eassumption. }
  fl_magic_split b Eh Ei.
  - destruct (tok_int64 10 false 1 (dropN (lenN resp_http1magic) b)) as [[v k0]|] eqn:Ev.
    + destruct (tok_skipOne (delim relaxed) (dropN k0 (dropN (lenN resp_http1magic) b))) as [[] t3] eqn:Ed.
      * intros H. rewrite (first_line_http_head _ _ _ x _ _ _ Ep Eh Ev Ed).
        eapply status_and_reason_ok_stable; eassumption.
      * destruct (dropN k0 (dropN (lenN resp_http1magic) b)); discriminate.
    + destruct (dropN (lenN resp_http1magic) b); discriminate.
  - intros H. rewrite (first_line_icy_head _ _ _ x Ep Ei). eapply status_and_reason_ok_stable; eassumption.
  - destruct ((lenN b <? lenN resp_http1magic) && starts_with resp_http1magic b) eqn:C1; [discriminate|].
    destruct ((lenN b <? lenN resp_icymagic) && starts_with resp_icymagic b) eqn:C2; [discriminate|].
    intros H; inversion H; subst.
    destruct (incomparable_app _ _ x Eh (magic_decided _ _ Eh C1)) as [A1 A2].
    destruct (incomparable_app _ _ x Ei (magic_decided _ _ Ei C2)) as [B1 B2].
    unfold first_line. rewrite Ep. cbn [negb].
    rewrite (tok_skip_nonempty _ (k ++ x) http1magic_nonnil), A1.
    rewrite (tok_skip_nonempty _ (k ++ x) icymagic_nonnil), B1.
    rewrite A2, B2, !andb_false_r. reflexivity.
Qed.

Lemma first_line_bad_stable relaxed s b s' k x :
  first_line relaxed s b = ((-1)%Z, s', k) -> exists k', first_line relaxed s (b ++ x) = ((-1)%Z, s', k').
Proof.
  unfold first_line at 1. destruct (proto_eqb (p_proto s) PNone) eqn:Ep; cbn [negb].
  2:{ intros H. unfold first_line. rewrite Ep. cbn [negb]. eapply status_and_reason_bad_stable; eassumption. }
  fl_magic_split b Eh Ei.
  - destruct (tok_int64 10 false 1 (dropN (lenN resp_http1magic) b)) as [[v k0]|] eqn:Ev.
    + destruct (tok_skipOne (delim relaxed) (dropN k0 (dropN (lenN resp_http1magic) b))) as [[] t3] eqn:Ed.
      * intros H. rewrite (first_line_http_head _ _ _ x _ _ _ Ep Eh Ev Ed).
        eapply status_and_reason_bad_stable; eassumption.
      * destruct (dropN k0 (dropN (lenN resp_http1magic) b)) as [|y r] eqn:Edr; [discriminate|].
        intros H; inversion H; subst. exists (k ++ x).
        unfold first_line. rewrite Ep. cbn [negb].
        rewrite (tok_skip_nonempty _ (k ++ x) http1magic_nonnil), (starts_with_app _ _ x Eh).
        rewrite dropN_app_le by (apply starts_with_len; exact Eh).
        rewrite (int64_10_some_stable _ _ _ _ x Ev) by (rewrite Edr; discriminate).
        rewrite dropN_app_le by (eapply int64_10_some_len; eassumption).
        rewrite Edr in *. rewrite (tok_skipOne_false_stable _ _ _ x Ed) by discriminate.
        reflexivity.
    + destruct (dropN (lenN resp_http1magic) b) as [|y r] eqn:Edr; [discriminate|].
      intros H; inversion H; subst. exists (k ++ x).
      unfold first_line. rewrite Ep. cbn [negb].
      rewrite (tok_skip_nonempty _ (k ++ x) http1magic_nonnil), (starts_with_app _ _ x Eh).
      rewrite dropN_app_le by (apply starts_with_len; exact Eh).
      rewrite Edr in *.
      rewrite (int64_10_none_stable 1 (y :: r) x ltac:(lia) Ev ltac:(discriminate)). reflexivity.
  - intros H. rewrite (first_line_icy_head _ _ _ x Ep Ei). eapply status_and_reason_bad_stable; eassumption.
  - destruct ((lenN b <? lenN resp_http1magic) && starts_with resp_http1magic b); [discriminate|].
    destruct ((lenN b <? lenN resp_icymagic) && starts_with resp_icymagic b); discriminate.
Qed.

Lemma first_line_more relaxed s b s' k :
  first_line relaxed s b = (0%Z, s', k) -> p_reason s = [] ->
  p_reason s' = [] /\ p_stage s' = p_stage s /\
  forall x, first_line relaxed s (b ++ x) = first_line relaxed s' (k ++ x).
Proof.
  intros H Hr. unfold first_line in H. destruct (proto_eqb (p_proto s) PNone) eqn:Ep; cbn [negb] in H.
  2:{ pose proof (status_and_reason_frame _ _ _ _ _ _ _ H) as (F1 & F2 & _).
      destruct (status_and_reason_more _ _ _ _ _ H Hr) as [R1 R2].
      split; [exact R1|]. split; [exact F1|]. intros x.
      unfold first_line. rewrite F2, Ep. cbn [negb]. apply R2. }
  revert H. fl_magic_split b Eh Ei.
  - destruct (tok_int64 10 false 1 (dropN (lenN resp_http1magic) b)) as [[v k0]|] eqn:Ev.
    + destruct (tok_skipOne (delim relaxed) (dropN k0 (dropN (lenN resp_http1magic) b))) as [[] t3] eqn:Ed.
      * intros H.
        pose proof (status_and_reason_frame _ _ _ _ _ _ _ H) as (F1 & F2 & _).
        destruct (status_and_reason_more _ _ _ _ _ H ltac:(cbn; exact Hr)) as [R1 R2].
        split; [exact R1|]. split; [exact F1|]. intros x.
        rewrite (first_line_http_head _ _ _ x _ _ _ Ep Eh Ev Ed).
        unfold first_line. rewrite F2. cbn [p_proto set_proto proto_eqb negb]. apply R2.
      * destruct (dropN k0 (dropN (lenN resp_http1magic) b)); [|discriminate].
        intros H; inversion H; subst. auto.
    + destruct (dropN (lenN resp_http1magic) b); [|discriminate].
      intros H; inversion H; subst. auto.
  - intros H.
    pose proof (status_and_reason_frame _ _ _ _ _ _ _ H) as (F1 & F2 & _).
    destruct (status_and_reason_more _ _ _ _ _ H ltac:(cbn; exact Hr)) as [R1 R2].
    split; [exact R1|]. split; [exact F1|]. intros x.
    rewrite (first_line_icy_head _ _ _ x Ep Ei).
    unfold first_line. rewrite F2. cbn [p_proto set_proto proto_eqb negb]. apply R2.
  - destruct ((lenN b <? lenN resp_http1magic) && starts_with resp_http1magic b);
      [intros H; inversion H; subst; auto|].
    destruct ((lenN b <? lenN resp_icymagic) && starts_with resp_icymagic b);
      [intros H; inversion H; subst; auto|discriminate].
Qed.

(* ---- headersEnd ---- *)
Lemma headers_end_go_found_stable l x : forall st e f e' f',
  headers_end_go l st e f = (e', f') -> e' <> 0 -> headers_end_go (l ++ x) st e f = (e', f').
Proof.
  induction l as [|c r IH]; intros st e f e' f' H Hne.
  - cbn [headers_end_go] in H. inversion H; subst. congruence.
  - cbn [app headers_end_go] in *.
    destruct (st =? 0); [apply IH; assumption|].
    destruct (st =? 1).
    + destruct (c =? 13); [apply IH; assumption|].
      destruct (c =? 10); [exact H|].
      destruct ((c =? 32) || (c =? 9)); apply IH; assumption.
    + destruct (c =? 10); [exact H|]. apply IH; assumption.
Qed.

Lemma headers_end_go_found_range l : forall st e f e' f',
  headers_end_go l st e f = (e', f') -> e' <> 0 -> e < e' <= e + lenN l.
Proof.
  induction l as [|c r IH]; intros st e f e' f' H Hne.
  - cbn [headers_end_go] in H. inversion H; subst. congruence.
  - cbn [headers_end_go lenN] in *.
    destruct (st =? 0); [apply IH in H; [lia|assumption]|].
    destruct (st =? 1).
    + destruct (c =? 13); [apply IH in H; [lia|assumption]|].
      destruct (c =? 10); [inversion H; subst; lia|].
      destruct ((c =? 32) || (c =? 9)); (apply IH in H; [lia|assumption]).
    + destruct (c =? 10); [inversion H; subst; lia|]. apply IH in H; [lia|assumption].
Qed.

Lemma headers_end_go_late l x : forall st e f f1 e' f',
  headers_end_go l st e f = (0, f1) -> headers_end_go (l ++ x) st e f = (e', f') -> e' <> 0 ->
  e + lenN l < e'.
Proof.
  induction l as [|c r IH]; intros st e f f1 e' f' H0 H Hne.
  - cbn [app lenN] in *. apply headers_end_go_found_range in H; [lia|assumption].
  - cbn [app headers_end_go lenN] in *.
    destruct (st =? 0); [specialize (IH _ _ _ _ _ _ H0 H Hne); lia|].
    destruct (st =? 1).
    + destruct (c =? 13); [specialize (IH _ _ _ _ _ _ H0 H Hne); lia|].
      destruct (c =? 10); [inversion H0; lia|].
      destruct ((c =? 32) || (c =? 9)); (specialize (IH _ _ _ _ _ _ H0 H Hne); lia).
    + destruct (c =? 10); [inversion H0; lia|]. specialize (IH _ _ _ _ _ _ H0 H Hne); lia.
Qed.

(* ---- grabMimeBlock ---- *)
Lemma grab_mime_ok_stable limit s b s' k x :
  grab_mime limit s b = (true, s', k) -> grab_mime limit s (b ++ x) = (true, s', k ++ x).
Proof.
  unfold grab_mime.
  destruct (proto_eqb (p_proto s) PHttp && (p_major s =? 1) || proto_eqb (p_proto s) PIcy).
  2:{ intros H; inversion H; subst; reflexivity. }
  unfold headers_end. destruct (headers_end_go b 1 0 false) as [e fold] eqn:E.
  destruct (e =? 0) eqn:E0.
  - destruct (limit <=? lenN b + first_line_size s); discriminate.
  - apply N.eqb_neq in E0.
    rewrite (headers_end_go_found_stable _ x _ _ _ _ _ E E0).
    pose proof (headers_end_go_found_range _ _ _ _ _ _ E E0) as Hr.
    apply N.eqb_neq in E0. rewrite E0.
    destruct (limit <=? first_line_size s + e); [discriminate|].
    intros H; inversion H; subst.
    rewrite takeN_app_le by lia. rewrite dropN_app_le by lia. reflexivity.
Qed.

Lemma grab_mime_stage limit s b ok s' k :
  grab_mime limit s b = (ok, s', k) ->
  (ok = true -> p_stage s' = SDone) /\ (ok = false -> p_stage s' <> SDone -> s' = s /\ k = b).
Proof.
  unfold grab_mime.
  destruct (proto_eqb (p_proto s) PHttp && (p_major s =? 1) || proto_eqb (p_proto s) PIcy).
  2:{ intros H; inversion H; subst; split; [reflexivity|discriminate]. }
  destruct (headers_end b) as [e fold]. destruct (e =? 0).
  - destruct (limit <=? lenN b + first_line_size s); intros H; inversion H; subst;
      (split; [discriminate|]); cbn; intros _ Hs; [congruence|auto].
  - destruct (limit <=? first_line_size s + e); intros H; inversion H; subst;
      (split; [try discriminate; reflexivity|]); cbn; intros; congruence.
Qed.

Lemma grab_mime_bad_stable limit s b s' k x :
  grab_mime limit s b = (false, s', k) -> p_stage s <> SDone -> p_stage s' = SDone ->
  exists k', grab_mime limit s (b ++ x) = (false, s', k').
Proof.
  unfold grab_mime.
  destruct (proto_eqb (p_proto s) PHttp && (p_major s =? 1) || proto_eqb (p_proto s) PIcy); [|discriminate].
  unfold headers_end. destruct (headers_end_go b 1 0 false) as [e fold] eqn:E.
  destruct (e =? 0) eqn:E0.
  - apply N.eqb_eq in E0; subst e.
    destruct (limit <=? lenN b + first_line_size s) eqn:EL.
    2:{ intros H Hs Hd; inversion H; subst; congruence. }
    intros H _ _; inversion H; subst. apply N.leb_le in EL.
    destruct (headers_end_go (k ++ x) 1 0 false) as [e2 fold2] eqn:E2.
    destruct (e2 =? 0) eqn:E20.
    + rewrite lenN_app. replace (limit <=? lenN k + lenN x + first_line_size s) with true
        by (symmetry; apply N.leb_le; lia). eexists; reflexivity.
    + apply N.eqb_neq in E20. pose proof (headers_end_go_late _ _ _ _ _ _ _ _ E E2 E20) as Hl.
      replace (limit <=? first_line_size s + e2) with true by (symmetry; apply N.leb_le; lia).
      eexists; reflexivity.
  - apply N.eqb_neq in E0. rewrite (headers_end_go_found_stable _ x _ _ _ _ _ E E0).
    apply N.eqb_neq in E0. rewrite E0.
    destruct (limit <=? first_line_size s + e); [|discriminate].
    intros H _ _; inversion H; subst. eexists; reflexivity.
Qed.

(* ---- parse(): observation of one call ---- *)
Definition obs (r : bool * pst * bytes) : outcome :=
  let '(ok, s1, rest) := r in
  if needs_more s1 then More s1 rest
  else if ok then Done (fields_of s1) rest
  else Bad (p_code s1) (p_status s1).

Lemma step_obs relaxed limit s b : step relaxed limit s b = obs (parse relaxed limit s b).
Proof. reflexivity. Qed.

Lemma needs_more_done s : p_stage s = SDone -> needs_more s = false.
Proof. unfold needs_more; intros ->; reflexivity. Qed.
Lemma needs_more_not_done s : p_stage s <> SDone -> needs_more s = true.
Proof. unfold needs_more; destruct (p_stage s); try reflexivity; congruence. Qed.

Lemma parse_tail_stable limit s b :
  (forall f rest, obs (parse_tail limit s b) = Done f rest ->
     forall x, obs (parse_tail limit s (b ++ x)) = Done f (rest ++ x)) /\
  (forall c st, obs (parse_tail limit s b) = Bad c st ->
     forall x, obs (parse_tail limit s (b ++ x)) = Bad c st) /\
  (forall s1 k, obs (parse_tail limit s b) = More s1 k -> s1 = s /\ k = b).
Proof.
  unfold parse_tail. destruct (stage_eqb (p_stage s) SMime) eqn:Es.
  - assert (Hnd : p_stage s <> SDone) by (destruct (p_stage s); discriminate).
    destruct (grab_mime limit s b) as [[ok s1] k] eqn:Eg.
    destruct (grab_mime_stage _ _ _ _ _ _ Eg) as [G1 G2].
    destruct ok.
    + specialize (G1 eq_refl). cbn [obs]. rewrite (needs_more_done _ G1). cbn [negb].
      repeat split; try discriminate.
      intros f rest H x; inversion H; subst.
      rewrite (grab_mime_ok_stable _ _ _ _ _ x Eg). cbn [obs]. rewrite (needs_more_done _ G1). reflexivity.
    + cbn [obs]. destruct (needs_more s1) eqn:En.
      * assert (Hs1 : p_stage s1 <> SDone) by (intros Hd; rewrite (needs_more_done _ Hd) in En; discriminate).
        destruct (G2 eq_refl Hs1) as [-> ->].
        repeat split; try discriminate; inversion H; reflexivity.
      * assert (Hs1 : p_stage s1 = SDone)
          by (destruct (p_stage s1) eqn:Ed; unfold needs_more in En; rewrite Ed in En; try discriminate; reflexivity).
        repeat split; try discriminate.
        intros c st H x; inversion H; subst.
        destruct (grab_mime_bad_stable _ _ _ _ _ x Eg Hnd Hs1) as [k' Hk]. rewrite Hk.
        cbn [obs]. rewrite En. reflexivity.
  - cbn [obs]. destruct (needs_more s) eqn:En; cbn [negb].
    + repeat split; try discriminate; inversion H; reflexivity.
    + repeat split; try discriminate. intros f rest H x; inversion H; subst. reflexivity.
Qed.

Lemma first_line_stage relaxed s b r s1 k :
  first_line relaxed s b = (r, s1, k) -> p_stage s1 = p_stage s \/ p_stage s1 = SDone.
Proof.
  unfold first_line. destruct (negb (proto_eqb (p_proto s) PNone)).
  { intros H. apply status_and_reason_frame in H. left; tauto. }
  fl_magic_split b Eh Ei.
  - destruct (tok_int64 10 false 1 (dropN (lenN resp_http1magic) b)) as [[v k0]|].
    + destruct (tok_skipOne (delim relaxed) (dropN k0 (dropN (lenN resp_http1magic) b))) as [[] t3].
      * intros H. apply status_and_reason_frame in H. left; cbn in H; tauto.
      * destruct (dropN k0 (dropN (lenN resp_http1magic) b)); intros H; inversion H; subst; auto.
    + destruct (dropN (lenN resp_http1magic) b); intros H; inversion H; subst; auto.
  - intros H. apply status_and_reason_frame in H. left; cbn in H; tauto.
  - destruct ((lenN b <? lenN resp_http1magic) && starts_with resp_http1magic b);
      [intros H; inversion H; subst; auto|].
    destruct ((lenN b <? lenN resp_icymagic) && starts_with resp_icymagic b);
      intros H; inversion H; subst; auto.
Qed.

Lemma parse_at_mime_done relaxed limit s b :
  p_stage s = SMime \/ p_stage s = SDone -> parse relaxed limit s b = parse_tail limit s b.
Proof. unfold parse, parse_first. intros [H|H]; rewrite H; reflexivity. Qed.

Lemma parse_at_first relaxed limit s b :
  p_stage s = SFirst -> parse relaxed limit s b = parse_first relaxed limit s b.
Proof. unfold parse. intros ->; reflexivity. Qed.

(* the invariant of a parser that is still waiting for data: before the status line is complete
   reasonPhrase_ is empty *)
Definition waiting_inv (s : pst) : Prop :=
  p_stage s = SMime \/ p_stage s = SDone \/ p_reason s = [].

Lemma parse_first_stable relaxed limit s b :
  p_stage s = SFirst -> p_reason s = [] ->
  (forall f rest, obs (parse_first relaxed limit s b) = Done f rest ->
     forall x, obs (parse_first relaxed limit s (b ++ x)) = Done f (rest ++ x)) /\
  (forall c st, obs (parse_first relaxed limit s b) = Bad c st ->
     forall x, obs (parse_first relaxed limit s (b ++ x)) = Bad c st) /\
  (forall s1 k, obs (parse_first relaxed limit s b) = More s1 k ->
     waiting_inv s1 /\
     forall x, obs (parse_first relaxed limit s (b ++ x)) = obs (parse relaxed limit s1 (k ++ x))).
Proof.
  intros Hst Hr. unfold parse_first. rewrite Hst. cbn [stage_eqb].
  destruct (first_line relaxed s b) as [[ret s1] b1] eqn:Ef.
  pose proof (first_line_ret relaxed s b) as Hret. rewrite Ef in Hret. cbn [fst] in Hret.
  destruct Hret as [-> | [-> | ->]].
  - (* first line complete *)
    cbn [Z.ltb Z.compare andb].
    assert (Hx : forall x, first_line relaxed s (b ++ x) = (1%Z, s1, b1 ++ x))
      by (intros x; apply first_line_ok_stable; exact Ef).
    set (s2 := if stage_eqb (p_stage s1) SFirst then set_stage s1 SMime else s1).
    assert (Hs2 : p_stage s2 = SMime \/ p_stage s2 = SDone).
    { destruct (first_line_stage _ _ _ _ _ _ Ef) as [H|H]; subst s2; rewrite H.
      - rewrite Hst. cbn. auto.
      - cbn. auto. }
    destruct (parse_tail_stable limit s2 b1) as (T1 & T2 & T3).
    split; [|split].
    + intros f rest H x. rewrite Hx. cbn [Z.ltb Z.compare andb]. fold s2. apply T1; exact H.
    + intros c st H x. rewrite Hx. cbn [Z.ltb Z.compare andb]. fold s2. apply T2; exact H.
    + intros s' k H. destruct (T3 _ _ H) as [-> ->]. split.
      * unfold waiting_inv. tauto.
      * intros x. rewrite Hx. cbn [Z.ltb Z.compare andb]. fold s2.
        rewrite (parse_at_mime_done _ _ _ _ Hs2). reflexivity.
  - (* need more *)
    cbn [Z.ltb Z.compare andb].
    destruct (first_line_more _ _ _ _ _ Ef Hr) as (R1 & R2 & R3).
    unfold parse_tail. rewrite R2, Hst. cbn [stage_eqb obs].
    rewrite (needs_more_not_done s1) by (rewrite R2, Hst; discriminate).
    split; [discriminate|]. split; [discriminate|].
    intros s' k H; inversion H; subst. split; [unfold waiting_inv; tauto|].
    intros x. rewrite (parse_at_first _ _ _ _ (eq_trans R2 Hst)).
    unfold parse_first. rewrite R2, Hst. cbn [stage_eqb]. rewrite R3. reflexivity.
  - (* syntax error *)
    cbn [Z.ltb Z.compare andb obs needs_more p_stage set_code set_stage stage_eqb negb p_code p_status].
    split; [discriminate|]. split; [|discriminate].
    intros c st H x; inversion H; subst.
    destruct (first_line_bad_stable _ _ _ _ _ x Ef) as [k' Hk]. rewrite Hk.
    cbn [Z.ltb Z.compare andb obs needs_more p_stage set_code set_stage stage_eqb negb p_code p_status].
    reflexivity.
Qed.

Lemma set_stage_reason s x : p_reason (set_stage s x) = p_reason s.
Proof. reflexivity. Qed.

Theorem step_stable relaxed limit s b : waiting_inv s ->
  (forall f rest, step relaxed limit s b = Done f rest ->
     forall x, step relaxed limit s (b ++ x) = Done f (rest ++ x)) /\
  (forall c st, step relaxed limit s b = Bad c st ->
     forall x, step relaxed limit s (b ++ x) = Bad c st) /\
  (forall s1 k, step relaxed limit s b = More s1 k ->
     waiting_inv s1 /\ forall x, step relaxed limit s (b ++ x) = step relaxed limit s1 (k ++ x)).
Proof.
  intros Hinv. rewrite !step_obs.
  destruct (p_stage s) eqn:Est.
  - (* HTTP_PARSE_NONE *)
    assert (Hr : p_reason s = []) by (destruct Hinv as [H|[H|H]]; congruence).
    destruct b as [|c b].
    + unfold parse at 1 2 3. rewrite Est. cbn [stage_eqb obs].
      rewrite (needs_more_not_done s) by (rewrite Est; discriminate).
      split; [discriminate|]. split; [discriminate|].
      intros s1 k H; inversion H; subst. split; [exact Hinv|]. intros x. reflexivity.
    + assert (Hp : forall y, parse relaxed limit s ((c :: b) ++ y) =
                             parse_first relaxed limit (set_stage s SFirst) ((c :: b) ++ y))
        by (intros y; unfold parse; rewrite Est; reflexivity).
      pose proof (Hp []) as Hp0. rewrite app_nil_r in Hp0. rewrite Hp0.
      destruct (parse_first_stable relaxed limit (set_stage s SFirst) (c :: b) eq_refl Hr) as (A & B & C).
      split; [|split].
      * intros f rest H x. rewrite !step_obs, Hp. apply A; exact H.
      * intros c0 st H x. rewrite !step_obs, Hp. apply B; exact H.
      * intros s1 k H. destruct (C _ _ H) as [I1 I2]. split; [exact I1|].
        intros x. rewrite !step_obs, Hp. apply I2.
  - (* HTTP_PARSE_FIRST *)
    assert (Hr : p_reason s = []) by (destruct Hinv as [H|[H|H]]; congruence).
    destruct (parse_first_stable relaxed limit s b Est Hr) as (A & B & C).
    rewrite (parse_at_first _ _ _ _ Est).
    split; [|split].
    + intros f rest H x. rewrite !step_obs, (parse_at_first _ _ _ _ Est). apply A; exact H.
    + intros c st H x. rewrite !step_obs, (parse_at_first _ _ _ _ Est). apply B; exact H.
    + intros s1 k H. destruct (C _ _ H) as [I1 I2]. split; [exact I1|].
      intros x. rewrite !step_obs, (parse_at_first _ _ _ _ Est). apply I2.
  - (* HTTP_PARSE_MIME *)
    rewrite (parse_at_mime_done _ _ _ _ (or_introl Est)).
    destruct (parse_tail_stable limit s b) as (A & B & C).
    split; [|split].
    + intros f rest H x. rewrite !step_obs, (parse_at_mime_done _ _ _ _ (or_introl Est)). apply A; exact H.
    + intros c st H x. rewrite !step_obs, (parse_at_mime_done _ _ _ _ (or_introl Est)). apply B; exact H.
    + intros s1 k H. destruct (C _ _ H) as [-> ->]. split; [exact Hinv|]. intros x. reflexivity.
  - (* HTTP_PARSE_DONE *)
    rewrite (parse_at_mime_done _ _ _ _ (or_intror Est)).
    destruct (parse_tail_stable limit s b) as (A & B & C).
    split; [|split].
    + intros f rest H x. rewrite !step_obs, (parse_at_mime_done _ _ _ _ (or_intror Est)). apply A; exact H.
    + intros c st H x. rewrite !step_obs, (parse_at_mime_done _ _ _ _ (or_intror Est)). apply B; exact H.
    + intros s1 k H. destruct (C _ _ H) as [-> ->]. split; [exact Hinv|]. intros x. reflexivity.
Qed.

Lemma drive_gdrive relaxed limit segs : forall s buf,
  drive relaxed limit s buf segs = gdrive (step relaxed limit) s buf segs.
Proof.
  induction segs as [|x more IH]; intros s buf; cbn [drive gdrive]; [reflexivity|].
  destruct (step relaxed limit s (buf ++ x)); [apply IH|reflexivity|reflexivity].
Qed.

(* segmentation independence, general form: from any waiting parser state and retained bytes *)
Theorem drive_segmentation_independent relaxed limit s buf segs :
  waiting_inv s -> segs <> [] ->
  drive relaxed limit s buf segs = step relaxed limit s (buf ++ concat segs).
Proof.
  intros Hinv Hne. rewrite drive_gdrive.
  apply (gdrive_whole (step relaxed limit) waiting_inv); try assumption.
  - intros s0 b f rest Hi H. apply (proj1 (step_stable relaxed limit s0 b Hi)). exact H.
  - intros s0 b c st Hi H. apply (proj1 (proj2 (step_stable relaxed limit s0 b Hi))). exact H.
  - intros s0 b s1 keep Hi H. apply (proj2 (proj2 (step_stable relaxed limit s0 b Hi))). exact H.
Qed.

Lemma waiting_inv_pst0 : waiting_inv pst0.
Proof. unfold waiting_inv. right; right; reflexivity. Qed.

Theorem resp_parse_segmentation_independent relaxed limit segs :
  segs <> [] -> drive relaxed limit pst0 [] segs = step relaxed limit pst0 (concat segs).
Proof. intros H. apply (drive_segmentation_independent relaxed limit pst0 [] segs waiting_inv_pst0 H). Qed.

(* ================= 3. the status-line grammar ================= *)
(* The grammar is stated with explicit literals and byte ranges (RFC 9112 status-line,
   plus the documented tolerances of the relaxed parser); the regenerated tables are proved
   equal to these below, so a change of a magic or of a character set in the code breaks
   the proof. *)
Definition lit_http1 : bytes := [72;84;84;80;47;49;46].            (* "HTTP/1." *)
Definition lit_icy : bytes := [73;67;89;32].                       (* "ICY " *)
Definition is_delim (relaxed : bool) (c : N) : bool :=             (* SP; relaxed: SP HTAB VT FF CR *)
  if relaxed then (c =? 32) || (c =? 9) || (c =? 11) || (c =? 12) || (c =? 13) else (c =? 32).
Definition is_phrase (c : N) : bool :=                             (* HTAB / SP / VCHAR / obs-text *)
  (c =? 9) || (c =? 32) || ((33 <=? c) && (c <=? 126)) || ((128 <=? c) && (c <=? 255)).
Definition dval (c : N) : N := c - 48.
Definition is_eol (relaxed : bool) (e : bytes) : Prop :=           (* CRLF; relaxed: also bare LF *)
  e = [13;10] \/ (relaxed = true /\ e = [10]).

(* status-line = ("HTTP/1." DIGIT delim / "ICY ") 3DIGIT delim *phrase-char eol, 100 <= status <= 599 *)
Inductive status_line (relaxed : bool) : bytes -> proto_t -> N -> N -> N -> bytes -> Prop :=
| SL_http m dl1 d1 d2 d3 dl2 reason eol :
    is_digit m = true -> is_delim relaxed dl1 = true ->
    is_digit d1 = true -> is_digit d2 = true -> is_digit d3 = true -> is_delim relaxed dl2 = true ->
    forallb is_phrase reason = true -> is_eol relaxed eol ->
    100 <= 100 * dval d1 + 10 * dval d2 + dval d3 <= 599 ->
    status_line relaxed (lit_http1 ++ m :: dl1 :: d1 :: d2 :: d3 :: dl2 :: reason ++ eol)
                PHttp 1 (dval m) (100 * dval d1 + 10 * dval d2 + dval d3) reason
| SL_icy d1 d2 d3 dl2 reason eol :
    is_digit d1 = true -> is_digit d2 = true -> is_digit d3 = true -> is_delim relaxed dl2 = true ->
    forallb is_phrase reason = true -> is_eol relaxed eol ->
    100 <= 100 * dval d1 + 10 * dval d2 + dval d3 <= 599 ->
    status_line relaxed (lit_icy ++ d1 :: d2 :: d3 :: dl2 :: reason ++ eol)
                PIcy 0 0 (100 * dval d1 + 10 * dval d2 + dval d3) reason.

(* ---- the regenerated tables are these sets ---- *)
Lemma mem_tbl_high t c : lenN t <= c -> mem_tbl t c = false.
Proof.
  unfold mem_tbl. revert c; induction t as [|x t IH]; intros c H; cbn [tbl_get lenN] in *; [reflexivity|].
  destruct (c =? 0) eqn:E; [apply N.eqb_eq in E; lia|]. apply IH. lia.
Qed.

Definition tables_check (c : N) : bool :=
  Bool.eqb (cs_strict_Delimiter c) (is_delim false c) &&
  Bool.eqb (cs_relaxed_Delimiter c) (is_delim true c) &&
  Bool.eqb (resp_phraseChars c) (is_phrase c) &&
  Bool.eqb (cs_LF c) (c =? 10) && Bool.eqb (cs_CR c) (c =? 13) &&
  Bool.eqb (cs_WSP c) ((c =? 32) || (c =? 9)).

Lemma tables_ok c :
  cs_strict_Delimiter c = is_delim false c /\ cs_relaxed_Delimiter c = is_delim true c /\
  resp_phraseChars c = is_phrase c /\ cs_LF c = (c =? 10) /\ cs_CR c = (c =? 13) /\
  cs_WSP c = ((c =? 32) || (c =? 9)).
Proof.
  destruct (c <? 256) eqn:Ec.
  - apply N.ltb_lt in Ec.
    pose proof (forallb_bytes tables_check ltac:(vm_compute; reflexivity) c Ec) as H.
    unfold tables_check in H. repeat (apply andb_true_iff in H; destruct H as [H ?]).
    repeat match goal with H : Bool.eqb _ _ = true |- _ => apply Bool.eqb_prop in H end.
    repeat split; assumption.
  - apply N.ltb_ge in Ec.
    unfold cs_strict_Delimiter, cs_relaxed_Delimiter, resp_phraseChars, cs_LF, cs_CR, cs_WSP.
    rewrite !mem_tbl_high by (vm_compute lenN; exact Ec).
    unfold is_delim, is_phrase. repeat split; symmetry; lia.
Qed.

Lemma delim_spec relaxed c : delim relaxed c = is_delim relaxed c.
Proof. destruct relaxed; unfold delim; apply (tables_ok c). Qed.
Lemma phrase_spec c : resp_phraseChars c = is_phrase c.
Proof. apply (tables_ok c). Qed.
Lemma lf_spec c : cs_LF c = (c =? 10).
Proof. apply (tables_ok c). Qed.
Lemma magic_http1_lit : resp_http1magic = lit_http1. Proof. reflexivity. Qed.
Lemma magic_icy_lit : resp_icymagic = lit_icy. Proof. reflexivity. Qed.
Lemma crlf_lit : resp_crlf = [13;10]. Proof. reflexivity. Qed.

(* ---- ParseResponseStatus accepts exactly 3DIGIT delim with 100 <= value <= 599 ---- *)
Lemma is_digit_dz c : is_digit c = true -> (0 <= Z.of_N c - 48 <= 9)%Z /\ Z.to_N (Z.of_N c - 48) = dval c.
Proof. unfold is_digit, dval. lia. Qed.

Lemma tok_int64_3 b : tok_int64 10 false 3 b =
  match digit_run 10 (takeN 3 b) with [] => None | ds => Some (digits_value 10 ds 0, lenN ds) end.
Proof. rewrite int64_10_run, int_of_run_small by lia. reflexivity. Qed.

Lemma parse_status_ok_fwd relaxed d1 d2 d3 dl r :
  is_digit d1 = true -> is_digit d2 = true -> is_digit d3 = true -> is_delim relaxed dl = true ->
  100 <= 100 * dval d1 + 10 * dval d2 + dval d3 <= 599 ->
  parse_status relaxed (d1 :: d2 :: d3 :: dl :: r) = PSok (100 * dval d1 + 10 * dval d2 + dval d3) r.
Proof.
  intros H1 H2 H3 Hd Hv. unfold parse_status. rewrite tok_int64_3.
  cbn [takeN N.eqb N.pred Pos.pred_N Pos.pred_double].
  cbn [digit_run]. rewrite !digit_of_10, H1, H2, H3.
  cbn [lenN dropN N.succ Pos.succ N.eqb N.pred Pos.pred_N Pos.pred_double tok_skipOne].
  rewrite delim_spec, Hd.
  unfold digits_value. cbn [fold_left].
  destruct (is_digit_dz _ H1) as [A1 A2]. destruct (is_digit_dz _ H2) as [B1 B2]. destruct (is_digit_dz _ H3) as [C1 C2].
  match goal with |- context[Z.to_N ?v] =>
    replace (Z.to_N v) with (100 * dval d1 + 10 * dval d2 + dval d3) by (unfold dval in *; lia) end.
  replace (100 * dval d1 + 10 * dval d2 + dval d3 <=? 99) with false by lia.
  replace (600 <=? 100 * dval d1 + 10 * dval d2 + dval d3) with false by lia.
  reflexivity.
Qed.

Lemma parse_status_ok_inv relaxed b v r :
  parse_status relaxed b = PSok v r ->
  exists d1 d2 d3 dl, b = d1 :: d2 :: d3 :: dl :: r /\
    is_digit d1 = true /\ is_digit d2 = true /\ is_digit d3 = true /\ is_delim relaxed dl = true /\
    v = 100 * dval d1 + 10 * dval d2 + dval d3 /\ 100 <= v <= 599.
Proof.
  unfold parse_status. rewrite tok_int64_3.
  destruct b as [|c1 [|c2 [|c3 b]]]; cbn [takeN N.eqb N.pred Pos.pred_N Pos.pred_double]; rewrite ?takeN_0;
    cbn [digit_run]; rewrite ?digit_of_10.
  - discriminate.
  - destruct (is_digit c1) eqn:H1; cbn [lenN dropN N.succ Pos.succ N.eqb N.pred Pos.pred_N Pos.pred_double tok_skipOne];
      discriminate.
  - destruct (is_digit c1) eqn:H1; [|discriminate].
    destruct (is_digit c2) eqn:H2;
      cbn [lenN dropN N.succ Pos.succ N.eqb N.pred Pos.pred_N Pos.pred_double tok_skipOne]; [discriminate|].
    destruct (is_digit_dz _ H1) as [A1 A2]. unfold digits_value; cbn [fold_left].
    destruct (delim relaxed c2); [|discriminate].
    destruct (Z.to_N (0 * 10 + (Z.of_N c1 - 48)) <=? 99) eqn:E; [discriminate|lia].
  - destruct (is_digit c1) eqn:H1; [|discriminate].
    destruct (is_digit_dz _ H1) as [A1 A2].
    destruct (is_digit c2) eqn:H2.
    2:{ cbn [lenN dropN N.succ Pos.succ N.eqb N.pred Pos.pred_N Pos.pred_double tok_skipOne].
        unfold digits_value; cbn [fold_left].
        destruct (delim relaxed c2); [|discriminate].
        destruct (Z.to_N (0 * 10 + (Z.of_N c1 - 48)) <=? 99) eqn:E; [discriminate|lia]. }
    destruct (is_digit_dz _ H2) as [B1 B2].
    destruct (is_digit c3) eqn:H3.
    2:{ cbn [lenN dropN N.succ Pos.succ N.eqb N.pred Pos.pred_N Pos.pred_double tok_skipOne].
        unfold digits_value; cbn [fold_left].
        destruct (delim relaxed c3); [|discriminate].
        destruct (Z.to_N ((0 * 10 + (Z.of_N c1 - 48)) * 10 + (Z.of_N c2 - 48)) <=? 99) eqn:E; [discriminate|lia]. }
    destruct (is_digit_dz _ H3) as [C1 C2].
    cbn [lenN dropN N.succ Pos.succ N.eqb N.pred Pos.pred_N Pos.pred_double].
    unfold digits_value; cbn [fold_left].
    rewrite ?dropN_0. destruct b as [|dl r']; cbn [tok_skipOne]; [discriminate|].
    destruct (delim relaxed dl) eqn:Hd; [|discriminate]. rewrite delim_spec in Hd.
    match goal with |- context[Z.to_N ?V] =>
      replace (Z.to_N V) with (100 * dval c1 + 10 * dval c2 + dval c3) by (unfold dval in *; lia) end.
    remember (100 * dval c1 + 10 * dval c2 + dval c3) as V eqn:HV.
    destruct (V <=? 99) eqn:E1; [discriminate|].
    destruct (600 <=? V) eqn:E2; [discriminate|].
    intros H. assert (Hv : v = V) by congruence. assert (Hr : r = r') by congruence. subst v r.
    exists c1, c2, c3, dl. split; [reflexivity|]. repeat (split; [assumption|]). lia.
Qed.

(* ---- reason phrase and line terminator ---- *)
Lemma span_app_all {A} (p : A -> bool) a b :
  forallb p a = true -> match b with [] => True | y :: _ => p y = false end -> span p (a ++ b) = (a, b).
Proof.
  intros Ha Hb. induction a as [|x a IH]; cbn [app span].
  - destruct b as [|y b]; [reflexivity|]. cbn [span]. rewrite Hb. reflexivity.
  - cbn [forallb] in Ha. apply andb_true_iff in Ha as [H1 H2]. rewrite H1, (IH H2). reflexivity.
Qed.

Lemma forallb_eq {A} (f g : A -> bool) l : (forall c, f c = g c) -> forallb f l = forallb g l.
Proof. intros H. induction l as [|x l IH]; cbn [forallb]; [reflexivity|]. rewrite H, IH. reflexivity. Qed.

Lemma starts_with_split l p : starts_with l p = true -> l = p ++ dropN (lenN p) l.
Proof.
  revert l; induction p as [|y p IH]; intros l H.
  - cbn [lenN app]. rewrite dropN_0. reflexivity.
  - destruct l as [|c l]; cbn [starts_with] in H; [discriminate|].
    apply andb_true_iff in H as [H1 H2]. apply N.eqb_eq in H1; subst y.
    cbn [lenN app dropN]. destruct (N.succ (lenN p) =? 0) eqn:E; [apply N.eqb_eq in E; lia|].
    rewrite N.pred_succ. f_equal. apply IH; exact H2.
Qed.

Lemma starts_with_app_self p r : starts_with (p ++ r) p = true.
Proof. induction p as [|y p IH]; cbn [app starts_with]; [destruct r; reflexivity|]. rewrite N.eqb_refl, IH. reflexivity. Qed.

Lemma eol_head_not_phrase relaxed eol rest : is_eol relaxed eol ->
  match eol ++ rest with [] => True | y :: _ => resp_phraseChars y = false end.
Proof. intros [->|[_ ->]]; reflexivity. Qed.

Lemma skip_line_terminator_ok_fwd relaxed eol rest : is_eol relaxed eol ->
  skip_line_terminator relaxed (eol ++ rest) = SkOk rest.
Proof.
  intros [->|[-> ->]].
  - unfold skip_line_terminator. cbn [app tok_skipOne]. rewrite lf_spec. cbn [N.eqb Pos.eqb andb].
    rewrite andb_false_r. rewrite skip_required_spec by exact resp_crlf_nonnil.
    destruct rest; reflexivity.
  - unfold skip_line_terminator. cbn [app tok_skipOne]. rewrite lf_spec. reflexivity.
Qed.

Lemma skip_line_terminator_ok_inv relaxed r rest :
  skip_line_terminator relaxed r = SkOk rest -> exists eol, is_eol relaxed eol /\ r = eol ++ rest.
Proof.
  unfold skip_line_terminator. destruct (tok_skipOne cs_LF r) as [ok r1] eqn:E.
  destruct (relaxed && ok) eqn:Er.
  - apply andb_true_iff in Er as [-> ->]. intros H; inversion H; subst.
    destruct r as [|c r]; cbn [tok_skipOne] in E; [discriminate|].
    destruct (cs_LF c) eqn:Ec; [|discriminate]. rewrite lf_spec in Ec. apply N.eqb_eq in Ec; subst c.
    inversion E; subst. exists [10]. split; [right; auto|reflexivity].
  - rewrite skip_required_spec by exact resp_crlf_nonnil.
    destruct (starts_with r resp_crlf) eqn:Es; [|destruct (starts_with resp_crlf r); discriminate].
    intros H; inversion H; subst. exists [13;10]. split; [left; reflexivity|].
    apply (starts_with_split _ _ Es).
Qed.

Lemma reason_and_eol_ok_fwd relaxed s reason eol rest buf :
  forallb is_phrase reason = true -> is_eol relaxed eol -> lenN (reason ++ eol ++ rest) < npos ->
  p_reason s = [] ->
  reason_and_eol relaxed s (reason ++ eol ++ rest) buf = (1%Z, set_reason s reason, rest).
Proof.
  intros Hp He Hl Hr. unfold reason_and_eol.
  rewrite tok_prefix_eq_spec. unfold prefix_spec. rewrite takeN_all by lia.
  rewrite (forallb_eq _ _ _ phrase_spec) in Hp || rewrite <- (forallb_eq _ _ reason phrase_spec) in Hp.
  rewrite (span_app_all _ _ _ Hp (eol_head_not_phrase _ _ rest He)). cbn [fst].
  destruct reason as [|c reason].
  - cbn [app]. rewrite (skip_line_terminator_ok_fwd _ _ _ He). rewrite set_reason_id by exact Hr. reflexivity.
  - rewrite dropN_app_exact. rewrite (skip_line_terminator_ok_fwd _ _ _ He). reflexivity.
Qed.

Lemma reason_and_eol_ok_inv relaxed s t buf s1 rest :
  reason_and_eol relaxed s t buf = (1%Z, s1, rest) -> p_reason s = [] ->
  exists reason eol, t = reason ++ eol ++ rest /\ forallb is_phrase reason = true /\
                     is_eol relaxed eol /\ s1 = set_reason s reason.
Proof.
  unfold reason_and_eol. intros H Hr.
  destruct (tok_prefix resp_phraseChars npos t) as [[tk r]|] eqn:Ep.
  - destruct (skip_line_terminator relaxed r) as [t2| |] eqn:Et; try discriminate.
    inversion H; subst.
    destruct (tok_prefix_sound _ _ _ _ _ Ep) as (Happ & _ & Hall & _).
    destruct (skip_line_terminator_ok_inv _ _ _ Et) as (eol & He & ->).
    exists tk, eol. rewrite (forallb_eq _ _ _ phrase_spec) in Hall. auto.
  - destruct (skip_line_terminator relaxed t) as [t2| |] eqn:Et; try discriminate.
    inversion H; subst.
    destruct (skip_line_terminator_ok_inv _ _ _ Et) as (eol & He & ->).
    exists [], eol. rewrite set_reason_id by exact Hr. auto.
Qed.

(* ---- the whole status line, from a fresh parser ---- *)
Definition first0 : pst := set_stage pst0 SFirst.      (* state in which parse() first calls parseResponseFirstLine *)
Definition accepted_state (proto : proto_t) (major minor status : N) (reason : bytes) : pst :=
  {| p_stage := SFirst; p_proto := proto; p_major := major; p_minor := minor; p_completed := true;
     p_status := status; p_reason := reason; p_mime := []; p_code := sc_none |}.

Lemma tok_int64_1 t : tok_int64 10 false 1 t =
  match t with
  | m :: _ => if is_digit m then Some ((Z.of_N m - 48)%Z, 1) else None
  | [] => None
  end.
Proof.
  rewrite int64_10_run, int_of_run_small by lia. cbn [N.eqb].
  destruct t as [|m r]; [reflexivity|].
  cbn [takeN N.eqb N.pred Pos.pred_N]. rewrite takeN_0. cbn [digit_run]. rewrite digit_of_10.
  destruct (is_digit m); reflexivity.
Qed.

Lemma tok_skipOne_inv set t t3 : tok_skipOne set t = (true, t3) -> exists c, t = c :: t3 /\ set c = true.
Proof.
  destruct t as [|c r]; cbn [tok_skipOne]; [discriminate|].
  destruct (set c) eqn:E; [|discriminate]. intros H; inversion H; subst. eauto.
Qed.

Lemma status_and_reason_fresh_fwd relaxed s d1 d2 d3 dl2 reason eol rest buf :
  p_completed s = false -> p_reason s = [] ->
  is_digit d1 = true -> is_digit d2 = true -> is_digit d3 = true -> is_delim relaxed dl2 = true ->
  forallb is_phrase reason = true -> is_eol relaxed eol ->
  100 <= 100 * dval d1 + 10 * dval d2 + dval d3 <= 599 ->
  lenN (reason ++ eol ++ rest) < npos ->
  status_and_reason relaxed s (d1 :: d2 :: d3 :: dl2 :: reason ++ eol ++ rest) buf =
  (1%Z, set_reason (set_completed (set_status s (100 * dval d1 + 10 * dval d2 + dval d3)) true) reason, rest).
Proof.
  intros Hc Hr H1 H2 H3 Hd Hp He Hv Hl. unfold status_and_reason. rewrite Hc.
  rewrite (parse_status_ok_fwd _ _ _ _ _ _ H1 H2 H3 Hd Hv).
  apply reason_and_eol_ok_fwd; try assumption.
Qed.

Lemma status_and_reason_fresh_inv relaxed s t buf s1 rest :
  p_completed s = false -> p_reason s = [] ->
  status_and_reason relaxed s t buf = (1%Z, s1, rest) ->
  exists d1 d2 d3 dl2 reason eol,
    t = d1 :: d2 :: d3 :: dl2 :: reason ++ eol ++ rest /\
    is_digit d1 = true /\ is_digit d2 = true /\ is_digit d3 = true /\ is_delim relaxed dl2 = true /\
    forallb is_phrase reason = true /\ is_eol relaxed eol /\
    100 <= 100 * dval d1 + 10 * dval d2 + dval d3 <= 599 /\
    s1 = set_reason (set_completed (set_status s (100 * dval d1 + 10 * dval d2 + dval d3)) true) reason.
Proof.
  intros Hc Hr. unfold status_and_reason. rewrite Hc.
  destruct (parse_status relaxed t) as [v t1| |[v|]] eqn:Ep; try discriminate.
  intros H.
  destruct (parse_status_ok_inv _ _ _ _ Ep) as (d1 & d2 & d3 & dl & -> & H1 & H2 & H3 & Hd & -> & Hv).
  destruct (reason_and_eol_ok_inv _ _ _ _ _ _ H ltac:(cbn; exact Hr)) as (reason & eol & -> & Hp & He & ->).
  exists d1, d2, d3, dl, reason, eol. repeat (split; [first [reflexivity|assumption]|]). reflexivity.
Qed.

Theorem status_line_accepted_iff_grammar relaxed b s1 rest : lenN b < npos ->
  (first_line relaxed first0 b = (1%Z, s1, rest) /\ p_stage s1 = SFirst) <->
  (exists line proto major minor status reason,
     b = line ++ rest /\ status_line relaxed line proto major minor status reason /\
     s1 = accepted_state proto major minor status reason).
Proof.
  intros Hlen. split.
  - (* the parser accepted: the input is a grammatical status line followed by rest *)
    intros [H Hst]. unfold first_line in H. cbn [first0 p_proto set_stage pst0 proto_eqb negb] in H.
    revert H. fl_magic_split b Eh Ei.
    + rewrite tok_int64_1.
      destruct (dropN (lenN resp_http1magic) b) as [|m t2] eqn:Et1; [discriminate|].
      destruct (is_digit m) eqn:Hm; [|discriminate].
      cbn [dropN N.eqb N.pred Pos.pred_N]. rewrite dropN_0.
      destruct (tok_skipOne (delim relaxed) t2) as [[] t3] eqn:Ed; [|destruct t2; discriminate].
      destruct (tok_skipOne_inv _ _ _ Ed) as (dl1 & -> & Hd1). rewrite delim_spec in Hd1.
      intros H. apply status_and_reason_fresh_inv in H; [|reflexivity|reflexivity].
      destruct H as (d1 & d2 & d3 & dl2 & reason & eol & -> & H1 & H2 & H3 & Hd2 & Hp & He & Hv & ->).
      exists (lit_http1 ++ m :: dl1 :: d1 :: d2 :: d3 :: dl2 :: reason ++ eol), PHttp, 1, (dval m),
             (100 * dval d1 + 10 * dval d2 + dval d3), reason.
      split; [|split].
      * rewrite (starts_with_split _ _ Eh), Et1. rewrite magic_http1_lit.
        rewrite <- !app_assoc. cbn [app]. rewrite <- !app_assoc. reflexivity.
      * apply SL_http; assumption.
      * destruct (is_digit_dz _ Hm) as [_ Hz]. unfold accepted_state. cbn. rewrite Hz. reflexivity.
    + intros H. apply status_and_reason_fresh_inv in H; [|reflexivity|reflexivity].
      destruct H as (d1 & d2 & d3 & dl2 & reason & eol & Et & H1 & H2 & H3 & Hd2 & Hp & He & Hv & ->).
      exists (lit_icy ++ d1 :: d2 :: d3 :: dl2 :: reason ++ eol), PIcy, 0, 0,
             (100 * dval d1 + 10 * dval d2 + dval d3), reason.
      split; [|split].
      * rewrite (starts_with_split _ _ Ei), Et. rewrite magic_icy_lit.
        rewrite <- !app_assoc. cbn [app]. rewrite <- !app_assoc. reflexivity.
      * apply SL_icy; assumption.
      * reflexivity.
    + destruct ((lenN b <? lenN resp_http1magic) && starts_with resp_http1magic b); [discriminate|].
      destruct ((lenN b <? lenN resp_icymagic) && starts_with resp_icymagic b); [discriminate|].
      intros H; inversion H; subst. cbn in Hst. discriminate.
  - (* a grammatical status line is accepted with exactly its fields *)
    intros (line & proto & major & minor & status & reason & -> & Hg & ->).
    destruct Hg as [m dl1 d1 d2 d3 dl2 reason eol Hm Hd1 H1 H2 H3 Hd2 Hp He Hv
                   |d1 d2 d3 dl2 reason eol H1 H2 H3 Hd2 Hp He Hv].
    + assert (Hl : lenN (reason ++ eol ++ rest) < npos).
      { rewrite <- !app_assoc in Hlen. cbn [app] in Hlen. rewrite <- !app_assoc in Hlen.
        rewrite lenN_app in Hlen. cbn [lenN] in Hlen. lia. }
      split; [|reflexivity].
      unfold first_line. cbn [first0 p_proto set_stage pst0 proto_eqb negb].
      rewrite <- !app_assoc. cbn [app]. rewrite <- !app_assoc.
      rewrite (tok_skip_nonempty _ _ http1magic_nonnil). rewrite <- magic_http1_lit.
      rewrite starts_with_app_self, dropN_app_exact.
      rewrite tok_int64_1, Hm. cbn [dropN N.eqb N.pred Pos.pred_N]. rewrite ?dropN_0.
      cbn [tok_skipOne]. rewrite delim_spec, Hd1.
      rewrite status_and_reason_fresh_fwd by (first [reflexivity|assumption]).
      destruct (is_digit_dz _ Hm) as [_ Hz]. unfold accepted_state. cbn. rewrite Hz. reflexivity.
    + assert (Hl : lenN (reason ++ eol ++ rest) < npos).
      { rewrite <- !app_assoc in Hlen. cbn [app] in Hlen. rewrite <- !app_assoc in Hlen.
        rewrite lenN_app in Hlen. cbn [lenN] in Hlen. lia. }
      split; [|reflexivity].
      rewrite <- !app_assoc. cbn [app]. rewrite <- !app_assoc.
      pose proof (first_line_icy_head relaxed first0 lit_icy
                    (d1 :: d2 :: d3 :: dl2 :: reason ++ eol ++ rest) eq_refl eq_refl) as Hh.
      rewrite Hh. change (dropN (lenN resp_icymagic) lit_icy) with (@nil N). cbn [app].
      rewrite status_and_reason_fresh_fwd by (first [reflexivity|assumption]).
      reflexivity.
Qed.

(* ---- HTTP/0.9 gatewaying ---- *)
(* b neither starts with a magic nor is a (possibly empty) proper prefix of one *)
Definition no_magic_relation (b : bytes) : Prop :=
  starts_with b lit_http1 = false /\ starts_with lit_http1 b = false /\
  starts_with b lit_icy = false /\ starts_with lit_icy b = false.

(* what the caller sees for a gatewayed HTTP/0.9 reply: HTTP/1.1 200 "Gatewaying" and the fake header block
   "X-Transformed-From: HTTP/0.9\r\nMime-Version: 1.0\r\nExpires: -1\r\n\r\n" *)
Definition gateway_fields : fields :=
  {| f_proto := PHttp; f_major := 1; f_minor := 1; f_status := 200;
     f_reason := [71;97;116;101;119;97;121;105;110;103];
     f_mime := [88;45;84;114;97;110;115;102;111;114;109;101;100;45;70;114;111;109;58;32;72;84;84;80;47;48;46;57;13;10;
                77;105;109;101;45;86;101;114;115;105;111;110;58;32;49;46;48;13;10;
                69;120;112;105;114;101;115;58;32;45;49;13;10;13;10] |}.

Lemma gateway_fields_ok : fields_of (gateway09 first0) = gateway_fields.
Proof. reflexivity. Qed.

Lemma first_line_gateway relaxed b : no_magic_relation b ->
  first_line relaxed first0 b = (1%Z, gateway09 first0, b).
Proof.
  intros (A1 & A2 & B1 & B2). unfold first_line. cbn [first0 p_proto set_stage pst0 proto_eqb negb].
  rewrite (tok_skip_nonempty _ b http1magic_nonnil), magic_http1_lit, A1.
  rewrite (tok_skip_nonempty _ b icymagic_nonnil), magic_icy_lit, B1.
  rewrite A2, B2, !andb_false_r. reflexivity.
Qed.

Theorem non_http_prefix_is_http09 relaxed limit b : no_magic_relation b ->
  step relaxed limit pst0 b = Done gateway_fields b.
Proof.
  intros Hn. pose proof (first_line_gateway relaxed b Hn) as Hf.
  destruct b as [|c b]; [destruct Hn as (_ & A2 & _); discriminate|].
  rewrite step_obs. unfold parse. cbn [p_stage pst0 stage_eqb].
  change (set_stage pst0 SFirst) with first0.
  unfold parse_first. cbn [p_stage first0 set_stage stage_eqb]. rewrite Hf. reflexivity.
Qed.

(* conversely the parser gateways nothing else: an input related to a magic never takes the HTTP/0.9 branch *)
Theorem http09_only_for_non_http_prefix relaxed b r s1 rest :
  first_line relaxed first0 b = (r, s1, rest) -> p_stage s1 = SDone ->
  no_magic_relation b /\ r = 1%Z /\ s1 = gateway09 first0 /\ rest = b.
Proof.
  unfold first_line. cbn [first0 p_proto set_stage pst0 proto_eqb negb].
  fl_magic_split b Eh Ei.
  - destruct (tok_int64 10 false 1 (dropN (lenN resp_http1magic) b)) as [[v k0]|].
    + destruct (tok_skipOne (delim relaxed) (dropN k0 (dropN (lenN resp_http1magic) b))) as [[] t3].
      * intros H Hs. apply status_and_reason_frame in H. cbn in H. destruct H as (F1 & _). congruence.
      * destruct (dropN k0 (dropN (lenN resp_http1magic) b)); intros H Hs; inversion H; subst; discriminate.
    + destruct (dropN (lenN resp_http1magic) b); intros H Hs; inversion H; subst; discriminate.
  - intros H Hs. apply status_and_reason_frame in H. cbn in H. destruct H as (F1 & _). congruence.
  - destruct ((lenN b <? lenN resp_http1magic) && starts_with resp_http1magic b) eqn:C1;
      [intros H Hs; inversion H; subst; discriminate|].
    destruct ((lenN b <? lenN resp_icymagic) && starts_with resp_icymagic b) eqn:C2;
      [intros H Hs; inversion H; subst; discriminate|].
    intros H _; inversion H; subst.
    repeat split; try reflexivity; try assumption.
    + apply (magic_decided _ _ Eh C1).
    + apply (magic_decided _ _ Ei C2).
Qed.

(* ---- headersEnd stops at the end of an empty line ---- *)
Definition at_line_start (q : bytes) : Prop := q = [] \/ exists q', q = q' ++ [10].
Definition he_inv (st : N) (pre : bytes) : Prop :=
  if st =? 0 then True
  else if st =? 1 then at_line_start pre
  else exists p, pre = p ++ [13] /\ at_line_start p.
(* p ends with an empty line: q is empty or LF-terminated, followed by LF or CR LF *)
Definition ends_with_empty_line (p : bytes) : Prop :=
  exists q eol, p = q ++ eol /\ (eol = [10] \/ eol = [13; 10]) /\ at_line_start q.

Lemma headers_end_go_sound l : forall st e f e' f' pre,
  headers_end_go l st e f = (e', f') -> e' <> 0 -> he_inv st pre ->
  ends_with_empty_line (pre ++ takeN (e' - e) l).
Proof.
  induction l as [|c r IH]; intros st e f e' f' pre H Hne Hinv.
  - cbn [headers_end_go] in H. inversion H; subst. congruence.
  - pose proof (headers_end_go_found_range _ _ _ _ _ _ H Hne) as Hr.
    assert (Htk : forall e2, e2 = N.succ e -> pre ++ takeN (e' - e) (c :: r) = (pre ++ [c]) ++ takeN (e' - e2) r).
    { intros e2 ->. cbn [takeN]. destruct (e' - e =? 0) eqn:E0; [apply N.eqb_eq in E0; lia|].
      replace (N.pred (e' - e)) with (e' - N.succ e) by lia. rewrite <- app_assoc. reflexivity. }
    assert (Hone : e' = N.succ e -> pre ++ takeN (e' - e) (c :: r) = pre ++ [c]).
    { intros ->. replace (N.succ e - e) with 1 by lia. cbn [takeN N.eqb N.pred Pos.pred_N]. rewrite takeN_0. reflexivity. }
    cbn [headers_end_go] in H. unfold he_inv in Hinv.
    destruct (st =? 0) eqn:S0.
    + rewrite (Htk _ eq_refl). eapply IH; [exact H|exact Hne|].
      unfold he_inv. destruct (c =? 10) eqn:Ec; cbn [N.eqb Pos.eqb]; [|exact I].
      apply N.eqb_eq in Ec; subst c. right. exists pre. reflexivity.
    + destruct (st =? 1) eqn:S1.
      * destruct (c =? 13) eqn:E13.
        { apply N.eqb_eq in E13; subst c. rewrite (Htk _ eq_refl). eapply IH; [exact H|exact Hne|].
          unfold he_inv. cbn [N.eqb Pos.eqb]. exists pre. auto. }
        destruct (c =? 10) eqn:E10.
        { apply N.eqb_eq in E10; subst c. inversion H; subst. rewrite (Hone eq_refl).
          exists pre, [10]. auto. }
        destruct ((c =? 32) || (c =? 9)); rewrite (Htk _ eq_refl); (eapply IH; [exact H|exact Hne|exact I]).
      * destruct (c =? 10) eqn:E10.
        { apply N.eqb_eq in E10; subst c. inversion H; subst. rewrite (Hone eq_refl).
          destruct Hinv as (p & -> & Hp). exists p, [13; 10]. rewrite <- app_assoc. auto. }
        rewrite (Htk _ eq_refl). eapply IH; [exact H|exact Hne|exact I].
Qed.

Lemma headers_end_sound b e f : headers_end b = (e, f) -> e <> 0 -> ends_with_empty_line (takeN e b).
Proof.
  intros H Hne. unfold headers_end in H.
  pose proof (headers_end_go_sound b 1 0 false e f [] H Hne (or_introl eq_refl)) as Hs.
  rewrite N.sub_0_r in Hs. exact Hs.
Qed.

(* ---- lifting to parse(): what an accepted reply looks like ---- *)
Lemma grab_mime_frame limit s b ok s' k :
  grab_mime limit s b = (ok, s', k) ->
  p_proto s' = p_proto s /\ p_major s' = p_major s /\ p_minor s' = p_minor s /\
  p_status s' = p_status s /\ p_reason s' = p_reason s /\ p_completed s' = p_completed s /\
  (p_code s' = p_code s \/ p_code s' = sc_header_too_large) /\
  (ok = true ->
   (proto_eqb (p_proto s) PHttp && (p_major s =? 1) || proto_eqb (p_proto s) PIcy) = true ->
   exists block, b = block ++ k /\ ends_with_empty_line block).
Proof.
  unfold grab_mime.
  destruct (proto_eqb (p_proto s) PHttp && (p_major s =? 1) || proto_eqb (p_proto s) PIcy).
  2:{ intros H; inversion H; subst; cbn. repeat split; auto. discriminate. }
  destruct (headers_end b) as [e fold] eqn:Eh. destruct (e =? 0) eqn:E0.
  - destruct (limit <=? lenN b + first_line_size s); intros H; inversion H; subst; cbn;
      repeat split; auto; discriminate.
  - destruct (limit <=? first_line_size s + e); intros H; inversion H; subst; cbn;
      repeat split; auto; try discriminate.
    intros _ _. exists (takeN e b). split; [symmetry; apply takeN_dropN|].
    apply N.eqb_neq in E0. apply (headers_end_sound _ _ _ Eh E0).
Qed.

Lemma parse_fresh_nonempty relaxed limit c b :
  parse relaxed limit pst0 (c :: b) = parse_first relaxed limit first0 (c :: b).
Proof. reflexivity. Qed.

(* Every reply head that parse() accepts from a fresh parser is either the HTTP/0.9 gateway case,
   or a grammatical status line followed by a header block and the unconsumed rest, and the
   reported protocol/version/status/reason are the grammar's fields. *)
Theorem accepted_reply_shape relaxed limit b f rest : lenN b < npos ->
  step relaxed limit pst0 b = Done f rest ->
  (no_magic_relation b /\ f = gateway_fields /\ rest = b) \/
  (exists line proto major minor status reason block,
     b = line ++ block ++ rest /\ status_line relaxed line proto major minor status reason /\
     ends_with_empty_line block /\
     f_proto f = proto /\ f_major f = major /\ f_minor f = minor /\ f_status f = status /\
     f_reason f = reason).
Proof.
  intros Hlen. rewrite step_obs. destruct b as [|c b]; [discriminate|].
  rewrite parse_fresh_nonempty. unfold parse_first. cbn [p_stage first0 set_stage stage_eqb].
  destruct (first_line relaxed first0 (c :: b)) as [[ret s1] b1] eqn:Ef.
  pose proof (first_line_ret relaxed first0 (c :: b)) as Hret. rewrite Ef in Hret. cbn [fst] in Hret.
  destruct Hret as [-> | [-> | ->]].
  - cbn [Z.ltb Z.compare andb].
    destruct (first_line_stage _ _ _ _ _ _ Ef) as [Hs|Hs].
    + (* status-line path *)
      cbn [p_stage first0 set_stage] in Hs.
      destruct (proj1 (status_line_accepted_iff_grammar relaxed (c :: b) s1 b1 Hlen) (conj Ef Hs))
        as (line & proto & major & minor & status & reason & Hb & Hg & ->).
      cbn [accepted_state p_stage stage_eqb]. unfold parse_tail. cbn [p_stage set_stage stage_eqb].
      destruct (grab_mime limit (set_stage (accepted_state proto major minor status reason) SMime) b1)
        as [[ok s3] k] eqn:Eg.
      destruct (grab_mime_frame _ _ _ _ _ _ Eg) as (G1 & G2 & G3 & G4 & G5 & _ & _ & G8).
      destruct ok; cbn [obs].
      * destruct (needs_more s3); cbn [negb]; [discriminate|].
        intros H; inversion H; subst. right.
        assert (Hexp : (proto_eqb proto PHttp && (major =? 1) || proto_eqb proto PIcy) = true)
          by (destruct Hg; reflexivity).
        destruct (G8 eq_refl Hexp) as (block & Hblock & Hempty).
        exists line, proto, major, minor, status, reason, block.
        split; [rewrite Hb, Hblock; reflexivity|]. split; [exact Hg|]. split; [exact Hempty|].
        unfold fields_of; cbn [f_proto f_major f_minor f_status f_reason].
        rewrite G1, G2, G3, G4, G5. cbn. auto.
      * destruct (needs_more s3); discriminate.
    + (* HTTP/0.9 *)
      destruct (http09_only_for_non_http_prefix _ _ _ _ _ Ef Hs) as (Hn & _ & -> & ->).
      cbn [gateway09 p_stage set_stage stage_eqb]. unfold parse_tail. cbn [p_stage set_stage stage_eqb obs needs_more negb].
      intros H; inversion H; subst. left. split; [exact Hn|]. split; reflexivity.
  - cbn [Z.ltb Z.compare andb]. unfold parse_tail.
    destruct (first_line_more _ _ _ _ _ Ef eq_refl) as (_ & R2 & _).
    rewrite R2. cbn [p_stage first0 set_stage stage_eqb obs].
    rewrite (needs_more_not_done s1) by (rewrite R2; discriminate). discriminate.
  - cbn [Z.ltb Z.compare andb obs needs_more p_stage set_code set_stage stage_eqb negb]. discriminate.
Qed.

(* Conversely a grammatical status line is never rejected as a syntax error, and whatever the
   header-block stage then decides (need more / done / too large), the parser reports the
   grammar's protocol, version, status and reason. *)
Theorem grammatical_status_line_accepted relaxed limit line tail proto major minor status reason ok s rest :
  lenN (line ++ tail) < npos ->
  status_line relaxed line proto major minor status reason ->
  parse relaxed limit pst0 (line ++ tail) = (ok, s, rest) ->
  p_proto s = proto /\ p_major s = major /\ p_minor s = minor /\ p_status s = status /\
  p_reason s = reason /\ p_completed s = true /\ p_code s <> sc_invalid_header /\
  (p_stage s = SMime \/ p_stage s = SDone).
Proof.
  intros Hlen Hg.
  assert (Hf : first_line relaxed first0 (line ++ tail) =
               (1%Z, accepted_state proto major minor status reason, tail)).
  { apply (proj2 (status_line_accepted_iff_grammar relaxed (line ++ tail) _ tail Hlen)).
    exists line, proto, major, minor, status, reason. auto. }
  assert (Hne : exists c b, line ++ tail = c :: b) by (destruct Hg; cbn; eauto).
  destruct Hne as (c & b & Hcb). rewrite Hcb in *. rewrite parse_fresh_nonempty.
  unfold parse_first. cbn [p_stage first0 set_stage stage_eqb]. rewrite Hf.
  cbn [Z.ltb Z.compare andb accepted_state p_stage stage_eqb]. unfold parse_tail. cbn [p_stage set_stage stage_eqb].
  destruct (grab_mime limit (set_stage (accepted_state proto major minor status reason) SMime) tail)
    as [[ok1 s3] k] eqn:Eg.
  destruct (grab_mime_frame _ _ _ _ _ _ Eg) as (G1 & G2 & G3 & G4 & G5 & G6 & G7 & _).
  destruct (grab_mime_stage _ _ _ _ _ _ Eg) as [S1 S2].
  assert (Hst : p_stage s3 = SMime \/ p_stage s3 = SDone).
  { destruct ok1; [right; apply S1; reflexivity|].
    destruct (p_stage s3) eqn:E3; auto; destruct (S2 eq_refl ltac:(discriminate)) as [-> _]; discriminate. }
  assert (Hcode : p_code s3 <> sc_invalid_header) by (destruct G7 as [->| ->]; discriminate).
  destruct ok1; intros H; inversion H; subst; cbn in *; repeat split; auto.
Qed.

Theorem parse_status_ok_iff relaxed b v r :
  parse_status relaxed b = PSok v r <->
  exists d1 d2 d3 dl, b = d1 :: d2 :: d3 :: dl :: r /\
    is_digit d1 = true /\ is_digit d2 = true /\ is_digit d3 = true /\ is_delim relaxed dl = true /\
    v = 100 * dval d1 + 10 * dval d2 + dval d3 /\ 100 <= v <= 599.
Proof.
  split; [apply parse_status_ok_inv|].
  intros (d1 & d2 & d3 & dl & -> & H1 & H2 & H3 & Hd & -> & Hv).
  apply parse_status_ok_fwd; assumption.
Qed.

Theorem tables_and_magics_spec :
  resp_http1magic = lit_http1 /\ resp_icymagic = lit_icy /\ resp_crlf = [13; 10] /\
  (forall relaxed c, delim relaxed c = is_delim relaxed c) /\
  (forall c, resp_phraseChars c = is_phrase c) /\
  sc_invalid_header = 600 /\ sc_header_too_large = 601 /\ sc_none = 0.
Proof. repeat split; try reflexivity; [apply delim_spec|apply phrase_spec]. Qed.
