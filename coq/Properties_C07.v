(* Properties_C07.v — C07: non-idempotent requests are not resent after reaching the origin.
   Statements only; proofs live in RetryProofs.v. *)
Require Import List NArith Bool.
Require Import SquidV.Bytes SquidV.RetryModel SquidV.RetryProofs.
Require Import SquidV.gen.RetryMethods_gen.
Import ListNotations.
Local Open Scope N_scope.

Theorem C07_post_and_extension_methods_are_nonidempotent :
  method_safe rm_METHOD_POST = false /\ method_idem rm_METHOD_POST = false /\
  method_safe rm_METHOD_OTHER = false /\ method_idem rm_METHOD_OTHER = false /\
  rm_ext_is_other = true /\ rm_ext_attrs = (false, false).
Proof. exact post_and_other_nonidempotent. Qed.
Print Assumptions C07_post_and_extension_methods_are_nonidempotent.
