(* DiskcrashSweep.v — exhaustive sweep of a finite family of workloads of the rock crash model (C16):
   kept apart from DiskcrashProofs.v because the vm_compute below takes about two minutes. *)
Require Import SquidV.Bytes.
Require Import SquidV.DiskcrashModel.
Local Open Scope Z_scope.

(* ------------------------------------------------------------------------------------------------------------
   Exhaustive sweep of a finite family of workloads: where exactly does crash consistency fail?
   Family: 8 slots of 2 payload bytes, two keys (filenos 1 and 2), operations = store of a fresh object of 1..6
   stream bytes (1..3 slots) under one of the keys, or purge of a key; ALL workloads of at most [len] operations, ALL
   crash points at write boundaries, both keys queried.
   ------------------------------------------------------------------------------------------------------------ *)
Definition completed_b (P : Z) (ss : list session) (n : nat) (s : session) : bool :=
  existsb (fun sm => (s_obj (fst sm) =? s_obj s) && (snd sm =? nwrites P (fst sm))%nat) (split_n P ss n).

Fixpoint atoms_eqb (a b : list atom) : bool :=
  match a, b with
  | [], [] => true
  | x :: a', y :: b' => atom_eqb x y && atoms_eqb a' b'
  | _, _ => false
  end.

(* the hit for key k after the crash is the full stream of a completed session with that key (or there is no hit) *)
Definition hit_ok_b (N P : Z) (ss : list session) (n : nat) (k : key) : bool :=
  match hit_after N P ss n None k with
  | None => true
  | Some c => existsb (fun s => completed_b P ss n s && key_eqb (s_key s) k && atoms_eqb c (full_stream s)) ss
  end.

(* the session whose writes are cut by the crash, if any *)
Definition inflight (P : Z) (ss : list session) (n : nat) : option session :=
  match find (fun sm => (0 <? snd sm)%nat && (snd sm <? nwrites P (fst sm))%nat) (split_n P ss n) with
  | Some sm => Some (fst sm)
  | None => None
  end.

(* "a same-key overwrite is in flight at the crash": the cut session's key was stored before *)
Fixpoint stored_before (ss : list session) (s : session) : bool :=
  match ss with
  | [] => false
  | x :: r => if s_obj x =? s_obj s then false else key_eqb (s_key x) (s_key s) || stored_before r s
  end.

Definition overwrite_inflight (P : Z) (ss : list session) (n : nat) : bool :=
  match inflight P ss n with Some s => stored_before ss s | None => false end.

(* the family *)
Definition fam_keys : list key := [(1, 0); (2, 0)].
Definition fam_ops (o : Z) : list op :=
  flat_map (fun k => OPurge k :: map (fun len => OStore k o o len 1 0) [1; 2; 3; 4; 5; 6]) fam_keys.
Fixpoint fam_workloads (len : nat) (o : Z) : list (list op) :=
  match len with
  | O => [[]]
  | S l => [] :: flat_map (fun x => map (cons x) (fam_workloads l (o + 1))) (fam_ops o)
  end.

Definition sweep_gen (N P : Z) (keys : list key) (ops : list op) : bool :=
  let ss := sessions_of N P ops in
  let total := length (all_writes P ss) in
  forallb (fun n => overwrite_inflight P ss n || forallb (hit_ok_b N P ss n) keys) (seq 0 (S total)).

Definition sweep_one (ops : list op) : bool := sweep_gen 8 2 fam_keys ops.

Definition sweep (len : nat) : bool := forallb sweep_one (fam_workloads len 1).

Lemma sweep4 : forallb sweep_one (fam_workloads 4 1) = true.
Proof. vm_compute. reflexivity. Qed.

(* fam_workloads 4 1 has 41371 workloads (14 operations per position, lengths 0..4) *)

Lemma atoms_eqb_eq : forall a b, atoms_eqb a b = true -> a = b.
Proof.
  induction a as [|[o i] a IH]; intros [|[o' i'] b] H; cbn [atoms_eqb] in H; try discriminate H; [reflexivity|].
  apply andb_prop in H. destruct H as [H1 H2]. unfold atom_eqb in H1. cbn [fst snd] in H1.
  apply andb_prop in H1. destruct H1 as [Ho Hi]. apply Z.eqb_eq in Ho, Hi. subst. f_equal. apply IH, H2.
Qed.

Lemma key_eqb_eq : forall a b : key, key_eqb a b = true -> a = b.
Proof.
  intros [a0 a1] [b0 b1] H. unfold key_eqb in H. cbn [fst snd] in H. apply andb_prop in H. destruct H as [H0 H1].
  apply Z.eqb_eq in H0, H1. now subst.
Qed.

(* what one sweep step establishes, for arbitrary parameters (nothing here can be reduced by the kernel) *)
Lemma sweep_gen_spec : forall N P keys ops, sweep_gen N P keys ops = true ->
  forall n, (n <= length (all_writes P (sessions_of N P ops)))%nat ->
  overwrite_inflight P (sessions_of N P ops) n = false ->
  forall k, In k keys ->
  forall c, hit_after N P (sessions_of N P ops) n None k = Some c ->
  exists s, In s (sessions_of N P ops) /\ completed_b P (sessions_of N P ops) n s = true /\ s_key s = k /\
            c = full_stream s.
Proof.
  intros N P keys ops H n Hn Hov k Hk c Hc. unfold sweep_gen in H. cbv zeta in H.
  rewrite forallb_forall in H.
  assert (Hin : In n (seq 0 (S (length (all_writes P (sessions_of N P ops)))))) by (apply in_seq; lia).
  specialize (H n Hin). apply orb_true_iff in H. destruct H as [H | H]; [congruence|].
  rewrite forallb_forall in H. specialize (H k Hk). unfold hit_ok_b in H. rewrite Hc in H.
  apply existsb_exists in H. destruct H as (s & Hin_s & Hs).
  apply andb_prop in Hs. destruct Hs as [Hs Heq]. apply andb_prop in Hs. destruct Hs as [Hcomp Hkey].
  exists s. repeat split; auto using key_eqb_eq, atoms_eqb_eq.
Qed.

(* For every workload of the family, every crash point at a write boundary at which no same-key overwrite is in
   flight, and both keys: a hit after recovery is the full stream of a session with that key all of whose writes
   are among the first n. *)
Lemma sweep_sound :
  forall ops, In ops (fam_workloads 4 1) ->
  forall n, (n <= length (all_writes 2 (sessions_of 8 2 ops)))%nat ->
  overwrite_inflight 2 (sessions_of 8 2 ops) n = false ->
  forall k, In k fam_keys ->
  forall c, hit_after 8 2 (sessions_of 8 2 ops) n None k = Some c ->
  exists s, In s (sessions_of 8 2 ops) /\ completed_b 2 (sessions_of 8 2 ops) n s = true /\ s_key s = k /\
            c = full_stream s.
Proof.
  intros ops Hops.
  exact (sweep_gen_spec 8 2 fam_keys ops (proj1 (forallb_forall sweep_one (fam_workloads 4 1)) sweep4 ops Hops)).
Qed.
