(* Properties_C35.v — C35: HTTP date formatting and parsing round-trip.
   Statements only; proofs live in DateProofs.v.  The model (DateModel.v) transcribes
   src/time/rfc1123.cc; month_names[], RFC1123_STRFTIME and the C locale's day / month names are
   regenerated from /repo on every run (gen/DateTabs_gen.v), so every theorem below is
   re-checked against the tables the code has now. *)
Require Import SquidV.Bytes SquidV.DateModel SquidV.DateProofs.
Require Import SquidV.gen.DateTabs_gen.
Local Open Scope Z_scope.

(* --- clause 1: for every time from 1970 through 9999, parsing the RFC 1123 date Squid formats
       returns the same time (253402300800 = 1 Jan 10000 00:00:00) --- *)
Theorem C35_format_parse_roundtrip : forall t, 0 <= t < 253402300800 ->
  ParseRfc1123 (FormatRfc1123 t) = t.
Proof. exact format_parse_roundtrip. Qed.

(* ... and the string it formats is the IMF-fixdate that denotes t, with the right day name
   (so the round trip is not two errors cancelling) *)
Theorem C35_format_is_the_imf_fixdate_of_t : forall t, 0 <= t < 253402300800 ->
  exists wd d mon y hh mm ss,
    (0 <= wd < 7 /\ 0 <= d < 100 /\ 0 <= mon < 12 /\ 1970 <= y < 10000 /\
     0 <= hh < 100 /\ 0 <= mm < 100 /\ 0 <= ss < 100) /\
    FormatRfc1123 t = imf_fixdate wd d mon y hh mm ss /\
    wd = (4 + t / 86400) mod 7 /\
    denoted_time y (mon + 1) d hh mm ss = Some t.
Proof. exact format_denotes. Qed.

(* --- the calendar behind "the time a string denotes": the day count is 0 on 1 Jan 1970 and
       grows by exactly one from each calendar day to the next (month lengths, leap years
       every 4th year except centuries not divisible by 400); it is inverted by the
       gmtime-side algorithm for ALL integers, which always yields a real calendar date --- *)
Theorem C35_epoch : days_from_civil 1970 1 1 = 0.
Proof. exact dfc_epoch. Qed.

Theorem C35_day_count_follows_calendar : forall y m d, valid_date y m d = true ->
  forall y' m' d', next_day (y, m, d) = (y', m', d') ->
  days_from_civil y' m' d' = days_from_civil y m d + 1.
Proof. exact dfc_next_day. Qed.

Theorem C35_civil_roundtrip : forall z y m d, civil_from_days z = (y, m, d) ->
  days_from_civil y m d = z.
Proof. exact civil_roundtrip. Qed.

Theorem C35_civil_from_days_is_a_date : forall z y m d, civil_from_days z = (y, m, d) ->
  valid_date y m d = true.
Proof. exact civil_from_days_valid. Qed.

Theorem C35_years_1970_to_9999 : forall z, 0 <= z < 2932897 ->
  forall y m d, civil_from_days z = (y, m, d) -> 1970 <= y <= 9999.
Proof. exact civil_from_days_year_range. Qed.

(* --- clause 2: the parser's answer on EVERY string of the three forms (all day names, all
       2DIGIT / 4DIGIT field values), in closed form: form_answer is the denoted time when the
       fields are a real calendar date with hh <= 23, mm <= 59, ss <= 59, and -1 otherwise --- *)
Theorem C35_imf_fixdate_answer : forall wd d mon y hh mm ss,
  0 <= wd < 7 -> 0 <= d < 100 -> 0 <= mon < 12 -> 0 <= y < 10000 ->
  0 <= hh < 100 -> 0 <= mm < 100 -> 0 <= ss < 100 ->
  ParseRfc1123 (imf_fixdate wd d mon y hh mm ss) = form_answer y (mon + 1) d hh mm ss.
Proof. exact imf_answer. Qed.

Theorem C35_rfc850_answer : forall wd d mon yy hh mm ss,
  0 <= wd < 7 -> 0 <= d < 100 -> 0 <= mon < 12 -> 0 <= yy < 100 ->
  0 <= hh < 100 -> 0 <= mm < 100 -> 0 <= ss < 100 ->
  ParseRfc1123 (rfc850_date wd d mon yy hh mm ss) = form_answer (yy_year yy) (mon + 1) d hh mm ss.
Proof. exact rfc850_answer. Qed.

Theorem C35_asctime_answer : forall wd mon d two hh mm ss y,
  0 <= wd < 7 -> 0 <= mon < 12 -> (if two : bool then 0 <= d < 100 else 0 <= d < 10) -> 0 <= y < 10000 ->
  0 <= hh < 100 -> 0 <= mm < 100 -> 0 <= ss < 100 ->
  ParseRfc1123 (asctime_date wd mon d two hh mm ss y) = form_answer y (mon + 1) d hh mm ss.
Proof. exact asctime_answer. Qed.

(* whenever a string of one of the forms is accepted (result <> -1), its fields are a real
   calendar date and the returned time is the one the string denotes *)
Theorem C35_imf_fixdate_accepted_denotes : forall wd d mon y hh mm ss t,
  0 <= wd < 7 -> 0 <= d < 100 -> 0 <= mon < 12 -> 0 <= y < 10000 ->
  0 <= hh < 100 -> 0 <= mm < 100 -> 0 <= ss < 100 ->
  ParseRfc1123 (imf_fixdate wd d mon y hh mm ss) = t -> t <> -1 ->
  valid_date y (mon + 1) d = true /\ denoted_time y (mon + 1) d hh mm ss = Some t.
Proof. exact imf_denotes. Qed.

Theorem C35_rfc850_accepted_denotes : forall wd d mon yy hh mm ss t,
  0 <= wd < 7 -> 0 <= d < 100 -> 0 <= mon < 12 -> 0 <= yy < 100 ->
  0 <= hh < 100 -> 0 <= mm < 100 -> 0 <= ss < 100 ->
  ParseRfc1123 (rfc850_date wd d mon yy hh mm ss) = t -> t <> -1 ->
  valid_date (yy_year yy) (mon + 1) d = true /\ denoted_time (yy_year yy) (mon + 1) d hh mm ss = Some t.
Proof. exact rfc850_denotes. Qed.

Theorem C35_asctime_accepted_denotes : forall wd mon d two hh mm ss y t,
  0 <= wd < 7 -> 0 <= mon < 12 -> (if two : bool then 0 <= d < 100 else 0 <= d < 10) -> 0 <= y < 10000 ->
  0 <= hh < 100 -> 0 <= mm < 100 -> 0 <= ss < 100 ->
  ParseRfc1123 (asctime_date wd mon d two hh mm ss y) = t -> t <> -1 ->
  valid_date y (mon + 1) d = true /\ denoted_time y (mon + 1) d hh mm ss = Some t.
Proof. exact asctime_denotes. Qed.

(* in particular a day that does not exist in the named month is rejected *)
Theorem C35_nonexistent_day_rejected : forall wd d mon y hh mm ss,
  0 <= wd < 7 -> 0 <= d < 100 -> 0 <= mon < 12 -> 0 <= y < 10000 ->
  0 <= hh < 100 -> 0 <= mm < 100 -> 0 <= ss < 100 ->
  valid_date y (mon + 1) d = false -> ParseRfc1123 (imf_fixdate wd d mon y hh mm ss) = -1.
Proof. exact imf_nonexistent_day_rejected. Qed.

(* conversely every string of the three forms that denotes a time is accepted with that time *)
Theorem C35_denoting_forms_accepted : forall wd d mon y hh mm ss t,
  0 <= wd < 7 -> 0 <= d < 100 -> 0 <= mon < 12 -> 0 <= y < 10000 ->
  0 <= hh < 100 -> 0 <= mm < 100 -> 0 <= ss < 100 ->
  denoted_time y (mon + 1) d hh mm ss = Some t ->
  ParseRfc1123 (imf_fixdate wd d mon y hh mm ss) = t /\
  (forall two : bool, (two = false -> d < 10) -> ParseRfc1123 (asctime_date wd mon d two hh mm ss y) = t) /\
  (forall yy, 0 <= yy < 100 -> yy_year yy = y -> ParseRfc1123 (rfc850_date wd d mon yy hh mm ss) = t).
Proof. exact forms_accepted. Qed.

(* non-vacuity: the three example dates of RFC 9110 section 5.6.7 and the hypotheses above *)
Example C35_ex_format : FormatRfc1123 784111777 =
  [83;117;110;44;32;48;54;32;78;111;118;32;49;57;57;52;32;48;56;58;52;57;58;51;55;32;71;77;84]%N.
Proof. vm_compute. reflexivity. Qed.
Example C35_ex_imf : imf_fixdate 0 6 10 1994 8 49 37 = FormatRfc1123 784111777 /\
  ParseRfc1123 (imf_fixdate 0 6 10 1994 8 49 37) = 784111777 /\
  valid_date 1994 11 6 = true /\ denoted_time 1994 11 6 8 49 37 = Some 784111777.
Proof. vm_compute. repeat split; reflexivity. Qed.
Example C35_ex_rfc850 : ParseRfc1123 (rfc850_date 0 6 10 94 8 49 37) = 784111777 /\
  rfc850_date 0 6 10 94 8 49 37 =
  [83;117;110;100;97;121;44;32;48;54;45;78;111;118;45;57;52;32;48;56;58;52;57;58;51;55;32;71;77;84]%N.
Proof. vm_compute. split; reflexivity. Qed.
Example C35_ex_asctime : ParseRfc1123 (asctime_date 0 10 6 false 8 49 37 1994) = 784111777 /\
  asctime_date 0 10 6 false 8 49 37 1994 =
  [83;117;110;32;78;111;118;32;32;54;32;48;56;58;52;57;58;51;55;32;49;57;57;52]%N.
Proof. vm_compute. split; reflexivity. Qed.
Example C35_ex_rejected : valid_date 2000 2 30 = false /\ ParseRfc1123 (imf_fixdate 3 30 1 2000 0 0 0) = -1 /\
  valid_date 2000 2 29 = true /\ ParseRfc1123 (imf_fixdate 2 29 1 2000 0 0 0) = 951782400 /\
  ParseRfc1123 (imf_fixdate 4 29 1 1900 0 0 0) = -1.
Proof. vm_compute. repeat split; reflexivity. Qed.
Example C35_ex_next_day : next_day (2000, 2, 29) = (2000, 3, 1) /\ next_day (1900, 2, 28) = (1900, 3, 1) /\
  next_day (9999, 12, 31) = (10000, 1, 1) /\ valid_date 2000 2 29 = true /\ valid_date 1900 2 29 = false.
Proof. vm_compute. repeat split; reflexivity. Qed.
Example C35_ex_civil : civil_from_days 0 = (1970, 1, 1) /\ civil_from_days 2932896 = (9999, 12, 31) /\
  civil_from_days (-1) = (1969, 12, 31).
Proof. vm_compute. repeat split; reflexivity. Qed.

Print Assumptions C35_format_parse_roundtrip.
Print Assumptions C35_format_is_the_imf_fixdate_of_t.
Print Assumptions C35_epoch.
Print Assumptions C35_day_count_follows_calendar.
Print Assumptions C35_civil_roundtrip.
Print Assumptions C35_civil_from_days_is_a_date.
Print Assumptions C35_years_1970_to_9999.
Print Assumptions C35_imf_fixdate_answer.
Print Assumptions C35_rfc850_answer.
Print Assumptions C35_asctime_answer.
Print Assumptions C35_imf_fixdate_accepted_denotes.
Print Assumptions C35_rfc850_accepted_denotes.
Print Assumptions C35_asctime_accepted_denotes.
Print Assumptions C35_nonexistent_day_rejected.
Print Assumptions C35_denoting_forms_accepted.
