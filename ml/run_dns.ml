(* handlers for the dns area (rfc1035 / rfc3596 / rfc2671 wire codec); output syntax = harness/h_dns.cc *)
let sn = string_of_n
let bad_s = function
  | OobRead -> "OOBR" | OobWrite -> "OOBW" | Wrap -> "WRAP" | AssertFail -> "ASSERT" | OutOfFuel -> "FUEL"

let hdr_s h =
  String.concat "," (List.map sn [h.h_id; h.h_qr; h.h_opcode; h.h_aa; h.h_tc; h.h_rd; h.h_ra; h.h_rcode;
                                  h.h_qd; h.h_an; h.h_ns; h.h_ar])
let q_s q = hex_of_bytes q.q_name ^ "," ^ sn q.q_type ^ "," ^ sn q.q_class
let rr_s r =
  " RR=" ^ hex_of_bytes r.rr_name ^ "," ^ sn r.rr_type ^ "," ^ sn r.rr_class ^ "," ^ sn r.rr_ttl ^ ","
  ^ sn r.rr_rdlength ^ "," ^ hex_of_bytes r.rr_rdata

(* returns (line, decoded query if any) *)
let unpack_s (buf : n list) : string * query option =
  match message_unpack buf with
  | Bad b -> (bad_s b, None)
  | Err -> ("ERR model-err", None)
  | Ok UFail -> ("rc=-15", None)
  | Ok (URcode (h, q)) -> ("rc=-" ^ sn h.h_rcode ^ " H=" ^ hdr_s h ^ " Q=" ^ q_s q, Some q)
  | Ok (UAnswers (h, q, rrs)) ->
    ("rc=" ^ string_of_int (List.length rrs) ^ " H=" ^ hdr_s h ^ " Q=" ^ q_s q ^ String.concat "" (List.map rr_s rrs), Some q)

let build_s = function
  | Bad b -> bad_s b
  | Err -> "ERR model-err"
  | Ok (msg, q) ->
    let (u, dq) = unpack_s msg in
    "ok " ^ hex_of_bytes msg ^ " Q=" ^ q_s q ^ " | " ^ u ^ " cmp=" ^
    (match dq with None -> "none" | Some d -> if query_compare q d then "0" else "1")

let pack_s = function
  | Bad b -> bad_s b
  | Err -> "ERR model-err"
  | Ok [] -> "zero"
  | Ok l -> "ok " ^ hex_of_bytes l

let pmax s = if String.length s > 0 && s.[0] = '-' then N0 else n_of_string s

let () =
  reg "unpack" (fun [h] -> fst (unpack_s (bytes_of_hex h)));
  reg "name" (fun [ns; rdepth; off; h] ->
      let buf = bytes_of_hex h in
      let nsn = n_of_string ns in
      match name_unpack buf (lenN buf) (n_of_string off) nsn nsn (n_of_string rdepth) with
      | Bad b -> bad_s b
      | Err -> "err"
      | Ok ((nm, off'), rdl) -> "ok " ^ hex_of_bytes (cstr nm) ^ " " ^ sn off' ^ " " ^ sn rdl);
  reg "aq" (fun [sz; qid; edns; host] ->
      build_s (build_query (n_of_string sz) (bytes_of_hex host) (n_of_string qid) (n_of_int 1) (pmax edns)));
  reg "pq" (fun [sz; qid; edns; a; b; c; d] ->
      build_s (build_ptr_query (n_of_string sz) (n_of_string a) (n_of_string b) (n_of_string c) (n_of_string d)
                 (n_of_string qid) (pmax edns)));
  reg "hq" (fun [sz; qid; pm; qtype; host] ->
      build_s (build_query (n_of_string sz) (bytes_of_hex host) (n_of_string qid) (n_of_string qtype) (pmax pm)));
  reg "p4" (fun [sz; qid; pm; a; b; c; d] ->
      build_s (build_ptr4_query (n_of_string sz) (n_of_string a) (n_of_string b) (n_of_string c) (n_of_string d)
                 (n_of_string qid) (pmax pm)));
  reg "p6" (fun [sz; qid; pm; addr] ->
      build_s (build_ptr6_query (n_of_string sz) (bytes_of_hex addr) (n_of_string qid) (pmax pm)));
  reg "rrpack" (fun [sz; name; ty; cl; ttl; rdata] ->
      let rd = bytes_of_hex rdata in
      pack_s (rr_pack (n_of_string sz) (takeN (n_of_int 255) (cstr (bytes_of_hex name))) (n_of_string ty) (n_of_string cl)
                (n_of_string ttl) (lenN rd) rd));
  reg "opt" (fun [sz; edns] -> pack_s (opt_pack (n_of_string sz) (pmax edns)));
  reg "hdr" (fun (sz :: f) ->
      match List.map n_of_string f with
      | [id; qr; op; aa; tc; rd; ra; rc; qd; an; ns; ar] ->
        let h = { h_id = id; h_qr = qr; h_opcode = op; h_aa = aa; h_tc = tc; h_rd = rd; h_ra = ra; h_rcode = rc;
                  h_qd = qd; h_an = an; h_ns = ns; h_ar = ar } in
        (match header_pack (n_of_string sz) h with
         | Bad b -> bad_s b
         | Err -> "ERR model-err"
         | Ok b ->
           "ok " ^ hex_of_bytes b ^ " | " ^
           (match header_unpack b (lenN b) with
            | Ok g -> "rc=0 H=" ^ hdr_s g ^ " off=12"
            | Err -> "err"
            | Bad x -> bad_s x))
      | _ -> "ERR bad-args");
  reg "setid" (fun [qid; h] -> hex_of_bytes (set_query_id (bytes_of_hex h) (n_of_string qid)));
  reg "cmp" (fun [na; ta; ca; nb; tb; cb] ->
      let q n t c = { q_name = takeN (n_of_int 255) (cstr (bytes_of_hex n)); q_type = n_of_string t; q_class = n_of_string c } in
      if query_compare (q na ta ca) (q nb tb cb) then "0" else "1")
