(* handlers for the relay area (C01 response direction, C02 request direction) *)
let crc_table = lazy (Array.init 256 (fun n ->
  let c = ref n in
  for _ = 0 to 7 do
    if !c land 1 = 1 then c := 0xedb88320 lxor (!c lsr 1) else c := !c lsr 1
  done; !c))
let crc32 (l : n list) : int =
  let t = Lazy.force crc_table in
  let c = ref 0xffffffff in
  List.iter (fun b -> c := t.((!c lxor (int_of_n b)) land 0xff) lxor (!c lsr 8)) l;
  !c lxor 0xffffffff
let digest (l : n list) : string = Printf.sprintf "%d:%08x" (List.length l) (crc32 l)
let opt_n s = if s = "-" then None else Some (n_of_string s)
let ev_of (s : string) : oev =
  if s = "eof" then OEof
  else if String.length s >= 2 && String.sub s 0 2 = "s:" then OSeg (bytes_of_hex (String.sub s 2 (String.length s - 2)))
  else failwith "ev"
let fr_str = function
  | CHeadOnly -> "none" | CNoBody -> "none" | CLen n -> "cl:" ^ string_of_n n | CChunked -> "chunked" | CCloseDelim -> "close"

let () =
  (* relay.resp <status> <head> <clen|-> <chunked> <client11> <k> <ev>... *)
  (* <client11> is a comma-separated list: one transaction per client (the later ones are answered from the
     stored object, i.e. from the same origin event sequence); results are joined by " ; " *)
  reg "relay.resp" (fun (st :: hd :: cl :: ch :: c11s :: k :: evs) ->
      flush stdout;   (* the previous answer: keeps the driver's stall detector informed *)
      let h = { h_status = n_of_string st; h_head = (hd = "1"); h_clen = opt_n cl; h_chunked = (ch = "1") } in
      let events = List.map ev_of evs in
      String.concat " ; " (List.map (fun c11 ->
        let (cf, (stream, closed)) = relay h (c11 = "1") events (n_of_string k) in
        let ((body, complete), rest) = ref_read cf stream closed in
        Printf.sprintf "st=%s fr=%s body=%s complete=%s stray=%d closed=%s" st (fr_str cf) (digest body) (b2s complete)
          (List.length rest) (if complete then "-" else b2s closed)) (String.split_on_char ',' c11s)));
  (* relay.req <clen|-> <len:N|chunked> <abort> <seg hex>... *)
  reg "relay.req" (fun (cl :: up :: ab :: segs) ->
      flush stdout;
      let upm = if up = "chunked" then UpChunked else UpLen (n_of_string (String.sub up 4 (String.length up - 4))) in
      let q = rq_fair bodypipe_max_capacity upm (opt_n cl) (List.map bytes_of_hex segs) (ab = "1") in
      let (body, complete) = ref_read_up upm (up_stream upm q) in
      if complete then Printf.sprintf "up fr=ok body=%s complete=1 arrivals=1 client=200" (digest body) else "up complete=0");
  (* Content-Length: 0 request: no body pipe is created (expectBody = chunked || content_length > 0) *)
  reg "relay.req0" (fun _ -> Printf.sprintf "up fr=ok body=%s complete=1 arrivals=1 client=200" (digest []));
  (* pipe <n|-> <op>...: the unit-level BodyPipe cases of harness/h_relay.cc *)
  reg "pipe" (fun (ns :: ops) ->
      flush stdout;
      let known = ns <> "-" in
      let clen = if known then Some (n_of_string ns) else None in
      let ev_of_op (o : string) : qev list =
        if String.length o >= 2 && String.sub o 0 2 = "s:" then
          (let d = bytes_of_hex (String.sub o 2 (String.length o - 2)) in
           if known then [QSeg d] else (if d = [] then [] else [QSeg (up_chunk d)]))
        else match o with
          | "sp" -> [QSpace] | "ab" -> [QAbort] | "nt" -> [QNote] | "g" -> [QGet]
          | "ef" -> if known then [] else [QSeg last_chunk]
          | _ -> failwith "op" in
      let q = rq_run bodypipe_max_capacity (UpLen N0) clen (List.concat (List.map ev_of_op ops)) in
      Printf.sprintf "put=%s get=%s buf=%s pieces=%d:%s prod=%s whole=%s abort=%s inbuf=%s"
        (string_of_n q.q_put) (string_of_n q.q_get) (digest q.q_buf) (List.length q.q_pieces)
        (digest (List.concat q.q_pieces)) (b2s q.q_prod) (b2s q.q_whole) (b2s q.q_abort)
        (if known then string_of_int (List.length q.q_inbuf) else "-"));
  (* relay.dechunk <hex>: the reference chunked reader *)
  reg "relay.dechunk" (fun [h] ->
      let ((d, out), rest) = crun CSize0 (bytes_of_hex h) in
      Printf.sprintf "%s %s %d" (match d with CDone -> "done" | CErr -> "bad" | _ -> "more") (digest out) (List.length rest))
