(* Extract_relay.v — extraction of the relay data-path model (C01, C02); ExtrOcamlBasic only. *)
Require Import ExtrOcamlBasic.
Require Import SquidV.Bytes SquidV.RelayModel SquidV.gen.Relay_gen.
Extraction "m_relay.ml" lenN relay ref_read rq_fair up_stream ref_read_up crun enc_chunked pack_chunk up_chunk
  origin_framing client_framing srv_run rq_run bodypipe_max_capacity http_reqbuf_sz last_chunk.
